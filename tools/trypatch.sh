#!/bin/bash
# usage: trypatch.sh <patch.diff> <ID> [<ID>...]  — apply a seeded patch to /repo, run the checks, undo.
P=$1; shift
cd /repo || exit 2
if ! git diff --quiet; then echo "/repo is dirty"; exit 2; fi
git apply "$P" || { echo "patch does not apply"; exit 2; }
for id in "$@"; do
  cp /verif/known_findings.json /tmp/trypatch_out/ 2>/dev/null; out=$(cd /verif && ./bin/sa check $id --verif /tmp/trypatch_out 2>&1); code=$?
  echo "[$id] exit=$code"; echo "$out" | grep -E "^  C|VIOLATION|UNDECIDED" | head -8
done
git checkout -- . ; git status --short | head -3
