#!/bin/bash
# usage: eval_round2.sh [<sa binary>] [cross]
# Evaluates every delivered round-2 change (/tmp/mut2/<ID>/mN/patch.diff) against its own property's check;
# with "cross", a change its own check does not report is also run against the other 19 checks.
SA=${1:-/verif/bin/sa}; CROSS=${2:-}
cd /verif; mkdir -p /tmp/trypatch_out
for d in /tmp/mut2/C*/m[0-9]; do
  [ -f $d/patch.diff ] || continue
  id=$(basename $(dirname $d)); m=$(basename $d)
  cd /repo; git diff --quiet || { echo "/repo dirty"; exit 2; }
  if ! git apply $d/patch.diff 2>/dev/null; then echo "$id-$m PATCH-DOES-NOT-APPLY"; continue; fi
  cd /verif; cp known_findings.json /tmp/trypatch_out/
  out=$($SA check $id --verif /tmp/trypatch_out 2>&1); code=$?
  rules=$(echo "$out" | grep -E "^  C[0-9]+\." | awk '{print $1}' | sort -u | tr '\n' ' ')
  line="$id-$m own_exit=$code $rules"
  if [ $code -eq 0 ] && [ -n "$CROSS" ]; then
    for i in $(seq -w 1 20); do
      [ C$i = $id ] && continue
      o2=$($SA check C$i --verif /tmp/trypatch_out 2>&1); c2=$?
      [ $c2 -ne 0 ] && line="$line | C$i:$(echo "$o2" | grep -E '^  C[0-9]+\.' | awk '{print $1}' | sort -u | tr '\n' ',')"
    done
  fi
  echo "$line"
  git -C /repo checkout -- .
done
