#!/bin/bash
# evaluate every delivered round-2 change (/tmp/mut2/<ID>/mN/patch.diff) against its own property's check
cd /verif; mkdir -p /tmp/trypatch_out
for d in /tmp/mut2/C*/m[0-9]; do
  [ -f $d/patch.diff ] || continue
  id=$(basename $(dirname $d)); m=$(basename $d)
  cd /repo; git diff --quiet || { echo "/repo dirty"; exit 2; }
  if ! git apply $d/patch.diff 2>/dev/null; then echo "$id-$m PATCH-DOES-NOT-APPLY"; continue; fi
  cd /verif; cp known_findings.json /tmp/trypatch_out/
  out=$(./bin/sa check $id --verif /tmp/trypatch_out 2>&1); code=$?
  rules=$(echo "$out" | grep -E "^  C[0-9]+\." | awk '{print $1}' | sort -u | tr '\n' ' ')
  echo "$id-$m exit=$code $rules"
  git -C /repo checkout -- .
done
