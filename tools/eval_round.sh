#!/bin/bash
# usage: eval_round.sh <root> [<sa binary>] : every <root>/<ID>/mN/patch.diff through all 20 checks (overlay), own vs other
ROOT=$1; SA=${2:-/verif/bin/sa}
ls $ROOT/C*/m[0-9]/patch.diff 2>/dev/null | xargs -n 12 $SA crosspatch 2>&1 | python3 -c "
import sys,re
for l in sys.stdin:
    p=l.rstrip('\n').split('\t')
    if len(p)<2: continue
    m=re.search(r'/(C\d\d)/(m\d)/',p[0]); pid=m.group(1)
    rules=p[2].split() if len(p)>2 else []
    own=[r for r in rules if r.startswith(pid+'.')]; other=[r for r in rules if not r.startswith(pid+'.')]
    v='OWN' if own else ('other' if other else 'MISS')
    if p[1] in ('SKIP','LOAD-ERROR'): v=p[1]
    print(pid+'-'+m.group(2), v, ' '.join(own), '|', ' '.join(other))
"
