#!/bin/bash
# usage: cross_eval.sh <patch> : run ALL property checks against one patch, print firing rules
P=$1
cd /repo; git diff --quiet || { echo "/repo dirty"; exit 2; }
git apply $P || exit 2
cd /verif; mkdir -p /tmp/trypatch_out; cp known_findings.json /tmp/trypatch_out/
for i in $(seq -w 1 20); do
  out=$(./bin/sa check C$i --verif /tmp/trypatch_out 2>&1); code=$?
  [ $code -ne 0 ] && echo "  C$i exit=$code $(echo "$out" | grep -E '^  C[0-9]+\.' | awk '{print $1}' | sort -u | tr '\n' ' ')"
done
git -C /repo checkout -- .
