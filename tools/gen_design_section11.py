#!/usr/bin/env python3
"""Regenerates the generated part of DESIGN.md §11 (table of obligations per property and the verbatim
`sa describe` text) between the BEGIN/END markers. Run after `./bin/sa check` refreshed the evidence."""
import json, subprocess, re
desc={}
for l in subprocess.check_output(['/verif/bin/sa','describe'],text=True).splitlines():
    i,_,t=l.partition('\t'); desc[i]=t
out="| id | rules | obligations on today's tree | known findings |\n|----|-------|-----------------------------|----------------|\n"
for i in range(1,21):
    k=f'C{i:02d}'; c=json.load(open(f'/verif/evidence/{k}.json'))['coverage']
    out+=f"| {k} | {len(c['obligations_by_rule'])} | {c['obligations']} ({c['discharged']} discharged) | {c.get('known_findings',0)} |\n"
out+="\n"
for k in sorted(desc): out+=f"**{k}.** {desc[k]}\n\n"
p='/verif/DESIGN.md'; s=open(p).read()
b,e='<!-- BEGIN GENERATED §11 -->','<!-- END GENERATED §11 -->'
s=s[:s.index(b)+len(b)]+"\n"+out+s[s.index(e):]
open(p,'w').write(s)
print('ok')
