#!/bin/bash
# Runs the repository's baseline test command (both Go modules) with the verif guard OFF
# (no build tag) and compares with /root/.vp/BASELINE.json's stable_pass list.
export GOFLAGS=-mod=mod GOPROXY=off
OUT=${1:-/tmp/verif_baseline}
mkdir -p "$OUT"
: > "$OUT/all.json"
for m in . integration_tests; do
  (cd /repo/$m && go test -json -vet=off -count=1 -timeout 25m ./... ) >> "$OUT/all.json" 2>/dev/null
done
python3 - "$OUT/all.json" <<'PY'
import json,sys
res={}
for l in open(sys.argv[1]):
    try: e=json.loads(l)
    except Exception: continue
    if e.get('Test') and e.get('Action') in ('pass','fail','skip'):
        pkg=e['Package']
        res[pkg+'::'+e['Test']]=e['Action']
b=json.load(open('/root/.vp/BASELINE.json'))
missing=[t for t in b['stable_pass'] if res.get(t)!='pass']
print('stable_pass',len(b['stable_pass']),'passing now',len(b['stable_pass'])-len(missing))
for t in missing: print('NOT PASSING:',t,res.get(t))
sys.exit(1 if missing else 0)
PY
