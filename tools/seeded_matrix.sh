#!/bin/bash
# For every variant kept in /verif/seeded (confirmed breaking changes <ID>-mN / <ID>-r2mN / ..., and
# behaviour-preserving refactorings <ID>-nK): analyse /repo with the patch as an in-memory overlay
# (`sa crosspatch`, /repo is not touched) with ALL twenty checks and write /verif/seeded/MATRIX.tsv:
#   variant <TAB> kind <TAB> verdict <TAB> rules of the variant's own property <TAB> rules of other properties
cd /verif || exit 2
ls /verif/seeded/C*/patch.diff | xargs -n 12 ./bin/sa crosspatch > /tmp/matrix_raw.txt 2>&1
python3 - <<'PY'
import re,json,os
rows=[]
for l in open('/tmp/matrix_raw.txt'):
    parts=l.rstrip('\n').split('\t')
    if len(parts)<2: continue
    path=parts[0]; rules=parts[2].split() if len(parts)>2 else []
    name=path.split('/')[-2]; pid=name.split('-')[0]
    kind='neutral' if re.search(r'-n\d+$',name) else 'breaking'
    own=[r for r in rules if r.startswith(pid+'.')]; other=[r for r in rules if not r.startswith(pid+'.')]
    if parts[1] in ('SKIP','LOAD-ERROR'):
        verdict=parts[1]
    elif kind=='breaking':
        verdict='REPORTED' if own else ('reported-by-other-property-only' if other else 'MISSED')
    else:
        verdict='silent' if not rules else 'FALSE-ALARM'
        try:
            if rules and json.load(open('/verif/seeded/'+name+'/meta.json')).get('known_false_alarm'): verdict='KNOWN-FALSE-ALARM'
        except Exception: pass
    rows.append((name,kind,verdict,' '.join(own),' '.join(other)))
rows.sort()
open('/verif/seeded/MATRIX.tsv','w').write('variant\tkind\tverdict\town_property_rules\tother_property_rules\n'+''.join('\t'.join(r)+'\n' for r in rows))
from collections import Counter
print(Counter((r[1],r[2]) for r in rows))
PY
