#!/bin/bash
# For every confirmed seeded change in /verif/seeded: apply it to /repo, run the check of its own
# property, record the exit code and the rules that fire, undo. Writes /verif/seeded/MATRIX.tsv.
# (/repo must be clean; nothing else may touch /repo while this runs.)
cd /verif || exit 2
mkdir -p /tmp/trypatch_out
OUT=/verif/seeded/MATRIX.tsv
: > $OUT.tmp
for d in seeded/C*-m*/ seeded/C*-r2m*/; do
  [ -f $d/patch.diff ] || continue
  name=$(basename $d); id=${name%%-*}
  cd /repo; if ! git diff --quiet; then echo "/repo dirty"; exit 2; fi
  if ! git apply /verif/$d/patch.diff 2>/dev/null; then echo -e "$name\t$id\tPATCH-DOES-NOT-APPLY\t" >> $OUT.tmp; cd /verif; continue; fi
  cd /verif; cp known_findings.json /tmp/trypatch_out/
  out=$(./bin/sa check $id --verif /tmp/trypatch_out 2>&1); code=$?
  rules=$(echo "$out" | grep -E "^  C[0-9]+\." | awk '{print $1}' | sort -u | tr '\n' ' ')
  echo -e "$name\t$id\texit=$code\t$rules" >> $OUT.tmp
  git -C /repo checkout -- .
done
mv $OUT.tmp $OUT; cat $OUT
