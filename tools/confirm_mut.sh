#!/bin/bash
# usage: confirm_mut.sh <ID> <mN>   — independently confirm a sub-agent's mutation in a scratch worktree
# and, if confirmed, keep it as /verif/seeded/<ID>-<mN>/ {patch.diff, demo_test.go, meta.json, confirm.log}
ID=$1; M=$2
ROOT=${3:-/tmp/mut}     # where the sub-agent left its deliverables
TAG=${4:-}              # name prefix of the kept variant (e.g. r2 for the second round)
SRC=$ROOT/$ID/$M
WT=/tmp/wt/confirm_$ID$TAG$M
export GOFLAGS=-mod=mod GOPROXY=off
LOG=$(mktemp)
exec > >(tee $LOG) 2>&1
set -u
[ -f $SRC/patch.diff ] || { echo "no patch"; exit 2; }
git -C /repo worktree add -q --detach $WT HEAD || exit 2
trap 'git -C /repo worktree remove --force $WT; rm -f $LOG' EXIT
cd $WT
PKGDIR=$(python3 -c "import json;print(json.load(open('$SRC/meta.json')).get('demo_pkg_dir','').split()[0].strip('/').rstrip(',;'))")
RUNPAT=$(python3 -c "
import json,re
m=json.load(open('$SRC/meta.json')); r=m.get('demo_run','')
x=re.search(r'-run[= ]+[\'\"]?([^\s\'\"]+)',r); print(x.group(1) if x else '.')")
DEMO=$(ls $SRC/*_test.go | head -1)
MODDIR=.
case "$PKGDIR" in integration_tests*) MODDIR=integration_tests;; esac
echo "== demo pkg=$PKGDIR run=$RUNPAT moddir=$MODDIR"
rundemo() { cp $DEMO $WT/$PKGDIR/zz_seeded_demo_test.go; (cd $WT/$MODDIR && go test -count=1 -run "$RUNPAT" ./${PKGDIR#$MODDIR}/ 2>&1 | grep -E "^(ok|FAIL|---|panic)" | head -5); rc=${PIPESTATUS[0]}; rm -f $WT/$PKGDIR/zz_seeded_demo_test.go; }
demo_status() { cp $DEMO $WT/$PKGDIR/zz_seeded_demo_test.go; (cd $WT/$MODDIR && go test -count=1 -run "$RUNPAT" ./${PKGDIR#$MODDIR}/ >/tmp/confirm_demo_$ID$M.out 2>&1); rc=$?; rm -f $WT/$PKGDIR/zz_seeded_demo_test.go; grep -E "^(ok|FAIL|--- FAIL|panic)" /tmp/confirm_demo_$ID$M.out | head -4; return $rc; }
echo "== demo on unchanged tree (must pass)"
demo_status; BASE=$?
git apply $SRC/patch.diff || { echo "RESULT: patch does not apply"; exit 1; }
echo "== build with change"
go build ./... || { echo "RESULT: does not compile"; exit 1; }
echo "== demo with change (must fail)"
demo_status; MUT=$?
echo "== existing tests of touched packages with change (must pass)"
PKGS=$(git diff --name-only | xargs -n1 dirname | sort -u | sed 's#^#./#')
EX=0
for p in $PKGS; do
  if [ "$p" = "./tikv" ]; then go test -vet=off -count=1 -skip '^TestKV$' $p 2>&1 | grep -E "^(ok|FAIL|---)" | head -5; r=${PIPESTATUS[0]}; else go test -vet=off -count=1 $p 2>&1 | grep -E "^(ok|FAIL|--- FAIL)" | head -5; r=${PIPESTATUS[0]}; fi
  [ $r -ne 0 ] && EX=1
done
# dependants most likely to exercise the change
for p in ./txnkv/... ./internal/locate/ ./internal/client/ ./rawkv/ ./internal/mockstore/... ./internal/unionstore/...; do
  go test -vet=off -count=1 $p > /tmp/confirm_dep_$ID$M.out 2>&1
  if [ $? -ne 0 ]; then
    # timing-sensitive suites (internal/locate, internal/client) are flaky under load: a package counts as
    # failing only if it fails twice in a row
    grep -E "^(FAIL|--- FAIL)" /tmp/confirm_dep_$ID$M.out | head -5; echo "(retrying $p once)"
    go test -vet=off -count=1 $p 2>&1 | grep -E "^(FAIL|--- FAIL)" | head -5
    [ ${PIPESTATUS[0]} -ne 0 ] && EX=1
  fi
done
git checkout -- .
echo "base=$BASE mut=$MUT existing=$EX"
if [ $BASE -eq 0 ] && [ $MUT -ne 0 ] && [ $EX -eq 0 ]; then
  D=/verif/seeded/$ID-$TAG$M; mkdir -p $D
  cp $SRC/patch.diff $D/; cp $DEMO $D/demo_test.go
  python3 - <<PY
import json
m=json.load(open('$SRC/meta.json'))
m['confirmed_by']='tools/confirm_mut.sh: demo passes on HEAD, fails with patch; go build ok; go test of touched + dependent packages pass with patch'
m['source']='independent sub-agent given only the property text and a scratch worktree'
json.dump(m,open('$D/meta.json','w'),indent=1)
PY
  cp $LOG $D/confirm.log
  echo "RESULT: CONFIRMED -> $D"
else
  echo "RESULT: NOT CONFIRMED"
fi
