#!/usr/bin/env python3
"""Regenerates /verif/MANIFEST.json from the checks registered in ./bin/sa and the texts below."""
import json, subprocess, os
os.chdir('/verif')
ids=[json.loads(l)['id'] for l in open('properties.jsonl')]
reg={}
for line in subprocess.check_output(['./bin/sa','list'],text=True).splitlines():
    i,_,t=line.partition(' - ')
    reg[i.strip()]=t.strip()
NA_REASON={}  # id -> reason for properties we do not claim
try:
    NA_REASON=json.load(open('tools/not_applicable.json'))
except Exception: pass
TEXT=json.load(open('tools/manifest_texts.json')) if os.path.exists('tools/manifest_texts.json') else {}
checks=[]
for i in ids:
    if i not in reg: continue
    t=TEXT.get(i,{})
    checks.append({
     "property_id":i,
     "quick_cmd":"./bin/sa check %s --tier quick"%i,
     "thorough_cmd":"./bin/sa check %s --tier thorough"%i,
     "evidence_file":"/verif/evidence/%s.json"%i,
     "replay_cmd_template":"./bin/sa explain {path}",
     "engine":"sa",
     "level_claimed":{"category":"other",
        "text":t.get("text","Static analysis (SSA path rules, provenance, field-writer and call-site rules) decides named structural necessary conditions of this property on every path / every site of the current source; it does not decide the behavioural whole (which quantifies over runtime values, schedules or fault sequences)."),
        "design_ref":"DESIGN.md section 4, "+i},
     "level_note":t.get("note","Trusted: go/types, go/ssa (x/tools v0.29.0), the rule tables in /verif/sa/rules. Assumes failpoint branches are infeasible in production, no reflect/unsafe writes to tracked fields, interface dispatch over-approximated by CHA. Decides only the structural clauses listed in the evidence explanation."),
     "technique":t.get("technique","static analysis: type-resolved SSA path/dataflow rules (reachability with deletions, guard domination, provenance, who-may-write/call)")
    })
na=[{"property_id":i,"reason":NA_REASON.get(i,"static check not yet built (see DESIGN.md section 4 for the planned structural clauses)")} for i in ids if i not in reg]
m={"version":1,
"setup_cmd":"cd /verif/sa && GOFLAGS=-mod=mod GOPROXY=off go build -o ../bin/sa ./cmd/sa",
"hooks":{"guard":"verif","enable":"none needed: static analysis reads /repo sources; no instrumentation is compiled in","baseline_off_cmd":"/verif/tools/baseline.sh","source_commits":[],"add_only":True},
"engines":[{"name":"sa","path":"/verif/sa","serves_properties":sorted(reg),"kind_free_text":"repository-specific static analyzer over go/packages + go/ssa: path rules (reachability with deletions, phi/nil path sensitivity, small product automata), value provenance, field-writer / caller indexes, lockset, typed-AST catalogue tables; the tree under analysis is first normalised against the declaration table of the pinned tree (renames, method<->function, inlining of functions the pinned tree does not have, result-variable returns) so that behaviour-preserving refactorings are judged like the pinned tree"}],
"checks":checks,
"notes":"All checks are static (no code of /repo is executed; the normalisation of DESIGN.md section 10a works on in-memory overlays and is reported in each run as note: lines). Exit 0 held / 1 VIOLATION / 2 UNDECIDED (anchor missing, load error). Genuine defects found are recorded in known_findings.json.",
"not_applicable":na}
json.dump(m,open('MANIFEST.json','w'),indent=1)
print(len(checks),'checks;',len(na),'not applicable')
