package transaction

import (
	"context"
	"testing"

	"github.com/tikv/client-go/v2/kv"
)

// C07: "deletions hide snapshot keys" for batch get over arbitrary keys. With a key repeated
// in the batch, BufferBatchGetter / BufferSnapshotBatchGetter removed the buffered tombstone
// from the hit map at the first occurrence and therefore treated the second occurrence as a
// buffer miss: the deleted key was read from the snapshot and returned as existing.
func TestDemoC07BatchGetDuplicateTombstone(t *testing.T) {
	snap := newMockStore()
	k := []byte("k")
	snap.Set(k, kv.NewValueEntry([]byte("old"), 1))
	buffer := newMockStore()
	buffer.Delete(k)
	for name, g := range map[string]kv.BatchGetter{
		"BufferBatchGetter":         NewBufferBatchGetter(buffer, snap),
		"BufferSnapshotBatchGetter": NewBufferSnapshotBatchGetter(buffer, snap),
	} {
		res, err := g.BatchGet(context.Background(), [][]byte{k, k})
		if err != nil {
			t.Fatal(err)
		}
		if v, ok := res[string(k)]; ok {
			t.Errorf("%s: key deleted in the transaction is returned from the snapshot: %q", name, v.Value)
		}
	}
}
