package apicodec

import (
	"bytes"
	"testing"

	"github.com/pingcap/kvproto/pkg/coprocessor"
	"github.com/pingcap/kvproto/pkg/keyspacepb"
	"github.com/tikv/client-go/v2/tikvrpc"
)

// C15: every key-bearing field of every command's request is prefixed on the wire.
// coprocessor.Request.VersionedRanges (and StoreBatchTask.VersionedRanges) are key ranges; the
// API v2 request encoder left them unprefixed, i.e. addressing keys outside the keyspace.
func TestDemoC15VersionedRanges(t *testing.T) {
	codec, err := NewCodecV2(ModeTxn, &keyspacepb.KeyspaceMeta{Keyspace: &keyspacepb.KeyspaceMeta_Id{Id: 4242}})
	if err != nil {
		t.Fatal(err)
	}
	c := codec.(*codecV2)
	for _, cmd := range []tikvrpc.CmdType{tikvrpc.CmdCop, tikvrpc.CmdCopStream} {
		orig := &coprocessor.Request{
			VersionedRanges: []*coprocessor.VersionedKeyRange{{Range: &coprocessor.KeyRange{Start: []byte("a"), End: []byte("b")}, ReadTs: 5}},
			Tasks: []*coprocessor.StoreBatchTask{{
				VersionedRanges: []*coprocessor.VersionedKeyRange{{Range: &coprocessor.KeyRange{Start: []byte("c"), End: nil}, ReadTs: 6}},
			}},
		}
		req, err := c.EncodeRequest(tikvrpc.NewRequest(cmd, orig))
		if err != nil {
			t.Fatal(err)
		}
		r := req.Cop()
		vr := r.VersionedRanges[0]
		if !bytes.Equal(vr.Range.Start, c.EncodeKey([]byte("a"))) || !bytes.Equal(vr.Range.End, c.EncodeKey([]byte("b"))) || vr.ReadTs != 5 {
			t.Fatalf("%v: versioned range sent without the keyspace prefix: %q..%q", cmd, vr.Range.Start, vr.Range.End)
		}
		tr := r.Tasks[0].VersionedRanges[0]
		if !bytes.Equal(tr.Range.Start, c.EncodeKey([]byte("c"))) || !bytes.Equal(tr.Range.End, c.endKey) || tr.ReadTs != 6 {
			t.Fatalf("%v: batched task's versioned range sent without the keyspace prefix / bound: %q..%q", cmd, tr.Range.Start, tr.Range.End)
		}
		// the caller's request is not modified
		if string(orig.VersionedRanges[0].Range.Start) != "a" || string(orig.Tasks[0].VersionedRanges[0].Range.Start) != "c" {
			t.Fatalf("original request modified")
		}
	}
}
