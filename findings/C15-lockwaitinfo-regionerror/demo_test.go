package tikvrpc

import (
	"testing"

	"github.com/pingcap/kvproto/pkg/errorpb"
	"github.com/pingcap/kvproto/pkg/kvrpcpb"
)

// C15: "for every command type ... a region-error response of the matching type can be
// generated and read back". CmdLockWaitInfo's response has a RegionError field, the command is
// region-routable (isValidReqType/patchCmdCtx/DecodeResponse know it), but GenRegionErrorResp
// had no case for it.
func TestDemoC15LockWaitInfoRegionError(t *testing.T) {
	req := NewRequest(CmdLockWaitInfo, &kvrpcpb.GetLockWaitInfoRequest{})
	e := &errorpb.Error{EpochNotMatch: &errorpb.EpochNotMatch{}}
	resp, err := GenRegionErrorResp(req, e)
	if err != nil {
		t.Fatalf("GenRegionErrorResp(CmdLockWaitInfo): %v", err)
	}
	got, err := resp.GetRegionError()
	if err != nil || got != e {
		t.Fatalf("region error not read back: %v %v", got, err)
	}
	if _, ok := resp.Resp.(*kvrpcpb.GetLockWaitInfoResponse); !ok {
		t.Fatalf("wrong response type %T", resp.Resp)
	}
}
