package apicodec

import (
	"testing"

	"github.com/pingcap/kvproto/pkg/coprocessor"
	"github.com/pingcap/kvproto/pkg/errorpb"
	"github.com/pingcap/kvproto/pkg/keyspacepb"
	"github.com/pingcap/kvproto/pkg/kvrpcpb"
	"github.com/tikv/client-go/v2/tikvrpc"
)

// C15: every key-bearing field of every response is stripped of the keyspace prefix. The
// responses of store-batched coprocessor tasks (coprocessor.Response.BatchResponses) carry a
// LockInfo and a region error per task; DecodeResponse left them prefixed, so a reader that
// resolves the reported lock addresses prefix+prefix+key.
func TestDemoC15CopBatchResponses(t *testing.T) {
	codec, err := NewCodecV2(ModeTxn, &keyspacepb.KeyspaceMeta{Keyspace: &keyspacepb.KeyspaceMeta_Id{Id: 4242}})
	if err != nil {
		t.Fatal(err)
	}
	c := codec.(*codecV2)
	key := []byte("k1")
	enc := c.EncodeKey(key)
	req, err := c.EncodeRequest(tikvrpc.NewRequest(tikvrpc.CmdCop, &coprocessor.Request{}))
	if err != nil {
		t.Fatal(err)
	}
	resp := &tikvrpc.Response{Resp: &coprocessor.Response{
		BatchResponses: []*coprocessor.StoreBatchTaskResponse{{
			Locked:      &kvrpcpb.LockInfo{Key: append([]byte{}, enc...), PrimaryLock: append([]byte{}, enc...)},
			RegionError: &errorpb.Error{KeyNotInRegion: &errorpb.KeyNotInRegion{Key: append([]byte{}, enc...)}},
		}},
	}}
	out, err := c.DecodeResponse(req, resp)
	if err != nil {
		t.Fatal(err)
	}
	br := out.Resp.(*coprocessor.Response).BatchResponses[0]
	if string(br.Locked.Key) != string(key) || string(br.Locked.PrimaryLock) != string(key) {
		t.Fatalf("batch task lock info still carries the keyspace prefix: key=%q primary=%q", br.Locked.Key, br.Locked.PrimaryLock)
	}
	if string(br.RegionError.KeyNotInRegion.Key) != string(key) {
		t.Fatalf("batch task region error still carries the keyspace prefix: %q", br.RegionError.KeyNotInRegion.Key)
	}
}
