package tikvrpc

import (
	"testing"

	"github.com/pingcap/kvproto/pkg/kvrpcpb"
)

// C15: "for every command type the request context can be attached". The request messages of
// CmdGetHealthFeedback and CmdBroadcastTxnStatus have a Context field, but the generated
// patchCmdCtx (hand-kept list in gen.sh) had no case for them: AttachContext returned false
// and left the message's Context nil.
func TestDemoC15AttachContextGaps(t *testing.T) {
	for _, req := range []*Request{
		NewRequest(CmdGetHealthFeedback, &kvrpcpb.GetHealthFeedbackRequest{}),
		NewRequest(CmdBroadcastTxnStatus, &kvrpcpb.BroadcastTxnStatusRequest{}),
	} {
		if !AttachContext(req, kvrpcpb.Context{RegionId: 7}) {
			t.Fatalf("AttachContext(%v) = false", req.Type)
		}
		var ctx *kvrpcpb.Context
		switch r := req.Req.(type) {
		case *kvrpcpb.GetHealthFeedbackRequest:
			ctx = r.Context
		case *kvrpcpb.BroadcastTxnStatusRequest:
			ctx = r.Context
		}
		if ctx == nil || ctx.RegionId != 7 {
			t.Fatalf("%v: context not attached: %v", req.Type, ctx)
		}
	}
}
