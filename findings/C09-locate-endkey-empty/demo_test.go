package locate

// Demonstration of the known finding C09.R4 / C05.R6 (copy into internal/locate and run
//   go test -count=1 -run TestFindingLocateEndKeyEmpty ./internal/locate/ ).
// On the unmodified tree it FAILS: LocateEndKey("") — what a reverse scan from the end of the key
// space asks for — returns the FIRST region ["", "m") instead of the last one ["m", "").

import (
	"context"
	"testing"

	"github.com/tikv/client-go/v2/config/retry"
	"github.com/tikv/client-go/v2/internal/apicodec"
	"github.com/tikv/client-go/v2/internal/mockstore/mocktikv"
)

func TestFindingLocateEndKeyEmpty(t *testing.T) {
	mvccStore := mocktikv.MustNewMVCCStore()
	defer mvccStore.Close()
	cluster := mocktikv.NewCluster(mvccStore)
	_, _, regionID, _ := mocktikv.BootstrapWithMultiStores(cluster, 2)
	r2 := cluster.AllocID()
	peers := cluster.AllocIDs(2)
	cluster.Split(regionID, r2, []byte("m"), peers, peers[0])
	pdCli := &CodecPDClient{mocktikv.NewPDClient(cluster), apicodec.NewCodecV1(apicodec.ModeTxn)}
	cache := NewRegionCache(pdCli)
	defer cache.Close()
	bo := retry.NewBackofferWithVars(context.Background(), 5000, nil)

	locZ, err := cache.LocateEndKey(bo, []byte("z"))
	if err != nil {
		t.Fatal(err)
	}
	if string(locZ.StartKey) != "m" || len(locZ.EndKey) != 0 {
		t.Fatalf("LocateEndKey(z) = [%q,%q), want [m, +inf)", locZ.StartKey, locZ.EndKey)
	}
	locInf, err := cache.LocateEndKey(bo, []byte{})
	if err != nil {
		t.Fatal(err)
	}
	if string(locInf.StartKey) != "m" || len(locInf.EndKey) != 0 {
		t.Fatalf("LocateEndKey(+inf) = [%q,%q), want the last region [m, +inf)", locInf.StartKey, locInf.EndKey)
	}
}
