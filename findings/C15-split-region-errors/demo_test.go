package apicodec

import (
	"testing"

	"github.com/pingcap/kvproto/pkg/keyspacepb"
	"github.com/pingcap/kvproto/pkg/kvrpcpb"
	"github.com/tikv/client-go/v2/tikvrpc"
)

// C15: key errors of every response are stripped of the keyspace prefix.
// SplitRegionResponse.Errors ([]*KeyError) was not decoded.
func TestDemoC15SplitRegionErrors(t *testing.T) {
	codec, err := NewCodecV2(ModeTxn, &keyspacepb.KeyspaceMeta{Keyspace: &keyspacepb.KeyspaceMeta_Id{Id: 4242}})
	if err != nil {
		t.Fatal(err)
	}
	c := codec.(*codecV2)
	req, err := c.EncodeRequest(tikvrpc.NewRequest(tikvrpc.CmdSplitRegion, &kvrpcpb.SplitRegionRequest{SplitKeys: [][]byte{[]byte("m")}}))
	if err != nil {
		t.Fatal(err)
	}
	enc := c.EncodeKey([]byte("m"))
	resp := &tikvrpc.Response{Resp: &kvrpcpb.SplitRegionResponse{
		Errors: []*kvrpcpb.KeyError{{Locked: &kvrpcpb.LockInfo{Key: append([]byte{}, enc...), PrimaryLock: append([]byte{}, enc...)}}},
	}}
	out, err := c.DecodeResponse(req, resp)
	if err != nil {
		t.Fatal(err)
	}
	l := out.Resp.(*kvrpcpb.SplitRegionResponse).Errors[0].Locked
	if string(l.Key) != "m" || string(l.PrimaryLock) != "m" {
		t.Fatalf("key error of a split-region response still carries the keyspace prefix: %q", l.Key)
	}
}
