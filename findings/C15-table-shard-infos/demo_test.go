package apicodec

import (
	"bytes"
	"testing"

	"github.com/pingcap/kvproto/pkg/coprocessor"
	"github.com/pingcap/kvproto/pkg/keyspacepb"
	"github.com/pingcap/kvproto/pkg/mpp"
	"github.com/tikv/client-go/v2/tikvrpc"
)

// Known finding (not repaired), C15: TableShardInfos[].ShardInfos[].Ranges (key ranges handed to
// the TiCI executor) of coprocessor.Request / coprocessor.BatchRequest / mpp.DispatchTaskRequest
// are sent without the keyspace prefix. FAILS on the current tree.
func TestFindingC15TableShardInfos(t *testing.T) {
	codec, _ := NewCodecV2(ModeTxn, &keyspacepb.KeyspaceMeta{Keyspace: &keyspacepb.KeyspaceMeta_Id{Id: 4242}})
	c := codec.(*codecV2)
	infos := func() []*coprocessor.TableShardInfos {
		return []*coprocessor.TableShardInfos{{ShardInfos: []*coprocessor.ShardInfo{{Ranges: []*coprocessor.KeyRange{{Start: []byte("a"), End: []byte("b")}}}}}}
	}
	for _, req := range []*tikvrpc.Request{
		tikvrpc.NewRequest(tikvrpc.CmdCop, &coprocessor.Request{TableShardInfos: infos()}),
		tikvrpc.NewRequest(tikvrpc.CmdBatchCop, &coprocessor.BatchRequest{TableShardInfos: infos()}),
		tikvrpc.NewRequest(tikvrpc.CmdMPPTask, &mpp.DispatchTaskRequest{Meta: &mpp.TaskMeta{}, TableShardInfos: infos()}),
	} {
		out, err := c.EncodeRequest(req)
		if err != nil {
			t.Fatal(err)
		}
		var got []*coprocessor.TableShardInfos
		switch r := out.Req.(type) {
		case *coprocessor.Request:
			got = r.TableShardInfos
		case *coprocessor.BatchRequest:
			got = r.TableShardInfos
		case *mpp.DispatchTaskRequest:
			got = r.TableShardInfos
		}
		if !bytes.Equal(got[0].ShardInfos[0].Ranges[0].Start, c.EncodeKey([]byte("a"))) {
			t.Errorf("%v: shard range sent without the keyspace prefix: %q", req.Type, got[0].ShardInfos[0].Ranges[0].Start)
		}
	}
}
