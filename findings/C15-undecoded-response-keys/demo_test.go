package apicodec

import (
	"testing"

	"github.com/pingcap/kvproto/pkg/errorpb"
	"github.com/pingcap/kvproto/pkg/keyspacepb"
	"github.com/pingcap/kvproto/pkg/kvrpcpb"
	"github.com/pingcap/kvproto/pkg/metapb"
	"github.com/pingcap/kvproto/pkg/mpp"
	"github.com/tikv/client-go/v2/tikvrpc"
)

// Known findings (not repaired), C15: keys that DecodeResponse leaves with the keyspace prefix.
// Both tests FAIL on the current tree; they document the finding.

// (1) mpp.DispatchTaskResponse.RetryRegions: region descriptions with start/end keys.
func TestFindingC15RetryRegions(t *testing.T) {
	codec, _ := NewCodecV2(ModeTxn, &keyspacepb.KeyspaceMeta{Keyspace: &keyspacepb.KeyspaceMeta_Id{Id: 4242}})
	c := codec.(*codecV2)
	req, _ := c.EncodeRequest(tikvrpc.NewRequest(tikvrpc.CmdMPPTask, &mpp.DispatchTaskRequest{Meta: &mpp.TaskMeta{}}))
	s, e := c.EncodeRegionRange([]byte("a"), []byte("b"))
	resp := &tikvrpc.Response{Resp: &mpp.DispatchTaskResponse{RetryRegions: []*metapb.Region{{Id: 1, StartKey: s, EndKey: e}}}}
	out, err := c.DecodeResponse(req, resp)
	if err != nil {
		t.Fatal(err)
	}
	r := out.Resp.(*mpp.DispatchTaskResponse).RetryRegions[0]
	if string(r.StartKey) != "a" || string(r.EndKey) != "b" {
		t.Fatalf("RetryRegions keys are returned encoded/prefixed: %q..%q", r.StartKey, r.EndKey)
	}
}

// (2) errorpb.BucketVersionNotMatch.Keys: bucket boundary keys inside a region error; the
// region cache installs them as the region's bucket keys (RegionCache.OnBucketVersionNotMatch).
func TestFindingC15BucketVersionNotMatchKeys(t *testing.T) {
	codec, _ := NewCodecV2(ModeTxn, &keyspacepb.KeyspaceMeta{Keyspace: &keyspacepb.KeyspaceMeta_Id{Id: 4242}})
	c := codec.(*codecV2)
	req, _ := c.EncodeRequest(tikvrpc.NewRequest(tikvrpc.CmdGet, &kvrpcpb.GetRequest{Key: []byte("k")}))
	resp := &tikvrpc.Response{Resp: &kvrpcpb.GetResponse{RegionError: &errorpb.Error{
		BucketVersionNotMatch: &errorpb.BucketVersionNotMatch{Version: 2, Keys: [][]byte{c.EncodeKey([]byte("k"))}},
	}}}
	out, err := c.DecodeResponse(req, resp)
	if err != nil {
		t.Fatal(err)
	}
	k := out.Resp.(*kvrpcpb.GetResponse).RegionError.BucketVersionNotMatch.Keys[0]
	if string(k) != "k" {
		t.Fatalf("bucket keys of a region error are returned with the keyspace prefix: %q", k)
	}
}
