package locate

import (
	"context"
	"testing"
	"time"

	"github.com/pingcap/kvproto/pkg/errorpb"
	"github.com/pingcap/kvproto/pkg/kvrpcpb"
	"github.com/pingcap/kvproto/pkg/metapb"
	"github.com/stretchr/testify/require"
	"github.com/tikv/client-go/v2/config/retry"
	"github.com/tikv/client-go/v2/internal/apicodec"
	"github.com/tikv/client-go/v2/internal/mockstore/mocktikv"
	"github.com/tikv/client-go/v2/oracle"
	"github.com/tikv/client-go/v2/tikvrpc"
)

// C10 baseline check (UNMODIFIED tree): a request send must end after a bounded number of
// attempts or consume back-off budget; it must never retry forever without backing off.
//
// Fault script: store1 always answers NotLeader{leader: peer on store2}, store2 always answers
// NotLeader{leader: peer on store1} (both stores reachable). The mock stops the ping-pong by
// answering success at attempt #500. The test FAILS if more than 50 attempts were made while
// the Backoffer has not slept at all.
func TestC10BaselineNotLeaderPingPong(t *testing.T) {
	mvccStore := mocktikv.MustNewMVCCStore()
	defer mvccStore.Close()
	cluster := mocktikv.NewCluster(mvccStore)
	mocktikv.BootstrapWithMultiStores(cluster, 3)
	pdCli := &CodecPDClient{mocktikv.NewPDClient(cluster), apicodec.NewCodecV1(apicodec.ModeTxn)}
	cache := NewRegionCache(pdCli, RegionCacheNoHealthTick)
	defer cache.Close()
	reachable.injectConstantLiveness(cache.stores)

	const budgetMs = 2000
	const stopAfter = 500
	bo := retry.NewBackofferWithVars(context.Background(), budgetMs, nil)
	loc, err := cache.LocateKey(bo, []byte("key"))
	require.Nil(t, err)
	r := cache.GetCachedRegionWithRLock(loc.Region)
	require.NotNil(t, r)
	peerOn := func(addr string) *metapb.Peer {
		for i, s := range r.getStore().stores {
			if s.GetAddr() == addr {
				return r.meta.Peers[i]
			}
		}
		t.Fatalf("no peer on %s", addr)
		return nil
	}
	peer1, peer2 := peerOn("store1"), peerOn("store2")

	attempts := 0
	perStore := map[string]int{}
	cli := &fnClient{fn: func(ctx context.Context, addr string, req *tikvrpc.Request, timeout time.Duration) (*tikvrpc.Response, error) {
		attempts++
		perStore[addr]++
		if attempts >= stopAfter {
			// stop the experiment: pretend the store finally serves the request.
			return &tikvrpc.Response{Resp: &kvrpcpb.GetResponse{Value: []byte("v")}}, nil
		}
		hint := peer2
		if addr == "store2" {
			hint = peer1
		}
		return &tikvrpc.Response{Resp: &kvrpcpb.GetResponse{RegionError: &errorpb.Error{
			NotLeader: &errorpb.NotLeader{RegionId: r.meta.Id, Leader: hint},
		}}}, nil
	}}
	sender := NewRegionRequestSender(cache, cli, oracle.NoopReadTSValidator{})
	req := tikvrpc.NewRequest(tikvrpc.CmdGet, &kvrpcpb.GetRequest{Key: []byte("key")})
	start := time.Now()
	resp, retryTimes, err := sender.SendReq(bo, req, loc.Region, time.Second)
	var regionErr *errorpb.Error
	if err == nil && resp != nil {
		regionErr, _ = resp.GetRegionError()
	}
	t.Logf("attempts=%d perStore=%v retryTimes=%d totalSleep=%dms backoffTimes=%d budget=%dms elapsed=%v err=%v regionErr=%v",
		attempts, perStore, retryTimes, bo.GetTotalSleep(), bo.GetTotalBackoffTimes(), budgetMs, time.Since(start), err, regionErr)

	if attempts > 50 && bo.GetTotalSleep() == 0 {
		t.Fatalf("unbounded retry without back-off: %d attempts (stopped by the mock at %d) with totalSleep=%dms, backoffTimes=%d",
			attempts, stopAfter, bo.GetTotalSleep(), bo.GetTotalBackoffTimes())
	}
}
