package core

import (
	"fmt"
	"go/token"
	"go/types"
	"sort"
	"strings"

	"golang.org/x/tools/go/ssa"
)

// Provenance: a value is described by a set of canonical root expressions (one per
// alternative through φ-nodes and multiple stores to a spilled local). The grammar:
//
//	const(V) | nil | param#i | recv | global(pkg.Name) | call(F)#k[(args...)] | invoke(M)#k
//	fld(T.f,BASE) | idx(BASE) | (X op Y) | op(X) | len(X) | slice(X,lo,hi) | closure(F) | new(T) | ?kind
//
// Names of locals and parameters never appear; functions and fields appear by their
// type-resolved names.
type Prov struct {
	p        *Prog
	MaxDepth int
	MaxAlts  int
	CallArgs bool // include argument descriptions for calls
	// InlinePure describes the result of a small side-effect-free module function by its body (see pureInline)
	InlinePure bool
}

func (p *Prog) Prov() *Prov { return &Prov{p: p, MaxDepth: 7, MaxAlts: 24} }

// Desc returns the sorted set of root expressions of v.
func (pv *Prov) Desc(v ssa.Value) []string {
	set := pv.desc(v, pv.MaxDepth, map[ssa.Value]bool{})
	out := make([]string, 0, len(set))
	for s := range set {
		out = append(out, s)
	}
	sort.Strings(out)
	return out
}

func one(s string) map[string]bool { return map[string]bool{s: true} }

func (pv *Prov) cap(m map[string]bool) map[string]bool {
	if len(m) <= pv.MaxAlts {
		return m
	}
	keys := make([]string, 0, len(m))
	for k := range m {
		keys = append(keys, k)
	}
	sort.Strings(keys)
	out := map[string]bool{"?many": true}
	for _, k := range keys[:pv.MaxAlts] {
		out[k] = true
	}
	return out
}

func shortType(t types.Type) string {
	s := types.TypeString(t, func(p *types.Package) string { return p.Name() })
	return s
}

func (pv *Prov) funcName(f *ssa.Function) string {
	if f == nil {
		return "?"
	}
	if f.Origin() != nil {
		f = f.Origin()
	}
	s := f.String()
	s = strings.ReplaceAll(s, ModPath+"/", "")
	s = strings.ReplaceAll(s, "github.com/pingcap/kvproto/pkg/", "")
	s = strings.ReplaceAll(s, "github.com/tikv/pd/client/", "pd/")
	s = strings.ReplaceAll(s, "github.com/pkg/errors", "errors")
	return s
}

func (pv *Prov) cross(a, b map[string]bool, f func(x, y string) string) map[string]bool {
	out := map[string]bool{}
	for x := range a {
		for y := range b {
			out[f(x, y)] = true
			if len(out) > pv.MaxAlts {
				out["?many"] = true
				return out
			}
		}
	}
	return out
}

func (pv *Prov) mapSet(a map[string]bool, f func(string) string) map[string]bool {
	out := map[string]bool{}
	for x := range a {
		out[f(x)] = true
	}
	return out
}

var errIdentity = map[string]bool{"WithStack": true, "Trace": true, "Cause": true, "Wrap": true, "Wrapf": true, "WithMessage": true, "WithMessagef": true}

func (pv *Prov) desc(v ssa.Value, depth int, seen map[ssa.Value]bool) map[string]bool {
	if v == nil {
		return one("?nil")
	}
	if depth <= 0 {
		return one("?deep")
	}
	switch x := v.(type) {
	case *ssa.Const:
		if x.Value == nil {
			if _, ok := x.Type().Underlying().(*types.Basic); ok {
				return one("const(0)")
			}
			return one("nil")
		}
		return one("const(" + x.Value.ExactString() + ")")
	case *ssa.Parameter:
		fn := x.Parent()
		for i, p := range fn.Params {
			if p == x {
				if fn.Signature.Recv() != nil {
					if i == 0 {
						return one("recv")
					}
					return one(fmt.Sprintf("param#%d", i-1))
				}
				return one(fmt.Sprintf("param#%d", i))
			}
		}
		return one("param#?")
	case *ssa.FreeVar:
		// resolve through the MakeClosure binding(s) in the parent
		if seen[v] {
			return map[string]bool{}
		}
		seen[v] = true
		defer delete(seen, v)
		fn := x.Parent()
		idx := -1
		for i, fv := range fn.FreeVars {
			if fv == x {
				idx = i
			}
		}
		out := map[string]bool{}
		if par := fn.Parent(); par != nil && idx >= 0 {
			Instrs(par, func(in ssa.Instruction) {
				if mc, ok := in.(*ssa.MakeClosure); ok && mc.Fn == ssa.Value(fn) && idx < len(mc.Bindings) {
					for s := range pv.desc(mc.Bindings[idx], depth-1, seen) {
						out[s] = true
					}
				}
			})
		}
		if len(out) == 0 {
			return one("?freevar")
		}
		return pv.cap(out)
	case *ssa.Global:
		return one("global(" + x.Pkg.Pkg.Name() + "." + x.Name() + ")")
	case *ssa.Function:
		return one("func(" + pv.funcName(x) + ")")
	case *ssa.Builtin:
		return one("builtin(" + x.Name() + ")")
	case *ssa.Alloc:
		return one("new(" + shortType(x.Type().(*types.Pointer).Elem()) + ")")
	case *ssa.MakeClosure:
		return one("closure(" + pv.funcName(x.Fn.(*ssa.Function)) + ")")
	case *ssa.MakeSlice:
		return one("makeslice")
	case *ssa.MakeMap:
		return one("makemap")
	case *ssa.MakeChan:
		return one("makechan")
	case *ssa.Phi:
		if seen[v] {
			return map[string]bool{}
		}
		seen[v] = true
		defer delete(seen, v)
		out := map[string]bool{}
		for i, e := range x.Edges {
			if !FeasibleEdgeInto(x.Block(), i) {
				continue
			}
			for s := range pv.desc(e, depth, seen) {
				out[s] = true
			}
		}
		return pv.cap(out)
	case *ssa.ChangeType:
		return pv.desc(x.X, depth, seen)
	case *ssa.ChangeInterface:
		return pv.desc(x.X, depth, seen)
	case *ssa.MakeInterface:
		return pv.desc(x.X, depth, seen)
	case *ssa.Convert:
		return pv.desc(x.X, depth, seen)
	case *ssa.SliceToArrayPointer:
		return pv.desc(x.X, depth, seen)
	case *ssa.TypeAssert:
		return pv.desc(x.X, depth, seen)
	case *ssa.Extract:
		return pv.callDesc(x.Tuple, x.Index, depth, seen)
	case *ssa.Call:
		return pv.callDesc(x, 0, depth, seen)
	case *ssa.BinOp:
		a := pv.desc(x.X, depth-1, seen)
		b := pv.desc(x.Y, depth-1, seen)
		op := x.Op.String()
		return pv.cap(pv.cross(a, b, func(s, t string) string { return "(" + s + " " + op + " " + t + ")" }))
	case *ssa.UnOp:
		if x.Op == token.MUL {
			return pv.loadDesc(x, depth, seen)
		}
		a := pv.desc(x.X, depth-1, seen)
		op := x.Op.String()
		return pv.mapSet(a, func(s string) string { return op + "(" + s + ")" })
	case *ssa.FieldAddr:
		f := FieldOfAddr(x)
		base := pv.desc(x.X, depth-1, seen)
		return pv.mapSet(base, func(s string) string { return "&fld(" + fieldName(x.X.Type(), f) + "," + s + ")" })
	case *ssa.Field:
		f := FieldOfField(x)
		base := pv.desc(x.X, depth-1, seen)
		return pv.mapSet(base, func(s string) string { return "fld(" + fieldName(x.X.Type(), f) + "," + s + ")" })
	case *ssa.IndexAddr:
		base := pv.desc(x.X, depth-1, seen)
		return pv.mapSet(base, func(s string) string { return "&idx(" + s + ")" })
	case *ssa.Index:
		base := pv.desc(x.X, depth-1, seen)
		return pv.mapSet(base, func(s string) string { return "idx(" + s + ")" })
	case *ssa.Lookup:
		base := pv.desc(x.X, depth-1, seen)
		return pv.mapSet(base, func(s string) string { return "lookup(" + s + ")" })
	case *ssa.Slice:
		base := pv.desc(x.X, depth-1, seen)
		lo, hi := "", ""
		if x.Low != nil {
			lo = strings.Join(setKeys(pv.desc(x.Low, depth-1, seen)), "|")
		}
		if x.High != nil {
			hi = strings.Join(setKeys(pv.desc(x.High, depth-1, seen)), "|")
		}
		if lo == "" && hi == "" {
			return base
		}
		return pv.mapSet(base, func(s string) string { return "slice(" + s + "," + lo + "," + hi + ")" })
	case *ssa.Next:
		return one("rangenext")
	case *ssa.Range:
		return one("range")
	case *ssa.Select:
		return one("select")
	}
	return one("?" + fmt.Sprintf("%T", v))
}

func setKeys(m map[string]bool) []string {
	out := make([]string, 0, len(m))
	for k := range m {
		out = append(out, k)
	}
	sort.Strings(out)
	return out
}

func fieldName(base types.Type, f *types.Var) string {
	if f == nil {
		return "?"
	}
	t := base
	if p, ok := t.Underlying().(*types.Pointer); ok {
		t = p.Elem()
	}
	tn := "struct"
	if n, ok := t.(*types.Named); ok {
		tn = n.Obj().Name()
	}
	return tn + "." + f.Name()
}

func (pv *Prov) callDesc(v ssa.Value, idx int, depth int, seen map[ssa.Value]bool) map[string]bool {
	c, ok := v.(*ssa.Call)
	if !ok {
		switch y := v.(type) {
		case *ssa.TypeAssert: // commaok
			if idx == 0 {
				return pv.desc(y.X, depth, seen)
			}
			return one("ok")
		case *ssa.Lookup:
			if idx == 0 {
				base := pv.desc(y.X, depth-1, seen)
				return pv.mapSet(base, func(s string) string { return "lookup(" + s + ")" })
			}
			return one("ok")
		case *ssa.UnOp: // <-ch commaok
			if idx == 0 {
				return pv.mapSet(pv.desc(y.X, depth-1, seen), func(s string) string { return "recv(" + s + ")" })
			}
			return one("ok")
		case *ssa.Next:
			return one(fmt.Sprintf("rangenext#%d", idx))
		case *ssa.Select:
			return one(fmt.Sprintf("select#%d", idx))
		}
		return one("?tuple")
	}
	cc := &c.Call
	if cc.IsInvoke() {
		recv := pv.desc(cc.Value, depth-1, seen)
		return pv.mapSet(recv, func(s string) string {
			return fmt.Sprintf("invoke(%s.%s)#%d[%s]", shortType(cc.Value.Type()), cc.Method.Name(), idx, s)
		})
	}
	if b, ok := cc.Value.(*ssa.Builtin); ok {
		switch b.Name() {
		case "len", "cap":
			a := pv.desc(cc.Args[0], depth-1, seen)
			return pv.mapSet(a, func(s string) string { return b.Name() + "(" + s + ")" })
		case "append":
			out := map[string]bool{}
			for i, a := range cc.Args {
				for s := range pv.desc(a, depth-1, seen) {
					if i == 0 {
						out[s] = true
					} else {
						out["append(…,"+s+")"] = true
					}
				}
			}
			return pv.cap(out)
		case "min", "max":
			// selects one of its arguments: the same alternatives as `m := a; if b > m { m = b }`
			out := map[string]bool{}
			for _, a := range cc.Args {
				for s := range pv.desc(a, depth-1, seen) {
					out[s] = true
				}
			}
			return pv.cap(out)
		}
		return one("builtin(" + b.Name() + ")")
	}
	callee := cc.StaticCallee()
	if callee == nil {
		// call of a function value
		fv := pv.desc(cc.Value, depth-1, seen)
		return pv.mapSet(fv, func(s string) string { return fmt.Sprintf("dyncall(%s)#%d", s, idx) })
	}
	// error wrapping helpers are the identity on provenance
	if callee.Pkg != nil && (callee.Pkg.Pkg.Path() == "github.com/pkg/errors" || callee.Pkg.Pkg.Path() == "github.com/pingcap/errors") && errIdentity[callee.Name()] && len(cc.Args) > 0 {
		return pv.desc(cc.Args[0], depth, seen)
	}
	if g := pv.trivialGetter(callee, cc.Args, idx, depth, seen); g != nil {
		return g
	}
	if g := pv.selectsParam(callee, cc.Args, idx, depth, seen); g != nil {
		return g
	}
	if pv.InlinePure {
		if g := pv.pureInline(callee, cc.Args, idx, depth); g != nil {
			return g
		}
	}
	name := pv.funcName(callee)
	if callee.Signature.Recv() != nil && len(cc.Args) > 0 {
		recv := pv.desc(cc.Args[0], depth-1, seen)
		args := ""
		if pv.CallArgs {
			args = pv.argsDesc(cc.Args[1:], depth, seen)
		}
		return pv.mapSet(recv, func(s string) string { return fmt.Sprintf("call(%s)#%d[%s]%s", name, idx, s, args) })
	}
	args := ""
	if pv.CallArgs {
		args = pv.argsDesc(cc.Args, depth, seen)
	}
	return one(fmt.Sprintf("call(%s)#%d%s", name, idx, args))
}

func (pv *Prov) argsDesc(args []ssa.Value, depth int, seen map[ssa.Value]bool) string {
	var parts []string
	for _, a := range args {
		parts = append(parts, strings.Join(setKeys(pv.desc(a, depth-2, seen)), "|"))
	}
	return "(" + strings.Join(parts, ";") + ")"
}

// loadDesc describes *addr.
func (pv *Prov) loadDesc(u *ssa.UnOp, depth int, seen map[ssa.Value]bool) map[string]bool {
	switch a := u.X.(type) {
	case *ssa.FieldAddr:
		f := FieldOfAddr(a)
		// locally built aggregate: look for stores to the same field of the same base (the base may have gone
		// through a local variable or a captured variable first)
		if al := pv.aggregateOf(a.X, 0); al != nil {
			if st := pv.localFieldStores(al, a.Field); len(st) > 0 {
				if seen[u] {
					return map[string]bool{}
				}
				seen[u] = true
				defer delete(seen, u)
				out := map[string]bool{}
				for _, sv := range st {
					for s := range pv.desc(sv, depth-1, seen) {
						out[s] = true
					}
				}
				return pv.cap(out)
			}
		}
		base := pv.desc(a.X, depth-1, seen)
		return pv.mapSet(base, func(s string) string { return "fld(" + fieldName(a.X.Type(), f) + "," + s + ")" })
	case *ssa.IndexAddr:
		base := pv.desc(a.X, depth-1, seen)
		return pv.mapSet(base, func(s string) string { return "idx(" + s + ")" })
	case *ssa.Alloc:
		// spilled local: first the unique reaching store, else union of all stores
		if r := ResolveLoad(u); r != nil {
			return pv.desc(r, depth, seen)
		}
		if seen[u] {
			return map[string]bool{}
		}
		seen[u] = true
		defer delete(seen, u)
		out := map[string]bool{}
		for _, sv := range pv.allocStores(a) {
			for s := range pv.desc(sv, depth-1, seen) {
				out[s] = true
			}
		}
		if len(out) == 0 {
			return one("zero(" + shortType(a.Type().(*types.Pointer).Elem()) + ")")
		}
		return pv.cap(out)
	case *ssa.FreeVar:
		// captured variable: union of stores in the defining function and all closures
		if seen[u] {
			return map[string]bool{}
		}
		seen[u] = true
		defer delete(seen, u)
		out := map[string]bool{}
		al := pv.freeVarAlloc(a)
		if al != nil {
			for _, sv := range pv.allocStores(al) {
				for s := range pv.desc(sv, depth-1, seen) {
					out[s] = true
				}
			}
		}
		if len(out) == 0 {
			return one("?captured")
		}
		return pv.cap(out)
	case *ssa.Global:
		return one("global(" + a.Pkg.Pkg.Name() + "." + a.Name() + ")")
	}
	base := pv.desc(u.X, depth-1, seen)
	return pv.mapSet(base, func(s string) string { return "*(" + s + ")" })
}

// aggregateOf: the `new T` / `&T{}` allocation v denotes when v is that allocation or the only value ever
// stored to the local or captured variable v is loaded from.
func (pv *Prov) aggregateOf(v ssa.Value, depth int) *ssa.Alloc {
	if depth > 4 {
		return nil
	}
	switch x := v.(type) {
	case *ssa.Alloc:
		if _, isStruct := x.Type().(*types.Pointer).Elem().Underlying().(*types.Struct); isStruct {
			return x
		}
	case *ssa.UnOp:
		if x.Op != token.MUL {
			return nil
		}
		var cell *ssa.Alloc
		switch c := x.X.(type) {
		case *ssa.Alloc:
			cell = c
		case *ssa.FreeVar:
			cell = pv.freeVarAlloc(c)
		}
		if cell == nil {
			return nil
		}
		st := pv.allocStores(cell)
		if len(st) != 1 {
			return nil
		}
		return pv.aggregateOf(st[0], depth+1)
	}
	return nil
}

func (pv *Prov) localFieldStores(al *ssa.Alloc, field int) []ssa.Value {
	var out []ssa.Value
	for _, r := range *al.Referrers() {
		if fa, ok := r.(*ssa.FieldAddr); ok && fa.Field == field {
			for _, rr := range *fa.Referrers() {
				if st, ok := rr.(*ssa.Store); ok && st.Addr == ssa.Value(fa) && Feasible(st) {
					out = append(out, st.Val)
				}
			}
		}
	}
	return out
}

// freeVarAlloc finds the Alloc a captured variable refers to.
func (pv *Prov) freeVarAlloc(fv *ssa.FreeVar) *ssa.Alloc {
	fn := fv.Parent()
	idx := -1
	for i, x := range fn.FreeVars {
		if x == fv {
			idx = i
		}
	}
	par := fn.Parent()
	if par == nil || idx < 0 {
		return nil
	}
	var res *ssa.Alloc
	Instrs(par, func(in ssa.Instruction) {
		if mc, ok := in.(*ssa.MakeClosure); ok && mc.Fn == ssa.Value(fn) && idx < len(mc.Bindings) {
			switch b := mc.Bindings[idx].(type) {
			case *ssa.Alloc:
				res = b
			case *ssa.FreeVar:
				res = pv.freeVarAlloc(b)
			}
		}
	})
	return res
}

// allocStores: all values stored to a local variable, in its function and in closures
// capturing it.
func (pv *Prov) allocStores(al *ssa.Alloc) []ssa.Value {
	var out []ssa.Value
	var visitRefs func(v ssa.Value)
	visitRefs = func(v ssa.Value) {
		refs := v.Referrers()
		if refs == nil {
			return
		}
		for _, r := range *refs {
			switch y := r.(type) {
			case *ssa.Store:
				if y.Addr == v && Feasible(y) {
					out = append(out, y.Val)
				}
			case *ssa.MakeClosure:
				fn := y.Fn.(*ssa.Function)
				for i, b := range y.Bindings {
					if b == v && i < len(fn.FreeVars) {
						visitRefs(fn.FreeVars[i])
					}
				}
			}
		}
	}
	visitRefs(al)
	return out
}

// AnyMatch: does any description of v match one of the substrings.
func HasSub(descs []string, sub string) bool {
	for _, d := range descs {
		if strings.Contains(d, sub) {
			return true
		}
	}
	return false
}

// trivialGetter inlines module functions that consist of a single block returning a chain of
// field loads of a parameter (accessors such as `func (r *Region) StartKey() []byte { return
// r.meta.StartKey }` are NOT inlined when they call other functions). Returns nil when fn is
// not such a getter.
func (pv *Prov) trivialGetter(fn *ssa.Function, args []ssa.Value, idx int, depth int, seen map[ssa.Value]bool) map[string]bool {
	if fn == nil || len(fn.Blocks) != 1 || !pv.p.InModule(fn) {
		return nil
	}
	b := fn.Blocks[0]
	ret, ok := b.Instrs[len(b.Instrs)-1].(*ssa.Return)
	if !ok || idx >= len(ret.Results) {
		return nil
	}
	for _, in := range b.Instrs {
		switch in.(type) {
		case *ssa.FieldAddr, *ssa.Field, *ssa.UnOp, *ssa.Return, *ssa.DebugRef:
		default:
			return nil
		}
	}
	// walk the chain from the result back to a parameter
	var chain []string
	v := ret.Results[idx]
	for i := 0; i < 8; i++ {
		switch x := v.(type) {
		case *ssa.UnOp:
			if x.Op != token.MUL {
				return nil
			}
			fa, ok := x.X.(*ssa.FieldAddr)
			if !ok {
				return nil
			}
			chain = append(chain, fieldName(fa.X.Type(), FieldOfAddr(fa)))
			v = fa.X
			continue
		case *ssa.Field:
			chain = append(chain, fieldName(x.X.Type(), FieldOfField(x)))
			v = x.X
			continue
		case *ssa.Parameter:
			pi := -1
			for k, p := range fn.Params {
				if p == x {
					pi = k
				}
			}
			if pi < 0 || pi >= len(args) || len(chain) == 0 {
				return nil
			}
			base := pv.desc(args[pi], depth-1, seen)
			return pv.mapSet(base, func(s string) string {
				for k := len(chain) - 1; k >= 0; k-- {
					s = "fld(" + chain[k] + "," + s + ")"
				}
				return s
			})
		}
		return nil
	}
	return nil
}

// selectsParam: a small module function every return of which hands back one of its own parameters
// (a "choose between the arguments" helper such as min/clamp): its result is described by the
// corresponding arguments.
func (pv *Prov) selectsParam(fn *ssa.Function, args []ssa.Value, idx int, depth int, seen map[ssa.Value]bool) map[string]bool {
	if fn == nil || len(fn.Blocks) == 0 || len(fn.Blocks) > 12 || !pv.p.InModule(fn) || depth <= 0 {
		return nil
	}
	params := map[int]bool{}
	ok := true
	var walk func(v ssa.Value, d int)
	visited := map[ssa.Value]bool{}
	walk = func(v ssa.Value, d int) {
		if visited[v] || d > 6 {
			return
		}
		visited[v] = true
		switch x := v.(type) {
		case *ssa.Parameter:
			for k, p := range fn.Params {
				if p == x {
					params[k] = true
					return
				}
			}
			ok = false
		case *ssa.Phi:
			for _, e := range x.Edges {
				walk(e, d+1)
			}
		default:
			ok = false
		}
	}
	n := 0
	for _, b := range fn.Blocks {
		if r, isRet := b.Instrs[len(b.Instrs)-1].(*ssa.Return); isRet {
			if idx >= len(r.Results) {
				return nil
			}
			n++
			walk(r.Results[idx], 0)
		}
	}
	if !ok || n == 0 || len(params) == 0 {
		return nil
	}
	out := map[string]bool{}
	for k := range params {
		if k >= len(args) {
			return nil
		}
		for s := range pv.desc(args[k], depth-1, seen) {
			out[s] = true
		}
	}
	return pv.cap(out)
}

// pureInline: a small side-effect-free module function (only loads, field selections, arithmetic,
// comparisons, φ and returns — no calls except len/cap, no stores): its result is described by the
// provenance of its return value with the callee's `recv` / `param#i` replaced by the arguments'
// descriptions (only when each substituted argument has a single description).
func (pv *Prov) pureInline(fn *ssa.Function, args []ssa.Value, idx int, depth int) map[string]bool {
	if fn == nil || len(fn.Blocks) == 0 || len(fn.Blocks) > 12 || !pv.p.InModule(fn) || depth <= 1 {
		return nil
	}
	var ret []*ssa.Return
	for _, b := range fn.Blocks {
		for _, in := range b.Instrs {
			switch x := in.(type) {
			case *ssa.FieldAddr, *ssa.Field, *ssa.UnOp, *ssa.BinOp, *ssa.Phi, *ssa.If, *ssa.Jump, *ssa.Convert, *ssa.ChangeType, *ssa.DebugRef, *ssa.IndexAddr, *ssa.Index:
			case *ssa.Return:
				ret = append(ret, x)
			case *ssa.Call:
				if bi, ok := x.Call.Value.(*ssa.Builtin); !ok || (bi.Name() != "len" && bi.Name() != "cap") {
					return nil
				}
			default:
				return nil
			}
		}
	}
	if len(ret) == 0 {
		return nil
	}
	sub := map[string]string{}
	off := 0
	inner := &Prov{p: pv.p, MaxDepth: depth - 1, MaxAlts: pv.MaxAlts, InlinePure: true}
	if fn.Signature.Recv() != nil {
		off = 1
		if len(args) == 0 {
			return nil
		}
		d := setKeys(pv.desc(args[0], depth-1, map[ssa.Value]bool{}))
		if len(d) != 1 {
			return nil
		}
		sub["recv"] = d[0]
	}
	out := map[string]bool{}
	for _, r := range ret {
		if idx >= len(r.Results) {
			return nil
		}
		for _, d := range inner.Desc(r.Results[idx]) {
			if strings.Contains(d, "?deep") {
				return nil
			}
			// substitute parameters
			res := d
			for i := len(args) - 1; i >= off; i-- {
				tok := fmt.Sprintf("param#%d", i-off)
				if !strings.Contains(res, tok) {
					continue
				}
				ad := setKeys(pv.desc(args[i], depth-1, map[ssa.Value]bool{}))
				if len(ad) != 1 {
					return nil
				}
				res = strings.ReplaceAll(res, tok, "\x00"+ad[0]+"\x00")
			}
			if r, ok := sub["recv"]; ok {
				res = replaceToken(res, "recv", r)
			}
			res = strings.ReplaceAll(res, "\x00", "")
			out[res] = true
		}
	}
	return pv.cap(out)
}

// replaceToken replaces the identifier tok (delimited by non-identifier characters) in s.
func replaceToken(s, tok, by string) string {
	var sb strings.Builder
	isIdent := func(c byte) bool {
		return c == '_' || c == '#' || (c >= '0' && c <= '9') || (c >= 'a' && c <= 'z') || (c >= 'A' && c <= 'Z')
	}
	for i := 0; i < len(s); {
		if strings.HasPrefix(s[i:], tok) && (i == 0 || !isIdent(s[i-1])) && (i+len(tok) == len(s) || !isIdent(s[i+len(tok)])) && !strings.Contains(by, "\x00") {
			// do not touch text inserted by a parameter substitution (between NUL markers)
			if strings.Count(s[:i], "\x00")%2 == 0 {
				sb.WriteString(by)
				i += len(tok)
				continue
			}
		}
		sb.WriteByte(s[i])
		i++
	}
	return sb.String()
}
