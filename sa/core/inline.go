package core

// Inlining of functions the pinned tree does not have. The rule tables are keyed to the functions
// of the pinned tree. A later tree in which a block of one of them was moved into a NEW unexported
// function (extract/split a function, closure -> named method) must be judged like the pinned one,
// so after the rename normalisation the loader inlines, in an in-memory overlay, every call of an
// unexported function or method that the reference table (ref_decls.json) does not know, and drops
// the function when no reference to it is left. The transformation is semantics preserving for the
// forms it accepts and leaves every other call alone:
//
//	pre:   var r0 T0; { var a0 P0 = arg0; { var p0 P0 = a0; L: for { <body, return e -> {r0 = e; break L}>; break L } } }
//	stmt:  the statement with the call replaced by r0 (r0, r1 for a tuple)
//
// A function is not inlined when it is recursive, variadic, generic, uses defer or recover, or
// mentions a package-level name that is shadowed at the call site; a call is not inlined when
// hoisting it in front of its statement would change the evaluation order (it is to the right of
// another call, under && / ||, in a loop condition, a case expression ...). `defer f(x)` / `go f(x)`
// become `defer func(p P) { body }(x)`.

import (
	"fmt"
	"go/ast"
	"go/token"
	"go/types"
	"os"
	"sort"
	"strings"

	"golang.org/x/tools/go/packages"
)

type textEdit struct {
	off, end int
	text     string
	group    int // edits of one inlining share a group: all or none are applied
}

type fileEdits struct {
	edits   []textEdit
	imports map[string]string // path -> alias
}

type inliner struct {
	pkgs    []*packages.Package
	overlay map[string][]byte
	src     map[string][]byte
	files   map[string]*fileEdits
	pass    int
	seq     int
	notes   []string
	// valueRewrites: method/function values turned into literals in this pass (progress without an inlining)
	valueRewrites int
}

func (il *inliner) source(file string) []byte {
	if b, ok := il.src[file]; ok {
		return b
	}
	if b, ok := il.overlay[file]; ok {
		il.src[file] = b
		return b
	}
	b, _ := os.ReadFile(file)
	il.src[file] = b
	return b
}

func (il *inliner) fe(file string) *fileEdits {
	f := il.files[file]
	if f == nil {
		f = &fileEdits{imports: map[string]string{}}
		il.files[file] = f
	}
	return f
}

func (il *inliner) alias(file, path string) string {
	f := il.fe(file)
	if a, ok := f.imports[path]; ok {
		return a
	}
	a := fmt.Sprintf("inlpkg%d_%d", il.pass, len(f.imports))
	f.imports[path] = a
	return a
}

// newFuncs: unexported functions and methods of the module that the reference does not know.
func newFuncs(ref RefDecls, pkgs []*packages.Package) map[*types.Func]bool {
	out := map[*types.Func]bool{}
	for _, pk := range pkgs {
		if pk.Types == nil || !strings.HasPrefix(pk.PkgPath, ModPath) {
			continue
		}
		r := ref[pk.PkgPath]
		if r == nil {
			continue
		}
		consider := func(f *types.Func) {
			if exported(f.Name()) || f.Name() == "init" || f.Name() == "main" || f.Name() == "_" {
				return
			}
			sig := f.Type().(*types.Signature)
			if _, ok := r.Funcs[recvName(sig)+"."+f.Name()]; ok {
				return
			}
			out[f] = true
		}
		sc := pk.Types.Scope()
		for _, name := range sc.Names() {
			switch o := sc.Lookup(name).(type) {
			case *types.Func:
				consider(o)
			case *types.TypeName:
				if named, ok := o.Type().(*types.Named); ok && !o.IsAlias() {
					for i := 0; i < named.NumMethods(); i++ {
						consider(named.Method(i))
					}
				}
			}
		}
	}
	return out
}

type declInfo struct {
	pk   *packages.Package
	file *ast.File
	decl *ast.FuncDecl
	ok   bool // body can be inlined
	why  string
	// defers: defer statements that are elements of the body's statement list; nestedDefer: a defer deeper
	// inside (only acceptable for a call in tail position, where it stays a defer of the caller)
	defers      []*ast.DeferStmt
	nestedDefer bool
	// pure: the body has no effects (no calls but len/cap, no sends, receives, go, defer, stores through
	// pointers or to non-local variables): a call of it may be evaluated earlier than written
	pure bool
}

func hasTypeParam(t types.Type) bool {
	found := false
	var walk func(t types.Type, d int)
	walk = func(t types.Type, d int) {
		if found || d > 6 || t == nil {
			return
		}
		switch x := t.(type) {
		case *types.TypeParam:
			found = true
		case *types.Pointer:
			walk(x.Elem(), d+1)
		case *types.Slice:
			walk(x.Elem(), d+1)
		case *types.Array:
			walk(x.Elem(), d+1)
		case *types.Map:
			walk(x.Key(), d+1)
			walk(x.Elem(), d+1)
		case *types.Chan:
			walk(x.Elem(), d+1)
		case *types.Named:
			if x.TypeArgs() != nil {
				for i := 0; i < x.TypeArgs().Len(); i++ {
					walk(x.TypeArgs().At(i), d+1)
				}
			}
			if x.TypeParams() != nil && x.TypeParams().Len() > 0 && x.TypeArgs() == nil {
				found = true
			}
		case *types.Signature:
			for i := 0; i < x.Params().Len(); i++ {
				walk(x.Params().At(i).Type(), d+1)
			}
			for i := 0; i < x.Results().Len(); i++ {
				walk(x.Results().At(i).Type(), d+1)
			}
		}
	}
	walk(t, 0)
	return found
}

// inlinePass performs one round; returns the overlay and whether anything changed.
func inlinePass(ref RefDecls, pkgs []*packages.Package, overlay map[string][]byte, pass int) (map[string][]byte, []string, bool) {
	nf := newFuncs(ref, pkgs)
	if len(nf) == 0 {
		return nil, nil, false
	}
	il := &inliner{pkgs: pkgs, overlay: overlay, src: map[string][]byte{}, files: map[string]*fileEdits{}, pass: pass}
	// declarations
	decls := map[*types.Func]*declInfo{}
	for _, pk := range pkgs {
		if pk.TypesInfo == nil || !strings.HasPrefix(pk.PkgPath, ModPath) {
			continue
		}
		for _, f := range pk.Syntax {
			for _, d := range f.Decls {
				fd, ok := d.(*ast.FuncDecl)
				if !ok || fd.Body == nil {
					continue
				}
				obj, _ := pk.TypesInfo.Defs[fd.Name].(*types.Func)
				if obj == nil || !nf[obj] {
					continue
				}
				di := &declInfo{pk: pk, file: f, decl: fd, ok: true}
				decls[obj] = di
				sig := obj.Type().(*types.Signature)
				switch {
				case hasTypeParam(sig) || sig.TypeParams().Len() > 0 || sig.RecvTypeParams().Len() > 0:
					di.ok, di.why = false, "generic"
				}
				if fd.Recv != nil && len(fd.Recv.List) == 1 && len(fd.Recv.List[0].Names) > 1 {
					di.ok, di.why = false, "receiver"
				}
				di.pure = pureFuncBody(pk, fd)
				ast.Inspect(fd.Body, func(n ast.Node) bool {
					switch x := n.(type) {
					case *ast.FuncLit:
						return false
					case *ast.DeferStmt:
						top := false
						for _, st := range fd.Body.List {
							if st == ast.Stmt(x) {
								top = true
							}
						}
						if top {
							di.defers = append(di.defers, x)
						} else {
							di.nestedDefer = true
						}
					case *ast.CallExpr:
						if id, ok := x.Fun.(*ast.Ident); ok && id.Name == "recover" {
							di.ok, di.why = false, "recover"
						}
						var callee types.Object
						switch fn := x.Fun.(type) {
						case *ast.Ident:
							callee = pk.TypesInfo.Uses[fn]
						case *ast.SelectorExpr:
							callee = pk.TypesInfo.Uses[fn.Sel]
						}
						if callee == obj {
							di.ok, di.why = false, "recursive"
						}
					}
					return true
				})
			}
		}
	}
	changed := false
	remaining := map[*types.Func]int{} // references that were not removed
	inlined := map[*types.Func]int{}
	for _, pk := range pkgs {
		if pk.TypesInfo == nil || !strings.HasPrefix(pk.PkgPath, ModPath) {
			continue
		}
		for _, f := range pk.Syntax {
			il.inlineInFile(pk, f, nf, decls, remaining, inlined)
		}
	}
	// drop declarations without remaining references
	for obj, di := range decls {
		if inlined[obj] > 0 {
			changed = true
			il.notes = append(il.notes, fmt.Sprintf("normalised (function unknown to the pinned tree inlined at %d call site(s)): %s", inlined[obj], obj.FullName()))
		}
		if inlined[obj] > 0 && remaining[obj] == 0 {
			tf := di.pk.Fset.File(di.decl.Pos())
			start := di.decl.Pos()
			if di.decl.Doc != nil {
				start = di.decl.Doc.Pos()
			}
			il.fe(tf.Name()).edits = append(il.fe(tf.Name()).edits, textEdit{tf.Offset(start), tf.Offset(di.decl.End()), blankLines(il.source(tf.Name())[tf.Offset(start):tf.Offset(di.decl.End())]), 0})
		}
	}
	if il.valueRewrites > 0 {
		changed = true
	}
	if !changed {
		return nil, nil, false
	}
	out := map[string][]byte{}
	for k, v := range overlay {
		out[k] = v
	}
	for file, fe := range il.files {
		src := append([]byte(nil), il.source(file)...)
		es := fe.edits
		// imports: after the package clause
		if len(fe.imports) > 0 {
			var af *ast.File
			for _, pk := range pkgs {
				for _, f := range pk.Syntax {
					if pk.Fset.File(f.Pos()).Name() == file {
						af = f
					}
				}
			}
			if af == nil {
				continue
			}
			tf := pkgs[0].Fset.File(af.Pos())
			off := tf.Offset(af.Name.End())
			var paths []string
			for p := range fe.imports {
				paths = append(paths, p)
			}
			sort.Strings(paths)
			var b strings.Builder
			for _, p := range paths {
				fmt.Fprintf(&b, "; import %s %q", fe.imports[p], p)
			}
			es = append(es, textEdit{off, off, b.String(), 0})
		}
		src = applyEdits(src, es)
		out[file] = src
	}
	sort.Strings(il.notes)
	return out, il.notes, true
}

// applyEdits applies replacements and insertions; overlapping replacements are resolved in favour of the
// outer one, and an inlining (group) is applied completely or not at all.
func applyEdits(src []byte, es []textEdit) []byte {
	dropped := map[int]bool{}
	for iter := 0; iter < 4; iter++ {
		var repl []textEdit
		for _, e := range es {
			if e.end > e.off && !dropped[e.group] {
				repl = append(repl, e)
			}
		}
		sort.SliceStable(repl, func(i, j int) bool {
			if repl[i].off != repl[j].off {
				return repl[i].off < repl[j].off
			}
			return repl[i].end > repl[j].end
		})
		var kept []textEdit
		curEnd := -1
		again := false
		for _, e := range repl {
			if e.off < curEnd {
				if e.group != 0 {
					dropped[e.group] = true
				}
				again = true
				continue
			}
			kept = append(kept, e)
			curEnd = e.end
		}
		for _, e := range es {
			if e.end == e.off && !dropped[e.group] {
				for _, r := range kept {
					if r.off < e.off && e.off < r.end {
						if e.group != 0 {
							dropped[e.group] = true
						}
						again = true
					}
				}
			}
		}
		if !again {
			break
		}
	}
	var fin []textEdit
	for _, e := range es {
		if e.group != 0 && dropped[e.group] {
			continue
		}
		fin = append(fin, e)
	}
	// right to left; at the same offset the replacement first, then the insertions (which thus end up in front)
	sort.SliceStable(fin, func(i, j int) bool {
		if fin[i].off != fin[j].off {
			return fin[i].off > fin[j].off
		}
		ri, rj := fin[i].end > fin[i].off, fin[j].end > fin[j].off
		if ri != rj {
			return ri
		}
		return false
	})
	// insertions at the same offset keep their order of creation: reverse them for right-to-left application
	for i := 0; i < len(fin); {
		j := i
		for j < len(fin) && fin[j].off == fin[i].off && fin[j].end == fin[j].off && fin[i].end == fin[i].off {
			j++
		}
		if j > i+1 {
			for a, b := i, j-1; a < b; a, b = a+1, b-1 {
				fin[a], fin[b] = fin[b], fin[a]
			}
		}
		if j == i {
			j = i + 1
		}
		i = j
	}
	lastStart := len(src) + 1
	for _, e := range fin {
		if e.end > lastStart || e.end > len(src) {
			continue
		}
		src = append(src[:e.off], append([]byte(e.text), src[e.end:]...)...)
		lastStart = e.off
		if e.end == e.off {
			lastStart = e.off + 0
		}
	}
	return src
}

func blankLines(b []byte) string {
	n := 0
	for _, c := range b {
		if c == '\n' {
			n++
		}
	}
	return strings.Repeat("\n", n)
}

// pureFuncBody: see declInfo.pure.
func pureFuncBody(pk *packages.Package, fd *ast.FuncDecl) bool {
	pure := true
	local := func(e ast.Expr) bool {
		id, ok := e.(*ast.Ident)
		if !ok {
			return false
		}
		if id.Name == "_" {
			return true
		}
		o := pk.TypesInfo.Defs[id]
		if o == nil {
			o = pk.TypesInfo.Uses[id]
		}
		v, ok := o.(*types.Var)
		return ok && v.Parent() != nil && v.Parent() != pk.Types.Scope() && !v.IsField()
	}
	ast.Inspect(fd.Body, func(n ast.Node) bool {
		switch x := n.(type) {
		case *ast.CallExpr:
			if id, ok := x.Fun.(*ast.Ident); ok && (id.Name == "len" || id.Name == "cap") {
				return true
			}
			if tv, ok := pk.TypesInfo.Types[x.Fun]; ok && tv.IsType() {
				return true
			}
			pure = false
		case *ast.SendStmt, *ast.GoStmt, *ast.DeferStmt, *ast.FuncLit, *ast.SelectStmt:
			pure = false
		case *ast.UnaryExpr:
			if x.Op == token.ARROW {
				pure = false
			}
		case *ast.AssignStmt:
			for _, l := range x.Lhs {
				if !local(l) {
					pure = false
				}
			}
		case *ast.IncDecStmt:
			if !local(x.X) {
				pure = false
			}
		}
		return pure
	})
	return pure
}

// pureArgs: the arguments (and the receiver) of call have no effects.
func pureArgs(call *ast.CallExpr) bool {
	pure := true
	check := func(e ast.Expr) {
		ast.Inspect(e, func(n ast.Node) bool {
			switch x := n.(type) {
			case *ast.CallExpr:
				if id, ok := x.Fun.(*ast.Ident); ok && (id.Name == "len" || id.Name == "cap") {
					return true
				}
				pure = false
			case *ast.FuncLit:
				pure = false
			case *ast.UnaryExpr:
				if x.Op == token.ARROW {
					pure = false
				}
			}
			return pure
		})
	}
	if sel, ok := call.Fun.(*ast.SelectorExpr); ok {
		check(sel.X)
	}
	for _, a := range call.Args {
		check(a)
	}
	return pure
}

func dbg(format string, a ...any) {
	if os.Getenv("SA_INLINE_DEBUG") != "" {
		fmt.Fprintf(os.Stderr, "   inline: "+format+"\n", a...)
	}
}

func (il *inliner) inlineInFile(pk *packages.Package, f *ast.File, nf map[*types.Func]bool, decls map[*types.Func]*declInfo, remaining, inlined map[*types.Func]int) {
	info := pk.TypesInfo
	tf := pk.Fset.File(f.Pos())
	if tf == nil {
		return
	}
	file := tf.Name()
	src := il.source(file)
	text := func(n ast.Node) string { return string(src[tf.Offset(n.Pos()):tf.Offset(n.End())]) }

	calleeOf := func(c *ast.CallExpr) *types.Func {
		switch fn := c.Fun.(type) {
		case *ast.Ident:
			o, _ := info.Uses[fn].(*types.Func)
			return o
		case *ast.SelectorExpr:
			o, _ := info.Uses[fn.Sel].(*types.Func)
			if o != nil {
				return o.Origin()
			}
		case *ast.ParenExpr:
			_ = fn
		}
		return nil
	}
	handledIdent := map[*ast.Ident]bool{}
	usedStmt := map[ast.Node]bool{}

	var stack []ast.Node
	var visit func(n ast.Node) bool
	visit = func(n ast.Node) bool {
		if n == nil {
			stack = stack[:len(stack)-1]
			return false
		}
		stack = append(stack, n)
		call, ok := n.(*ast.CallExpr)
		if !ok {
			return true
		}
		callee := calleeOf(call)
		if callee == nil || !nf[callee] {
			return true
		}
		di := decls[callee]
		// mark the callee identifier as seen
		switch fn := call.Fun.(type) {
		case *ast.Ident:
			handledIdent[fn] = true
		case *ast.SelectorExpr:
			handledIdent[fn.Sel] = true
		}
		if di == nil || !di.ok {
			if di != nil {
				dbg("%s not inlinable: %s", callee.Name(), di.why)
			}
			remaining[callee]++
			return true
		}
		// inside the body of a new function that is itself inlinable: left to a later pass (the body is copied
		// into its callers first)
		for _, anc := range stack {
			if fd, isDecl := anc.(*ast.FuncDecl); isDecl {
				if eo, _ := info.Defs[fd.Name].(*types.Func); eo != nil && nf[eo] && decls[eo] != nil && decls[eo].ok {
					remaining[callee]++
					return true
				}
			}
		}
		st := append([]ast.Node(nil), stack...)
		if il.inlineCall(pk, f, file, st, call, callee, di, usedStmt, text) {
			inlined[callee]++
		} else {
			dbg("call of %s at %s refused", callee.Name(), pk.Fset.Position(call.Pos()))
			remaining[callee]++
		}
		return true
	}
	ast.Inspect(f, func(n ast.Node) bool {
		if n == nil {
			if len(stack) > 0 {
				stack = stack[:len(stack)-1]
			}
			return false
		}
		return visit(n)
	})
	// every other reference to a new function keeps it alive; a method value x.m / function value f becomes
	// func(p...) { return x.m(p...) } first, so that the next pass can inline the call
	selOf := map[*ast.Ident]*ast.SelectorExpr{}
	ast.Inspect(f, func(n ast.Node) bool {
		if s, ok := n.(*ast.SelectorExpr); ok {
			selOf[s.Sel] = s
		}
		return true
	})
	for id, o := range info.Uses {
		fo, ok := o.(*types.Func)
		if !ok {
			continue
		}
		fo = fo.Origin()
		if !nf[fo] || handledIdent[id] {
			continue
		}
		if p := pk.Fset.File(id.Pos()); p == nil || p.Name() != file {
			continue
		}
		remaining[fo]++
		di := decls[fo]
		if di == nil || !di.ok || di.pk != pk {
			continue
		}
		var node ast.Expr = id
		if s := selOf[id]; s != nil {
			if sel := info.Selections[s]; sel == nil || sel.Kind() != types.MethodVal || len(sel.Index()) != 1 {
				continue
			}
			node = s
		} else if fo.Type().(*types.Signature).Recv() != nil {
			continue
		}
		sig := fo.Type().(*types.Signature)
		bad := false
		tt := func(t types.Type) string {
			if hasTypeParam(t) {
				bad = true
			}
			return types.TypeString(t, func(p *types.Package) string {
				if p == pk.Types {
					return ""
				}
				return il.alias(file, p.Path())
			})
		}
		il.seq++
		var ps, as []string
		for i := 0; i < sig.Params().Len(); i++ {
			n := fmt.Sprintf("inl%d_%d_v%d", il.pass, il.seq, i)
			if sig.Variadic() && i == sig.Params().Len()-1 {
				ps = append(ps, n+" ..."+tt(sig.Params().At(i).Type().(*types.Slice).Elem()))
				as = append(as, n+"...")
			} else {
				ps = append(ps, n+" "+tt(sig.Params().At(i).Type()))
				as = append(as, n)
			}
		}
		var rs []string
		for i := 0; i < sig.Results().Len(); i++ {
			rs = append(rs, tt(sig.Results().At(i).Type()))
		}
		if bad {
			continue
		}
		ret := ""
		if len(rs) > 0 {
			ret = "return "
		}
		lit := "func(" + strings.Join(ps, ", ") + ") (" + strings.Join(rs, ", ") + ") { " + ret + text(node) + "(" + strings.Join(as, ", ") + ") }"
		il.fe(file).edits = append(il.fe(file).edits, textEdit{tf.Offset(node.Pos()), tf.Offset(node.End()), lit, il.seq})
		il.valueRewrites++
	}
}

func (il *inliner) inlineCall(pk *packages.Package, f *ast.File, file string, stack []ast.Node, call *ast.CallExpr, callee *types.Func, di *declInfo, usedStmt map[ast.Node]bool, text func(ast.Node) string) bool {
	info := pk.TypesInfo
	tf := pk.Fset.File(f.Pos())
	sig := callee.Type().(*types.Signature)
	// the call must not be inside the body of a function that is itself dropped/inlined in this pass with
	// conflicting edits: handled by the overlap rule when edits are applied.

	// ---- arguments
	var argTexts []string
	var paramVars []*types.Var
	if sig.Recv() != nil {
		sel, ok := call.Fun.(*ast.SelectorExpr)
		if !ok {
			return false
		}
		s := info.Selections[sel]
		if s == nil || s.Kind() != types.MethodVal {
			return false
		}
		rt := sig.Recv().Type()
		xt := info.TypeOf(sel.X)
		if xt == nil {
			return false
		}
		xtext := text(sel.X)
		// a method promoted through embedded fields: x.m() is x.f1.f2.m()
		for _, fi := range s.Index()[:len(s.Index())-1] {
			t := xt
			if p, ok := t.(*types.Pointer); ok {
				t = p.Elem()
			}
			st, ok := t.Underlying().(*types.Struct)
			if !ok || fi >= st.NumFields() {
				return false
			}
			xtext = "(" + xtext + ")." + st.Field(fi).Name()
			xt = st.Field(fi).Type()
		}
		_, rp := rt.(*types.Pointer)
		_, xp := xt.(*types.Pointer)
		switch {
		case rp == xp:
			argTexts = append(argTexts, xtext)
		case rp && !xp:
			argTexts = append(argTexts, "&("+xtext+")")
		default:
			argTexts = append(argTexts, "*("+xtext+")")
		}
		paramVars = append(paramVars, sig.Recv())
	}
	np := sig.Params().Len()
	if sig.Variadic() {
		if len(call.Args) < np-1 || (call.Ellipsis.IsValid() && len(call.Args) != np) {
			return false
		}
		if len(call.Args) == 1 && np > 1 {
			return false // f(g()) with a tuple
		}
	} else if len(call.Args) != np || call.Ellipsis.IsValid() {
		return false
	}
	variadicExtra := []string(nil)
	for i, a := range call.Args {
		if sig.Variadic() && i >= np-1 && !call.Ellipsis.IsValid() {
			variadicExtra = append(variadicExtra, text(a))
			continue
		}
		argTexts = append(argTexts, text(a))
		paramVars = append(paramVars, sig.Params().At(i))
	}
	variadicLit := -1
	if sig.Variadic() && !call.Ellipsis.IsValid() {
		variadicLit = len(argTexts)
		argTexts = append(argTexts, "") // filled in below, once the type text is known
		paramVars = append(paramVars, sig.Params().At(np-1))
	}
	// parameter names as declared
	var paramNames []string
	if di.decl.Recv != nil {
		if len(di.decl.Recv.List) == 1 && len(di.decl.Recv.List[0].Names) == 1 {
			paramNames = append(paramNames, di.decl.Recv.List[0].Names[0].Name)
		} else {
			paramNames = append(paramNames, "_")
		}
	}
	for _, fld := range di.decl.Type.Params.List {
		if len(fld.Names) == 0 {
			paramNames = append(paramNames, "_")
		}
		for _, nm := range fld.Names {
			paramNames = append(paramNames, nm.Name)
		}
	}
	if len(paramNames) != len(paramVars) {
		return false
	}
	var resultNames []string
	if di.decl.Type.Results != nil {
		for _, fld := range di.decl.Type.Results.List {
			for _, nm := range fld.Names {
				resultNames = append(resultNames, nm.Name)
			}
		}
	}
	nres := sig.Results().Len()
	if len(resultNames) != 0 && len(resultNames) != nres {
		return false
	}
	blankResults := false
	for _, n := range resultNames {
		if n == "_" {
			blankResults = true
		}
	}

	// ---- type texts
	bad := false
	typeText := func(t types.Type) string {
		if hasTypeParam(t) {
			bad = true
		}
		return types.TypeString(t, func(p *types.Package) string {
			if p == pk.Types {
				return ""
			}
			return il.alias(file, p.Path())
		})
	}

	callScope := pk.Types.Scope().Innermost(call.Pos())
	if callScope == nil {
		return false
	}
	// a type of this package can be named at the call site only if nothing there shadows its name
	nameable := func(t types.Type) bool {
		okk := true
		var walk func(t types.Type, d int)
		walk = func(t types.Type, d int) {
			if d > 6 || t == nil {
				return
			}
			switch x := t.(type) {
			case *types.Named:
				if x.Obj().Pkg() == pk.Types {
					if _, o := callScope.LookupParent(x.Obj().Name(), call.Pos()); o != types.Object(x.Obj()) {
						okk = false
					}
				}
				if x.TypeArgs() != nil {
					for i := 0; i < x.TypeArgs().Len(); i++ {
						walk(x.TypeArgs().At(i), d+1)
					}
				}
			case *types.Pointer:
				walk(x.Elem(), d+1)
			case *types.Slice:
				walk(x.Elem(), d+1)
			case *types.Array:
				walk(x.Elem(), d+1)
			case *types.Map:
				walk(x.Key(), d+1)
				walk(x.Elem(), d+1)
			case *types.Chan:
				walk(x.Elem(), d+1)
			case *types.Signature:
				for i := 0; i < x.Params().Len(); i++ {
					walk(x.Params().At(i).Type(), d+1)
				}
				for i := 0; i < x.Results().Len(); i++ {
					walk(x.Results().At(i).Type(), d+1)
				}
			case *types.Struct:
				for i := 0; i < x.NumFields(); i++ {
					walk(x.Field(i).Type(), d+1)
				}
			}
		}
		walk(t, 0)
		return okk
	}
	inferParam := map[int]bool{} // parameters bound by `var p = arg` because their type cannot be named here
	for i, pvv := range paramVars {
		if nameable(pvv.Type()) {
			continue
		}
		var argT types.Type
		if sig.Recv() != nil && i == 0 {
			if sel, ok := call.Fun.(*ast.SelectorExpr); ok {
				argT = info.TypeOf(sel.X)
				if argTexts[0] != text(sel.X) {
					argT = nil // &x / *x: the receiver's type is the parameter's by construction
					inferParam[i] = true
					continue
				}
			}
		} else {
			ai := i
			if sig.Recv() != nil {
				ai--
			}
			if ai < len(call.Args) && !(sig.Variadic() && ai >= np-1) {
				argT = info.TypeOf(call.Args[ai])
			}
		}
		if argT == nil || !types.Identical(argT, pvv.Type()) {
			dbg("%s: type of parameter %d cannot be named at the call site", callee.Name(), i)
			return false
		}
		inferParam[i] = true
	}
	for i := 0; i < sig.Results().Len(); i++ {
		if !nameable(sig.Results().At(i).Type()) {
			dbg("%s: type of result %d cannot be named at the call site", callee.Name(), i)
			return false
		}
	}

	if variadicLit >= 0 {
		if len(variadicExtra) == 0 {
			argTexts[variadicLit] = "nil"
		} else {
			argTexts[variadicLit] = typeText(sig.Params().At(np-1).Type()) + "{" + strings.Join(variadicExtra, ", ") + "}"
		}
	}

	// ---- shadowing: package-level and universe names of the body must mean the same at the call site
	calleeInfo := di.pk.TypesInfo
	shadow := false
	ctf := di.pk.Fset.File(di.decl.Pos())
	csrc := il.source(ctf.Name())
	var bodyEdits []textEdit
	bodyStart := ctf.Offset(di.decl.Body.Pos())
	sameFile := ctf.Name() == file
	checkIdent := func(id *ast.Ident) {
		o := calleeInfo.Uses[id]
		if o == nil {
			return
		}
		if pn, ok := o.(*types.PkgName); ok {
			if !sameFile {
				bodyEdits = append(bodyEdits, textEdit{ctf.Offset(id.Pos()) - bodyStart, ctf.Offset(id.End()) - bodyStart, il.alias(file, pn.Imported().Path()), 0})
			} else {
				// the import name may be shadowed at the call site
				if _, o2 := callScope.LookupParent(id.Name, call.Pos()); o2 != o {
					shadow = true
				}
			}
			return
		}
		if o.Parent() == types.Universe || (o.Pkg() != nil && o.Parent() == o.Pkg().Scope()) {
			if o.Pkg() != nil && o.Pkg() != pk.Types {
				shadow = true // cannot happen for a same-package call
				return
			}
			if _, o2 := callScope.LookupParent(id.Name, call.Pos()); o2 != o {
				shadow = true
			}
		}
	}
	// signature identifiers (types) are printed through typeText; body identifiers:
	var walkIdents func(n ast.Node)
	walkIdents = func(n ast.Node) {
		ast.Inspect(n, func(m ast.Node) bool {
			switch x := m.(type) {
			case *ast.SelectorExpr:
				walkIdents(x.X) // the selected name is a field, a method or a package member
				return false
			case *ast.KeyValueExpr:
				if id, ok := x.Key.(*ast.Ident); ok {
					if v, isVar := calleeInfo.Uses[id].(*types.Var); isVar && v.IsField() {
						walkIdents(x.Value)
						return false
					}
				}
			case *ast.Ident:
				checkIdent(x)
			}
			return true
		})
	}
	walkIdents(di.decl.Body)
	if shadow || di.pk != pk {
		return false
	}

	// ---- expression form: a body that is a single `return E` with side-effect-free arguments is substituted in
	// place (a predicate cut out of a condition comes back as the condition it was)
	if len(di.decl.Body.List) == 1 && nres == 1 && variadicLit < 0 && !sig.Variadic() {
		if rs, ok := di.decl.Body.List[0].(*ast.ReturnStmt); ok && len(rs.Results) == 1 {
			if txt, ok := il.exprForm(pk, call, di, sig, rs.Results[0], argTexts, paramVars, bodyEdits, bodyStart, typeText, nameable); ok {
				il.seq++
				tf := pk.Fset.File(f.Pos())
				il.fe(file).edits = append(il.fe(file).edits, textEdit{tf.Offset(call.Pos()), tf.Offset(call.End()), txt, il.seq})
				return true
			}
		}
	}

	// ---- the statement the call is hoisted in front of
	ins := hoistPoint(stack, call, info, di.pure && pureArgs(call))
	if ins == nil {
		return false
	}
	if usedStmt[ins.stmt] {
		return false // one call per statement and pass
	}

	tail := false
	if rs, ok := ins.stmt.(*ast.ReturnStmt); ok && len(rs.Results) == 1 && ast.Unparen(rs.Results[0]) == ast.Expr(call) {
		tail = true
	}
	if ins.dropStmt {
		for i := len(stack) - 1; i > 0; i-- {
			if fd, ok := stack[i].(*ast.FuncDecl); ok && fd.Body != nil && len(fd.Body.List) > 0 && fd.Body.List[len(fd.Body.List)-1] == ins.stmt {
				tail = true
			}
		}
	}
	convertDefers := false
	if len(di.defers) > 0 || di.nestedDefer {
		switch {
		case ins.literalize, tail:
			// a literal keeps its own defers; in tail position the defers run where they ran before
		default:
			// defer statements of the body's statement list become calls after the body; a defer nested deeper
			// stays a defer (of the caller: it runs later than it did in the callee — when the callee was cut
			// out of this caller that is where it ran before)
			convertDefers = true
		}
	}

	// ---- continuation: `if n... := f(); COND { THEN }` or `n... := f()` followed by `if COND { return ... }`.
	// The test is repeated at every return of the body (with the returned values bound to the same names) and
	// dropped after it, so that what is returned is the value of that return and not a join of all of them.
	cont := il.continuation(pk, ins, call, di, sig, convertDefers, text, typeText)

	il.seq++
	k := fmt.Sprintf("inl%d_%d", il.pass, il.seq)
	label := k + "_L"
	if blankResults {
		// `(_ []byte, last bool, _ error)`: the blank results get names of their own
		resultNames = append([]string(nil), resultNames...)
		for i, n := range resultNames {
			if n == "_" {
				resultNames[i] = fmt.Sprintf("%s_nr%d", k, i)
			}
		}
	}

	// ---- body text with returns and labels rewritten
	var resTemps []string
	for i := 0; i < nres; i++ {
		resTemps = append(resTemps, fmt.Sprintf("%s_r%d", k, i))
	}
	// defer statements of the body's statement list: the deferred call is made at every exit behind it (results
	// assigned first), in reverse order of registration
	type deferredCall struct {
		pos  token.Pos
		text string
	}
	var deferred []deferredCall
	if convertDefers {
		for _, d := range di.defers {
			cs, ce := ctf.Offset(d.Call.Pos())-bodyStart, ctf.Offset(d.Call.End())-bodyStart
			var inner, rest []textEdit
			for _, e := range bodyEdits {
				if e.off >= cs && e.end <= ce {
					inner = append(inner, e)
				} else {
					rest = append(rest, e)
				}
			}
			bodyEdits = rest
			ct := append([]byte(nil), csrc[bodyStart+cs:bodyStart+ce]...)
			sort.SliceStable(inner, func(a, b int) bool { return inner[a].off > inner[b].off })
			for _, e := range inner {
				ct = append(ct[:e.off-cs], append([]byte(e.text), ct[e.end-cs:]...)...)
			}
			deferred = append(deferred, deferredCall{d.Pos(), string(ct)})
			bodyEdits = append(bodyEdits, textEdit{ctf.Offset(d.Pos()) - bodyStart, ctf.Offset(d.End()) - bodyStart, "", 0})
		}
	}
	deferredAt := func(pos token.Pos) string {
		var out []string
		for i := len(deferred) - 1; i >= 0; i-- {
			if deferred[i].pos < pos {
				out = append(out, deferred[i].text)
			}
		}
		if len(out) == 0 {
			return ""
		}
		return strings.Join(out, "; ") + "; "
	}
	labelsSeen := map[string]bool{}
	var walkBody func(n ast.Node) bool
	walkBody = func(n ast.Node) bool {
		switch x := n.(type) {
		case *ast.FuncLit:
			// returns inside a literal stay; labels inside are its own
			return false
		case *ast.LabeledStmt:
			labelsSeen[x.Label.Name] = true
			bodyEdits = append(bodyEdits, textEdit{ctf.Offset(x.Label.Pos()) - bodyStart, ctf.Offset(x.Label.End()) - bodyStart, k + "_" + x.Label.Name, 0})
		case *ast.BranchStmt:
			if x.Label != nil {
				bodyEdits = append(bodyEdits, textEdit{ctf.Offset(x.Label.Pos()) - bodyStart, ctf.Offset(x.Label.End()) - bodyStart, k + "_" + x.Label.Name, 0})
			}
		case *ast.ReturnStmt:
			rs, re := ctf.Offset(x.Pos())-bodyStart, ctf.Offset(x.Pos())-bodyStart+len("return")
			dtext := deferredAt(x.Pos())
			switch {
			case nres == 0:
				bodyEdits = append(bodyEdits, textEdit{rs, re, "{ " + dtext + "break " + label + " }", 0})
			case len(x.Results) == 0:
				if cont != nil {
					var cb strings.Builder
					cb.WriteString("{ " + dtext + strings.Join(resTemps, ", ") + " = " + strings.Join(resultNames, ", ") + "; { ")
					for i, n := range cont.names {
						if n == "_" || n == "" {
							continue
						}
						fmt.Fprintf(&cb, "var %s = %s; _ = %s; ", n, resTemps[i], n)
					}
					cb.WriteString(cont.text + " } ; break " + label + " }")
					bodyEdits = append(bodyEdits, textEdit{rs, re, cb.String(), 0})
				} else {
					bodyEdits = append(bodyEdits, textEdit{rs, re, "{ " + dtext + "break " + label + " }", 0})
				}
			default:
				lhs := resTemps
				if len(resultNames) > 0 {
					lhs = resultNames // named results are copied to the temporaries after the deferred calls
				}
				tailText := " ; " + dtext + "break " + label + " }"
				if cont != nil {
					var cb strings.Builder
					cb.WriteString(" ; " + dtext)
					if len(resultNames) > 0 {
						cb.WriteString(strings.Join(resTemps, ", ") + " = " + strings.Join(resultNames, ", ") + "; ")
					}
					cb.WriteString("{ ")
					for i, n := range cont.names {
						if n == "_" || n == "" {
							continue
						}
						fmt.Fprintf(&cb, "var %s = %s; _ = %s; ", n, resTemps[i], n)
					}
					cb.WriteString(cont.text + " }")
					tailText = cb.String() + " ; break " + label + " }"
				}
				bodyEdits = append(bodyEdits, textEdit{rs, re, "{ " + strings.Join(lhs, ", ") + " = ", 0})
				e := ctf.Offset(x.End()) - bodyStart
				bodyEdits = append(bodyEdits, textEdit{e, e, tailText, 0})
			}
		}
		return true
	}
	ast.Inspect(di.decl.Body, walkBody)
	if nres == 0 && len(deferred) > 0 {
		e := ctf.Offset(di.decl.Body.End()) - 1 - bodyStart
		bodyEdits = append(bodyEdits, textEdit{e, e, "\n" + deferredAt(di.decl.Body.End()), 0})
	}
	body := append([]byte(nil), csrc[bodyStart:ctf.Offset(di.decl.Body.End())]...)
	sort.SliceStable(bodyEdits, func(i, j int) bool {
		if bodyEdits[i].off != bodyEdits[j].off {
			return bodyEdits[i].off > bodyEdits[j].off
		}
		return bodyEdits[i].end > bodyEdits[j].end
	})
	last := len(body) + 1
	for _, e := range bodyEdits {
		if e.end > last || e.off < 0 || e.end > len(body) {
			return false
		}
		body = append(body[:e.off], append([]byte(e.text), body[e.end:]...)...)
		last = e.off
	}

	// ---- assemble
	var b strings.Builder
	for i := 0; i < nres; i++ {
		fmt.Fprintf(&b, "var %s %s; ", resTemps[i], typeText(sig.Results().At(i).Type()))
	}
	b.WriteString("{ ")
	// the argument temporaries carry the declared parameter types (named where the caller's names are in
	// force); inside, the parameters and named results take their types from them, so that a parameter
	// with the name of a type (`latch *latch`) does no harm
	for i, a := range argTexts {
		if inferParam[i] {
			fmt.Fprintf(&b, "var %s_a%d = %s; ", k, i, a)
		} else {
			fmt.Fprintf(&b, "var %s_a%d %s = %s; ", k, i, typeText(paramVars[i].Type()), a)
		}
	}
	b.WriteString("{ ")
	for i, n := range paramNames {
		fmt.Fprintf(&b, "var %s = %s_a%d; ", n, k, i)
		if n != "_" {
			fmt.Fprintf(&b, "_ = %s; ", n)
		}
	}
	for i, n := range resultNames {
		fmt.Fprintf(&b, "var %s = %s; _ = %s; ", n, resTemps[i], n)
	}
	fmt.Fprintf(&b, "%s: for { ", label)
	b.Write(body)
	fmt.Fprintf(&b, "\nbreak %s }\n", label)
	if len(resultNames) > 0 {
		fmt.Fprintf(&b, "%s = %s\n", strings.Join(resTemps, ", "), strings.Join(resultNames, ", "))
	}
	b.WriteString("} }\n")
	if bad {
		return false
	}
	pre := b.String()

	fe := il.fe(file)
	usedStmt[ins.stmt] = true
	g := il.seq
	callStart, callEnd := tf.Offset(call.Pos()), tf.Offset(call.End())
	if cont != nil && cont.p1 {
		post := ""
		if cont.assign {
			post = strings.Join(cont.lhs, ", ") + " = " + strings.Join(resTemps, ", ") + "\n"
		}
		fe.edits = append(fe.edits, textEdit{tf.Offset(ins.stmt.Pos()), tf.Offset(ins.stmt.End()), pre + post, g})
		return true
	}
	if cont != nil {
		var use strings.Builder
		for _, n := range cont.names {
			if n != "_" && n != "" {
				use.WriteString("_ = " + n + "; ")
			}
		}
		fe.edits = append(fe.edits, textEdit{tf.Offset(ins.next.Pos()), tf.Offset(ins.next.End()), use.String(), g})
	}
	if ins.dropStmt {
		// an expression statement: the statement is the call
		fe.edits = append(fe.edits, textEdit{tf.Offset(ins.stmt.Pos()), tf.Offset(ins.stmt.End()), ins.open + pre + ins.close, g})
		return true
	}
	if ins.literalize {
		// defer f(x) / go f(x): keep the statement, replace the callee by a function literal
		var lb strings.Builder
		lb.WriteString("func(")
		// a method: the receiver is captured (as it was when the body was a closure of this function) unless its
		// name means something else at the call site
		skip := -1
		bind := ""
		if sig.Recv() != nil {
			rn := paramNames[0]
			switch {
			case rn == "_":
				skip = 0
			case argTexts[0] == rn:
				skip = 0
			default:
				if _, o := callScope.LookupParent(rn, call.Pos()); o == nil {
					skip = 0
					bind = fmt.Sprintf("{ var %s %s = %s; _ = %s; ", rn, typeText(paramVars[0].Type()), argTexts[0], rn)
				}
			}
		}
		first := true
		for i, n := range paramNames {
			if i == skip {
				continue
			}
			if !first {
				lb.WriteString(", ")
			}
			first = false
			if n == "_" {
				n = fmt.Sprintf("%s_p%d", k, i)
			}
			if sig.Variadic() && i == len(paramNames)-1 {
				fmt.Fprintf(&lb, "%s ...%s", n, typeText(paramVars[i].Type().(*types.Slice).Elem()))
			} else {
				fmt.Fprintf(&lb, "%s %s", n, typeText(paramVars[i].Type()))
			}
		}
		lb.WriteString(") ")
		if nres > 0 {
			lb.WriteString("(")
			for i := 0; i < nres; i++ {
				if i > 0 {
					lb.WriteString(", ")
				}
				if len(resultNames) > 0 {
					lb.WriteString(resultNames[i] + " ")
				}
				lb.WriteString(typeText(sig.Results().At(i).Type()))
			}
			lb.WriteString(") ")
		}
		// body with package aliases only (returns and labels are those of the literal)
		raw := append([]byte(nil), csrc[bodyStart:ctf.Offset(di.decl.Body.End())]...)
		var pe []textEdit
		for _, e := range bodyEdits {
			if strings.HasPrefix(e.text, "inlpkg") {
				pe = append(pe, e)
			}
		}
		lastp := len(raw) + 1
		for _, e := range pe {
			if e.end > lastp {
				return false
			}
			raw = append(raw[:e.off], append([]byte(e.text), raw[e.end:]...)...)
			lastp = e.off
		}
		lb.Write(raw)
		if bad {
			return false
		}
		var callArgs []string
		for i, a := range argTexts {
			if i == skip {
				continue
			}
			if sig.Variadic() && i == len(argTexts)-1 {
				a += "..."
			}
			callArgs = append(callArgs, a)
		}
		fe.edits = append(fe.edits, textEdit{callStart, callEnd, lb.String() + "(" + strings.Join(callArgs, ", ") + ")", g})
		if bind != "" {
			so, eo := tf.Offset(ins.stmt.Pos()), tf.Offset(ins.stmt.End())
			fe.edits = append(fe.edits, textEdit{so, so, bind, g})
			fe.edits = append(fe.edits, textEdit{eo, eo, " }", g})
		}
		return true
	}
	repl := strings.Join(resTemps, ", ")
	if nres == 0 {
		return false
	}
	at := tf.Offset(ins.at)
	fe.edits = append(fe.edits, textEdit{at, at, ins.open + pre, g})
	fe.edits = append(fe.edits, textEdit{callStart, callEnd, repl, g})
	if ins.close != "" {
		e := tf.Offset(ins.stmt.End())
		fe.edits = append(fe.edits, textEdit{e, e, ins.close, g})
	}
	return true
}

// exprForm builds the replacement of call by the returned expression e of the callee with the parameters
// replaced by the (parenthesised) argument texts.
func (il *inliner) exprForm(pk *packages.Package, call *ast.CallExpr, di *declInfo, sig *types.Signature, e ast.Expr, argTexts []string, paramVars []*types.Var, bodyEdits []textEdit, bodyStart int, typeText func(types.Type) string, nameable func(types.Type) bool) (string, bool) {
	info := pk.TypesInfo
	// arguments (and the receiver) must be free of effects: they may be evaluated more or less often
	simple := func(x ast.Expr) bool {
		okk := true
		ast.Inspect(x, func(n ast.Node) bool {
			switch y := n.(type) {
			case *ast.CallExpr, *ast.FuncLit, *ast.IndexExpr, *ast.SliceExpr, *ast.TypeAssertExpr, *ast.CompositeLit:
				okk = false
			case *ast.UnaryExpr:
				if y.Op == token.ARROW {
					okk = false
				}
			case *ast.BinaryExpr:
				if y.Op == token.QUO || y.Op == token.REM {
					okk = false
				}
			}
			return okk
		})
		return okk
	}
	if sel, isSel := call.Fun.(*ast.SelectorExpr); isSel && sig.Recv() != nil {
		if !simple(sel.X) {
			return "", false
		}
	}
	for _, a := range call.Args {
		if !simple(a) {
			return "", false
		}
	}
	hasLit := false
	ast.Inspect(e, func(n ast.Node) bool {
		if _, ok := n.(*ast.FuncLit); ok {
			hasLit = true
		}
		return !hasLit
	})
	if hasLit {
		return "", false
	}
	cinfo := di.pk.TypesInfo
	ctf := di.pk.Fset.File(di.decl.Pos())
	es, ee := ctf.Offset(e.Pos())-bodyStart, ctf.Offset(e.End())-bodyStart
	var edits []textEdit
	for _, be := range bodyEdits {
		if be.off >= es && be.end <= ee {
			edits = append(edits, be)
		}
	}
	idx := map[types.Object]int{}
	for i, pvv := range paramVars {
		idx[pvv] = i
	}
	okk := true
	ast.Inspect(e, func(n ast.Node) bool {
		id, ok := n.(*ast.Ident)
		if !ok {
			return true
		}
		o := cinfo.Uses[id]
		if o == nil {
			return true
		}
		if i, isParam := idx[o]; isParam {
			if i >= len(argTexts) {
				okk = false
				return false
			}
			edits = append(edits, textEdit{ctf.Offset(id.Pos()) - bodyStart, ctf.Offset(id.End()) - bodyStart, "(" + argTexts[i] + ")", 0})
		}
		return true
	})
	if !okk {
		return "", false
	}
	src := il.source(ctf.Name())
	txt := append([]byte(nil), src[bodyStart+es:bodyStart+ee]...)
	sort.SliceStable(edits, func(a, b int) bool { return edits[a].off > edits[b].off })
	last := len(txt) + 1 + es
	for _, ed := range edits {
		if ed.end > last {
			return "", false
		}
		txt = append(txt[:ed.off-es], append([]byte(ed.text), txt[ed.end-es:]...)...)
		last = ed.off
	}
	// keep the static type of the call
	rt := sig.Results().At(0).Type()
	et := cinfo.TypeOf(e)
	if et != nil && types.Identical(et, rt) {
		if tv, ok := cinfo.Types[e]; !ok || tv.Value == nil { // not a constant (whose default type might differ)
			return "(" + string(txt) + ")", true
		}
	}
	if !nameable(rt) {
		return "", false
	}
	if _, isIface := rt.Underlying().(*types.Interface); isIface {
		return "", false
	}
	_ = info
	return "(" + typeText(rt) + ")(" + string(txt) + ")", true
}

// contInfo: the test that consumes the results of an inlined call (see inlineCall).
type contInfo struct {
	names []string // the variables the results are bound to, one per result ("_" for none)
	types []string
	text  string // `if COND { ... } [else ...]`
	p1    bool   // the call sits in the Init of the if statement (the whole statement is replaced)
	// assign: the Init is an assignment to existing variables (lhs): it is repeated behind the body
	assign bool
	lhs    []string
}

// continuation recognises
//
//	P1: if a, b := f(x); COND { THEN } [else { ELSE }]
//	P2: a, b := f(x)  (or =)  followed by  if COND { ...; return ... }
//
// where COND/THEN/ELSE use no name that the callee declares (they are going to be evaluated inside its body),
// contain no break/continue/goto/label, and in P2 do not assign to a, b.
func (il *inliner) continuation(pk *packages.Package, ins *insertion, call *ast.CallExpr, di *declInfo, sig *types.Signature, convertDefers bool, text func(ast.Node) string, typeText func(types.Type) string) *contInfo {
	if ins.literalize || ins.dropStmt || sig.Results().Len() == 0 || ins.open != "" {
		return nil
	}
	info := pk.TypesInfo
	var as *ast.AssignStmt
	var ifs *ast.IfStmt
	ci := &contInfo{}
	switch s := ins.stmt.(type) {
	case *ast.IfStmt:
		a, ok := s.Init.(*ast.AssignStmt)
		if !ok || (a.Tok != token.DEFINE && a.Tok != token.ASSIGN) {
			return nil
		}
		if a.Tok == token.ASSIGN {
			// `if err = f(); err != nil { …; return … }`: the variables live on after the statement, so the
			// assignment is kept behind the body and the branch must leave the function
			if s.Else != nil || len(s.Body.List) == 0 {
				return nil
			}
			if _, isRet := s.Body.List[len(s.Body.List)-1].(*ast.ReturnStmt); !isRet {
				return nil
			}
			ci.assign = true
			for _, l := range a.Lhs {
				ci.lhs = append(ci.lhs, text(l))
			}
		}
		as, ifs, ci.p1 = a, s, true
	case *ast.AssignStmt:
		nx, ok := ins.next.(*ast.IfStmt)
		if !ok || nx.Init != nil || nx.Else != nil || len(nx.Body.List) == 0 {
			return nil
		}
		if _, isRet := nx.Body.List[len(nx.Body.List)-1].(*ast.ReturnStmt); !isRet {
			return nil
		}
		as, ifs = s, nx
	default:
		return nil
	}
	if len(as.Rhs) != 1 || ast.Unparen(as.Rhs[0]) != ast.Expr(call) || len(as.Lhs) != sig.Results().Len() {
		return nil
	}
	bound := map[types.Object]bool{}
	boundNames := map[string]bool{}
	for i, l := range as.Lhs {
		id, ok := l.(*ast.Ident)
		if !ok {
			return nil
		}
		ci.names = append(ci.names, id.Name)
		ci.types = append(ci.types, typeText(sig.Results().At(i).Type()))
		if id.Name == "_" {
			continue
		}
		o := info.Defs[id]
		if o == nil {
			o = info.Uses[id]
		}
		if o == nil {
			return nil
		}
		// the variable must have the result's type (an assignment to a wider interface variable would change it)
		if !types.Identical(o.Type(), sig.Results().At(i).Type()) {
			return nil
		}
		bound[o] = true
		boundNames[id.Name] = true
	}
	// names the callee declares
	declared := map[string]bool{}
	ast.Inspect(di.decl, func(n ast.Node) bool {
		if id, ok := n.(*ast.Ident); ok {
			if di.pk.TypesInfo.Defs[id] != nil {
				declared[id.Name] = true
			}
		}
		if ls, ok := n.(*ast.LabeledStmt); ok {
			declared[ls.Label.Name] = true
		}
		return true
	})
	okk := true
	usesBound := false
	parts := []ast.Node{ifs.Cond, ifs.Body}
	if ifs.Else != nil {
		parts = append(parts, ifs.Else)
	}
	var walk func(n ast.Node)
	walk = func(n ast.Node) {
		ast.Inspect(n, func(m ast.Node) bool {
			switch x := m.(type) {
			case *ast.BranchStmt, *ast.LabeledStmt, *ast.DeferStmt:
				okk = false
			case *ast.SelectorExpr:
				walk(x.X)
				return false
			case *ast.KeyValueExpr:
				if id, ok := x.Key.(*ast.Ident); ok {
					if v, isVar := info.Uses[id].(*types.Var); isVar && v.IsField() {
						walk(x.Value)
						return false
					}
				}
			case *ast.AssignStmt:
				if !ci.p1 {
					for _, l := range x.Lhs {
						if id, ok := l.(*ast.Ident); ok && bound[info.Uses[id]] {
							okk = false
						}
					}
				}
			case *ast.IncDecStmt:
				if id, ok := x.X.(*ast.Ident); ok && bound[info.Uses[id]] && !ci.p1 {
					okk = false
				}
			case *ast.UnaryExpr:
				if id, ok := x.X.(*ast.Ident); ok && x.Op == token.AND && bound[info.Uses[id]] {
					okk = false
				}
			case *ast.Ident:
				o := info.Uses[x]
				if o == nil {
					o = info.Defs[x]
				}
				if bound[o] {
					usesBound = true
					return true
				}
				if declared[x.Name] && x.Name != "_" {
					// a name of the caller that the callee also declares: it would be captured
					if _, isDef := info.Defs[x]; isDef && info.Defs[x] != nil {
						// declared inside the continuation itself: harmless unless it shadows a bound name
						if boundNames[x.Name] {
							okk = false
						}
						return true
					}
					okk = false
				}
			}
			return true
		})
	}
	for _, p := range parts {
		walk(p)
	}
	if !okk || !usesBound {
		return nil
	}
	var b strings.Builder
	b.WriteString("if " + text(ifs.Cond) + " " + text(ifs.Body))
	if ifs.Else != nil {
		b.WriteString(" else " + text(ifs.Else))
	}
	ci.text = b.String()
	return ci
}

type insertion struct {
	stmt       ast.Stmt  // the statement the call belongs to
	at         token.Pos // where the pre-text goes
	open       string    // text before the pre-text (a `{` when an else-if had to be opened)
	close      string    // text after the statement
	dropStmt   bool      // the statement is just the call
	literalize bool
	next       ast.Stmt // the statement that follows stmt in its list (nil if none)
}

// hoistPoint decides whether call can be evaluated in front of its statement without changing the order
// of evaluation, and where.
func hoistPoint(stack []ast.Node, call *ast.CallExpr, info *types.Info, pure bool) *insertion {
	// innermost statement that is an element of a statement list (or an else-if, which is opened into a block)
	idx := -1
	for i := len(stack) - 1; i > 0 && idx < 0; i-- {
		s, ok := stack[i].(ast.Stmt)
		if !ok {
			continue
		}
		switch p := stack[i-1].(type) {
		case *ast.BlockStmt:
			idx = i
		case *ast.CaseClause:
			idx = i
		case *ast.CommClause:
			if p.Comm == s {
				return nil
			}
			idx = i
		case *ast.LabeledStmt:
			return nil // a label must stay on its statement
		case *ast.IfStmt:
			if p.Else == s {
				if _, isIf := s.(*ast.IfStmt); isIf {
					idx = i
				}
			}
		}
	}
	if idx < 0 {
		return nil
	}
	stmt := stack[idx].(ast.Stmt)
	// a FuncLit between the statement and the call means the call belongs to an inner statement list — the loop
	// above already picked the innermost list element, so no literal can be in between
	for i := idx + 1; i < len(stack); i++ {
		if _, isLit := stack[i].(*ast.FuncLit); isLit {
			return nil
		}
	}
	ins := &insertion{stmt: stmt, at: stmt.Pos()}
	var list []ast.Stmt
	switch p := stack[idx-1].(type) {
	case *ast.BlockStmt:
		list = p.List
	case *ast.CaseClause:
		list = p.Body
	case *ast.CommClause:
		list = p.Body
	}
	for i, x := range list {
		if x == stmt && i+1 < len(list) {
			ins.next = list[i+1]
		}
	}
	if p, ok := stack[idx-1].(*ast.IfStmt); ok && p.Else == stmt {
		ins.open, ins.close = "{ ", " }"
	}
	// where in the statement may the call sit?
	var roots []ast.Node // expressions evaluated first, in order, before anything else of the statement
	switch s := stmt.(type) {
	case *ast.ExprStmt:
		if s.X == call {
			ins.dropStmt = true
			return ins
		}
		roots = []ast.Node{s.X}
	case *ast.AssignStmt:
		for _, l := range s.Lhs {
			roots = append(roots, l)
		}
		for _, r := range s.Rhs {
			roots = append(roots, r)
		}
	case *ast.ReturnStmt:
		for _, r := range s.Results {
			roots = append(roots, r)
		}
	case *ast.DeclStmt:
		gd, ok := s.Decl.(*ast.GenDecl)
		if !ok || gd.Tok != token.VAR || len(gd.Specs) != 1 {
			return nil
		}
		for _, v := range gd.Specs[0].(*ast.ValueSpec).Values {
			roots = append(roots, v)
		}
	case *ast.IfStmt:
		// with an Init statement only the Init may hold the call (the condition may use what Init declares)
		if s.Init != nil {
			roots = append(roots, s.Init)
		} else {
			roots = append(roots, s.Cond)
		}
	case *ast.SwitchStmt:
		if s.Init != nil {
			roots = append(roots, s.Init)
		} else if s.Tag != nil {
			roots = append(roots, s.Tag)
		}
	case *ast.RangeStmt:
		roots = []ast.Node{s.X}
	case *ast.SendStmt:
		roots = []ast.Node{s.Chan, s.Value}
	case *ast.DeferStmt:
		if s.Call == call {
			ins.literalize = true
			return ins
		}
		roots = []ast.Node{s.Call.Fun}
		for _, a := range s.Call.Args {
			roots = append(roots, a)
		}
	case *ast.GoStmt:
		if s.Call == call {
			ins.literalize = true
			return ins
		}
		roots = []ast.Node{s.Call.Fun}
		for _, a := range s.Call.Args {
			roots = append(roots, a)
		}
	case *ast.ForStmt:
		if s.Init == nil {
			return nil
		}
		roots = []ast.Node{s.Init}
	default:
		return nil
	}
	inRoots := false
	for _, r := range roots {
		if r != nil && r.Pos() <= call.Pos() && call.End() <= r.End() {
			inRoots = true
		}
	}
	if !inRoots {
		return nil
	}
	// nothing that is evaluated before the call may have an effect: no other call to its left, not under the
	// right operand of && / ||, not inside a nested statement (an Init statement is fine)
	okk := true
	for i := idx + 1; i < len(stack); i++ {
		if b, isBin := stack[i].(*ast.BinaryExpr); isBin && (b.Op == token.LAND || b.Op == token.LOR) {
			if b.Y.Pos() <= call.Pos() && call.End() <= b.Y.End() && !pure {
				okk = false // (a callee without effects may be evaluated although the left operand decides)
			}
		}
		switch stack[i].(type) {
		case *ast.BlockStmt, *ast.CaseClause, *ast.CommClause, *ast.FuncLit:
			okk = false
		}
	}
	for _, r := range roots {
		if r == nil {
			continue
		}
		ast.Inspect(r, func(n ast.Node) bool {
			if n == nil {
				return false
			}
			if _, isLit := n.(*ast.FuncLit); isLit {
				return false
			}
			if n.Pos() >= call.Pos() && n.End() <= call.End() {
				return false // part of the call itself
			}
			switch x := n.(type) {
			case *ast.CallExpr:
				if x.Pos() < call.Pos() && !(x.Pos() <= call.Pos() && call.End() <= x.End()) {
					// a conversion or a builtin without effects is harmless only for idents; stay conservative
					if tv, ok := info.Types[x.Fun]; ok && tv.IsType() {
						return true
					}
					if !pure {
						okk = false
					}
				}
			case *ast.UnaryExpr:
				if x.Op == token.ARROW && x.Pos() < call.Pos() {
					okk = false
				}
			}
			return true
		})
	}
	if !okk {
		return nil
	}
	return ins
}

func idxOf(stack []ast.Node, n ast.Node) int {
	for i, x := range stack {
		if x == n {
			return i
		}
	}
	return -1
}
