package core

// SSA normalisation: returns through a result variable.
//
//	res := A; if c { res = B }; return res      and      if c { return B }; return A
//
// are the same function, but go/ssa gives the first a single `return φ(A, B)` and the second two
// returns. Every rule that asks "what is returned on this path" is written for the second shape, so
// after building the SSA the loader duplicates a return block that consists only of φ-nodes (plus
// rundefers) into each predecessor that jumps to it unconditionally: the predecessor's jump becomes
// `return <its φ operands>`. go/ssa's instruction types have unexported position/block fields; they are
// set through reflection. Only edges are removed (never added), so the dominator numbering of the
// remaining blocks stays valid.

import (
	"go/token"
	"reflect"
	"unsafe"

	"golang.org/x/tools/go/ssa"
)

func setUnexported(obj any, path []string, val any) {
	v := reflect.ValueOf(obj).Elem()
	for _, p := range path {
		v = v.FieldByName(p)
	}
	reflect.NewAt(v.Type(), unsafe.Pointer(v.UnsafeAddr())).Elem().Set(reflect.ValueOf(val))
}

func newReturn(b *ssa.BasicBlock, results []ssa.Value, pos token.Pos) *ssa.Return {
	r := &ssa.Return{Results: results}
	setUnexported(r, []string{"anInstruction", "block"}, b)
	setUnexported(r, []string{"pos"}, pos)
	return r
}

func newRunDefers(b *ssa.BasicBlock) *ssa.RunDefers {
	r := &ssa.RunDefers{}
	setUnexported(r, []string{"anInstruction", "block"}, b)
	return r
}

func removeReferrer(v ssa.Value, in ssa.Instruction) {
	refs := v.Referrers()
	if refs == nil {
		return
	}
	for i, r := range *refs {
		if r == in {
			*refs = append((*refs)[:i], (*refs)[i+1:]...)
			return
		}
	}
}

func addReferrer(v ssa.Value, in ssa.Instruction) {
	if refs := v.Referrers(); refs != nil {
		*refs = append(*refs, in)
	}
}

// splitReturns applies the transformation to fn until nothing changes; returns the number of returns created.
func splitReturns(fn *ssa.Function) int {
	created := 0
	for iter := 0; iter < 8; iter++ {
		changed := false
		for _, b := range fn.Blocks {
			if len(b.Instrs) == 0 || len(b.Preds) < 2 {
				continue
			}
			ret, ok := b.Instrs[len(b.Instrs)-1].(*ssa.Return)
			if !ok {
				continue
			}
			phis := map[*ssa.Phi]bool{}
			hasRunDefers := false
			shape := true
			for _, in := range b.Instrs[:len(b.Instrs)-1] {
				switch x := in.(type) {
				case *ssa.Phi:
					phis[x] = true
				case *ssa.RunDefers:
					hasRunDefers = true
				default:
					shape = false
				}
			}
			if !shape || len(phis) == 0 {
				continue
			}
			// the φ values are used by the return only
			for p := range phis {
				for _, r := range *p.Referrers() {
					if r != ssa.Instruction(ret) {
						shape = false
					}
				}
			}
			if !shape {
				continue
			}
			for i := len(b.Preds) - 1; i >= 0; i-- {
				if len(b.Preds) < 2 {
					break // the last predecessor keeps the original return
				}
				p := b.Preds[i]
				if len(p.Instrs) == 0 || p == b {
					continue
				}
				var res []ssa.Value
				for _, r := range ret.Results {
					if ph, ok := r.(*ssa.Phi); ok && phis[ph] {
						res = append(res, ph.Edges[i])
					} else {
						res = append(res, r)
					}
				}
				var nr *ssa.Return
				switch p.Instrs[len(p.Instrs)-1].(type) {
				case *ssa.Jump:
					if len(p.Succs) != 1 {
						continue
					}
					nr = newReturn(p, res, ret.Pos())
					p.Instrs = p.Instrs[:len(p.Instrs)-1]
					if hasRunDefers {
						p.Instrs = append(p.Instrs, newRunDefers(p))
					}
					p.Instrs = append(p.Instrs, nr)
					p.Succs = nil
				case *ssa.If:
					// the edge gets a block of its own that holds the return
					occ := 0
					for j := 0; j < i; j++ {
						if b.Preds[j] == p {
							occ++
						}
					}
					k := -1
					for j, sc := range p.Succs {
						if sc == b {
							if occ == 0 {
								k = j
								break
							}
							occ--
						}
					}
					if k < 0 {
						continue
					}
					nb := &ssa.BasicBlock{Index: len(fn.Blocks), Comment: "split.return", Preds: []*ssa.BasicBlock{p}}
					setUnexported(nb, []string{"parent"}, fn)
					nr = newReturn(nb, res, ret.Pos())
					if hasRunDefers {
						nb.Instrs = append(nb.Instrs, newRunDefers(nb))
					}
					nb.Instrs = append(nb.Instrs, nr)
					p.Succs[k] = nb
					fn.Blocks = append(fn.Blocks, nb)
				default:
					continue
				}
				for _, v := range res {
					addReferrer(v, nr)
				}
				for ph := range phis {
					removeReferrer(ph.Edges[i], ph)
					ph.Edges = append(ph.Edges[:i:i], ph.Edges[i+1:]...)
				}
				b.Preds = append(b.Preds[:i:i], b.Preds[i+1:]...)
				created++
				changed = true
			}
			// one predecessor left: its φ-nodes are plain copies
			if len(b.Preds) == 1 && changed {
				for j, r := range ret.Results {
					if ph, ok := r.(*ssa.Phi); ok && phis[ph] && len(ph.Edges) == 1 {
						ret.Results[j] = ph.Edges[0]
						addReferrer(ph.Edges[0], ret)
					}
				}
				var keep []ssa.Instruction
				for _, in := range b.Instrs {
					if ph, ok := in.(*ssa.Phi); ok && phis[ph] && len(ph.Edges) == 1 {
						removeReferrer(ph.Edges[0], ph)
						continue
					}
					keep = append(keep, in)
				}
				b.Instrs = keep
			}
		}
		if !changed {
			break
		}
	}
	return created
}
