// Package core: loading of /repo into type-checked syntax + SSA, anchors, and the
// analysis primitives (path queries, provenance, effects) the rule files are written with.
package core

import (
	"sync"
	"fmt"
	"go/ast"
	"go/token"
	"go/types"
	"os"
	"regexp"
	"sort"
	"strconv"
	"strings"

	"golang.org/x/tools/go/packages"
	"golang.org/x/tools/go/ssa"
	"golang.org/x/tools/go/ssa/ssautil"
)

const ModPath = "github.com/tikv/client-go/v2"

// Prog is the resolved program: every package of the module under RepoDir.
type Prog struct {
	RepoDir string
	Fset    *token.FileSet
	Pkgs    []*packages.Package
	ByPath  map[string]*packages.Package
	SSA     *ssa.Program
	SSAPkgs map[string]*ssa.Package
	// Funcs: every function with a body that belongs to a module package, including
	// anonymous functions (closures) and methods; sorted by position.
	Funcs []*ssa.Function
	Files int
	// Notes: what the loader did besides loading (name normalisation), printed with every report.
	Notes []string
	// SplitReturns: returns created by the SSA normalisation (see ssanorm.go)
	SplitReturns int

	fieldWriters map[*types.Var][]Writer
	callers      map[*ssa.Function][]CallSite
	invokeSites  []CallSite
}

// Load type-checks ./... under dir (default build configuration unless tags is set) and
// builds SSA for all module packages. overlay maps absolute file names to replacement
// contents (used by the self-test to analyse seeded variants without touching the disk).
func Load(dir string, overlay map[string][]byte, tags string) (*Prog, error) {
	pkgs, err := loadPkgs(dir, overlay, tags)
	if err != nil {
		return nil, err
	}
	var notes []string
	if ref := LoadRef(); ref != nil && os.Getenv("SA_NO_NORMALIZE") == "" {
		cur := overlay
		debugDump := func(ov map[string][]byte) {
			if os.Getenv("SA_INLINE_DEBUG") != "" {
				for f, b := range ov {
					os.WriteFile("/tmp/sa_inline_debug_"+strings.ReplaceAll(strings.TrimPrefix(f, dir+"/"), "/", "_"), b, 0o644)
				}
			}
		}
		// (1) renames
		if renames := inferRenames(ref, DeclTable(pkgs)); len(renames) > 0 {
			ov2, err := renameOverlay(pkgs, renames, cur)
			if err == nil && ov2 != nil {
				if pkgs2, err2 := loadPkgs(dir, ov2, tags); err2 == nil {
					pkgs, cur = pkgs2, ov2
					for _, rn := range renames {
						notes = append(notes, "normalised (inferred rename, old name substituted for the analysis): "+rn.String())
					}
				} else {
					debugDump(ov2)
					notes = append(notes, "rename normalisation abandoned: "+err2.Error())
				}
			}
		}
		// (2) method <-> function
		if convs := inferConversions(ref, DeclTable(pkgs)); len(convs) > 0 {
			if ov2, n2 := convertOverlay(pkgs, convs, cur); ov2 != nil {
				if pkgs2, err2 := loadPkgs(dir, ov2, tags); err2 == nil {
					pkgs, cur = pkgs2, ov2
					notes = append(notes, n2...)
				} else {
					debugDump(ov2)
					notes = append(notes, "method/function normalisation abandoned: "+err2.Error())
				}
			}
		}
		// (3) functions the pinned tree does not have
		for pass := 1; pass <= 4 && os.Getenv("SA_NO_INLINE") == ""; pass++ {
			ov2, n2, changed := inlinePass(ref, pkgs, cur, pass)
			if !changed {
				break
			}
			pkgs2, err2 := loadPkgs(dir, ov2, tags)
			for retry := 0; err2 != nil && retry < 3; retry++ {
				// an import whose only user was a dropped function: blank it and try again
				ov3, fixed := blankUnusedImports(dir, ov2, err2.Error())
				if !fixed {
					break
				}
				ov2 = ov3
				pkgs2, err2 = loadPkgs(dir, ov2, tags)
			}
			if err2 != nil {
				debugDump(ov2)
				notes = append(notes, "inlining of functions unknown to the pinned tree abandoned in pass "+fmt.Sprint(pass)+": "+err2.Error())
				break
			}
			pkgs, cur = pkgs2, ov2
			notes = append(notes, n2...)
		}
		if os.Getenv("SA_INLINE_DUMP") != "" {
			for f, b := range cur {
				os.WriteFile("/tmp/sa_inline_dump_"+strings.ReplaceAll(strings.TrimPrefix(f, dir+"/"), "/", "_"), b, 0o644)
			}
		}
	}
	p, err := build(dir, pkgs)
	if p != nil {
		p.Notes = notes
	}
	return p, err
}

var unusedImportRe = regexp.MustCompile(`(/[^\s:;]+\.go):(\d+):(\d+): "[^"]+" imported (as \S+ )?and not used`)

// blankUnusedImports turns the imports named in "imported and not used" errors into blank imports.
func blankUnusedImports(dir string, ov map[string][]byte, msg string) (map[string][]byte, bool) {
	ms := unusedImportRe.FindAllStringSubmatch(msg, -1)
	if len(ms) == 0 {
		return nil, false
	}
	out := map[string][]byte{}
	for k, v := range ov {
		out[k] = v
	}
	fixed := false
	for _, m := range ms {
		file := m[1]
		src, ok := out[file]
		if !ok {
			continue
		}
		ln, _ := strconv.Atoi(m[2])
		col, _ := strconv.Atoi(m[3])
		lines := strings.SplitAfter(string(src), "\n")
		if ln < 1 || ln > len(lines) || col < 1 || col > len(lines[ln-1]) {
			continue
		}
		l := lines[ln-1]
		rest := l[col-1:]
		q := strings.Index(rest, "\"")
		if q < 0 {
			continue
		}
		// `name "path"` or `"path"` at col: replace the name (if any) by _
		lines[ln-1] = l[:col-1] + "_ " + rest[q:]
		out[file] = []byte(strings.Join(lines, ""))
		fixed = true
	}
	return out, fixed
}

func loadPkgs(dir string, overlay map[string][]byte, tags string) ([]*packages.Package, error) {
	os.Unsetenv("GOWORK")
	env := append(os.Environ(), "GOFLAGS=-mod=mod", "GOPROXY=off", "GOWORK=off")
	cfg := &packages.Config{
		Mode: packages.NeedName | packages.NeedFiles | packages.NeedCompiledGoFiles | packages.NeedImports |
			packages.NeedDeps | packages.NeedTypes | packages.NeedSyntax | packages.NeedTypesInfo | packages.NeedTypesSizes,
		Dir:     dir,
		Env:     env,
		Overlay: overlay,
		Tests:   false,
	}
	if tags != "" {
		cfg.BuildFlags = []string{"-tags=" + tags}
	}
	pkgs, err := packages.Load(cfg, "./...")
	if err != nil {
		return nil, fmt.Errorf("load: %w", err)
	}
	if len(pkgs) == 0 {
		return nil, fmt.Errorf("load: no packages under %s", dir)
	}
	var errs []string
	packages.Visit(pkgs, nil, func(p *packages.Package) {
		for _, e := range p.Errors {
			errs = append(errs, e.Error())
		}
	})
	if len(errs) > 0 {
		if len(errs) > 8 {
			errs = errs[:8]
		}
		return nil, fmt.Errorf("load: type/parse errors: %s", strings.Join(errs, "; "))
	}
	return pkgs, nil
}

func build(dir string, pkgs []*packages.Package) (*Prog, error) {
	p := &Prog{RepoDir: dir, Pkgs: pkgs, ByPath: map[string]*packages.Package{}, SSAPkgs: map[string]*ssa.Package{}}
	for _, pk := range pkgs {
		p.ByPath[pk.PkgPath] = pk
		p.Fset = pk.Fset
		p.Files += len(pk.Syntax)
	}
	prog, spkgs := ssautil.AllPackages(pkgs, ssa.InstantiateGenerics)
	prog.Build()
	p.SSA = prog
	for i, sp := range spkgs {
		if sp == nil {
			return nil, fmt.Errorf("load: no SSA for %s", pkgs[i].PkgPath)
		}
		p.SSAPkgs[pkgs[i].PkgPath] = sp
	}
	// collect functions
	seen := map[*ssa.Function]bool{}
	var add func(f *ssa.Function)
	add = func(f *ssa.Function) {
		if f == nil || seen[f] || f.Blocks == nil {
			return
		}
		seen[f] = true
		if os.Getenv("SA_NO_SSANORM") == "" {
			p.SplitReturns += splitReturns(f)
		}
		p.Funcs = append(p.Funcs, f)
		for _, a := range f.AnonFuncs {
			add(a)
		}
	}
	for _, sp := range spkgs {
		for _, m := range sp.Members {
			switch m := m.(type) {
			case *ssa.Function:
				add(m)
			case *ssa.Type:
				// methods declared on the named type, including methods of generic types (whose
				// uninstantiated method sets are empty)
				if named, ok := m.Type().(*types.Named); ok {
					for i := 0; i < named.NumMethods(); i++ {
						if fn := prog.FuncValue(named.Method(i)); fn != nil {
							add(fn)
						}
					}
				}
				for _, t := range []types.Type{m.Type(), types.NewPointer(m.Type())} {
					ms := prog.MethodSets.MethodSet(t)
					for i := 0; i < ms.Len(); i++ {
						fn := prog.MethodValue(ms.At(i))
						if fn != nil && fn.Pkg == sp && fn.Synthetic == "" {
							add(fn)
						}
					}
				}
			}
		}
	}
	if ref := LoadRef(); ref != nil {
		for tf := range newFuncs(ref, pkgs) {
			if sf := prog.FuncValue(tf); sf != nil {
				unknownFuncsMu.Lock()
				unknownFuncs[sf] = true
				unknownFuncsMu.Unlock()
			}
		}
	}
	sort.Slice(p.Funcs, func(i, j int) bool {
		a, b := p.Funcs[i], p.Funcs[j]
		if a.Pos() != b.Pos() {
			return a.Pos() < b.Pos()
		}
		return a.String() < b.String()
	})
	return p, nil
}

// Pos renders a position relative to the repository root.
func (p *Prog) Pos(pos token.Pos) string {
	if !pos.IsValid() {
		return "?"
	}
	ps := p.Fset.Position(pos)
	f := strings.TrimPrefix(ps.Filename, p.RepoDir+"/")
	return fmt.Sprintf("%s:%d", f, ps.Line)
}

// InstrPos returns the best position for an instruction (some have NoPos).
func (p *Prog) InstrPos(in ssa.Instruction) string {
	if in == nil {
		return "?"
	}
	if in.Pos().IsValid() {
		return p.Pos(in.Pos())
	}
	// fall back to operand / block neighbours
	if v, ok := in.(ssa.Value); ok {
		_ = v
	}
	b := in.Block()
	if b != nil {
		for _, x := range b.Instrs {
			if x.Pos().IsValid() {
				return p.Pos(x.Pos()) + "~"
			}
		}
		return p.Pos(b.Parent().Pos()) + "~"
	}
	return "?"
}

// Pkg returns the SSA package with the module-relative path rel ("" = module root).
func (p *Prog) Pkg(rel string) *ssa.Package {
	path := ModPath
	if rel != "" {
		path += "/" + rel
	}
	return p.SSAPkgs[path]
}

// Func resolves an anchor: module-relative package path, receiver type name ("" for a
// package-level function) and name. Returns nil when not found (callers report UNDECIDED).
func (p *Prog) Func(rel, recv, name string) *ssa.Function {
	sp := p.Pkg(rel)
	if sp == nil {
		return nil
	}
	if recv == "" {
		return sp.Func(name)
	}
	tm, ok := sp.Members[recv].(*ssa.Type)
	if !ok {
		return nil
	}
	if named, ok := tm.Type().(*types.Named); ok {
		for i := 0; i < named.NumMethods(); i++ {
			if named.Method(i).Name() == name {
				if fn := p.SSA.FuncValue(named.Method(i)); fn != nil {
					return fn
				}
			}
		}
	}
	for _, t := range []types.Type{types.NewPointer(tm.Type()), tm.Type()} {
		sel := p.SSA.MethodSets.MethodSet(t).Lookup(sp.Pkg, name)
		if sel != nil {
			fn := p.SSA.MethodValue(sel)
			if fn != nil {
				// unwrap promoted-method wrappers
				if fn.Synthetic != "" {
					if obj, ok := sel.Obj().(*types.Func); ok {
						if real := p.SSA.FuncValue(obj); real != nil {
							return real
						}
					}
				}
				return fn
			}
		}
	}
	return nil
}

// Named returns the named type rel.name of the module, or nil.
func (p *Prog) Named(rel, name string) *types.Named {
	sp := p.Pkg(rel)
	if sp == nil {
		return nil
	}
	tm, ok := sp.Members[name].(*ssa.Type)
	if !ok {
		return nil
	}
	n, _ := tm.Type().(*types.Named)
	return n
}

// ExtNamed looks up a named type in any loaded (possibly external) package by full path.
func (p *Prog) ExtNamed(pkgPath, name string) *types.Named {
	var found *types.Named
	packages.Visit(p.Pkgs, func(pk *packages.Package) bool { return found == nil }, func(pk *packages.Package) {
		if found != nil || pk.PkgPath != pkgPath || pk.Types == nil {
			return
		}
		if o := pk.Types.Scope().Lookup(name); o != nil {
			if n, ok := o.Type().(*types.Named); ok {
				found = n
			}
		}
	})
	return found
}

// ExtFunc looks up a package-level function object in any loaded package.
func (p *Prog) ExtFunc(pkgPath, name string) *types.Func {
	var found *types.Func
	packages.Visit(p.Pkgs, func(pk *packages.Package) bool { return found == nil }, func(pk *packages.Package) {
		if found != nil || pk.PkgPath != pkgPath || pk.Types == nil {
			return
		}
		if o, ok := pk.Types.Scope().Lookup(name).(*types.Func); ok {
			found = o
		}
	})
	return found
}

// Field returns the *types.Var of field path "a.b.c" starting at named struct type n
// (following embedded/nested anonymous struct types and pointers).
func Field(n *types.Named, path string) *types.Var {
	if n == nil {
		return nil
	}
	var t types.Type = n
	var v *types.Var
	for _, part := range strings.Split(path, ".") {
		st := structOf(t)
		if st == nil {
			return nil
		}
		v = nil
		for i := 0; i < st.NumFields(); i++ {
			if st.Field(i).Name() == part {
				v = st.Field(i)
				break
			}
		}
		if v == nil {
			return nil
		}
		t = v.Type()
	}
	return v
}

func structOf(t types.Type) *types.Struct {
	for {
		switch u := t.Underlying().(type) {
		case *types.Pointer:
			t = u.Elem()
			continue
		case *types.Struct:
			return u
		}
		return nil
	}
}

// InModule reports whether fn belongs to a package of the analysed module.
func (p *Prog) InModule(fn *ssa.Function) bool {
	if fn == nil {
		return false
	}
	pk := fn.Pkg
	for f := fn; pk == nil && f != nil; f = f.Parent() {
		pk = f.Pkg
	}
	if pk == nil && fn.Origin() != nil {
		pk = fn.Origin().Pkg
	}
	if pk == nil {
		return false
	}
	_, ok := p.SSAPkgs[pk.Pkg.Path()]
	return ok
}

// unknownFuncs: functions of the loaded programs that the reference table of the pinned tree does not have
// (after normalisation: those that could not be inlined).
var (
	unknownFuncs   = map[*ssa.Function]bool{}
	unknownFuncsMu sync.RWMutex
)

// ForgetProgram removes a program's functions from the process-wide tables.
func ForgetProgram(p *Prog) {
	if p == nil {
		return
	}
	unknownFuncsMu.Lock()
	for _, f := range p.Funcs {
		delete(unknownFuncs, f)
	}
	unknownFuncsMu.Unlock()
}

func hasUnknownFuncs() bool {
	unknownFuncsMu.RLock()
	defer unknownFuncsMu.RUnlock()
	return len(unknownFuncs) > 0
}

func isUnknownFunc(f *ssa.Function) bool {
	unknownFuncsMu.RLock()
	defer unknownFuncsMu.RUnlock()
	return unknownFuncs[f]
}

// FuncsIn returns fn and all anonymous functions nested in it.
func FuncsIn(fn *ssa.Function) []*ssa.Function {
	var out []*ssa.Function
	seen := map[*ssa.Function]bool{}
	var rec func(f *ssa.Function)
	rec = func(f *ssa.Function) {
		if seen[f] {
			return
		}
		seen[f] = true
		out = append(out, f)
		for _, a := range f.AnonFuncs {
			rec(a)
		}
		// functions the pinned tree does not have and that could not be inlined (recursive ...) belong to
		// the function that calls them
		if hasUnknownFuncs() {
			for _, b := range f.Blocks {
				for _, in := range b.Instrs {
					if ci, ok := in.(ssa.CallInstruction); ok {
						if g := ci.Common().StaticCallee(); g != nil && isUnknownFunc(g) && g.Blocks != nil {
							rec(g)
						}
					}
					if mc, ok := in.(*ssa.MakeClosure); ok {
						if g, ok := mc.Fn.(*ssa.Function); ok && isUnknownFunc(g) {
							rec(g)
						}
					}
				}
			}
		}
	}
	if fn != nil {
		rec(fn)
	}
	return out
}

// FuncName is a stable, position-free name of a function (closures get parent$N).
func FuncName(fn *ssa.Function) string {
	if fn == nil {
		return "<nil>"
	}
	s := fn.String()
	return strings.ReplaceAll(s, ModPath+"/", "")
}

// FileOf returns the syntax file containing pos.
func (p *Prog) FileOf(pos token.Pos) *ast.File {
	for _, pk := range p.Pkgs {
		for _, f := range pk.Syntax {
			if f.FileStart <= pos && pos < f.FileEnd {
				return f
			}
		}
	}
	return nil
}

// ExtConst looks up a package-level constant in any loaded package.
func (p *Prog) ExtConst(pkgPath, name string) *types.Const {
	var found *types.Const
	packages.Visit(p.Pkgs, func(pk *packages.Package) bool { return found == nil }, func(pk *packages.Package) {
		if found != nil || pk.PkgPath != pkgPath || pk.Types == nil {
			return
		}
		if o, ok := pk.Types.Scope().Lookup(name).(*types.Const); ok {
			found = o
		}
	})
	return found
}
