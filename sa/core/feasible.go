package core

import (
	"sync"

	"golang.org/x/tools/go/ssa"
)

var feasMu sync.Mutex
var feasCache = map[*ssa.Function]map[*ssa.BasicBlock]bool{}

// FeasibleBlocks: blocks reachable from entry when production-infeasible failpoint edges
// are pruned.
func FeasibleBlocks(fn *ssa.Function) map[*ssa.BasicBlock]bool {
	feasMu.Lock()
	defer feasMu.Unlock()
	if m, ok := feasCache[fn]; ok {
		return m
	}
	m := map[*ssa.BasicBlock]bool{}
	if len(fn.Blocks) > 0 {
		work := []*ssa.BasicBlock{fn.Blocks[0]}
		m[fn.Blocks[0]] = true
		for len(work) > 0 {
			b := work[len(work)-1]
			work = work[:len(work)-1]
			ifi, isIf := b.Instrs[len(b.Instrs)-1].(*ssa.If)
			for k, s := range b.Succs {
				if isIf && IsFailpointEdgeInfeasible(Edge{If: ifi, True: k == 0}) {
					continue
				}
				if !m[s] {
					m[s] = true
					work = append(work, s)
				}
			}
		}
		if fn.Recover != nil {
			m[fn.Recover] = true
		}
	}
	feasCache[fn] = m
	return m
}

// Feasible: is the instruction in a block reachable without failpoints.
func Feasible(in ssa.Instruction) bool {
	b := in.Block()
	if b == nil {
		return true
	}
	return FeasibleBlocks(b.Parent())[b]
}

// FeasibleEdgeInto: is the control edge pred->b feasible (pred feasible and not a pruned
// failpoint edge).
func FeasibleEdgeInto(b *ssa.BasicBlock, predIdx int) bool {
	p := b.Preds[predIdx]
	if !FeasibleBlocks(b.Parent())[p] {
		return false
	}
	if ifi, ok := p.Instrs[len(p.Instrs)-1].(*ssa.If); ok {
		// which successor index of p is b (first occurrence matching predIdx order)
		for k, s := range p.Succs {
			if s == b {
				if IsFailpointEdgeInfeasible(Edge{If: ifi, True: k == 0}) {
					// both succs might be b; only prune if the other isn't b
					other := p.Succs[1-k]
					if other != b {
						return false
					}
				}
				break
			}
		}
	}
	return true
}
