package core

import (
	"fmt"
	"go/constant"
	"go/token"
	"sort"
	"strings"

	"golang.org/x/tools/go/ssa"
)

// Canonical atoms: a branch condition rendered as a position-free, name-free string over
// the provenance grammar, so that rule tables can name guards ("T:(fld(replica.attempts,x) <
// param#0)"). Comparisons are normalised to "==" and "<": a>b ≡ b<a, a>=b ≡ ¬(a<b),
// a<=b ≡ ¬(b<a), a!=b ≡ ¬(a==b); operands of == are ordered lexicographically.

// CanonAtom returns the canonical string of a (Not-stripped) condition value and whether the
// canonical atom is the negation of the value.
func (p *Prog) CanonAtom(v ssa.Value) (string, bool) {
	pv := p.Prov()
	pv.MaxDepth = 5
	d := func(x ssa.Value) string { return strings.Join(pv.Desc(x), "|") }
	if b, ok := v.(*ssa.BinOp); ok {
		x, y := d(b.X), d(b.Y)
		// integer comparison with a constant: one normal form "(X < const(K))" so that
		// x > 0, x >= 1, 0 < x and 1 <= x (and their negations) are the same atom
		if k, ok := intConst(b.Y); ok {
			switch b.Op {
			case token.LSS:
				return fmt.Sprintf("(%s < const(%d))", x, k), false
			case token.GEQ:
				return fmt.Sprintf("(%s < const(%d))", x, k), true
			case token.LEQ:
				return fmt.Sprintf("(%s < const(%d))", x, k+1), false
			case token.GTR:
				return fmt.Sprintf("(%s < const(%d))", x, k+1), true
			}
		} else if k, ok := intConst(b.X); ok {
			switch b.Op {
			case token.GTR: // K > y ≡ y < K
				return fmt.Sprintf("(%s < const(%d))", y, k), false
			case token.LEQ: // K <= y ≡ ¬(y < K)
				return fmt.Sprintf("(%s < const(%d))", y, k), true
			case token.GEQ: // K >= y ≡ y < K+1
				return fmt.Sprintf("(%s < const(%d))", y, k+1), false
			case token.LSS: // K < y ≡ ¬(y < K+1)
				return fmt.Sprintf("(%s < const(%d))", y, k+1), true
			}
		}
		switch b.Op {
		case token.EQL, token.NEQ:
			if x > y {
				x, y = y, x
			}
			return "(" + x + " == " + y + ")", b.Op == token.NEQ
		case token.LSS:
			return "(" + x + " < " + y + ")", false
		case token.GEQ:
			return "(" + x + " < " + y + ")", true
		case token.GTR:
			return "(" + y + " < " + x + ")", false
		case token.LEQ:
			return "(" + y + " < " + x + ")", true
		}
	}
	return d(v), false
}

// EdgeAtom renders the fact established on an edge: "T:atom" or "F:atom".
func (p *Prog) EdgeAtom(e Edge) string {
	v, neg := e.Cond()
	s, flip := p.CanonAtom(v)
	val := e.True != neg // value of v on this edge
	if flip {
		val = !val
	}
	if val {
		return "T:" + s
	}
	return "F:" + s
}

// DominatingAtoms lists the facts that hold on every feasible path from entry to `at`
// (each If edge whose deletion makes `at` unreachable), in canonical form, sorted.
func (p *Prog) DominatingAtoms(fn *ssa.Function, at ssa.Instruction) []string {
	set := map[string]bool{}
	// candidate edges: every If edge of the function
	for _, b := range fn.Blocks {
		ifi, ok := b.Instrs[len(b.Instrs)-1].(*ssa.If)
		if !ok {
			continue
		}
		for k := 0; k < 2; k++ {
			e := Edge{If: ifi, True: k == 0}
			if IsFailpointEdgeInfeasible(e) {
				continue
			}
			atom := p.EdgeAtom(e)
			if set[atom] {
				continue
			}
			q := &Q{Fn: fn, NoEdge: func(x Edge) bool { return p.EdgeAtom(x) == atom }}
			found, _, _ := q.Reach(nil, func(in ssa.Instruction) bool { return in == at })
			if !found {
				// only meaningful if `at` is reachable at all
				set[atom] = true
			}
		}
	}
	// unreachable targets dominate-by-everything: detect and clear
	q := &Q{Fn: fn}
	if found, _, _ := q.Reach(nil, func(in ssa.Instruction) bool { return in == at }); !found {
		return []string{"<unreachable>"}
	}
	out := make([]string, 0, len(set))
	for s := range set {
		out = append(out, s)
	}
	sort.Strings(out)
	return out
}

// GuardedByAtom: is `at` reachable only through an edge establishing the canonical fact.
func (p *Prog) GuardedByAtom(fn *ssa.Function, at ssa.Instruction, fact string) (bool, []Step) {
	q := &Q{Fn: fn, NoEdge: func(x Edge) bool { return matchFact(p.EdgeAtom(x), fact) }}
	found, w, _ := q.Reach(nil, func(in ssa.Instruction) bool { return in == at })
	return !found, w
}

// matchFact: fact may contain '*' wildcards.
func matchFact(atom, fact string) bool {
	if !strings.Contains(fact, "*") {
		return atom == fact
	}
	parts := strings.Split(fact, "*")
	if !strings.HasPrefix(atom, parts[0]) {
		return false
	}
	s := atom[len(parts[0]):]
	for i := 1; i < len(parts)-1; i++ {
		k := strings.Index(s, parts[i])
		if k < 0 {
			return false
		}
		s = s[k+len(parts[i]):]
	}
	return strings.HasSuffix(s, parts[len(parts)-1])
}

func intConst(v ssa.Value) (int64, bool) {
	c, ok := v.(*ssa.Const)
	if !ok || c.Value == nil || c.Value.Kind() != constant.Int {
		return 0, false
	}
	if k, exact := constant.Int64Val(c.Value); exact && k < 1<<62 && k > -(1<<62) {
		return k, true
	}
	return 0, false
}
