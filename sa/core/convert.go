package core

// Method <-> function normalisation. When an unexported method of the pinned tree has become a plain
// function taking the receiver as a parameter (or the reverse, possibly renamed at the same time), the
// loader restores the pinned form in the in-memory overlay: the declaration gets its receiver back and
// every call f(a, x, b) becomes (x).m(a, b) (respectively x.m(a, b) becomes f(a, x, b)). Like the rename
// normalisation this only identifies anchors; the bodies analysed are those of the tree under analysis.

import (
	"fmt"
	"go/ast"
	"go/types"
	"sort"
	"strings"

	"golang.org/x/tools/go/packages"
)

// splitTop splits s at top-level commas.
func splitTop(s string) []string {
	var out []string
	depth := 0
	start := 0
	for i, c := range s {
		switch c {
		case '(', '[', '{':
			depth++
		case ')', ']', '}':
			depth--
		case ',':
			if depth == 0 {
				out = append(out, strings.TrimSpace(s[start:i]))
				start = i + 1
			}
		}
	}
	if strings.TrimSpace(s[start:]) != "" {
		out = append(out, strings.TrimSpace(s[start:]))
	}
	return out
}

// parseSig splits "func(A, B)(R)" into parameter and result type strings.
func parseSig(s string) (params []string, results string, ok bool) {
	if !strings.HasPrefix(s, "func(") {
		return nil, "", false
	}
	depth := 0
	for i := 4; i < len(s); i++ {
		switch s[i] {
		case '(':
			depth++
		case ')':
			depth--
			if depth == 0 {
				return splitTop(s[5:i]), s[i+1:], true
			}
		}
	}
	return nil, "", false
}

type conversion struct {
	pkg       string
	toMethod  bool   // the tree has a function, the pinned tree a method
	recv      string // "*T" or "T"
	oldName   string // name in the pinned tree
	newName   string // name in the tree under analysis
	k         int    // index of the receiver among the function's parameters
	newRecv   string // for !toMethod: receiver of the method in the tree
	nParamsFn int
}

func inferConversions(ref, cur RefDecls) []conversion {
	var out []conversion
	var paths []string
	for p := range cur {
		paths = append(paths, p)
	}
	sort.Strings(paths)
	for _, path := range paths {
		c, r := cur[path], ref[path]
		if r == nil {
			continue
		}
		recvType := func(recv string) string {
			if strings.HasPrefix(recv, "*") {
				return "*" + path + "." + recv[1:]
			}
			return path + "." + recv
		}
		// candidate pairs
		type pair struct {
			methKey, fnKey string
			k              int
		}
		match := func(methods, funcs map[string]string) []pair {
			var ps []pair
			for mk, ms := range methods {
				recv, _ := splitKey(mk)
				if recv == "" {
					continue
				}
				mp, mr, ok := parseSig(ms)
				if !ok {
					continue
				}
				var found []pair
				for fk, fs := range funcs {
					if rc, _ := splitKey(fk); rc != "" {
						continue
					}
					fp, fr, ok := parseSig(fs)
					if !ok || fr != mr || len(fp) != len(mp)+1 {
						continue
					}
					for k := range fp {
						if fp[k] != recvType(recv) {
							continue
						}
						rest := append(append([]string(nil), fp[:k]...), fp[k+1:]...)
						if strings.Join(rest, ",") == strings.Join(mp, ",") {
							found = append(found, pair{mk, fk, k})
							break
						}
					}
				}
				if len(found) == 1 {
					ps = append(ps, found[0])
				}
			}
			// a function may be claimed once
			cnt := map[string]int{}
			for _, p := range ps {
				cnt[p.fnKey]++
			}
			var res []pair
			for _, p := range ps {
				if cnt[p.fnKey] == 1 {
					res = append(res, p)
				}
			}
			return res
		}
		missing, added := map[string]string{}, map[string]string{}
		for k, v := range r.Funcs {
			if _, ok := c.Funcs[k]; !ok {
				missing[k] = v
			}
		}
		for k, v := range c.Funcs {
			if _, ok := r.Funcs[k]; !ok {
				added[k] = v
			}
		}
		for _, p := range match(missing, added) { // pinned method, now a function
			recv, on := splitKey(p.methKey)
			_, nn := splitKey(p.fnKey)
			out = append(out, conversion{pkg: path, toMethod: true, recv: recv, oldName: on, newName: nn, k: p.k})
		}
		for _, p := range match(added, missing) { // pinned function, now a method
			recv, nn := splitKey(p.methKey)
			_, on := splitKey(p.fnKey)
			out = append(out, conversion{pkg: path, toMethod: false, newRecv: recv, oldName: on, newName: nn, k: p.k})
		}
	}
	return out
}

func (c conversion) String() string {
	if c.toMethod {
		return fmt.Sprintf("%s: function %s(…) is the pinned method (%s).%s", c.pkg, c.newName, c.recv, c.oldName)
	}
	return fmt.Sprintf("%s: method (%s).%s is the pinned function %s(…)", c.pkg, c.newRecv, c.newName, c.oldName)
}

// convertOverlay rewrites declarations and uses. Returns nil when a use cannot be rewritten.
func convertOverlay(pkgs []*packages.Package, convs []conversion, overlay map[string][]byte) (map[string][]byte, []string) {
	il := &inliner{pkgs: pkgs, overlay: overlay, src: map[string][]byte{}, files: map[string]*fileEdits{}}
	var notes []string
	byPath := map[string]*packages.Package{}
	for _, pk := range pkgs {
		byPath[pk.PkgPath] = pk
	}
	group := 0
	for _, cv := range convs {
		pk := byPath[cv.pkg]
		if pk == nil {
			continue
		}
		// the object in the tree
		var obj *types.Func
		if cv.toMethod {
			obj, _ = pk.Types.Scope().Lookup(cv.newName).(*types.Func)
		} else {
			tn, _ := pk.Types.Scope().Lookup(strings.TrimPrefix(cv.newRecv, "*")).(*types.TypeName)
			if tn != nil {
				if named, ok := tn.Type().(*types.Named); ok {
					for i := 0; i < named.NumMethods(); i++ {
						if named.Method(i).Name() == cv.newName {
							obj = named.Method(i)
						}
					}
				}
			}
		}
		if obj == nil {
			continue
		}
		// declaration
		var decl *ast.FuncDecl
		var declFile *ast.File
		for _, f := range pk.Syntax {
			for _, d := range f.Decls {
				if fd, ok := d.(*ast.FuncDecl); ok && pk.TypesInfo.Defs[fd.Name] == obj {
					decl, declFile = fd, f
				}
			}
		}
		if decl == nil || decl.Type.TypeParams != nil {
			continue
		}
		_ = declFile
		var edits []struct {
			file string
			e    textEdit
		}
		add := func(file string, off, end int, text string) {
			edits = append(edits, struct {
				file string
				e    textEdit
			}{file, textEdit{off, end, text, 0}})
		}
		okAll := true
		tf := pk.Fset.File(decl.Pos())
		src := il.source(tf.Name())
		txt := func(n ast.Node) string { return string(src[tf.Offset(n.Pos()):tf.Offset(n.End())]) }
		if cv.toMethod {
			// func g(p0, .., r *T, ..) -> func (r *T) m(p0, ..)
			idx := 0
			var fld *ast.Field
			fldIdx := -1
			for i, f := range decl.Type.Params.List {
				n := len(f.Names)
				if n == 0 {
					n = 1
				}
				if cv.k >= idx && cv.k < idx+n {
					fld, fldIdx = f, i
				}
				idx += n
			}
			if fld == nil || len(fld.Names) > 1 {
				continue
			}
			recvText := txt(fld)
			if len(fld.Names) == 0 {
				recvText = "_ " + recvText
			}
			// remove the field with one adjacent comma
			fs, fe := tf.Offset(fld.Pos()), tf.Offset(fld.End())
			if fldIdx+1 < len(decl.Type.Params.List) {
				fe = tf.Offset(decl.Type.Params.List[fldIdx+1].Pos())
			} else if fldIdx > 0 {
				fs = tf.Offset(decl.Type.Params.List[fldIdx-1].End())
			}
			add(tf.Name(), fs, fe, "")
			add(tf.Name(), tf.Offset(decl.Name.Pos()), tf.Offset(decl.Name.End()), "("+recvText+") "+cv.oldName)
		} else {
			// func (r *T) m(p..) -> func f(p0, .., r *T, ..)
			if decl.Recv == nil || len(decl.Recv.List) != 1 || len(decl.Recv.List[0].Names) > 1 {
				continue
			}
			rf := decl.Recv.List[0]
			recvText := txt(rf)
			if len(rf.Names) == 0 {
				recvText = "_ " + recvText
			}
			add(tf.Name(), tf.Offset(decl.Recv.Pos()), tf.Offset(decl.Name.End()), cv.oldName)
			// insert at flattened index k
			idx := 0
			placed := false
			for _, f := range decl.Type.Params.List {
				n := len(f.Names)
				if n == 0 {
					n = 1
				}
				if idx == cv.k {
					add(tf.Name(), tf.Offset(f.Pos()), tf.Offset(f.Pos()), recvText+", ")
					placed = true
					break
				}
				if cv.k > idx && cv.k < idx+n {
					okAll = false
				}
				idx += n
			}
			if !placed && okAll {
				sep := ""
				if len(decl.Type.Params.List) > 0 {
					sep = ", "
				}
				e := tf.Offset(decl.Type.Params.Closing)
				add(tf.Name(), e, e, sep+recvText)
			}
		}
		// uses
		sig := obj.Type().(*types.Signature)
		for _, upk := range pkgs {
			if upk.TypesInfo == nil || !strings.HasPrefix(upk.PkgPath, ModPath) {
				continue
			}
			for _, f := range upk.Syntax {
				utf := upk.Fset.File(f.Pos())
				usrc := il.source(utf.Name())
				utxt := func(n ast.Node) string { return string(usrc[utf.Offset(n.Pos()):utf.Offset(n.End())]) }
				calls := map[*ast.Ident]*ast.CallExpr{}
				ast.Inspect(f, func(n ast.Node) bool {
					if c, ok := n.(*ast.CallExpr); ok {
						switch fn := c.Fun.(type) {
						case *ast.Ident:
							calls[fn] = c
						case *ast.SelectorExpr:
							calls[fn.Sel] = c
						}
					}
					return true
				})
				sels := map[*ast.Ident]*ast.SelectorExpr{}
				ast.Inspect(f, func(n ast.Node) bool {
					if s, ok := n.(*ast.SelectorExpr); ok {
						sels[s.Sel] = s
					}
					return true
				})
				for id, o := range upk.TypesInfo.Uses {
					fo, ok := o.(*types.Func)
					if !ok || fo.Origin() != obj {
						continue
					}
					if p := upk.Fset.File(id.Pos()); p == nil || p.Name() != utf.Name() {
						continue
					}
					call := calls[id]
					if call == nil || call.Ellipsis.IsValid() {
						okAll = false
						continue
					}
					if cv.toMethod {
						if _, isIdent := call.Fun.(*ast.Ident); !isIdent || cv.k >= len(call.Args) {
							okAll = false
							continue
						}
						ak := call.Args[cv.k]
						add(utf.Name(), utf.Offset(call.Fun.Pos()), utf.Offset(call.Fun.End()), "("+utxt(ak)+")."+cv.oldName)
						as, ae := utf.Offset(ak.Pos()), utf.Offset(ak.End())
						if cv.k+1 < len(call.Args) {
							ae = utf.Offset(call.Args[cv.k+1].Pos())
						} else if cv.k > 0 {
							as = utf.Offset(call.Args[cv.k-1].End())
						}
						add(utf.Name(), as, ae, "")
					} else {
						sel := sels[id]
						if sel == nil || call.Fun != ast.Expr(sel) {
							okAll = false
							continue
						}
						s := upk.TypesInfo.Selections[sel]
						if s == nil || len(s.Index()) != 1 {
							okAll = false
							continue
						}
						x := utxt(sel.X)
						_, rp := sig.Recv().Type().(*types.Pointer)
						_, xp := upk.TypesInfo.TypeOf(sel.X).(*types.Pointer)
						switch {
						case rp && !xp:
							x = "&(" + x + ")"
						case !rp && xp:
							x = "*(" + x + ")"
						}
						add(utf.Name(), utf.Offset(sel.Pos()), utf.Offset(sel.End()), cv.oldName)
						switch {
						case len(call.Args) == 0:
							p := utf.Offset(call.Lparen) + 1
							add(utf.Name(), p, p, x)
						case cv.k < len(call.Args):
							p := utf.Offset(call.Args[cv.k].Pos())
							add(utf.Name(), p, p, x+", ")
						default:
							p := utf.Offset(call.Args[len(call.Args)-1].End())
							add(utf.Name(), p, p, ", "+x)
						}
					}
				}
			}
		}
		if !okAll {
			continue
		}
		group++
		for _, e := range edits {
			e.e.group = group
			il.fe(e.file).edits = append(il.fe(e.file).edits, e.e)
		}
		notes = append(notes, "normalised (method/function form of the pinned tree restored for the analysis): "+cv.String())
	}
	if len(notes) == 0 {
		return nil, nil
	}
	out := map[string][]byte{}
	for k, v := range overlay {
		out[k] = v
	}
	for file, fe := range il.files {
		out[file] = applyEdits(append([]byte(nil), il.source(file)...), fe.edits)
	}
	sort.Strings(notes)
	return out, notes
}
