package core

import (
	"go/token"
	"go/types"
	"strings"

	"golang.org/x/tools/go/ssa"
)

// Writer is one write to a struct field found in the program.
type Writer struct {
	Fn    *ssa.Function
	Instr ssa.Instruction
	Addr  *ssa.FieldAddr
	// Kind: "store" (plain assignment), "atomic:<Func>" (sync/atomic function or method on
	// the field's address), "elem" (store to an element of the slice/array/map held in the
	// field), "addr" (the field's address escapes to a non-atomic call)
	Kind string
	Val  ssa.Value // stored value (store / atomic store / elem) or nil
}

func (p *Prog) indexWriters() {
	if p.fieldWriters != nil {
		return
	}
	p.fieldWriters = map[*types.Var][]Writer{}
	add := func(f *types.Var, w Writer) { p.fieldWriters[f] = append(p.fieldWriters[f], w) }
	for _, fn := range p.Funcs {
		for _, b := range fn.Blocks {
			for _, in := range b.Instrs {
				fa, ok := in.(*ssa.FieldAddr)
				if !ok {
					continue
				}
				if !Feasible(fa) {
					continue // failpoint-only code
				}
				f := FieldOfAddr(fa)
				if f == nil {
					continue
				}
				for _, r := range *fa.Referrers() {
					switch y := r.(type) {
					case *ssa.Store:
						if y.Addr == ssa.Value(fa) {
							add(f, Writer{fn, y, fa, "store", y.Val})
						}
					case ssa.CallInstruction:
						cc := y.Common()
						isArg := false
						for _, a := range cc.Args {
							if a == ssa.Value(fa) {
								isArg = true
							}
						}
						if !isArg {
							continue
						}
						name := ""
						if c := cc.StaticCallee(); c != nil {
							name = c.Name()
							if c.Pkg != nil && c.Pkg.Pkg.Path() == "sync/atomic" || strings.HasPrefix(c.String(), "(*sync/atomic.") || strings.HasPrefix(c.String(), "(*go.uber.org/atomic.") {
								if strings.HasPrefix(name, "Load") {
									continue
								}
								var val ssa.Value
								if len(cc.Args) >= 2 {
									val = cc.Args[len(cc.Args)-1]
								}
								add(f, Writer{fn, y, fa, "atomic:" + name, val})
								continue
							}
							if c.Pkg != nil && c.Pkg.Pkg.Path() == "sync" || strings.HasPrefix(c.String(), "(*sync.") {
								continue // mutex operations are not writes of interest
							}
						}
						add(f, Writer{fn, y, fa, "addr", nil})
					case *ssa.UnOp:
						// load of the field; look for element writes through the loaded value
						if y.Op == token.MUL {
							for _, rr := range *y.Referrers() {
								switch z := rr.(type) {
								case *ssa.MapUpdate:
									if z.Map == ssa.Value(y) {
										add(f, Writer{fn, z, fa, "elem", z.Value})
									}
								case *ssa.IndexAddr:
									for _, r3 := range *z.Referrers() {
										if st, ok := r3.(*ssa.Store); ok && st.Addr == ssa.Value(z) {
											add(f, Writer{fn, st, fa, "elem", st.Val})
										}
									}
								case ssa.CallInstruction:
									if b, ok := z.Common().Value.(*ssa.Builtin); ok && b.Name() == "delete" && z.Common().Args[0] == ssa.Value(y) {
										add(f, Writer{fn, z, fa, "elem", nil})
									}
								}
							}
						}
					}
				}
			}
		}
	}
}

// WritersOf returns every write to field f in module code.
func (p *Prog) WritersOf(f *types.Var) []Writer {
	p.indexWriters()
	return p.fieldWriters[f]
}

// CallSite is one call of a function.
type CallSite struct {
	Fn    *ssa.Function // caller
	Instr ssa.CallInstruction
}

func (p *Prog) indexCallers() {
	if p.callers != nil {
		return
	}
	p.callers = map[*ssa.Function][]CallSite{}
	for _, fn := range p.Funcs {
		for _, b := range fn.Blocks {
			for _, in := range b.Instrs {
				switch y := in.(type) {
				case ssa.CallInstruction:
					cc := y.Common()
					if c := cc.StaticCallee(); c != nil {
						if c.Origin() != nil {
							c = c.Origin()
						}
						p.callers[c] = append(p.callers[c], CallSite{fn, y})
					} else if cc.IsInvoke() {
						p.invokeSites = append(p.invokeSites, CallSite{fn, y})
					}
				}
			}
		}
	}
}

// CallersOf returns static call sites of fn, plus interface invocations that can dispatch
// to it (same method name, receiver type implements the interface) — a CHA-style
// over-approximation.
func (p *Prog) CallersOf(fn *ssa.Function) []CallSite {
	p.indexCallers()
	out := append([]CallSite(nil), p.callers[fn]...)
	if fn != nil && fn.Signature.Recv() != nil {
		rt := fn.Signature.Recv().Type()
		for _, s := range p.invokeSites {
			cc := s.Instr.Common()
			if cc.Method.Name() != fn.Name() {
				continue
			}
			if it, ok := cc.Value.Type().Underlying().(*types.Interface); ok {
				if types.Implements(rt, it) || types.Implements(types.NewPointer(rt), it) {
					out = append(out, s)
				}
			}
		}
	}
	return out
}

// FuncValueUses: places where fn is used as a value (method value / function value), which
// static call edges do not cover.
func (p *Prog) FuncValueUses(fn *ssa.Function) []ssa.Instruction {
	var out []ssa.Instruction
	for _, f := range p.Funcs {
		Instrs(f, func(in ssa.Instruction) {
			for _, op := range in.Operands(nil) {
				if *op == ssa.Value(fn) {
					if c, ok := in.(ssa.CallInstruction); ok && c.Common().Value == ssa.Value(fn) {
						continue
					}
					out = append(out, in)
				}
			}
		})
	}
	return out
}

// ---------------------------------------------------------------------------------------
// Lockset: intra-procedural must-hold analysis.

// AddrPath renders the access path of an address/value for lock identity, e.g.
// "recv.mu", "recv.regionIndexMu.RWMutex", "param#0.x".
func AddrPath(v ssa.Value) string {
	switch x := v.(type) {
	case *ssa.FieldAddr:
		f := FieldOfAddr(x)
		n := "?"
		if f != nil {
			n = f.Name()
		}
		return AddrPath(x.X) + "." + n
	case *ssa.Field:
		f := FieldOfField(x)
		n := "?"
		if f != nil {
			n = f.Name()
		}
		return AddrPath(x.X) + "." + n
	case *ssa.UnOp:
		if x.Op == token.MUL {
			// a parameter spilled to memory because a closure captures it
			if al, ok := x.X.(*ssa.Alloc); ok {
				if r := ResolveLoad(x); r != nil {
					return AddrPath(r)
				}
				for _, ref := range *al.Referrers() {
					if st, ok := ref.(*ssa.Store); ok && st.Addr == ssa.Value(al) {
						if par, ok := st.Val.(*ssa.Parameter); ok {
							return AddrPath(par)
						}
					}
				}
			}
			return AddrPath(x.X)
		}
	case *ssa.Parameter:
		fn := x.Parent()
		for i, p := range fn.Params {
			if p == x {
				if fn.Signature.Recv() != nil {
					if i == 0 {
						return "recv"
					}
					i--
				}
				return "param#" + string(rune('0'+i))
			}
		}
	case *ssa.FreeVar:
		return "free:" + x.Name()
	case *ssa.Alloc:
		return "local:" + x.Comment
	case *ssa.ChangeType:
		return AddrPath(x.X)
	case *ssa.IndexAddr:
		return AddrPath(x.X) + "[]"
	case *ssa.Call:
		if c := x.Call.StaticCallee(); c != nil {
			if len(x.Call.Args) > 0 {
				return AddrPath(x.Call.Args[0]) + "." + c.Name() + "()"
			}
			return c.Name() + "()"
		}
	case *ssa.Phi:
		return "phi"
	}
	return "?"
}

// LockOp classifies a call as a mutex operation: returns path, op ("Lock","Unlock","RLock",
// "RUnlock") or "".
func LockOp(cc *ssa.CallCommon) (string, string) {
	c := cc.StaticCallee()
	if c == nil || len(cc.Args) == 0 {
		return "", ""
	}
	s := c.String()
	if !strings.HasPrefix(s, "(*sync.Mutex).") && !strings.HasPrefix(s, "(*sync.RWMutex).") {
		return "", ""
	}
	switch c.Name() {
	case "Lock", "Unlock", "RLock", "RUnlock":
		return AddrPath(cc.Args[0]), c.Name()
	}
	return "", ""
}

// Lockset computes, for every instruction of fn, the set of mutex access paths that are
// certainly held (W = write/exclusive, R = read) when the instruction executes.
// Deferred unlocks keep the lock to the end of the function.
func Lockset(fn *ssa.Function) map[ssa.Instruction]map[string]byte {
	type state map[string]byte
	in := map[*ssa.BasicBlock]state{}
	res := map[ssa.Instruction]map[string]byte{}
	if len(fn.Blocks) == 0 {
		return res
	}
	clone := func(s state) state {
		n := state{}
		for k, v := range s {
			n[k] = v
		}
		return n
	}
	meet := func(a, b state) state {
		n := state{}
		for k, v := range a {
			if w, ok := b[k]; ok {
				if v == 'W' && w == 'W' {
					n[k] = 'W'
				} else {
					n[k] = 'R'
				}
			}
		}
		return n
	}
	eq := func(a, b state) bool {
		if len(a) != len(b) {
			return false
		}
		for k, v := range a {
			if b[k] != v {
				return false
			}
		}
		return true
	}
	in[fn.Blocks[0]] = state{}
	work := []*ssa.BasicBlock{fn.Blocks[0]}
	for len(work) > 0 {
		b := work[0]
		work = work[1:]
		s := clone(in[b])
		for _, ins := range b.Instrs {
			res[ins] = clone(s)
			if c, ok := ins.(*ssa.Call); ok {
				path, op := LockOp(&c.Call)
				switch op {
				case "Lock":
					s[path] = 'W'
				case "RLock":
					s[path] = 'R'
				case "Unlock", "RUnlock":
					delete(s, path)
				}
			}
		}
		for _, succ := range b.Succs {
			old, ok := in[succ]
			var n state
			if !ok {
				n = clone(s)
			} else {
				n = meet(old, s)
			}
			if !ok || !eq(old, n) {
				in[succ] = n
				work = append(work, succ)
			}
		}
	}
	return res
}
