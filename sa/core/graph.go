package core

import (
	"sync"
	"fmt"
	"go/constant"
	"go/token"
	"go/types"
	"strings"

	"golang.org/x/tools/go/ssa"
)

// Edge is one outgoing edge of a two-way branch.
type Edge struct {
	If   *ssa.If
	True bool
	// effective condition under the path's boolean-φ environment (set by Reach)
	cond ssa.Value
	neg  bool
	has  bool
}

// Cond returns the (Not-stripped) effective condition value of the edge's branch and
// whether it is negated.
func (e Edge) Cond() (ssa.Value, bool) {
	if e.has {
		return e.cond, e.neg
	}
	return CondOf(e.If)
}

// Pred recognises an atom in the (Not-stripped) condition value of an If. pol tells whether
// the value being true means the atom is true.
type Pred func(v ssa.Value) (matched bool, pol bool)

// VM matches a value.
type VM func(v ssa.Value) bool

// Strip removes value-preserving conversions.
func Strip(v ssa.Value) ssa.Value {
	for {
		switch x := v.(type) {
		case *ssa.ChangeType:
			v = x.X
		case *ssa.MakeInterface:
			v = x.X
		case *ssa.ChangeInterface:
			v = x.X
		case *ssa.Convert:
			v = x.X
		case *ssa.UnOp:
			if x.Op == token.MUL {
				if r := ResolveLoad(x); r != nil {
					v = r
					continue
				}
			}
			return v
		default:
			return v
		}
	}
}

// CondOf returns the condition of an If with leading negations stripped.
func CondOf(i *ssa.If) (ssa.Value, bool) {
	v := i.Cond
	neg := false
	for {
		v = Strip(v)
		if u, ok := v.(*ssa.UnOp); ok && u.Op == token.NOT {
			neg = !neg
			v = u.X
			continue
		}
		return v, neg
	}
}

// EdgeTruth: does edge e decide atom a, and with which truth value.
func EdgeTruth(e Edge, a Pred) (bool, bool) {
	v, neg := e.Cond()
	m, pol := a(v)
	if !m {
		return false, false
	}
	valTrue := e.True != neg
	return true, valTrue == pol
}

// ResolveLoad: for a load of a local Alloc (a variable spilled to memory because a closure
// or defer captures it), find the unique reaching Store by walking backwards through the
// block and single-predecessor chains. Returns nil when not uniquely determined.
func ResolveLoad(u *ssa.UnOp) ssa.Value {
	if u.Op != token.MUL {
		return nil
	}
	if fa, ok := u.X.(*ssa.FieldAddr); ok {
		if al, ok := fa.X.(*ssa.Alloc); ok {
			return localStructField(al, fa.Field, 0, u)
		}
		return nil
	}
	al, ok := u.X.(*ssa.Alloc)
	if !ok {
		return nil
	}
	b := u.Block()
	idx := -1
	for i, in := range b.Instrs {
		if in == ssa.Instruction(u) {
			idx = i
			break
		}
	}
	seen := map[*ssa.BasicBlock]bool{}
	for b != nil && !seen[b] {
		seen[b] = true
		for i := idx - 1; i >= 0; i-- {
			if st, ok := b.Instrs[i].(*ssa.Store); ok && st.Addr == ssa.Value(al) {
				return st.Val
			}
		}
		if len(b.Preds) != 1 {
			return nil
		}
		b = b.Preds[0]
		idx = len(b.Instrs)
	}
	return nil
}

func blockReaches(a, b *ssa.BasicBlock) bool {
	seen := map[*ssa.BasicBlock]bool{}
	stack := append([]*ssa.BasicBlock(nil), a.Succs...)
	for len(stack) > 0 {
		x := stack[len(stack)-1]
		stack = stack[:len(stack)-1]
		if x == b {
			return true
		}
		if seen[x] {
			continue
		}
		seen[x] = true
		stack = append(stack, x.Succs...)
	}
	return false
}

// localStructField: the value of field f of the local struct variable al when it is written exactly once —
// directly, or by a whole-struct copy from another such variable (the result struct of an inlined helper) — and
// the variable's address does not escape.
func localStructField(al *ssa.Alloc, f int, depth int, use ssa.Instruction) ssa.Value {
	if depth > 4 || al.Referrers() == nil {
		return nil
	}
	// the write must come before the read: same block earlier, or in a dominating block
	before := func(st ssa.Instruction) bool {
		if st.Block() == use.Block() {
			for _, in := range st.Block().Instrs {
				if in == st {
					return true
				}
				if in == use {
					return false
				}
			}
			return false
		}
		if st.Block().Dominates(use.Block()) {
			return true
		}
		// a write on one branch before the read (`if c { s.f = v }; use(s.f)`; the other branch leaves the zero
		// value): the write can reach the read and the read cannot reach the write
		return blockReaches(st.Block(), use.Block()) && !blockReaches(use.Block(), st.Block())
	}
	if _, isStruct := al.Type().(*types.Pointer).Elem().Underlying().(*types.Struct); !isStruct {
		return nil
	}
	var fieldStores []ssa.Value
	var wholeStores []ssa.Value
	ordered := true
	for _, r := range *al.Referrers() {
		switch x := r.(type) {
		case *ssa.FieldAddr:
			if x.Referrers() == nil {
				continue
			}
			for _, rr := range *x.Referrers() {
				switch y := rr.(type) {
				case *ssa.Store:
					if y.Addr == ssa.Value(x) {
						if x.Field == f {
							fieldStores = append(fieldStores, y.Val)
							if !before(y) {
								ordered = false
							}
						}
					} else {
						return nil // the field's address is stored somewhere
					}
				case *ssa.UnOp:
					// a read
				case *ssa.FieldAddr:
					// nested struct field: reads/writes of a sub-field — give up for that field only
					if x.Field == f {
						return nil
					}
				default:
					if x.Field == f {
						return nil
					}
				}
			}
		case *ssa.UnOp:
			// whole-struct read
		case *ssa.Store:
			if x.Addr == ssa.Value(al) {
				// the zero initialisation and a copy of the variable onto itself (`return res` of a named
				// result) do not change a field
				if _, isConst := x.Val.(*ssa.Const); isConst {
					continue
				}
				if ld, ok := x.Val.(*ssa.UnOp); ok && ld.Op == token.MUL && ld.X == ssa.Value(al) {
					continue
				}
				wholeStores = append(wholeStores, x.Val)
				if !before(x) {
					ordered = false
				}
			} else {
				return nil // the address escapes
			}
		case *ssa.DebugRef:
		default:
			return nil
		}
	}
	if !ordered {
		return nil
	}
	switch {
	case len(fieldStores) == 1 && len(wholeStores) == 0:
		return fieldStores[0]
	case len(fieldStores) == 0 && len(wholeStores) == 1:
		if ld, ok := wholeStores[0].(*ssa.UnOp); ok && ld.Op == token.MUL {
			if src, ok := ld.X.(*ssa.Alloc); ok {
				return localStructField(src, f, depth+1, ld)
			}
		}
	}
	return nil
}

// ---------------------------------------------------------------------------------------
// Idioms

// IsFailpointEdgeInfeasible: `if _, err := util.EvalFailpoint(..); err == nil` — the
// err == nil edge never happens in a production build (failpoints are not enabled).
func IsFailpointEdgeInfeasible(e Edge) bool {
	v, neg := e.Cond()
	b, ok := v.(*ssa.BinOp)
	if !ok || (b.Op != token.EQL && b.Op != token.NEQ) {
		return false
	}
	var other ssa.Value
	if isNilConst(b.X) {
		other = b.Y
	} else if isNilConst(b.Y) {
		other = b.X
	} else {
		return false
	}
	ex, ok := Strip(other).(*ssa.Extract)
	if !ok {
		return false
	}
	c, ok := ex.Tuple.(*ssa.Call)
	if !ok {
		return false
	}
	callee := c.Call.StaticCallee()
	if callee == nil || callee.Name() != "EvalFailpoint" || callee.Pkg == nil || !strings.HasSuffix(callee.Pkg.Pkg.Path(), "/util") {
		return false
	}
	// atom "err == nil" true on this edge?
	valTrue := e.True != neg
	eqNil := valTrue == (b.Op == token.EQL)
	return eqNil
}

func isNilConst(v ssa.Value) bool {
	c, ok := v.(*ssa.Const)
	return ok && c.Value == nil
}

// IsNoReturn: calls that never return (panic-like).
func IsNoReturn(in ssa.Instruction) bool {
	switch x := in.(type) {
	case *ssa.Panic:
		return true
	case *ssa.Call:
		if c := x.Call.StaticCallee(); c != nil {
			n := c.String()
			if n == "os.Exit" || n == "log.Fatal" || n == "log.Fatalf" || n == "log.Panic" || n == "log.Panicf" {
				return true
			}
			if c.Name() == "Fatal" && strings.Contains(n, "zap.Logger") {
				return true
			}
		}
		if x.Call.IsInvoke() {
			return false
		}
	}
	return false
}

// ---------------------------------------------------------------------------------------
// Reachability with deletions

// Q is a path query over one function's instruction graph.
type Q struct {
	Fn *ssa.Function
	// NoPass: the path may reach but not pass through this instruction.
	NoPass func(ssa.Instruction) bool
	// NoEdge: this branch edge is deleted.
	NoEdge func(Edge) bool
	// Auto: optional finite automaton run along the path (product construction): given a
	// branch edge and the current state it returns the next state and whether the edge may be
	// taken. Non-branch edges keep the state.
	Auto func(e Edge, st int) (int, bool)
	// KeepFailpoints keeps the production-infeasible failpoint edges.
	KeepFailpoints bool
	// LastBlocks: after a successful Reach, the sequence of blocks of the witness path.
	LastBlocks []*ssa.BasicBlock
	// AssumeNil: nil-ness facts that hold where the search starts (value -> is nil), e.g. "the error is not nil"
	// when the search starts on the error edge of its test
	AssumeNil map[ssa.Value]bool
	// NoHelpers disables the helper summary of NoPass (see helperMustPass)
	NoHelpers   bool
	depth       int
	helperCache map[*ssa.Function]bool
}

// Step is one element of a witness path.
type Step struct {
	If   *ssa.If
	True bool
}

// boolean φ environment: which incoming value a bool-typed φ took on the current path.
type phiEnv struct {
	m   map[*ssa.Phi]ssa.Value
	key string
	// nilOf: values known to be nil (true) / non-nil (false) on this path, recorded only for values whose
	// nil-ness the function tests more than once (the caller's test of a result repeated behind an inlined
	// helper's own test)
	nilOf map[ssa.Value]bool
}

func (e *phiEnv) with(b *ssa.BasicBlock, predIdx int) *phiEnv {
	var changed map[*ssa.Phi]ssa.Value
	for _, in := range b.Instrs {
		phi, ok := in.(*ssa.Phi)
		if !ok {
			break
		}
		if bt, ok := phi.Type().Underlying().(*types.Basic); !ok || bt.Kind() != types.Bool {
			// a φ of another type is followed only when the function compares it with a constant (a result
			// variable / an inlined helper's result tested by the caller): its incoming value decides that test
			if !comparedWithConst(phi) {
				continue
			}
			v := Strip(phi.Edges[predIdx])
			if p2, ok := v.(*ssa.Phi); ok && e != nil {
				if r, ok := e.m[p2]; ok {
					v = r
				}
			}
			if changed == nil {
				changed = map[*ssa.Phi]ssa.Value{}
				if e != nil {
					for k, x := range e.m {
						changed[k] = x
					}
				}
			}
			changed[phi] = v
			continue
		}
		v := phi.Edges[predIdx]
		if changed == nil {
			changed = map[*ssa.Phi]ssa.Value{}
			if e != nil {
				for k, x := range e.m {
					changed[k] = x
				}
			}
		}
		// resolve through the environment (value as of the predecessor)
		neg := false
		for {
			if u, ok := v.(*ssa.UnOp); ok && u.Op == token.NOT {
				neg = !neg
				v = u.X
				continue
			}
			break
		}
		if p2, ok := v.(*ssa.Phi); ok && e != nil {
			if r, ok := e.m[p2]; ok {
				v = r
			}
		}
		if neg {
			v = negate(v)
		}
		changed[phi] = v
	}
	// facts about values (re)defined in the block entered are forgotten
	var nilOf map[ssa.Value]bool
	if e != nil && len(e.nilOf) > 0 {
		drop := false
		for v := range e.nilOf {
			if in, ok := v.(ssa.Instruction); ok && in.Block() == b {
				drop = true
			}
		}
		if drop {
			nilOf = map[ssa.Value]bool{}
			for v, t := range e.nilOf {
				if in, ok := v.(ssa.Instruction); ok && in.Block() == b {
					continue
				}
				nilOf[v] = t
			}
		} else {
			nilOf = e.nilOf
		}
	}
	if changed == nil {
		if e == nil || len(nilOf) == len(e.nilOf) {
			return e
		}
		return newPhiEnv(e.m, nilOf)
	}
	return newPhiEnv(changed, nilOf)
}

func newPhiEnv(m map[*ssa.Phi]ssa.Value, nilOf map[ssa.Value]bool) *phiEnv {
	keys := make([]string, 0, len(m)+len(nilOf))
	for k, x := range m {
		keys = append(keys, k.Name()+"="+x.Name()+x.String())
	}
	for v, t := range nilOf {
		keys = append(keys, fmt.Sprintf("nil(%s@%p)=%v", v.Name(), v, t))
	}
	sortStrings(keys)
	return &phiEnv{m: m, key: strings.Join(keys, ";"), nilOf: nilOf}
}

// withNil returns the environment extended by the fact "v is nil" = t.
func (e *phiEnv) withNil(v ssa.Value, t bool) *phiEnv {
	var m map[*ssa.Phi]ssa.Value
	nilOf := map[ssa.Value]bool{}
	if e != nil {
		m = e.m
		for k, x := range e.nilOf {
			nilOf[k] = x
		}
	}
	nilOf[v] = t
	return newPhiEnv(m, nilOf)
}

var (
	nilTestCount = map[*ssa.Function]map[ssa.Value]int{}
	cacheMu      sync.Mutex // the thorough tier analyses several variants in parallel
)

// ResetCaches drops the per-function caches (they are keyed by SSA objects and would keep every program
// analysed in this process alive).
func ResetCaches() {
	cacheMu.Lock()
	nilTestCount = map[*ssa.Function]map[ssa.Value]int{}
	cmpConstCache = map[*ssa.Phi]bool{}
	cacheMu.Unlock()
	feasMu.Lock()
	feasCache = map[*ssa.Function]map[*ssa.BasicBlock]bool{}
	feasMu.Unlock()
}

// nilTested: how often fn compares v with nil.
func nilTested(fn *ssa.Function, v ssa.Value) int {
	cacheMu.Lock()
	defer cacheMu.Unlock()
	m, ok := nilTestCount[fn]
	if !ok {
		m = map[ssa.Value]int{}
		for _, b := range fn.Blocks {
			for _, in := range b.Instrs {
				if bo, ok := in.(*ssa.BinOp); ok && (bo.Op == token.EQL || bo.Op == token.NEQ) {
					if x, isNil := nilOperand(bo); isNil {
						m[x]++
					}
				}
			}
		}
		nilTestCount[fn] = m
	}
	return m[v]
}

// nilOperand: for `x == nil` / `x != nil` the (stripped) x.
func nilOperand(bo *ssa.BinOp) (ssa.Value, bool) {
	cx, okx := Strip(bo.X).(*ssa.Const)
	cy, oky := Strip(bo.Y).(*ssa.Const)
	switch {
	case oky && cy.Value == nil && isNilable(bo.X.Type()) && !okx:
		return Strip(bo.X), true
	case okx && cx.Value == nil && isNilable(bo.Y.Type()) && !oky:
		return Strip(bo.Y), true
	}
	return nil, false
}

var cmpConstCache = map[*ssa.Phi]bool{}

// comparedWithConst: some referrer of phi (through conversions) is a comparison with a constant.
func comparedWithConst(phi *ssa.Phi) bool {
	cacheMu.Lock()
	if r, ok := cmpConstCache[phi]; ok {
		cacheMu.Unlock()
		return r
	}
	cacheMu.Unlock()
	res := false
	var visit func(v ssa.Value, d int)
	visit = func(v ssa.Value, d int) {
		if res || d > 2 || v.Referrers() == nil {
			return
		}
		for _, r := range *v.Referrers() {
			switch x := r.(type) {
			case *ssa.BinOp:
				if _, isCmp := negOp[x.Op]; isCmp {
					_, cx := Strip(x.X).(*ssa.Const)
					_, cy := Strip(x.Y).(*ssa.Const)
					if cx || cy {
						res = true
					}
				}
			case *ssa.ChangeType:
				visit(x, d+1)
			case *ssa.Convert:
				visit(x, d+1)
			}
		}
	}
	visit(phi, 0)
	cacheMu.Lock()
	cmpConstCache[phi] = res
	cacheMu.Unlock()
	return res
}

// definitelyNonNil: values that cannot be nil.
func definitelyNonNil(v ssa.Value) bool {
	switch x := Strip(v).(type) {
	case *ssa.Alloc, *ssa.MakeInterface, *ssa.MakeClosure, *ssa.MakeMap, *ssa.MakeSlice, *ssa.MakeChan, *ssa.FieldAddr, *ssa.IndexAddr, *ssa.Function, *ssa.Global:
		_ = x
		return true
	case *ssa.Call:
		// constructors of errors
		if f := x.Call.StaticCallee(); f != nil && f.Pkg != nil {
			switch f.Pkg.Pkg.Path() + "." + f.Name() {
			case "errors.New", "fmt.Errorf", "github.com/pkg/errors.New", "github.com/pkg/errors.Errorf", "github.com/pingcap/errors.New", "github.com/pingcap/errors.Errorf":
				return true
			}
		}
	}
	return false
}

func isNilable(t types.Type) bool {
	switch t.Underlying().(type) {
	case *types.Pointer, *types.Interface, *types.Map, *types.Slice, *types.Chan, *types.Signature:
		return true
	}
	return false
}

// negated wraps a value to mark logical negation without creating SSA instructions.
type negated struct {
	ssa.Value
	inner ssa.Value
}

func negate(v ssa.Value) ssa.Value {
	if n, ok := v.(*negated); ok {
		return n.inner
	}
	if c, ok := v.(*ssa.Const); ok && c.Value != nil && c.Value.Kind() == constant.Bool {
		return ssa.NewConst(constant.MakeBool(!constant.BoolVal(c.Value)), c.Type())
	}
	return &negated{Value: v, inner: v}
}

func sortStrings(a []string) {
	for i := 1; i < len(a); i++ {
		for j := i; j > 0 && a[j] < a[j-1]; j-- {
			a[j], a[j-1] = a[j-1], a[j]
		}
	}
}

func (e *phiEnv) k() string {
	if e == nil {
		return ""
	}
	return e.key
}

// effective condition of an If under a φ environment: (value, negated, constKnown, constVal)
func effCond(ifi *ssa.If, env *phiEnv) (ssa.Value, bool, bool, bool) {
	v, neg := CondOf(ifi)
	for i := 0; i < 4; i++ {
		phi, ok := v.(*ssa.Phi)
		if !ok || env == nil {
			break
		}
		r, ok := env.m[phi]
		if !ok {
			break
		}
		if n, ok := r.(*negated); ok {
			neg = !neg
			r = n.inner
		}
		v = r
		for {
			vv := Strip(v)
			if u, ok := vv.(*ssa.UnOp); ok && u.Op == token.NOT {
				neg = !neg
				v = u.X
				continue
			}
			v = vv
			break
		}
	}
	if c, ok := v.(*ssa.Const); ok && c.Value != nil && c.Value.Kind() == constant.Bool {
		return v, neg, true, constant.BoolVal(c.Value) != neg
	}
	// a comparison of a followed φ with a constant: decided by the value the φ took on this path
	if b, ok := Strip(v).(*ssa.BinOp); ok {
		if _, isCmp := negOp[b.Op]; isCmp {
			resolve := func(w ssa.Value) ssa.Value {
				w = Strip(w)
				for i := 0; i < 3; i++ {
					switch x := w.(type) {
					case *ssa.ChangeType:
						w = Strip(x.X)
						continue
					case *ssa.Convert:
						w = Strip(x.X)
						continue
					}
					break
				}
				if ph, ok := w.(*ssa.Phi); ok && env != nil {
					if r, ok := env.m[ph]; ok {
						if _, isNeg := r.(*negated); !isNeg {
							return Strip(r)
						}
					}
				}
				return w
			}
			x, y := resolve(b.X), resolve(b.Y)
			cx, okx := x.(*ssa.Const)
			cy, oky := y.(*ssa.Const)
			var res, known bool
			switch {
			case okx && oky && cx.Value == nil && cy.Value == nil:
				res, known = b.Op == token.EQL || b.Op == token.LEQ || b.Op == token.GEQ, true
			case okx && oky && cx.Value != nil && cy.Value != nil && cx.Value.Kind() == cy.Value.Kind() && cx.Value.Kind() != constant.Unknown:
				res, known = constant.Compare(cx.Value, b.Op, cy.Value), true
			case (b.Op == token.EQL || b.Op == token.NEQ) && oky && cy.Value == nil && isNilable(y.Type()) && definitelyNonNil(x):
				res, known = b.Op == token.NEQ, true
			case (b.Op == token.EQL || b.Op == token.NEQ) && okx && cx.Value == nil && isNilable(x.Type()) && definitelyNonNil(y):
				res, known = b.Op == token.NEQ, true
			}
			if known {
				return v, neg, true, res != neg
			}
		}
	}
	// a comparison of two constants (left behind by the normalisation: `err := nil; if err != nil`)
	if b, ok := Strip(v).(*ssa.BinOp); ok && (b.Op == token.EQL || b.Op == token.NEQ) {
		cx, okx := Strip(b.X).(*ssa.Const)
		cy, oky := Strip(b.Y).(*ssa.Const)
		if okx && oky {
			var eq, known bool
			switch {
			case cx.Value == nil && cy.Value == nil:
				eq, known = true, true
			case cx.Value != nil && cy.Value != nil && cx.Value.Kind() == cy.Value.Kind() && cx.Value.Kind() != constant.Unknown:
				eq, known = constant.Compare(cx.Value, token.EQL, cy.Value), true
			}
			if known {
				res := eq
				if b.Op == token.NEQ {
					res = !eq
				}
				return v, neg, true, res != neg
			}
		}
	}
	return v, neg, false, false
}

// helperMustPass: `in` calls an unexported function of the same package all of whose paths from
// entry to a return pass an instruction matching q.NoPass (so that extracting a block into a private
// helper does not hide it from must-pass rules). Depth-limited, cached per query.
func (q *Q) helperMustPass(in ssa.Instruction) bool {
	if q.NoHelpers || q.depth >= 2 {
		return false
	}
	ci, ok := in.(*ssa.Call)
	if !ok {
		return false
	}
	g := ci.Call.StaticCallee()
	if g == nil || len(g.Blocks) == 0 || g == q.Fn || q.Fn == nil {
		return false
	}
	top := q.Fn
	for top.Parent() != nil {
		top = top.Parent()
	}
	if g.Pkg == nil || g.Pkg != top.Pkg || g.Object() == nil || g.Object().Exported() {
		return false
	}
	if q.helperCache == nil {
		q.helperCache = map[*ssa.Function]bool{}
	}
	if v, ok := q.helperCache[g]; ok {
		return v
	}
	q.helperCache[g] = false // cycles
	sub := &Q{Fn: g, NoPass: q.NoPass, NoEdge: q.NoEdge, depth: q.depth + 1, helperCache: q.helperCache}
	found, _, _ := sub.Reach(nil, IsReturn)
	q.helperCache[g] = !found
	return !found
}

// Reach searches a path from `from` (exclusive; nil = function entry) to an instruction
// satisfying target. It returns found and the branch decisions taken along one shortest path.
func (q *Q) Reach(from ssa.Instruction, target func(ssa.Instruction) bool) (bool, []Step, ssa.Instruction) {
	if q.Fn == nil || len(q.Fn.Blocks) == 0 {
		return false, nil, nil
	}
	if from == nil {
		return q.reach(q.Fn.Blocks[0], 0, target)
	}
	b := from.Block()
	for i, in := range b.Instrs {
		if in == from {
			return q.reach(b, i+1, target)
		}
	}
	return false, nil, nil
}

// ReachFromBlock starts at the first instruction of b.
func (q *Q) ReachFromBlock(b *ssa.BasicBlock, target func(ssa.Instruction) bool) (bool, []Step, ssa.Instruction) {
	return q.reach(b, 0, target)
}

func (q *Q) reach(b0 *ssa.BasicBlock, idx0 int, target func(ssa.Instruction) bool) (bool, []Step, ssa.Instruction) {
	type st struct {
		b   *ssa.BasicBlock
		idx int
		par int
		via *Step
		env *phiEnv
		a   int
	}
	type vkey struct {
		b   *ssa.BasicBlock
		env string
		a   int
	}
	var env0 *phiEnv
	if len(q.AssumeNil) > 0 {
		env0 = newPhiEnv(nil, q.AssumeNil)
	}
	queue := []st{{b0, idx0, -1, nil, env0, 0}}
	visited := map[vkey]bool{}
	mk := func(i int) []Step {
		var rev []Step
		for j := i; j >= 0; j = queue[j].par {
			if queue[j].via != nil {
				rev = append(rev, *queue[j].via)
			}
		}
		for l, r := 0, len(rev)-1; l < r; l, r = l+1, r-1 {
			rev[l], rev[r] = rev[r], rev[l]
		}
		return rev
	}
	predIndex := func(s, p *ssa.BasicBlock, nth int) int {
		// index of the nth occurrence of p among s.Preds
		c := 0
		for i, x := range s.Preds {
			if x == p {
				if c == nth {
					return i
				}
				c++
			}
		}
		return 0
	}
	for qi := 0; qi < len(queue); qi++ {
		if len(queue) > 200000 {
			break
		}
		cur := queue[qi]
		b := cur.b
		stopped := false
		for i := cur.idx; i < len(b.Instrs); i++ {
			in := b.Instrs[i]
			if target(in) {
				var rev []*ssa.BasicBlock
				for j := qi; j >= 0; j = queue[j].par {
					rev = append(rev, queue[j].b)
				}
				for l, r := 0, len(rev)-1; l < r; l, r = l+1, r-1 {
					rev[l], rev[r] = rev[r], rev[l]
				}
				q.LastBlocks = rev
				return true, mk(qi), in
			}
			if (q.NoPass != nil && (q.NoPass(in) || q.helperMustPass(in))) || IsNoReturn(in) {
				stopped = true
				break
			}
		}
		if stopped {
			continue
		}
		last := b.Instrs[len(b.Instrs)-1]
		ifi, isIf := last.(*ssa.If)
		occ := map[*ssa.BasicBlock]int{}
		for k, s := range b.Succs {
			nth := occ[s]
			occ[s]++
			a := cur.a
			var via *Step
			nilFact, nilIs := false, false
			var nilVal ssa.Value
			if isIf {
				v, neg, known, val := effCond(ifi, cur.env)
				if known && val != (k == 0) {
					continue
				}
				// a second test of a value whose nil-ness an earlier branch of this path has decided
				if bo, isBin := v.(*ssa.BinOp); isBin && !known && (bo.Op == token.EQL || bo.Op == token.NEQ) {
					if x, isNilTest := nilOperand(bo); isNilTest && nilTested(b.Parent(), x) > 1 {
						// truth of "x == nil" on this edge
						isNil := ((k == 0) != neg) == (bo.Op == token.EQL)
						if cur.env != nil {
							if t, have := cur.env.nilOf[x]; have && t != isNil {
								continue
							}
						}
						nilFact, nilVal, nilIs = true, x, isNil
					}
				}
				e := Edge{If: ifi, True: k == 0, cond: v, neg: neg, has: true}
				if !q.KeepFailpoints && IsFailpointEdgeInfeasible(e) {
					continue
				}
				if q.NoEdge != nil && q.NoEdge(e) {
					continue
				}
				if q.Auto != nil {
					na, ok := q.Auto(e, a)
					if !ok {
						continue
					}
					a = na
				}
				via = &Step{ifi, k == 0}
			}
			envIn := cur.env
			if nilFact {
				envIn = envIn.withNil(nilVal, nilIs)
			}
			env := envIn.with(s, predIndex(s, b, nth))
			key := vkey{s, env.k(), a}
			if visited[key] {
				continue
			}
			visited[key] = true
			queue = append(queue, st{s, 0, qi, via, env, a})
		}
	}
	return false, nil, nil
}

// Witness renders branch decisions.
func (p *Prog) Witness(steps []Step) string {
	var sb []string
	for _, s := range steps {
		t := "F"
		if s.True {
			t = "T"
		}
		at := p.EdgeAtom(Edge{If: s.If, True: s.True})
		if len(at) > 90 {
			at = at[:90] + "…"
		}
		sb = append(sb, fmt.Sprintf("%s=%s[%s]", p.InstrPos(s.If), t, at))
	}
	if len(sb) > 14 {
		sb = append(sb[:7], append([]string{"…"}, sb[len(sb)-6:]...)...)
	}
	return strings.Join(sb, " ")
}

// IsReturn matches return instructions.
func IsReturn(in ssa.Instruction) bool { _, ok := in.(*ssa.Return); return ok }

// Guarded: is `at` reachable from entry only through an edge on which atom a has truth t?
// Returns (guarded, witness of an unguarded path).
func Guarded(fn *ssa.Function, at ssa.Instruction, a Pred, t bool) (bool, []Step) {
	q := &Q{Fn: fn, NoEdge: func(e Edge) bool {
		m, tr := EdgeTruth(e, a)
		return m && tr == t
	}}
	found, w, _ := q.Reach(nil, func(in ssa.Instruction) bool { return in == at })
	return !found, w
}

// GuardedAny: reachable only through an edge satisfying one of several (atom,truth) pairs.
type AtomT struct {
	A Pred
	T bool
}

func GuardedAny(fn *ssa.Function, at ssa.Instruction, as ...AtomT) (bool, []Step) {
	q := &Q{Fn: fn, NoEdge: func(e Edge) bool {
		for _, a := range as {
			if m, tr := EdgeTruth(e, a.A); m && tr == a.T {
				return true
			}
		}
		return false
	}}
	found, w, _ := q.Reach(nil, func(in ssa.Instruction) bool { return in == at })
	return !found, w
}

// MustPassBefore: every path from entry to `at` passes an instruction matching `through`.
func MustPassBefore(fn *ssa.Function, at ssa.Instruction, through func(ssa.Instruction) bool) (bool, []Step) {
	q := &Q{Fn: fn, NoPass: through}
	found, w, _ := q.Reach(nil, func(in ssa.Instruction) bool { return in == at && !through(in) })
	return !found, w
}

// MustPassAfter: every path from `from` to a target passes `through` first.
func MustPassAfter(fn *ssa.Function, from ssa.Instruction, through, target func(ssa.Instruction) bool, noEdge func(Edge) bool) (bool, []Step, ssa.Instruction) {
	q := &Q{Fn: fn, NoPass: through, NoEdge: noEdge}
	found, w, hit := q.Reach(from, func(in ssa.Instruction) bool { return !through(in) && target(in) })
	return !found, w, hit
}

// ---------------------------------------------------------------------------------------
// Atom constructors

// AnyV matches anything.
func AnyV(ssa.Value) bool { return true }

// CalleeOf returns the statically resolved callee of a call-like value.
func CalleeOf(v ssa.Value) *ssa.Function {
	if c, ok := v.(*ssa.Call); ok {
		return c.Call.StaticCallee()
	}
	return nil
}

// CallCommon of any call instruction (Call, Go, Defer).
func CallCommonOf(in ssa.Instruction) *ssa.CallCommon {
	if c, ok := in.(ssa.CallInstruction); ok {
		return c.Common()
	}
	return nil
}

// IsCallTo: value is a call of one of fns (static callee), or an interface invoke of a
// method with one of the given names when byName is used.
func IsCallTo(fns ...*ssa.Function) VM {
	return func(v ssa.Value) bool {
		c := CalleeOf(Strip(v))
		if c == nil {
			return false
		}
		for _, f := range fns {
			if f != nil && (c == f || c.Origin() == f) {
				return true
			}
		}
		return false
	}
}

// IsInvokeOf: value is an interface method call named name.
func IsInvokeOf(name string) VM {
	return func(v ssa.Value) bool {
		c, ok := Strip(v).(*ssa.Call)
		return ok && c.Call.IsInvoke() && c.Call.Method.Name() == name
	}
}

// IsCallNamed: static callee or invoked method has this name (any receiver).
func IsCallNamed(name string) VM {
	return func(v ssa.Value) bool {
		c, ok := Strip(v).(*ssa.Call)
		if !ok {
			return false
		}
		if c.Call.IsInvoke() {
			return c.Call.Method.Name() == name
		}
		if f := c.Call.StaticCallee(); f != nil {
			return f.Name() == name
		}
		return false
	}
}

// LoadsField: value is a load of field f (any base), including atomic loads of &x.f and
// .Load() on atomic-typed fields.
func LoadsField(f *types.Var) VM {
	return func(v ssa.Value) bool {
		return loadsField(Strip(v), f)
	}
}

func loadsField(v ssa.Value, f *types.Var) bool {
	switch x := v.(type) {
	case *ssa.UnOp:
		if x.Op == token.MUL {
			if fa, ok := x.X.(*ssa.FieldAddr); ok {
				return FieldOfAddr(fa) == f
			}
		}
	case *ssa.Field:
		return FieldOfField(x) == f
	case *ssa.Call:
		// atomic.LoadX(&x.f) or x.f.Load()
		args := x.Call.Args
		if c := x.Call.StaticCallee(); c != nil && len(args) >= 1 {
			if strings.HasPrefix(c.Name(), "Load") {
				if fa, ok := args[0].(*ssa.FieldAddr); ok && FieldOfAddr(fa) == f {
					return true
				}
			}
		}
	}
	return false
}

// FieldOfAddr returns the field object addressed.
func FieldOfAddr(fa *ssa.FieldAddr) *types.Var {
	st := structOf(fa.X.Type())
	if st == nil {
		return nil
	}
	return st.Field(fa.Field)
}

// FieldOfField returns the field object of a Field (value struct) instruction.
func FieldOfField(f *ssa.Field) *types.Var {
	st := structOf(f.X.Type())
	if st == nil {
		return nil
	}
	return st.Field(f.Field)
}

// PTrue: the condition value itself matches m (atom = "m is true").
func PTrue(m VM) Pred {
	return func(v ssa.Value) (bool, bool) {
		if m(v) {
			return true, true
		}
		// x == true / x != false forms and "x != 0" on integer flags
		if b, ok := v.(*ssa.BinOp); ok && (b.Op == token.EQL || b.Op == token.NEQ || b.Op == token.GTR) {
			if c, ok := b.Y.(*ssa.Const); ok && m(b.X) {
				if c.Value != nil && c.Value.Kind() == constant.Bool {
					tv := constant.BoolVal(c.Value)
					return true, (b.Op == token.EQL) == tv
				}
				if c.Value != nil && c.Value.Kind() == constant.Int {
					if z, _ := constant.Int64Val(c.Value); z == 0 {
						// x != 0, x > 0  => true ; x == 0 => false
						return true, b.Op != token.EQL
					}
				}
			}
		}
		return false, false
	}
}

// PIsNil: atom "x == nil" for x matching m.
func PIsNil(m VM) Pred {
	return func(v ssa.Value) (bool, bool) {
		b, ok := v.(*ssa.BinOp)
		if !ok || (b.Op != token.EQL && b.Op != token.NEQ) {
			return false, false
		}
		var o ssa.Value
		if isNilConst(b.X) {
			o = b.Y
		} else if isNilConst(b.Y) {
			o = b.X
		} else {
			return false, false
		}
		if !m(Strip(o)) && !m(o) {
			return false, false
		}
		return true, b.Op == token.EQL
	}
}

// ErrResultOf: matches the error result of a call matched by callm (the call value itself
// when it returns a single value, or the Extract of its last result).
func ErrResultOf(callm VM) VM {
	return func(v ssa.Value) bool {
		v = Strip(v)
		if ex, ok := v.(*ssa.Extract); ok {
			if c, ok := ex.Tuple.(*ssa.Call); ok {
				sig := c.Call.Signature()
				return ex.Index == sig.Results().Len()-1 && callm(c)
			}
			return false
		}
		if c, ok := v.(*ssa.Call); ok {
			return c.Call.Signature().Results().Len() == 1 && callm(c)
		}
		return false
	}
}

// ResultOf: matches result #idx of a call matched by callm.
func ResultOf(callm VM, idx int) VM {
	return func(v ssa.Value) bool {
		v = Strip(v)
		if ex, ok := v.(*ssa.Extract); ok {
			if c, ok := ex.Tuple.(*ssa.Call); ok {
				return ex.Index == idx && callm(c)
			}
			return false
		}
		if c, ok := v.(*ssa.Call); ok {
			return idx == 0 && c.Call.Signature().Results().Len() == 1 && callm(c)
		}
		return false
	}
}

var flipOp = map[token.Token]token.Token{token.LSS: token.GTR, token.GTR: token.LSS, token.LEQ: token.GEQ, token.GEQ: token.LEQ, token.EQL: token.EQL, token.NEQ: token.NEQ}
var negOp = map[token.Token]token.Token{token.LSS: token.GEQ, token.GEQ: token.LSS, token.GTR: token.LEQ, token.LEQ: token.GTR, token.EQL: token.NEQ, token.NEQ: token.EQL}

// PCmp: atom "x op y". Recognises the swapped and negated spellings.
func PCmp(op token.Token, x, y VM) Pred {
	return func(v ssa.Value) (bool, bool) {
		b, ok := v.(*ssa.BinOp)
		if !ok {
			return false, false
		}
		if _, isCmp := negOp[b.Op]; !isCmp {
			return false, false
		}
		bop := b.Op
		// unsigned x: x != 0 is x > 0, x == 0 is x <= 0
		if bop == token.NEQ || bop == token.EQL {
			isU := func(t types.Type) bool {
				bt, ok := t.Underlying().(*types.Basic)
				return ok && bt.Info()&types.IsUnsigned != 0
			}
			isZero := func(v ssa.Value) bool {
				c, ok := Strip(v).(*ssa.Const)
				if !ok || c.Value == nil || c.Value.Kind() != constant.Int {
					return false
				}
				z, ok := constant.Int64Val(c.Value)
				return ok && z == 0
			}
			if isU(b.X.Type()) && (op == token.GTR || op == token.LEQ || op == token.LSS || op == token.GEQ) {
				switch {
				case isZero(b.Y) && bop == token.NEQ:
					bop = token.GTR
				case isZero(b.Y) && bop == token.EQL:
					bop = token.LEQ
				case isZero(b.X) && bop == token.NEQ:
					bop = token.LSS
				case isZero(b.X) && bop == token.EQL:
					bop = token.GEQ
				}
			}
		}
		var okm bool
		if (x(b.X) || x(Strip(b.X))) && (y(b.Y) || y(Strip(b.Y))) {
			okm = true
		} else if (x(b.Y) || x(Strip(b.Y))) && (y(b.X) || y(Strip(b.X))) {
			okm = true
			bop = flipOp[bop]
		}
		if !okm {
			return false, false
		}
		if bop == op {
			return true, true
		}
		if bop == negOp[op] {
			return true, false
		}
		return false, false
	}
}

// IsIntConst matches an integer constant with value n.
func IsIntConst(n int64) VM {
	return func(v ssa.Value) bool {
		c, ok := v.(*ssa.Const)
		if !ok || c.Value == nil || c.Value.Kind() != constant.Int {
			return false
		}
		z, ok := constant.Int64Val(c.Value)
		return ok && z == n
	}
}

// IsLenOf matches len(x) for x matching m.
func IsLenOf(m VM) VM {
	return func(v ssa.Value) bool {
		c, ok := Strip(v).(*ssa.Call)
		if !ok {
			return false
		}
		b, ok := c.Call.Value.(*ssa.Builtin)
		if !ok || b.Name() != "len" {
			return false
		}
		return m(c.Call.Args[0]) || m(Strip(c.Call.Args[0]))
	}
}

// PEmpty: atom "len(x) == 0" for x matching m (all spellings: ==0, !=0, >0, <=0, <1 ...).
func PEmpty(m VM) Pred {
	eq := PCmp(token.EQL, IsLenOf(m), IsIntConst(0))
	gt := PCmp(token.GTR, IsLenOf(m), IsIntConst(0))
	ge1 := PCmp(token.GEQ, IsLenOf(m), IsIntConst(1))
	return func(v ssa.Value) (bool, bool) {
		if ok, pol := eq(v); ok {
			return true, pol
		}
		if ok, pol := gt(v); ok {
			return true, !pol
		}
		if ok, pol := ge1(v); ok {
			return true, !pol
		}
		return false, false
	}
}

// Or of value matchers.
func OrV(ms ...VM) VM {
	return func(v ssa.Value) bool {
		for _, m := range ms {
			if m(v) {
				return true
			}
		}
		return false
	}
}

// Instrs iterates all instructions of fn.
func Instrs(fn *ssa.Function, f func(ssa.Instruction)) {
	for _, b := range fn.Blocks {
		for _, in := range b.Instrs {
			f(in)
		}
	}
}

// FindCalls returns call instructions (Call, Go, Defer) in fn whose callee matches.
func FindCalls(fn *ssa.Function, m func(*ssa.CallCommon) bool) []ssa.CallInstruction {
	var out []ssa.CallInstruction
	Instrs(fn, func(in ssa.Instruction) {
		if c, ok := in.(ssa.CallInstruction); ok && m(c.Common()) {
			out = append(out, c)
		}
	})
	return out
}

// CallsTo: matcher for CallCommon by static callee (generic origins folded).
func CallsTo(fns ...*ssa.Function) func(*ssa.CallCommon) bool {
	return func(c *ssa.CallCommon) bool {
		callee := c.StaticCallee()
		if callee == nil {
			return false
		}
		for _, f := range fns {
			if f != nil && (callee == f || callee.Origin() == f) {
				return true
			}
		}
		return false
	}
}

// CallsMethodNamed matches static or interface calls of a method/function with this name
// whose receiver (or package for plain functions) type string contains recvSub ("" = any).
func CallsMethodNamed(name, recvSub string) func(*ssa.CallCommon) bool {
	return func(c *ssa.CallCommon) bool {
		if c.IsInvoke() {
			if c.Method.Name() != name {
				return false
			}
			return recvSub == "" || strings.Contains(c.Value.Type().String(), recvSub)
		}
		f := c.StaticCallee()
		if f == nil {
			return false
		}
		fname := f.Name()
		if f.Origin() != nil {
			fname = f.Origin().Name()
		}
		if fname != name {
			return false
		}
		if recvSub == "" {
			return true
		}
		return strings.Contains(f.String(), recvSub)
	}
}

// InstrIs adapts a CallCommon matcher to an instruction predicate.
func InstrIs(m func(*ssa.CallCommon) bool) func(ssa.Instruction) bool {
	return func(in ssa.Instruction) bool {
		if _, isDefer := in.(*ssa.Defer); isDefer {
			return false // a deferred call does not happen here
		}
		if c, ok := in.(ssa.CallInstruction); ok {
			return m(c.Common())
		}
		return false
	}
}

// PhiAlong resolves value v along a block path (as returned in Q.LastBlocks): φ-nodes are
// replaced by the incoming value of the edge the path took, repeatedly.
func PhiAlong(v ssa.Value, path []*ssa.BasicBlock) ssa.Value {
	for i := 0; i < 16; i++ {
		phi, ok := v.(*ssa.Phi)
		if !ok {
			return v
		}
		// last occurrence of phi's block in the path with a predecessor
		idx := -1
		for k := len(path) - 1; k >= 1; k-- {
			if path[k] == phi.Block() {
				idx = k
				break
			}
		}
		if idx < 1 {
			return v
		}
		pred := path[idx-1]
		found := false
		for pi, pb := range phi.Block().Preds {
			if pb == pred {
				v = phi.Edges[pi]
				found = true
				break
			}
		}
		if !found {
			return v
		}
		path = path[:idx]
	}
	return v
}
