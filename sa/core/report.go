package core

import (
	"crypto/sha1"
	"encoding/json"
	"fmt"
	"os"
	"path/filepath"
	"sort"
	"strings"
	"time"
)

// Verdicts of one obligation.
const (
	OK        = "ok"
	Violation = "violation"
	Known     = "known-finding"
	Undecided = "undecided"
	Weak      = "ok-weak"
)

// Obligation is one rule instance checked on one construct.
type Obligation struct {
	Rule      string `json:"rule"`
	Construct string `json:"construct"` // position-free key: function + callee/field
	Pos       string `json:"pos"`
	Verdict   string `json:"verdict"`
	Detail    string `json:"detail,omitempty"`
}

// Finding is an entry of /verif/known_findings.json.
type Finding struct {
	Property  string `json:"property"`
	Rule      string `json:"rule"`
	Construct string `json:"construct"`
	What      string `json:"what"`
	Status    string `json:"status"` // "finding" | "fixed"
	Commit    string `json:"commit,omitempty"`
}

// Ctx collects the results of one property check.
type Ctx struct {
	P        *Prog
	Property string
	Tier     string
	Obs      []Obligation
	Notes    []string
	floors   map[string]int
	findings []Finding
	// rename, when set, maps a rule id of an imported rule set to this property's id space
	// (second result false = drop the obligation).
	rename func(string) (string, bool)
}

// Import runs another property's rule function and keeps only the obligations of the listed
// rules, re-labelled "<thisProperty>.<tag><rule suffix>" — used where one structural clause is
// a necessary condition of several properties (e.g. "never resolve a live lock" for C02 and C04).
func (c *Ctx) Import(run func(*Ctx), fromProp string, keep []string, tag string) {
	if c.rename != nil {
		// already inside an imported rule set: only that set's own rules are taken
		return
	}
	old := c.rename
	c.rename = func(r string) (string, bool) {
		for _, k := range keep {
			if r == fromProp+"."+k {
				return c.Property + "." + tag + k, true
			}
		}
		return "", false
	}
	run(c)
	c.rename = old
}

func NewCtx(p *Prog, property, tier string, findings []Finding) *Ctx {
	return &Ctx{P: p, Property: property, Tier: tier, floors: map[string]int{}, findings: findings, Notes: append([]string(nil), p.Notes...)}
}

func (c *Ctx) add(rule, construct, pos, verdict, detail string) {
	if os.Getenv("SA_DUMP") != "" {
		fmt.Fprintf(os.Stderr, "OBL %s | %s | %s | %s | %s\n", rule, verdict, construct, pos, detail)
	}
	if c.rename != nil {
		nr, ok := c.rename(rule)
		if !ok {
			return
		}
		rule = nr
	}
	if verdict == Violation {
		for _, f := range c.findings {
			if f.Status == "finding" && f.Property == c.Property && f.Rule == rule && f.Construct == construct {
				verdict = Known
				detail = f.What + " — " + detail
			}
		}
	}
	c.Obs = append(c.Obs, Obligation{rule, construct, pos, verdict, detail})
}

func (c *Ctx) OK(rule, construct, pos, detail string)  { c.add(rule, construct, pos, OK, detail) }
func (c *Ctx) Bad(rule, construct, pos, detail string) { c.add(rule, construct, pos, Violation, detail) }
func (c *Ctx) Und(rule, construct, pos, detail string) { c.add(rule, construct, pos, Undecided, detail) }
func (c *Ctx) WeakOK(rule, construct, pos, detail string) {
	c.add(rule, construct, pos, Weak, detail)
}

// Check records ok/violation by condition.
func (c *Ctx) Check(cond bool, rule, construct, pos, okDetail, badDetail string) bool {
	if cond {
		c.OK(rule, construct, pos, okDetail)
	} else {
		c.Bad(rule, construct, pos, badDetail)
	}
	return cond
}

// Floor demands that rule matched at least n constructs (checked in Finish).
func (c *Ctx) Floor(rule string, n int) { c.floors[rule] = n }

func (c *Ctx) Note(format string, a ...any) { c.Notes = append(c.Notes, fmt.Sprintf(format, a...)) }

// Evidence is the JSON written to /verif/evidence/<id>.json.
type Evidence struct {
	PropertyID  string         `json:"property_id"`
	Tier        string         `json:"tier"`
	Seed        int            `json:"seed"`
	Level       string         `json:"level"`
	Coverage    map[string]any `json:"coverage"`
	Assumptions []string       `json:"assumptions"`
	WallS       float64        `json:"wall_s"`
	Violations  int            `json:"violations"`
}

var trustedBase = []string{
	"Go type checker (go/types) and go/packages loader",
	"golang.org/x/tools v0.29.0 go/ssa builder",
	"this checker (/verif/sa)",
	"kvproto / pd-client / btree / goleveldb behave as documented (not analysed)",
}

var assumptions = []string{
	"static analysis only: no code of /repo is executed; verdicts concern the structural clauses named in coverage.explanation, not the behavioural whole of the property",
	"failpoint branches (`if _, err := util.EvalFailpoint(..); err == nil`) are infeasible in production builds and pruned",
	"no reflect/unsafe/assembly writes to the tracked fields",
	"interface dispatch is over-approximated by method name + implements (CHA)",
	"access paths are not re-assigned between a guard and the guarded use",
}

// Unlisted returns the violated and undecided obligations (floors evaluated), i.e. what would make
// the check exit non-zero; known findings are not included.
func (c *Ctx) Unlisted() []Obligation {
	counts := map[string]int{}
	for _, o := range c.Obs {
		counts[o.Rule]++
	}
	var out []Obligation
	for r, n := range c.floors {
		if counts[r] < n {
			out = append(out, Obligation{r, "floor", "-", Undecided, "rule matched fewer constructs than confirmed by hand"})
		}
	}
	for _, o := range c.Obs {
		if o.Verdict == Violation || o.Verdict == Undecided {
			out = append(out, o)
		}
	}
	return out
}

// Finish evaluates floors, writes evidence and violation files, prints the verdict lines
// and returns the process exit code (0 held, 1 violation, 2 undecided).
func (c *Ctx) Finish(verifDir string, explanation string, start time.Time, extra map[string]any) int {
	// floors
	counts := map[string]int{}
	for _, o := range c.Obs {
		counts[o.Rule]++
	}
	var floorRules []string
	for r := range c.floors {
		floorRules = append(floorRules, r)
	}
	sort.Strings(floorRules)
	for _, r := range floorRules {
		if counts[r] < c.floors[r] {
			c.Und(r, "floor", "-", fmt.Sprintf("rule matched %d constructs, fewer than the %d confirmed by hand: anchors moved or the rule no longer recognises the code", counts[r], c.floors[r]))
		}
	}
	nOK, nBad, nKnown, nUnd, nWeak := 0, 0, 0, 0, 0
	rules := map[string]bool{}
	distinct := map[string]bool{}
	for _, o := range c.Obs {
		rules[o.Rule] = true
		distinct[o.Rule+"|"+o.Construct] = true
		switch o.Verdict {
		case OK:
			nOK++
		case Weak:
			nWeak++
		case Violation:
			nBad++
		case Known:
			nKnown++
		case Undecided:
			nUnd++
		}
	}
	os.MkdirAll(filepath.Join(verifDir, "evidence"), 0o755)
	os.MkdirAll(filepath.Join(verifDir, "out", "violations"), 0o755)

	// samples: every non-ok obligation plus up to 3 ok per rule
	var samples []Obligation
	perRule := map[string]int{}
	for _, o := range c.Obs {
		if o.Verdict != OK {
			samples = append(samples, o)
		} else if perRule[o.Rule] < 3 {
			perRule[o.Rule]++
			samples = append(samples, o)
		}
	}
	perRuleCount := map[string]int{}
	for _, o := range c.Obs {
		perRuleCount[o.Rule]++
	}
	cov := map[string]any{
		"explanation":         explanation,
		"obligations":         len(c.Obs),
		"discharged":          nOK + nWeak,
		"evaluations":         len(c.Obs),
		"distinct_nontrivial": len(distinct),
		"rule":                "one obligation per (rule, construct) found by type-resolved search over the SSA of all module packages; an obligation is non-trivial when it matched a concrete construct (function, call site, field write, message construction, comparison); distinct = distinct (rule, construct) keys",
		"samples":             samples,
		"checker_cmd":         fmt.Sprintf("./bin/sa check %s --tier %s", c.Property, c.Tier),
		"trusted_base":        trustedBase,
		"exhaustive":          false,
		"rules":               len(rules),
		"obligations_by_rule": perRuleCount,
		"violations":          nBad,
		"known_findings":      nKnown,
		"undecided":           nUnd,
		"weak_guards":         nWeak,
		"packages":            len(c.P.Pkgs),
		"files":               c.P.Files,
		"functions":           len(c.P.Funcs),
		"notes":               c.Notes,
	}
	for k, v := range extra {
		cov[k] = v
	}
	ev := Evidence{PropertyID: c.Property, Tier: c.Tier, Seed: seedFromEnv(), Level: "other", Coverage: cov,
		Assumptions: assumptions, WallS: time.Since(start).Seconds(), Violations: nBad}
	data, _ := json.MarshalIndent(ev, "", " ")
	evPath := filepath.Join(verifDir, "evidence", c.Property+".json")
	if err := os.WriteFile(evPath, data, 0o644); err != nil {
		fmt.Fprintln(os.Stderr, "cannot write evidence:", err)
		return 2
	}

	fmt.Printf("property=%s tier=%s packages=%d files=%d functions=%d rules=%d obligations=%d ok=%d weak=%d known=%d violations=%d undecided=%d\n",
		c.Property, c.Tier, len(c.P.Pkgs), c.P.Files, len(c.P.Funcs), len(rules), len(c.Obs), nOK, nWeak, nKnown, nBad, nUnd)
	var rl []string
	for r, n := range perRuleCount {
		rl = append(rl, fmt.Sprintf("%s:%d", r, n))
	}
	sort.Strings(rl)
	fmt.Println("instances:", strings.Join(rl, " "))
	for _, n := range c.P.Notes {
		fmt.Println("note:", n)
	}
	for _, o := range c.Obs {
		switch o.Verdict {
		case Known:
			fmt.Printf("KNOWN-FINDING: property=%s rule=%s %s at %s: %s\n", c.Property, o.Rule, o.Construct, o.Pos, o.Detail)
		case Undecided:
			fmt.Printf("UNDECIDED property=%s rule=%s %s at %s: %s\n", c.Property, o.Rule, o.Construct, o.Pos, o.Detail)
		case Weak:
			fmt.Printf("note: weak guard rule=%s %s at %s: %s\n", o.Rule, o.Construct, o.Pos, o.Detail)
		}
	}
	for _, o := range c.Obs {
		if o.Verdict != Violation {
			continue
		}
		h := sha1.Sum([]byte(o.Rule + "|" + o.Construct))
		name := fmt.Sprintf("%s-%s-%x.json", c.Property, strings.ReplaceAll(o.Rule, ".", "_"), h[:4])
		path := filepath.Join(verifDir, "out", "violations", name)
		vd, _ := json.MarshalIndent(map[string]any{"property": c.Property, "obligation": o}, "", " ")
		os.WriteFile(path, vd, 0o644)
		fmt.Printf("  %s %s at %s: %s\n", o.Rule, o.Construct, o.Pos, o.Detail)
		fmt.Printf("VIOLATION property=%s replay=%s\n", c.Property, path)
	}
	if nBad > 0 {
		return 1
	}
	if nUnd > 0 {
		return 2
	}
	return 0
}

func seedFromEnv() int {
	var n int
	fmt.Sscanf(os.Getenv("VERIF_SEED"), "%d", &n)
	return n
}

// LoadFindings reads /verif/known_findings.json.
func LoadFindings(path string) ([]Finding, error) {
	data, err := os.ReadFile(path)
	if err != nil {
		if os.IsNotExist(err) {
			return nil, nil
		}
		return nil, err
	}
	var doc struct {
		Findings []Finding `json:"findings"`
	}
	if err := json.Unmarshal(data, &doc); err != nil {
		return nil, err
	}
	return doc.Findings, nil
}
