package main

import (
	"encoding/json"
	"fmt"
	"os"
	"os/exec"
	"path/filepath"
	"sort"
	"strings"
	"sync"
	"time"

	"verif/sa/core"
	"verif/sa/rules"
)

// Variant is one seeded edit, analysed through an in-memory overlay (never written to /repo).
type Variant struct {
	ID       string `json:"id"`
	Property string `json:"property"`
	File     string `json:"file"` // relative to the repo root
	Old      string `json:"old"`
	New      string `json:"new"`
	// Patch: alternatively a unified diff (path relative to /verif) applied to scratch copies
	// of the touched files.
	Patch  string `json:"patch,omitempty"`
	Expect string `json:"expect"` // rule id prefix that must fire, or "none" for neutral refactors
	Note   string `json:"note,omitempty"`
	// KnownFalseAlarm: a neutral variant on which the checks are known to raise an alarm (documented limit)
	KnownFalseAlarm string `json:"known_false_alarm,omitempty"`
}

type variantResult struct {
	V       Variant
	Fired   []string
	Err     string
	Pass    bool
	Skipped bool
}

func loadVariants(verif string) ([]Variant, error) {
	var all []Variant
	files, _ := filepath.Glob(filepath.Join(verif, "selftest", "*.json"))
	sort.Strings(files)
	for _, f := range files {
		data, err := os.ReadFile(f)
		if err != nil {
			return nil, err
		}
		var vs []Variant
		if err := json.Unmarshal(data, &vs); err != nil {
			return nil, fmt.Errorf("%s: %w", f, err)
		}
		all = append(all, vs...)
	}
	// seeded patches kept under /verif/seeded/<name>/{patch.diff,meta.json}
	dirs, _ := filepath.Glob(filepath.Join(verif, "seeded", "*", "meta.json"))
	sort.Strings(dirs)
	for _, m := range dirs {
		data, err := os.ReadFile(m)
		if err != nil {
			continue
		}
		var meta struct {
			Property string `json:"property"`
			Expect   string `json:"expect"`
			KFA      string `json:"known_false_alarm"`
		}
		json.Unmarshal(data, &meta)
		dir := filepath.Dir(m)
		exp := meta.Expect
		if exp == "" {
			exp = meta.Property
		}
		all = append(all, Variant{ID: "seeded/" + filepath.Base(dir), Property: meta.Property, Patch: filepath.Join(dir, "patch.diff"), Expect: exp, KnownFalseAlarm: meta.KFA})
	}
	return all, nil
}

// overlayFor builds the overlay map of a variant. ok=false means the variant does not apply
// to the current tree (skipped, not failed).
func overlayFor(v Variant, repo string) (map[string][]byte, bool, string) {
	if v.Patch == "" {
		path := filepath.Join(repo, v.File)
		data, err := os.ReadFile(path)
		if err != nil {
			return nil, false, err.Error()
		}
		s := string(data)
		if strings.Count(s, v.Old) != 1 {
			return nil, false, fmt.Sprintf("pattern occurs %d times in %s", strings.Count(s, v.Old), v.File)
		}
		return map[string][]byte{path: []byte(strings.Replace(s, v.Old, v.New, 1))}, true, ""
	}
	// patch: copy touched files to a scratch dir, apply with patch(1), read back
	pdata, err := os.ReadFile(v.Patch)
	if err != nil {
		return nil, false, err.Error()
	}
	var files []string
	for _, line := range strings.Split(string(pdata), "\n") {
		if strings.HasPrefix(line, "+++ b/") {
			files = append(files, strings.TrimPrefix(line, "+++ b/"))
		}
	}
	tmp, err := os.MkdirTemp("", "sa-variant")
	if err != nil {
		return nil, false, err.Error()
	}
	defer os.RemoveAll(tmp)
	for _, f := range files {
		os.MkdirAll(filepath.Dir(filepath.Join(tmp, f)), 0o755)
		src, err := os.ReadFile(filepath.Join(repo, f))
		if err != nil {
			if os.IsNotExist(err) {
				continue // a file the patch creates
			}
			return nil, false, err.Error()
		}
		os.WriteFile(filepath.Join(tmp, f), src, 0o644)
	}
	cmd := exec.Command("patch", "-p1", "-s", "--no-backup-if-mismatch", "-i", v.Patch)
	cmd.Dir = tmp
	if out, err := cmd.CombinedOutput(); err != nil {
		return nil, false, "patch does not apply: " + strings.TrimSpace(string(out))
	}
	ov := map[string][]byte{}
	for _, f := range files {
		d, err := os.ReadFile(filepath.Join(tmp, f))
		if err != nil {
			return nil, false, err.Error()
		}
		ov[filepath.Join(repo, f)] = d
	}
	return ov, true, ""
}

// runVariant analyses one variant and returns the rule ids that reported a violation.
func runVariant(v Variant, repo, verif string) variantResult {
	res := variantResult{V: v}
	ov, ok, why := overlayFor(v, repo)
	if !ok {
		res.Skipped = true
		res.Err = why
		return res
	}
	spec, okk := rules.Registry[v.Property]
	if !okk {
		res.Skipped = true
		res.Err = "no check registered for " + v.Property
		return res
	}
	func() {
		defer func() {
			if r := recover(); r != nil {
				res.Err = fmt.Sprint("panic: ", r)
			}
		}()
		prog, err := core.Load(repo, ov, "")
		if err != nil {
			res.Err = err.Error()
			return
		}
		defer func() {
			// the process-wide caches are keyed by SSA objects: let this variant's program be collected
			core.ForgetProgram(prog)
			core.ResetCaches()
		}()
		findings, _ := core.LoadFindings(filepath.Join(verif, "known_findings.json"))
		ctx := core.NewCtx(prog, v.Property, "selftest", findings)
		spec.Run(ctx)
		seen := map[string]bool{}
		for _, o := range ctx.Obs {
			if o.Verdict == core.Violation && !seen[o.Rule] {
				seen[o.Rule] = true
				res.Fired = append(res.Fired, o.Rule)
			}
			if o.Verdict == core.Undecided && !seen["UNDECIDED:"+o.Rule] {
				seen["UNDECIDED:"+o.Rule] = true
				res.Fired = append(res.Fired, "UNDECIDED:"+o.Rule)
			}
		}
	}()
	if res.Err != "" {
		return res
	}
	if v.Expect == "none" {
		res.Pass = len(res.Fired) == 0
	} else {
		for _, f := range res.Fired {
			if strings.HasPrefix(f, v.Expect) {
				res.Pass = true
			}
		}
	}
	return res
}

func selftest(only, repo, verif string) int {
	start := time.Now()
	vs, err := loadVariants(verif)
	if err != nil {
		fmt.Println("selftest:", err)
		return 2
	}
	var sel []Variant
	for _, v := range vs {
		if only == "" || v.Property == only || strings.HasPrefix(v.ID, only) {
			sel = append(sel, v)
		}
	}
	results := make([]variantResult, len(sel))
	sem := make(chan struct{}, 2)
	var wg sync.WaitGroup
	for i := range sel {
		wg.Add(1)
		go func(i int) {
			defer wg.Done()
			sem <- struct{}{}
			defer func() { <-sem }()
			results[i] = runVariant(sel[i], repo, verif)
		}(i)
	}
	wg.Wait()
	fail := 0
	for _, r := range results {
		status := "PASS"
		switch {
		case r.Skipped:
			status = "SKIP"
		case r.Err != "":
			status = "ERR "
			fail++
		case !r.Pass:
			status = "MISS"
			fail++
		}
		fmt.Printf("%s %-4s %-40s expect=%-8s fired=%v %s\n", status, r.V.Property, r.V.ID, r.V.Expect, r.Fired, r.Err)
	}
	fmt.Printf("selftest: %d variants, %d not as expected, %.1fs\n", len(sel), fail, time.Since(start).Seconds())
	if fail > 0 {
		return 1
	}
	return 0
}

// selftestFor runs the variants of one property and returns counters for the evidence file.
func selftestFor(id, repo, verif string) map[string]any {
	res := map[string]any{"variants": 0, "mutants_fired": 0, "neutral_silent": 0, "missed": 0, "skipped": 0, "missed_ids": []string{}}
	vs, err := loadVariants(verif)
	if err != nil {
		res["error"] = err.Error()
		return res
	}
	var sel []Variant
	for _, v := range vs {
		if v.Property == id {
			sel = append(sel, v)
		}
	}
	results := make([]variantResult, len(sel))
	sem := make(chan struct{}, 2)
	var wg sync.WaitGroup
	for i := range sel {
		wg.Add(1)
		go func(i int) {
			defer wg.Done()
			sem <- struct{}{}
			defer func() { <-sem }()
			results[i] = runVariant(sel[i], repo, verif)
		}(i)
	}
	wg.Wait()
	fired, silent, missed, skipped, knownFA := 0, 0, 0, 0, 0
	var missedIDs, detail []string
	for _, r := range results {
		switch {
		case r.Skipped || r.Err != "":
			skipped++
			detail = append(detail, r.V.ID+": skipped ("+r.Err+")")
		case r.Pass && r.V.Expect == "none":
			silent++
		case r.Pass:
			fired++
			detail = append(detail, r.V.ID+": fired "+strings.Join(r.Fired, ","))
		case r.V.Expect == "none" && r.V.KnownFalseAlarm != "":
			knownFA++
			detail = append(detail, r.V.ID+": KNOWN FALSE ALARM of the machinery ("+r.V.KnownFalseAlarm+"): "+strings.Join(r.Fired, ","))
		default:
			missed++
			missedIDs = append(missedIDs, r.V.ID)
		}
	}
	res["known_false_alarms"] = knownFA
	if missedIDs == nil {
		missedIDs = []string{}
	}
	res["variants"], res["mutants_fired"], res["neutral_silent"], res["missed"], res["skipped"], res["missed_ids"], res["detail"] = len(sel), fired, silent, missed, skipped, missedIDs, detail
	return res
}
