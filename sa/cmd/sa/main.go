// sa: repository-specific static checker for tikv/client-go (see /verif/DESIGN.md).
package main

import (
	"encoding/json"
	"flag"
	"fmt"
	"go/types"
	"os"
	"path/filepath"
	"sort"
	"strings"
	"time"

	"golang.org/x/tools/go/ssa"

	"verif/sa/core"
	"verif/sa/rules"
)

func usage() {
	fmt.Fprintln(os.Stderr, `usage:
  sa check <ID> [--tier quick|thorough] [--repo /repo] [--verif /verif]
  sa explain <violation.json>
  sa list
  sa selftest [<ID>]   (applies seeded patches as in-memory overlays; reports which checks fire)`)
	os.Exit(2)
}

func main() {
	if len(os.Args) < 2 {
		usage()
	}
	switch os.Args[1] {
	case "list":
		ids := make([]string, 0)
		for id := range rules.Registry {
			ids = append(ids, id)
		}
		sort.Strings(ids)
		for _, id := range ids {
			fmt.Println(id, "-", rules.Registry[id].Title)
		}
	case "genref":
		// sa genref : write the declaration table of /repo (the pinned tree) to core/ref_decls.json
		os.Setenv("SA_NO_NORMALIZE", "1")
		prog, err := core.Load("/repo", nil, "")
		if err != nil {
			fmt.Fprintln(os.Stderr, err)
			os.Exit(2)
		}
		data, _ := json.MarshalIndent(core.DeclTable(prog.Pkgs), "", " ")
		out := "/verif/sa/core/ref_decls.json"
		if len(os.Args) > 2 {
			out = os.Args[2]
		}
		if err := os.WriteFile(out, data, 0o644); err != nil {
			fmt.Fprintln(os.Stderr, err)
			os.Exit(2)
		}
		fmt.Println("wrote", out, len(data), "bytes")
	case "crosspatch":
		// sa crosspatch <patch.diff>... : analyse /repo with each patch applied as an in-memory overlay and run
		// EVERY registered check on it; prints the rules that report a violation / undecided. /repo is not touched.
		code := 0
		for _, pf := range os.Args[2:] {
			ov, ok, why := overlayFor(Variant{ID: pf, Patch: pf}, "/repo")
			if !ok {
				fmt.Printf("%s\tSKIP\t%s\n", pf, why)
				continue
			}
			prog, err := core.Load("/repo", ov, "")
			if err != nil {
				fmt.Printf("%s\tLOAD-ERROR\t%v\n", pf, err)
				code = 2
				continue
			}
			findings, _ := core.LoadFindings("/verif/known_findings.json")
			if os.Getenv("SA_XP_VERBOSE") != "" {
				for _, n := range prog.Notes {
					fmt.Fprintln(os.Stderr, "   note:", n)
				}
			}
			ids := make([]string, 0)
			for id := range rules.Registry {
				ids = append(ids, id)
			}
			sort.Strings(ids)
			var fired []string
			for _, id := range ids {
				func() {
					defer func() {
						if r := recover(); r != nil {
							fired = append(fired, id+":PANIC")
						}
					}()
					ctx := core.NewCtx(prog, id, "crosspatch", findings)
					rules.Registry[id].Run(ctx)
					seen := map[string]bool{}
					for _, o := range ctx.Unlisted() {
						k := o.Rule
						if os.Getenv("SA_XP_VERBOSE") != "" {
							d := o.Detail
							if len(d) > 420 {
								d = d[:420]
							}
							fmt.Fprintf(os.Stderr, "   %s %s [%s] %s @%s: %s\n", pf, o.Rule, o.Verdict, o.Construct, o.Pos, d)
						}
						if o.Verdict == core.Undecided {
							k = "UNDECIDED:" + k
						}
						if !seen[k] {
							seen[k] = true
							fired = append(fired, k)
						}
					}
				}()
			}
			fmt.Printf("%s\t%d\t%s\n", pf, len(fired), strings.Join(fired, " "))
			core.ForgetProgram(prog)
			core.ResetCaches()
		}
		os.Exit(code)
	case "lockleaks":
		prog, err := core.Load("/repo", nil, "")
		if err != nil {
			fmt.Fprintln(os.Stderr, err)
			os.Exit(2)
		}
		rules.LockLeakSurvey(prog)
	case "describe":
		ids := make([]string, 0)
		for id := range rules.Registry {
			ids = append(ids, id)
		}
		sort.Strings(ids)
		for _, id := range ids {
			fmt.Printf("%s\t%s\n", id, rules.Registry[id].Explanation)
		}
	case "check":
		if len(os.Args) < 3 {
			usage()
		}
		id := os.Args[2]
		fs := flag.NewFlagSet("check", flag.ExitOnError)
		tier := fs.String("tier", "quick", "quick|thorough")
		repo := fs.String("repo", "/repo", "repository root")
		verif := fs.String("verif", "/verif", "verif root")
		fs.Parse(os.Args[3:])
		if t := os.Getenv("VERIF_TIER"); t != "" && (t == "quick" || t == "thorough") {
			_ = t
		}
		os.Exit(runCheck(id, *tier, *repo, *verif, nil, true))
	case "explain":
		if len(os.Args) < 3 {
			usage()
		}
		data, err := os.ReadFile(os.Args[2])
		if err != nil {
			fmt.Fprintln(os.Stderr, err)
			os.Exit(2)
		}
		var doc struct {
			Property   string          `json:"property"`
			Obligation core.Obligation `json:"obligation"`
		}
		if err := json.Unmarshal(data, &doc); err != nil {
			fmt.Fprintln(os.Stderr, err)
			os.Exit(2)
		}
		fmt.Printf("recorded violation: property=%s rule=%s construct=%s at %s\n  %s\nre-running the property's rules on the current tree:\n",
			doc.Property, doc.Obligation.Rule, doc.Obligation.Construct, doc.Obligation.Pos, doc.Obligation.Detail)
		os.Exit(runCheck(doc.Property, "quick", "/repo", "/verif", nil, false))
	case "selftest":
		fs := flag.NewFlagSet("selftest", flag.ExitOnError)
		repo := fs.String("repo", "/repo", "repository root")
		verif := fs.String("verif", "/verif", "verif root")
		var only string
		args := os.Args[2:]
		if len(args) > 0 && args[0][0] != '-' {
			only = args[0]
			args = args[1:]
		}
		fs.Parse(args)
		os.Exit(selftest(only, *repo, *verif))
	case "writers":
		// sa writers <pkgpath> <Type> <field.path> : list writers of a field with provenance
		prog, err := core.Load("/repo", nil, "")
		if err != nil {
			fmt.Fprintln(os.Stderr, err)
			os.Exit(2)
		}
		pv := prog.Prov()
		for _, tn := range strings.Split(os.Args[3], ",") {
			n := prog.ExtNamed(os.Args[2], tn)
			if n == nil {
				n = prog.Named(os.Args[2], tn)
			}
			if n == nil {
				fmt.Println("type not found", tn)
				continue
			}
			var fields []string
			if os.Args[4] == "*" {
				st := n.Underlying().(*types.Struct)
				for i := 0; i < st.NumFields(); i++ {
					if !strings.HasPrefix(st.Field(i).Name(), "XXX_") {
						fields = append(fields, st.Field(i).Name())
					}
				}
			} else {
				fields = strings.Split(os.Args[4], ",")
			}
			for _, fn := range fields {
				f := core.Field(n, fn)
				if f == nil {
					fmt.Println("field not found", fn)
					continue
				}
				for _, w := range prog.WritersOf(f) {
					if strings.Contains(core.FuncName(w.Fn), "apicodec") || strings.Contains(core.FuncName(w.Fn), "mocktikv") {
						continue
					}
					var d []string
					if w.Val != nil {
						d = pv.Desc(w.Val)
					}
					fmt.Printf("%s.%s  %s %s [%s] %v\n", tn, fn, prog.InstrPos(w.Instr), core.FuncName(w.Fn), w.Kind, d)
				}
			}
		}
	case "guards":
		// sa guards <relpkg> <recv|-> <name> : list calls/stores/returns with their dominating atoms
		prog, err := core.Load("/repo", nil, "")
		if err != nil {
			fmt.Fprintln(os.Stderr, err)
			os.Exit(2)
		}
		var roots []*ssa.Function
		if len(os.Args) == 3 || os.Args[3] == "*" {
			sp := prog.Pkg(os.Args[2])
			for _, f := range prog.Funcs {
				if f.Parent() == nil && f.Pkg == sp {
					roots = append(roots, f)
				}
			}
		} else {
			recv := os.Args[3]
			if recv == "-" {
				recv = ""
			}
			fn := prog.Func(os.Args[2], recv, os.Args[4])
			if fn == nil {
				fmt.Fprintln(os.Stderr, "not found")
				os.Exit(2)
			}
			roots = append(roots, fn)
		}
		pv := prog.Prov()
		var all []*ssa.Function
		for _, r := range roots {
			all = append(all, core.FuncsIn(r)...)
		}
		for _, f := range all {
			fmt.Println("##", core.FuncName(f))
			core.Instrs(f, func(in ssa.Instruction) {
				label := ""
				switch x := in.(type) {
				case ssa.CallInstruction:
					cc := x.Common()
					if cc.IsInvoke() {
						label = "call:" + cc.Method.Name()
					} else if cl := cc.StaticCallee(); cl != nil {
						n := cl.String()
						if strings.Contains(n, "zap.") || strings.Contains(n, "logutil") || strings.Contains(n, "metrics") || strings.Contains(n, "prometheus") || strings.HasPrefix(n, "fmt.") {
							return
						}
						label = "call:" + cl.Name()
					} else if _, ok := cc.Value.(*ssa.Builtin); ok {
						return
					} else {
						label = "call:dyn"
					}
				case *ssa.Store:
					if fa, ok := x.Addr.(*ssa.FieldAddr); ok {
						f := core.FieldOfAddr(fa)
						label = "store:" + strings.TrimPrefix(fa.X.Type().String(), "*") + "." + f.Name() + " = " + strings.Join(pv.Desc(x.Val), "|")
					} else {
						return
					}
				case *ssa.Return:
					var parts []string
					for _, r := range x.Results {
						parts = append(parts, strings.Join(pv.Desc(r), "|"))
					}
					label = "ret:" + strings.Join(parts, ",")
				case *ssa.MakeClosure:
					label = "closure:" + x.Fn.Name()
				case *ssa.Go:
					label = "go"
				default:
					return
				}
				if !core.Feasible(in) {
					return
				}
				fmt.Printf("%s  %s\n", prog.InstrPos(in), label)
				for _, a := range prog.DominatingAtoms(f, in) {
					fmt.Printf("        %s\n", a)
				}
			})
		}
	case "sentinel":
		// sa sentinel <relpkg> : survey end-key comparisons and their emptiness guards
		prog, err := core.Load("/repo", nil, "")
		if err != nil {
			fmt.Fprintln(os.Stderr, err)
			os.Exit(2)
		}
		rules.SentinelSurvey(prog, os.Args[2])
	case "dump":
		// sa dump <relpkg> <recv|-> <name> : print SSA of a function and its closures
		prog, err := core.Load("/repo", nil, "")
		if err != nil {
			fmt.Fprintln(os.Stderr, err)
			os.Exit(2)
		}
		recv := os.Args[3]
		if recv == "-" {
			recv = ""
		}
		fn := prog.Func(os.Args[2], recv, os.Args[4])
		if fn == nil {
			fmt.Fprintln(os.Stderr, "not found")
			os.Exit(2)
		}
		for _, f := range core.FuncsIn(fn) {
			f.WriteTo(os.Stdout)
		}
	default:
		usage()
	}
}

func runCheck(id, tier, repo, verif string, overlay map[string][]byte, writeEvidence bool) int {
	start := time.Now()
	spec, ok := rules.Registry[id]
	if !ok {
		fmt.Fprintf(os.Stderr, "no static check is registered for %s (see MANIFEST.json not_applicable)\n", id)
		return 2
	}
	code := 2
	func() {
		defer func() {
			if r := recover(); r != nil {
				fmt.Printf("UNDECIDED property=%s checker panic: %v\n", id, r)
				code = 2
			}
		}()
		repoAbs, _ := filepath.Abs(repo)
		prog, err := core.Load(repoAbs, overlay, "")
		if err != nil {
			fmt.Printf("UNDECIDED property=%s cannot analyse the tree: %v\n", id, err)
			code = 2
			return
		}
		findings, err := core.LoadFindings(filepath.Join(verif, "known_findings.json"))
		if err != nil {
			fmt.Printf("UNDECIDED property=%s known_findings.json unreadable: %v\n", id, err)
			code = 2
			return
		}
		ctx := core.NewCtx(prog, id, tier, findings)
		spec.Run(ctx)
		var extra map[string]any
		if tier == "thorough" && overlay == nil {
			extra = map[string]any{}
			// (1) the second build configuration (CI builds with -tags intest, which flips util/intest.InTest)
			prog2, err := core.Load(repoAbs, nil, "intest")
			if err != nil {
				fmt.Printf("UNDECIDED property=%s cannot analyse the tree with -tags intest: %v\n", id, err)
				code = 2
				return
			}
			ctx2 := core.NewCtx(prog2, id, tier, findings)
			spec.Run(ctx2)
			key := func(o core.Obligation) string { return o.Rule + "|" + o.Construct + "|" + o.Verdict }
			have := map[string]bool{}
			for _, o := range ctx.Obs {
				have[key(o)] = true
			}
			added := 0
			for _, o := range ctx2.Obs {
				if (o.Verdict == core.Violation || o.Verdict == core.Undecided) && !have[key(o)] {
					o.Detail = "[build -tags intest] " + o.Detail
					ctx.Obs = append(ctx.Obs, o)
					added++
				}
			}
			extra["configurations"] = map[string]any{
				"default": map[string]any{"obligations": len(ctx.Obs) - added, "functions": len(prog.Funcs)},
				"intest":  map[string]any{"obligations": len(ctx2.Obs), "functions": len(prog2.Funcs), "verdicts_only_in_this_configuration": added},
			}
			fmt.Printf("thorough: second configuration (-tags intest): %d obligations, %d verdicts not seen in the default configuration\n", len(ctx2.Obs), added)
			// (2) checker self-test on this property's seeded variants (in-memory overlays): recorded, printed,
			// and deliberately NOT part of the exit code (a variant that no longer applies to a changed tree
			// says nothing about the tree)
			st := selftestFor(id, repoAbs, verif)
			extra["selftest"] = st
			fmt.Printf("thorough: self-test on %d seeded variants of %s: %d fired as expected, %d neutral variants silent, %d missed, %d skipped/not applicable\n",
				st["variants"], id, st["mutants_fired"], st["neutral_silent"], st["missed"], st["skipped"])
			for _, m := range st["missed_ids"].([]string) {
				fmt.Printf("SELFTEST-MISS property=%s variant=%s\n", id, m)
			}
		}
		out := verif
		code = ctx.Finish(out, spec.Explanation, start, extra)
	}()
	return code
}
