package rules

import (
	"fmt"
	"strings"

	"golang.org/x/tools/go/ssa"

	"verif/sa/core"
)

// End keys use the empty byte string as +∞. sentinelSites lists every order comparison
// (bytes.Compare / kv.CmpKey) in the given functions one of whose operands is an *upper bound*
// by provenance, together with whether an emptiness test of that operand guards the
// comparison: a dominating fact about len(operand), or the `cmp || len(x)==0` / `len(x)==0 ||
// cmp` short-circuit forms (the comparison's If and an emptiness If on the same operand are
// adjacent).
type sentinelSite struct {
	Fn      *ssa.Function
	Call    *ssa.Call
	Operand string // provenance of the upper-bound operand
	Guarded bool
	How     string
}

var upperGlobs = []string{
	"call(*).EndKey)#0*", "call(*).GetEndKey)#0*", "invoke(*EndKey)#0*", // (*Region).EndKey(), GetEndKey()
	"fld(KeyLocation.EndKey,*", "fld(KeyRange.EndKey,*", "fld(Region.EndKey,*",
	"*.EndKey,*",
}

func isUpperDesc(d string) bool {
	for _, alt := range strings.Split(d, "|") {
		for _, g := range upperGlobs {
			if glob(g, alt) {
				return true
			}
		}
	}
	return false
}

func sentinelSites(c *core.Ctx, fns []*ssa.Function, extraUpper func(fn *ssa.Function, v ssa.Value) bool) []sentinelSite {
	p := c.P
	pv := p.Prov()
	var out []sentinelSite
	for _, fn := range fns {
		core.Instrs(fn, func(in ssa.Instruction) {
			cl, ok := in.(*ssa.Call)
			if !ok || cl.Call.StaticCallee() == nil {
				return
			}
			n := cl.Call.StaticCallee().String()
			if n != "bytes.Compare" && !strings.HasSuffix(n, "/kv.CmpKey") {
				return
			}
			for _, arg := range cl.Call.Args {
				d := strings.Join(pv.Desc(arg), "|")
				if !isUpperDesc(d) && !(extraUpper != nil && extraUpper(fn, arg)) && !paramReceivesUpper(c, fn, arg) {
					continue
				}
				site := sentinelSite{Fn: fn, Call: cl, Operand: d}
				site.Guarded, site.How = emptinessGuarded(c, fn, cl, arg, d)
				out = append(out, site)
			}
		})
	}
	return out
}

func firstAlt(d string) string {
	if i := strings.Index(d, "|"); i >= 0 {
		return d[:i]
	}
	return d
}

// SentinelSurvey prints the sites (debugging aid for building the exception table).
func SentinelSurvey(p *core.Prog, rel string) {
	c := core.NewCtx(p, "survey", "quick", nil)
	sp := p.Pkg(rel)
	var fns []*ssa.Function
	for _, f := range p.Funcs {
		if enclosing(f).Pkg == sp {
			fns = append(fns, f)
		}
	}
	for _, s := range sentinelSites(c, fns, nil) {
		fmt.Printf("%-8v %s %s  operand=%s  %s\n", s.Guarded, p.InstrPos(s.Call), fname(s.Fn), firstAlt(s.Operand), s.How)
	}
}

// lenTestOf: is v (Not-stripped condition or plain value) a comparison of len(x) with a small
// constant where x is `operand` (same SSA value or same provenance).
func lenTestOf(c *core.Ctx, v ssa.Value, operand ssa.Value, operandDesc string) bool {
	b, ok := core.Strip(v).(*ssa.BinOp)
	if !ok {
		return false
	}
	pv := c.P.Prov()
	for _, side := range []ssa.Value{b.X, b.Y} {
		lc, ok := core.Strip(side).(*ssa.Call)
		if !ok {
			continue
		}
		bi, ok := lc.Call.Value.(*ssa.Builtin)
		if !ok || bi.Name() != "len" {
			continue
		}
		x := lc.Call.Args[0]
		if x == operand || core.Strip(x) == core.Strip(operand) {
			return true
		}
		d := strings.Join(pv.Desc(x), "|")
		if d == operandDesc || (firstAlt(d) == firstAlt(operandDesc) && !strings.Contains(d, "?deep")) {
			return true
		}
	}
	return false
}

// emptinessGuarded implements rule K1 for one operand of one comparison.
func emptinessGuarded(c *core.Ctx, fn *ssa.Function, cl *ssa.Call, operand ssa.Value, operandDesc string) (bool, string) {
	p := c.P
	// (1) a branch on len(operand) dominates the comparison (either polarity: the code on the
	// other side handles the sentinel)
	for _, b := range fn.Blocks {
		ifi, ok := b.Instrs[len(b.Instrs)-1].(*ssa.If)
		if !ok {
			continue
		}
		v, _ := core.CondOf(ifi)
		if !lenTestOf(c, v, operand, operandDesc) {
			continue
		}
		for k := 0; k < 2; k++ {
			q := &core.Q{Fn: fn, NoEdge: func(e core.Edge) bool { return e.If == ifi && e.True == (k == 0) }}
			if found, _, _ := q.Reach(nil, func(in ssa.Instruction) bool { return in == ssa.Instruction(cl) }); !found {
				return true, "dominated by the emptiness test at " + p.InstrPos(ifi)
			}
		}
	}
	// (2) short-circuit `cmp || len(x) == 0`: the comparison's branch leads straight into an
	// emptiness test of the same operand (as a branch or as the value of the expression)
	var cmpIf *ssa.If
	for _, r := range *cl.Referrers() {
		if b, ok := r.(*ssa.BinOp); ok {
			for _, rr := range *b.Referrers() {
				if ifi, ok := rr.(*ssa.If); ok {
					cmpIf = ifi
				}
			}
		}
	}
	if cmpIf != nil {
		for _, s := range cmpIf.Block().Succs {
			if len(s.Instrs) > 8 {
				continue
			}
			for _, in := range s.Instrs {
				if v, ok := in.(ssa.Value); ok && lenTestOf(c, v, operand, operandDesc) {
					return true, "short-circuit with the emptiness test at " + p.InstrPos(in)
				}
			}
		}
	}
	// (3) cursor: the operand is a φ (loop cursor); every upper-bound alternative enters the
	// φ only on an edge where it is known to be non-empty
	if phi, ok := core.Strip(operand).(*ssa.Phi); ok {
		pv := p.Prov()
		all := true
		n := 0
		// leaf alternatives (nested φ flattened), each with the predecessor edge of the outer φ
		type alt struct {
			v    ssa.Value
			pred *ssa.BasicBlock
		}
		var alts []alt
		seenPhi := map[*ssa.Phi]bool{}
		var collect func(ph *ssa.Phi, outerPred *ssa.BasicBlock)
		collect = func(ph *ssa.Phi, outerPred *ssa.BasicBlock) {
			if seenPhi[ph] {
				return
			}
			seenPhi[ph] = true
			for i, e := range ph.Edges {
				if !core.FeasibleEdgeInto(ph.Block(), i) {
					continue
				}
				pred := outerPred
				if pred == nil {
					pred = ph.Block().Preds[i]
				}
				if inner, ok := core.Strip(e).(*ssa.Phi); ok {
					collect(inner, pred)
					continue
				}
				alts = append(alts, alt{e, pred})
			}
		}
		collect(phi, nil)
		for _, al := range alts {
			e := al.v
			ed := strings.Join(pv.Desc(e), "|")
			if !isUpperDesc(ed) {
				continue
			}
			n++
			pred := al.pred
			last := pred.Instrs[len(pred.Instrs)-1]
			okAlt := false
			for _, b := range fn.Blocks {
				ifi, ok := b.Instrs[len(b.Instrs)-1].(*ssa.If)
				if !ok {
					continue
				}
				v, _ := core.CondOf(ifi)
				if !lenTestOf(c, v, e, ed) {
					continue
				}
				for k := 0; k < 2; k++ {
					q := &core.Q{Fn: fn, NoEdge: func(x core.Edge) bool { return x.If == ifi && x.True == (k == 0) }}
					if found, _, _ := q.Reach(nil, func(in ssa.Instruction) bool { return in == last }); !found {
						okAlt = true
					}
				}
				if ifi.Block() == pred {
					okAlt = true
				}
			}
			if !okAlt {
				all = false
			}
		}
		if n > 0 && all {
			return true, "loop cursor: each end-key alternative is tested for emptiness before it is carried over"
		}
	}
	// (4) weak: only a nil test (nil ≠ empty: an empty non-nil end key slips through)
	for _, b := range fn.Blocks {
		ifi, ok := b.Instrs[len(b.Instrs)-1].(*ssa.If)
		if !ok {
			continue
		}
		v, _ := core.CondOf(ifi)
		if bo, ok := v.(*ssa.BinOp); ok && (isNil(bo.X) || isNil(bo.Y)) {
			other := bo.X
			if isNil(bo.X) {
				other = bo.Y
			}
			if other == operand || strings.Join(p.Prov().Desc(other), "|") == operandDesc {
				return true, "WEAK: guarded only by a nil test at " + p.InstrPos(ifi) + " (an empty non-nil end key is not recognised as +∞)"
			}
		}
	}
	return false, fmt.Sprintf("no emptiness test of `%s` guards the comparison", firstAlt(operandDesc))
}

// sentinelRule reports every unguarded order comparison of an upper bound in fns, except the
// frozen exceptions (function name → reason).
func sentinelRule(c *core.Ctx, ruleID string, fns []*ssa.Function, exceptions map[string]string, min int) {
	sentinelRuleX(c, ruleID, fns, exceptions, nil, min)
}

// sentinelRuleX: as sentinelRule, with additional upper-bound operands named by the caller.
func sentinelRuleX(c *core.Ctx, ruleID string, fns []*ssa.Function, exceptions map[string]string, extraUpper func(fn *ssa.Function, v ssa.Value) bool, min int) {
	a := rule(c, ruleID)
	sites := sentinelSites(c, fns, extraUpper)
	seen := map[string]bool{}
	n := 0
	for _, s := range sites {
		key := fmt.Sprintf("%s compares %s", fname(s.Fn), shorten(firstAlt(s.Operand), 80))
		if seen[key+c.P.InstrPos(s.Call)] {
			continue
		}
		seen[key+c.P.InstrPos(s.Call)] = true
		n++
		why, ok := exceptions[fname(s.Fn)]
		if !ok {
			why, ok = exceptions[fname(s.Fn)+"#"+firstAlt(s.Operand)]
		}
		if ok {
			a.ok(key, s.Call, "frozen exception: "+why)
			continue
		}
		if s.Guarded && strings.HasPrefix(s.How, "WEAK") {
			c.WeakOK(ruleID, key, c.P.InstrPos(s.Call), s.How)
		} else if s.Guarded {
			a.ok(key, s.Call, s.How)
		} else {
			a.viol(key, s.Call, "an end key (empty = +∞) is order-compared without an emptiness test: for the last region / an unbounded range the comparison treats +∞ as the smallest key: "+s.How)
		}
	}
	a.checkAt(n >= min, "end-key comparison sites", "-", fmt.Sprint(n), "fewer end-key comparisons found than confirmed by hand")
}

func shorten(s string, n int) string {
	if len(s) <= n {
		return s
	}
	return s[:n] + "…"
}

// paramReceivesUpper: v is a parameter of an unexported function of the module and some call site
// passes an upper bound (by provenance) in that position — the comparison was moved into a helper.
func paramReceivesUpper(c *core.Ctx, fn *ssa.Function, v ssa.Value) bool {
	par, ok := core.Strip(v).(*ssa.Parameter)
	if !ok || fn.Object() == nil || fn.Object().Exported() {
		return false
	}
	k := -1
	for i, p := range fn.Params {
		if p == par {
			k = i
		}
	}
	if k < 0 {
		return false
	}
	pv := c.P.Prov()
	for _, cs := range c.P.CallersOf(fn) {
		args := cs.Instr.Common().Args
		if k < len(args) && isUpperDesc(strings.Join(pv.Desc(args[k]), "|")) {
			return true
		}
	}
	return false
}
