// Package rules holds the repository-specific rule tables, one file per property.
package rules

import "verif/sa/core"

// Spec describes the static check of one property.
type Spec struct {
	Title       string
	Explanation string // which structural clauses are decided and what is not
	Run         func(c *core.Ctx)
}

// Registry: property id -> check.
var Registry = map[string]*Spec{}

func register(id string, s *Spec) {
	base := s.Run
	s.Run = func(c *core.Ctx) { guarded(c, id, "base rules of "+id, base) }
	Registry[id] = s
}
