package rules

import (
	"fmt"

	"golang.org/x/tools/go/ssa"

	"verif/sa/core"
)

// mutationTable extracts, for every valuation of the buffer-entry atoms, what
// initKeysAndMutations does with the entry (skip, or the op it pushes) by walking the
// function's CFG under that valuation, and compares it with the table in the property
// statement (C04: "each with the operation its buffer entry implies"; C01: insert semantics).
func mutationTable(c *core.Ctx, ruleID string) {
	a := rule(c, ruleID)
	p := c.P
	fn := a.fn(pkgTxn, "twoPhaseCommitter", "initKeysAndMutations")
	glt := a.fn(pkgTxn, "", "getLockTypeFromFlags")
	if fn == nil || glt == nil {
		return
	}
	opPut := constInt(c, kvrpcpb, "Op_Put")
	opDel := constInt(c, kvrpcpb, "Op_Del")
	opLock := constInt(c, kvrpcpb, "Op_Lock")
	opInsert := constInt(c, kvrpcpb, "Op_Insert")
	opCNE := constInt(c, kvrpcpb, "Op_CheckNotExists")
	opShared := constInt(c, kvrpcpb, "Op_SharedLock")

	type atom struct {
		name string
		p    core.Pred
	}
	atoms := []atom{
		{"hasValue", core.PTrue(core.IsCallNamed("HasValue"))},
		{"len(value)>0", core.PCmp(tokGTR, core.IsLenOf(core.IsCallNamed("Value")), core.IsIntConst(0))},
		{"locked", core.PTrue(core.IsCallNamed("HasLocked"))},
		{"unnecessaryKV", core.PTrue(core.ResultOf(core.IsCallNamed("IsUnnecessaryKeyValue"), 0))},
		{"pessimisticTxn", core.PTrue(core.IsCallNamed("IsPessimistic"))},
		{"presumeNotExists", core.PTrue(core.IsCallNamed("HasPresumeKeyNotExists"))},
		{"newlyInserted", core.PTrue(core.IsCallNamed("HasNewlyInserted"))},
	}
	fFilter := core.Field(p.Named(pkgTxn, "KVTxn"), "kvFilter")
	pFilterNil := core.PIsNil(core.LoadsField(fFilter))

	// start: the HasValue test of the loop body
	starts := core.FindCalls(fn, core.CallsMethodNamed("HasValue", ""))
	if len(starts) != 1 {
		a.violAt(fname(fn)+" loop body", a.fnPos(fn), fmt.Sprintf("expected one HasValue() test per buffer entry, found %d", len(starts)))
		return
	}
	start := starts[0]
	isPush := core.InstrIs(core.CallsMethodNamed("Push", "memBufferMutations"))
	isNext := core.InstrIs(core.CallsMethodNamed("Next", ""))

	const skip = int64(-1)
	const lockByFlags = int64(-2)
	expected := func(v []bool) int64 {
		hasValue, lenPos, locked, unnecessary, pess, presume, newly := v[0], v[1], v[2], v[3], v[4], v[5], v[6]
		lockOrSkip := func() int64 {
			if !locked {
				return skip
			}
			return lockByFlags
		}
		if !hasValue {
			return lockOrSkip()
		}
		if lenPos {
			if unnecessary {
				return lockOrSkip()
			}
			if presume {
				return opInsert
			}
			return opPut
		}
		if unnecessary {
			return skip
		}
		if !pess && presume {
			return opCNE
		}
		if newly {
			return lockOrSkip()
		}
		return opDel
	}
	name := func(op int64) string {
		switch op {
		case skip:
			return "skip"
		case lockByFlags:
			return "lock(by flags)"
		case opPut:
			return "Put"
		case opDel:
			return "Del"
		case opLock:
			return "Lock"
		case opInsert:
			return "Insert"
		case opCNE:
			return "CheckNotExists"
		case opShared:
			return "SharedLock"
		}
		return fmt.Sprint("op", op)
	}

	nvals := 1 << len(atoms)
	bad := 0
	checked := 0
	for m := 0; m < nvals; m++ {
		v := make([]bool, len(atoms))
		for i := range atoms {
			v[i] = m&(1<<i) != 0
		}
		// hasValue=false makes len(value) irrelevant (value is nil): only evaluate lenPos=false there
		if !v[0] && (v[1] || v[3]) {
			continue
		}
		checked++
		q := &core.Q{Fn: fn, NoEdge: func(e core.Edge) bool {
			for i, at := range atoms {
				if mm, t := core.EdgeTruth(e, at.p); mm && t != v[i] {
					return true
				}
			}
			if mm, t := core.EdgeTruth(e, pFilterNil); mm && t {
				return true // model: a filter is installed (no filter ≡ unnecessaryKV=false)
			}
			return false
		}}
		found, _, hit := q.Reach(start, func(in ssa.Instruction) bool { return isPush(in) || isNext(in) })
		got := skip
		if !found {
			got = -99
		} else if isPush(hit) {
			opv := core.PhiAlong(argOf(hit.(ssa.CallInstruction), 0), q.LastBlocks)
			opv = core.Strip(opv)
			switch x := opv.(type) {
			case *ssa.Const:
				got = x.Int64()
			case *ssa.Call:
				if x.Call.StaticCallee() == glt {
					got = lockByFlags
				} else {
					got = -98
				}
			default:
				got = -98
			}
		}
		want := expected(v)
		if got != want {
			bad++
			if bad <= 4 {
				desc := ""
				for i, at := range atoms {
					desc += fmt.Sprintf("%s=%v ", at.name, v[i])
				}
				a.viol(fname(fn)+" decision table", start, fmt.Sprintf("for a buffer entry with %s the committer does `%s`, the property's table says `%s`", desc, name(got), name(want)))
			}
		}
	}
	if bad == 0 {
		a.ok(fname(fn)+" decision table", start, fmt.Sprintf("%d flag valuations walked; op pushed / skip equals the property's table for all of them", checked))
	}

	// lock type: SharedLock iff HasLockedInShareMode
	pShare := core.PTrue(core.IsCallNamed("HasLockedInShareMode"))
	for _, r := range returnsOf(glt) {
		cst, ok := asConst(r.Results[0])
		if !ok {
			a.viol(fname(glt), r, "lock type is not a constant")
			continue
		}
		switch cst.Int64() {
		case opShared:
			g, w := core.Guarded(glt, r, pShare, true)
			a.check(g, fname(glt)+" SharedLock", r, "", "SharedLock without HasLockedInShareMode: "+a.w(w))
		case opLock:
			g, w := core.Guarded(glt, r, pShare, false)
			a.check(g, fname(glt)+" Lock", r, "", "exclusive Lock for a share-mode key: "+a.w(w))
		default:
			a.viol(fname(glt), r, "unexpected lock op "+name(cst.Int64()))
		}
	}

	// the pessimistic flag of a mutation = HasLocked ∧ c.isPessimistic
	for _, ci := range core.FindCalls(fn, core.CallsMethodNamed("Push", "memBufferMutations")) {
		v := argOf(ci, 1)
		ds := p.Prov().Desc(v)
		okRoots := len(ds) >= 1
		for _, d := range ds {
			if d != "const(false)" && d != "fld(twoPhaseCommitter.isPessimistic,recv)" {
				okRoots = false
			}
		}
		g, why := phiIncomingGuarded(fn, v, func(x ssa.Value) bool {
			cst, ok := x.(*ssa.Const)
			return !(ok && cst.Value != nil && cst.Value.String() == "false")
		}, []guardSpec{{"HasLocked", core.PTrue(core.IsCallNamed("HasLocked")), true}})
		a.check(okRoots && g, fname(fn)+" isPessimisticLock flag", ci, "HasLocked ∧ c.isPessimistic", fmt.Sprint("the mutation's pessimistic-lock flag is not HasLocked ∧ isPessimistic: ", ds, " ", why))
	}

	// primary = first key whose op takes an exclusive lock
	n := 0
	for _, st := range storesToFieldNamed(fn, "twoPhaseCommitter.primaryKey") {
		n++
		for _, fact := range []string{
			"T:(const(0) == len(fld(twoPhaseCommitter.primaryKey,recv)))",
			fmt.Sprintf("F:(*== const(%d))", opCNE),
			fmt.Sprintf("F:(*== const(%d))", opShared),
		} {
			g, w := p.GuardedByAtom(fn, st, fact)
			a.check(g, fname(fn)+" primary selection "+fact, st, "", "a key can become primary without "+fact+" (a check-not-exists / shared-lock key takes no exclusive lock): "+a.w(w))
		}
	}
	a.checkAt(n == 1, fname(fn)+" selects a primary", a.fnPos(fn), "", "primary selection not found")
}
