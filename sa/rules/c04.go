package rules

import (
	"fmt"

	"golang.org/x/tools/go/ssa"

	"verif/sa/core"
)

func init() {
	register("C04", &Spec{
		Title: "Request stream obeys Percolator ordering and timestamp rules",
		Explanation: "Decides, program-wide by construction site, where every protocol field of the transactional requests comes from and under which guard it is written (R1 prewrite, R3 commit/rollback/pessimistic/flush, R5 heart-beat, R6 check-txn-status expiry discipline), that 1PC is attempted only with a single prewrite batch (R2), that commit is dispatched only behind the prewrite success edge (R4), that the async-secondaries list skips exactly the primary and check-not-exists keys (R1b) and the keep-alive loop can be stopped (R5). NOT decided: a monitor over whole RPC traces, numeric timestamp relations at run time, heart-beat timing.",
		Run: runC04,
	})
}

const (
	dRecvStartTS = "fld(twoPhaseCommitter.startTS,*)"
	dPrimary     = "call((*txnkv/transaction.twoPhaseCommitter).primary)#0[*]"
)

func runC04(c *core.Ctx) {
	runC04own(c)
	// clauses of the statement whose structural core is decided by rules written for a sibling
	// property: "a rollback is never sent once the primary commit may have taken effect" (C03.R1-R3,
	// R7), "a live lock is waited for ... never removed" + "only the outcome the store reported"
	// (C02.R1-R3, R5, R6), "every commit timestamp exceeds ... every timestamp the oracle had issued
	// before Commit was called / every min-commit ts returned by a prewrite" (C01.R2-R5), the
	// operation table (C01.R7).
	c.Import(runC03, "C03", []string{"R1", "R2", "R3", "R7"}, "viaC03")
	c.Import(runC02, "C02", []string{"R1", "R2", "R3", "R5", "R6"}, "viaC02")
	c.Import(runC01, "C01", []string{"R2", "R3", "R4", "R5", "R7"}, "viaC01")
}

func runC04own(c *core.Ctx) {
	p := c.P
	a0 := rule(c, "C04.anchors")
	isAsync := a0.fn(pkgTxn, "twoPhaseCommitter", "isAsyncCommit")
	isOnePC := a0.fn(pkgTxn, "twoPhaseCommitter", "isOnePC")
	setOnePC := a0.fn(pkgTxn, "twoPhaseCommitter", "setOnePC")
	fIsPrimary := a0.field(pkgTxn, "batchMutations", "isPrimary")
	execute := a0.fn(pkgTxn, "twoPhaseCommitter", "execute")
	grp := a0.fn(pkgTxn, "twoPhaseCommitter", "doActionOnGroupMutations")
	doBatches := a0.fn(pkgTxn, "twoPhaseCommitter", "doActionOnBatches")
	fallback := a0.fn(pkgTxn, "twoPhaseCommitter", "checkOnePCFallBack")
	prewriteMut := a0.fn(pkgTxn, "twoPhaseCommitter", "prewriteMutations")
	commitMut := a0.fn(pkgTxn, "twoPhaseCommitter", "commitMutations")
	commitTxn := a0.fn(pkgTxn, "twoPhaseCommitter", "commitTxn")
	asyncSec := a0.fn(pkgTxn, "twoPhaseCommitter", "asyncSecondaries")
	primaryFn := a0.fn(pkgTxn, "twoPhaseCommitter", "primary")
	fStash := a0.field(pkgTxn, "twoPhaseCommitter", "stashedAssertionError")
	if a0.bad {
		return
	}
	pAsync := core.PTrue(core.IsCallTo(isAsync))
	pOnePC := core.PTrue(core.IsCallTo(isOnePC))
	pIsPrimary := core.PTrue(core.LoadsField(fIsPrimary))

	// ---- R1: PrewriteRequest fields -------------------------------------------------
	msgField(c, "C04.R1", "PrewriteRequest", "PrimaryLock", []string{dPrimary}, nil, 1, "every prewrite names the transaction's primary")
	msgField(c, "C04.R1", "PrewriteRequest", "StartVersion", []string{dRecvStartTS}, nil, 1, "prewrite at the start ts")
	msgField(c, "C04.R1", "PrewriteRequest", "ForUpdateTs", []string{"fld(twoPhaseCommitter.forUpdateTS,*)"}, nil, 1, "for-update ts of the committer")
	msgField(c, "C04.R1", "PrewriteRequest", "MaxCommitTs", []string{"fld(twoPhaseCommitter.maxCommitTS,*)"}, nil, 1, "max commit ts of the committer")
	msgField(c, "C04.R1", "PrewriteRequest", "Secondaries", []string{"call((*txnkv/transaction.twoPhaseCommitter).asyncSecondaries)#0[*]"},
		[]guardSpec{{"isAsyncCommit()", pAsync, true}, {"batch.isPrimary", pIsPrimary, true}}, 1, "secondaries are listed only on the async-commit primary")
	msgField(c, "C04.R1", "PrewriteRequest", "UseAsyncCommit", []string{"const(true)"}, []guardSpec{{"isAsyncCommit()", pAsync, true}}, 1, "async flag only under isAsyncCommit")
	msgField(c, "C04.R1", "PrewriteRequest", "TryOnePc", []string{"const(true)"}, []guardSpec{{"isOnePC()", pOnePC, true}}, 1, "1PC flag only under isOnePC")
	msgField(c, "C04.R1", "Mutation", "Op", []string{"invoke(transaction.CommitterMutations.GetOp)#0[*]", "const(*)", "fld(PlainMutation.KeyOp,*)", "rangenext*", "idx(*"}, nil, 2, "mutation op comes from the committer's mutation list")
	msgField(c, "C04.R1", "Mutation", "Key", []string{"invoke(transaction.CommitterMutations.GetKey)#0[*]", "fld(PlainMutation.Key,*)", "*GetKey*", "idx(*", "rangenext*"}, nil, 2, "mutation key comes from the committer's mutation list")
	msgField(c, "C04.R1", "Mutation", "Value", []string{"invoke(transaction.CommitterMutations.GetValue)#0[*]", "fld(PlainMutation.Value,*)", "*GetValue*", "idx(*"}, nil, 1, "mutation value comes from the committer's mutation list")

	// prewrite builder: the per-mutation pessimistic action table
	{
		a := rule(c, "C04.R1c")
		build := a.fn(pkgTxn, "twoPhaseCommitter", "buildPrewriteRequest")
		if build != nil {
			// stores into the pessimisticActions slice element: value const under guards
			n := 0
			core.Instrs(build, func(in ssa.Instruction) {
				st, ok := in.(*ssa.Store)
				if !ok {
					return
				}
				ia, ok := st.Addr.(*ssa.IndexAddr)
				if !ok {
					return
				}
				if !containsStr(ia.X.Type().String(), "PrewriteRequest_PessimisticAction") {
					return
				}
				n++
				cv, ok := st.Val.(*ssa.Const)
				if !ok {
					a.viol(fname(build)+" pessimistic action", st, "pessimistic action is not one of the three constants")
					return
				}
				val := cv.Int64()
				pPL := core.PTrue(core.IsCallNamed("IsPessimisticLock"))
				pNC := core.PTrue(core.IsCallNamed("NeedConstraintCheckInPrewrite"))
				key := fmt.Sprintf("%s pessimisticActions=%d", fname(build), val)
				switch val {
				case 1: // DO_PESSIMISTIC_CHECK
					g, w := core.Guarded(build, st, pPL, true)
					a.check(g, key, st, "DO_PESSIMISTIC_CHECK only for pessimistically locked mutations", "DO_PESSIMISTIC_CHECK written without IsPessimisticLock(i): "+a.w(w))
				case 2: // DO_CONSTRAINT_CHECK
					g1, w1 := core.Guarded(build, st, pPL, false)
					g2, w2 := core.Guarded(build, st, pNC, true)
					a.check(g1 && g2, key, st, "DO_CONSTRAINT_CHECK only for ¬pessimistic ∧ NeedConstraintCheckInPrewrite", "DO_CONSTRAINT_CHECK guard missing: "+a.w(w1)+a.w(w2))
				case 0: // SKIP
					g1, w1 := core.Guarded(build, st, pPL, false)
					g2, w2 := core.Guarded(build, st, pNC, false)
					a.check(g1 && g2, key, st, "SKIP_PESSIMISTIC_CHECK only when neither flag is set", "a pessimistically locked / constraint-check key may skip its check: "+a.w(w1)+a.w(w2))
				default:
					a.viol(key, st, "unknown pessimistic action constant")
				}
			})
			if n < 3 {
				a.violAt(fname(build)+" pessimistic actions", a.fnPos(build), fmt.Sprintf("expected the three-way pessimistic action assignment, found %d stores", n))
			}
			// assertion: Exist under IsAssertExists, NotExist under IsAssertNotExist
			f := a.extField(kvrpcpb, "Mutation", "Assertion")
			if f != nil {
				for _, w := range prodWriters(c, f) {
					if w.Fn != build {
						continue
					}
					ds := p.Prov().Desc(w.Val)
					okk := len(ds) > 0
					for _, d := range ds {
						if d != "const(0)" && d != "const(1)" && d != "const(2)" {
							okk = false
						}
					}
					a.check(okk, fname(build)+" Mutation.Assertion", w.Instr, fmt.Sprint("assertion constants ", ds), fmt.Sprint("assertion not one of None/Exist/NotExist: ", ds))
					// path check: the φ alternative const(1) comes from IsAssertExists true, const(2) from IsAssertNotExist true
					g1, why1 := phiIncomingGuarded(build, w.Val, core.IsIntConst(1), []guardSpec{{"IsAssertExists(i)", core.PTrue(core.IsCallNamed("IsAssertExists")), true}})
					g2, why2 := phiIncomingGuarded(build, w.Val, core.IsIntConst(2), []guardSpec{{"IsAssertNotExist(i)", core.PTrue(core.IsCallNamed("IsAssertNotExist")), true}})
					a.check(g1 && g2, fname(build)+" Mutation.Assertion guards", w.Instr, "Exist/NotExist are chosen under the mutation's own flags", "assertion chosen without its flag: "+why1+why2)
				}
			}
		}
	}

	// ---- R1b: asyncSecondaries skips exactly the primary and CheckNotExists --------
	{
		a := rule(c, "C04.R1b")
		appends := core.FindCalls(asyncSec, func(cc *ssa.CallCommon) bool {
			b, ok := cc.Value.(*ssa.Builtin)
			return ok && b.Name() == "append"
		})
		pEq := core.PTrue(func(v ssa.Value) bool {
			cl := core.CalleeOf(core.Strip(v))
			return cl != nil && cl.Name() == "Equal" && cl.Pkg != nil && cl.Pkg.Pkg.Path() == "bytes"
		})
		pCNE := core.PCmp(tokEQL, core.IsCallNamed("GetOp"), core.IsIntConst(constInt(c, kvrpcpb, "Op_CheckNotExists")))
		if len(appends) != 1 {
			a.violAt(fname(asyncSec)+" append", a.fnPos(asyncSec), fmt.Sprintf("expected one append building the secondaries list, found %d", len(appends)))
		} else {
			ap := appends[0]
			g1, w1 := core.Guarded(asyncSec, ap, pEq, false)
			g2, w2 := core.Guarded(asyncSec, ap, pCNE, false)
			a.check(g1, fname(asyncSec)+" skips primary", ap, "the primary is not listed among the secondaries", "primary may be listed as its own secondary: "+a.w(w1))
			a.check(g2, fname(asyncSec)+" skips CheckNotExists", ap, "check-not-exists keys (which take no lock) are not listed", "a key that takes no lock may be listed as secondary: "+a.w(w2))
			// every other key is appended: from each GetKey call, with the two skip edges
			// deleted, the next iteration/return is reached only through the append
			for _, gk := range core.FindCalls(asyncSec, core.CallsMethodNamed("GetKey", "")) {
				okk, w, hit := core.MustPassAfter(asyncSec, gk, func(in ssa.Instruction) bool { return in == ap.(ssa.Instruction) },
					func(in ssa.Instruction) bool {
						if core.IsReturn(in) {
							return true
						}
						return core.InstrIs(core.CallsMethodNamed("GetKey", ""))(in)
					},
					func(e core.Edge) bool {
						if m, t := core.EdgeTruth(e, pEq); m && t {
							return true
						}
						if m, t := core.EdgeTruth(e, pCNE); m && t {
							return true
						}
						return false
					})
				if okk {
					a.ok(fname(asyncSec)+" lists every other key", gk, "a key that is neither the primary nor check-not-exists is always appended")
				} else {
					a.viol(fname(asyncSec)+" lists every other key", hit, "a locked key can be left out of the async-commit secondaries (recovery would miss it): "+a.w(w))
				}
			}
			// the compared key is the committer's primary
			for _, ifi := range ifsOn(asyncSec, pEq) {
				v, _ := core.CondOf(ifi)
				cl := core.Strip(v).(*ssa.Call)
				okk := false
				for _, arg := range cl.Call.Args {
					if core.IsCallTo(primaryFn)(arg) {
						okk = true
					}
				}
				a.check(okk, fname(asyncSec)+" compares with primary()", ifi, "", "the skipped key is not compared with c.primary()")
			}
		}
	}

	// ---- R2: 1PC only with a single prewrite request ---------------------------------
	{
		a := rule(c, "C04.R2")
		isFallback := core.InstrIs(core.CallsTo(fallback))
		sites := dispatchSites(grp, core.CallsTo(doBatches))
		if len(sites) == 0 {
			a.violAt(fname(grp)+" dispatches", a.fnPos(grp), "no batch dispatch found")
		}
		for _, s := range sites {
			g, w := core.MustPassBefore(grp, s, isFallback)
			a.check(g, fname(grp)+" fallback before dispatch", s, "checkOnePCFallBack precedes the dispatch", "a batch dispatch is reachable before the 1PC fallback check: "+a.w(w))
		}
		for _, ci := range core.FindCalls(grp, core.CallsTo(fallback)) {
			okk, ds := descAll(c, argOf(ci, 1), "len(fld(batched.batches,", "len(call((*txnkv/transaction.batched).allBatches)")
			a.check(okk, fname(grp)+" fallback arg", ci, "batch count = len(allBatches())", fmt.Sprint("fallback is not given the total batch count: ", ds))
		}
		// inside the fallback: prewrite ∧ batchCount > 1 ⇒ setOnePC(false)
		isSetFalse := func(in ssa.Instruction) bool {
			ci, ok := in.(ssa.CallInstruction)
			if !ok || !core.CallsTo(setOnePC)(ci.Common()) {
				return false
			}
			cst, ok := asConst(argOf(ci, 0))
			return ok && cst.Value != nil && cst.Value.String() == "false"
		}
		pCount := core.PCmp(tokGTR, func(v ssa.Value) bool { _, ok := v.(*ssa.Parameter); return ok }, core.IsIntConst(1))
		pIsPrewrite := core.PTrue(isTypeAssertOK("actionPrewrite"))
		q := &core.Q{Fn: fallback, NoPass: isSetFalse, NoEdge: func(e core.Edge) bool {
			if m, t := core.EdgeTruth(e, pCount); m && !t {
				return true
			}
			if m, t := core.EdgeTruth(e, pIsPrewrite); m && !t {
				return true
			}
			return false
		}}
		found, w, hit := q.Reach(nil, core.IsReturn)
		if found {
			a.viol(fname(fallback)+" clears 1PC", hit, "prewrite split into more than one batch can keep the 1PC flag: "+a.w(w))
		} else {
			a.ok(fname(fallback)+" clears 1PC", fallback.Blocks[0].Instrs[0], "prewrite ∧ batchCount>1 ⇒ setOnePC(false)")
		}
		// setOnePC(true) only in execute
		for _, cs := range p.CallersOf(setOnePC) {
			cst, ok := asConst(argOf(cs.Instr, 0))
			if ok && cst.Value != nil && cst.Value.String() == "false" {
				continue
			}
			if isProbe(c, cs.Fn) {
				continue
			}
			a.check(inFuncs(cs.Fn, execute), fname(cs.Fn)+" setOnePC(true)", cs.Instr, "1PC is switched on only by execute", "1PC switched on outside execute (after batches may already have been split)")
		}
	}

	// ---- R3: Commit / rollback / pessimistic / flush fields ---------------------------
	msgField(c, "C04.R3", "CommitRequest", "StartVersion", []string{dRecvStartTS}, nil, 1, "commit names the start ts")
	msgField(c, "C04.R3", "CommitRequest", "CommitVersion", []string{"fld(twoPhaseCommitter.commitTS,*)", "call((*txnkv/transaction.KVTxn).GetTimestampForCommit)#0[*]"}, nil, 1, "commit version is the committer's commit ts (or a fresh one after CommitTsExpired)")
	msgField(c, "C04.R3", "CommitRequest", "PrimaryKey", []string{dPrimary}, nil, 1, "commit names the primary")
	msgField(c, "C04.R3", "CommitRequest", "Keys", []string{"invoke(transaction.CommitterMutations.GetKeys)#0[fld(batchMutations.mutations,*)]"}, nil, 1, "commit covers exactly the batch's keys")
	msgField(c, "C04.R3", "BatchRollbackRequest", "StartVersion", []string{dRecvStartTS}, nil, 1, "rollback names the start ts")
	msgField(c, "C04.R3", "BatchRollbackRequest", "Keys", []string{"invoke(transaction.CommitterMutations.GetKeys)#0[fld(batchMutations.mutations,*)]"}, nil, 1, "rollback covers exactly the batch's keys")
	msgField(c, "C04.R3", "PessimisticLockRequest", "PrimaryLock", []string{dPrimary}, nil, 1, "pessimistic lock names the primary")
	msgField(c, "C04.R3", "PessimisticLockRequest", "StartVersion", []string{dRecvStartTS}, nil, 1, "pessimistic lock at the start ts")
	msgField(c, "C04.R3", "PessimisticLockRequest", "ForUpdateTs", []string{"fld(twoPhaseCommitter.forUpdateTS,*)"}, nil, 1, "pessimistic lock at the for-update ts")
	msgField(c, "C04.R3", "PessimisticLockRequest", "LockTtl", []string{"((call(time.Since)#0 / const(1000000)) + call(sync/atomic.LoadUint64)#0)"}, nil, 1, "lock ttl = elapsed + ManagedLockTTL (never below the transaction's age)")
	msgField(c, "C04.R3", "PessimisticRollbackRequest", "StartVersion", []string{dRecvStartTS, "fld(Lock.TxnID,*)"}, nil, 2, "pessimistic rollback names the owning transaction")
	msgField(c, "C04.R3", "PessimisticRollbackRequest", "ForUpdateTs", []string{"fld(twoPhaseCommitter.forUpdateTS,*)", "fld(twoPhaseCommitter.maxLockedWithConflictTS,*)", "const(18446744073709551615)", "fld(Lock.LockForUpdateTS,*)"}, nil, 2, "rollback for-update ts covers every lock the transaction may hold")
	msgField(c, "C04.R3", "FlushRequest", "PrimaryKey", []string{dPrimary}, nil, 1, "flush names the primary")
	msgField(c, "C04.R3", "FlushRequest", "StartTs", []string{dRecvStartTS}, nil, 1, "flush at the start ts")
	msgField(c, "C04.R3", "FlushRequest", "Generation", []string{"param#1@*", "fld(actionPipelinedFlush.generation,*)"}, nil, 1, "flush generation is the action's generation")

	// ---- R4: commit only after every prewrite succeeded ---------------------------------
	{
		a := rule(c, "C04.R4")
		isCommitDispatch := func(cc *ssa.CallCommon) bool {
			return core.CallsTo(commitTxn, commitMut)(cc)
		}
		sites := dispatchSites(execute, isCommitDispatch)
		pws := core.FindCalls(execute, core.CallsTo(prewriteMut))
		if len(sites) == 0 || len(pws) == 0 {
			a.violAt(fname(execute)+" prewrite then commit", a.fnPos(execute), fmt.Sprintf("expected prewriteMutations and a commit dispatch in execute, found %d/%d", len(pws), len(sites)))
		}
		isPW := core.InstrIs(core.CallsTo(prewriteMut))
		for _, s := range sites {
			// pipelined path commits through commitFlushedMutations, not through these sites
			g, w := core.MustPassBefore(execute, s, isPW)
			a.check(g, fname(execute)+" commit after prewrite", s, "every path to the commit dispatch passes prewriteMutations", "commit dispatch reachable without prewriting: "+a.w(w))
		}
		for _, pw := range pws {
			ev := errVarOf(pw)
			pErrNil := core.PIsNil(ev)
			isSite := func(in ssa.Instruction) bool {
				for _, s := range sites {
					if s == in {
						return true
					}
				}
				return false
			}
			q := &core.Q{Fn: execute, NoEdge: func(e core.Edge) bool {
				m, t := core.EdgeTruth(e, pErrNil)
				return m && t
			}}
			found, w, hit := q.Reach(pw, isSite)
			if found {
				a.viol(fname(execute)+" commit behind prewrite success", hit, "the commit dispatch is reachable after prewriteMutations without passing its err==nil edge: "+a.w(w))
			} else {
				a.ok(fname(execute)+" commit behind prewrite success", pw, "commit only via the err==nil edge of prewriteMutations")
			}
			// stashed assertion error forbids the commit
			q2 := &core.Q{Fn: execute, NoEdge: func(e core.Edge) bool {
				m, t := core.EdgeTruth(e, core.PIsNil(core.LoadsField(fStash)))
				return m && t
			}}
			found2, w2, hit2 := q2.Reach(pw, isSite)
			if found2 {
				a.viol(fname(execute)+" stashed assertion error", hit2, "commit dispatch reachable although a stashed assertion error may be pending: "+a.w(w2))
			} else {
				a.ok(fname(execute)+" stashed assertion error", pw, "commit only when stashedAssertionError == nil")
			}
		}
	}

	// ---- R5: heart-beats ------------------------------------------------------------
	{
		a := rule(c, "C04.R5")
		hb := a.fn(pkgTxn, "", "sendTxnHeartBeat")
		ka := a.fn(pkgTxn, "", "keepAlive")
		run := a.fn(pkgTxn, "ttlManager", "run")
		fState := a.field(pkgTxn, "ttlManager", "state")
		if !a.bad {
			msgField(c, "C04.R5", "TxnHeartBeatRequest", "PrimaryLock", []string{dPrimary}, nil, 1, "heart-beat names the primary (through keepAlive's primaryKey ← c.primary() at ttlManager.run)")
			msgField(c, "C04.R5", "TxnHeartBeatRequest", "StartVersion", []string{dRecvStartTS}, nil, 1, "heart-beat names the start ts")
			msgField(c, "C04.R5", "TxnHeartBeatRequest", "AdviseLockTtl",
				[]string{"(convert*", "((call(oracle.ExtractPhysical)#0 - call(oracle.ExtractPhysical)#0) + call(sync/atomic.LoadUint64)#0)"}, nil, 1, "advised ttl = uptime + ManagedLockTTL (exceeds the transaction's age)")
			// uptime operands: physical(now) − physical(startTS)
			for _, ci := range core.FindCalls(ka, core.CallsTo(hb)) {
				v := argOf(ci, 4)
				pv := p.Prov()
				pv.CallArgs = true
				ds := pv.Desc(v)
				okk := len(ds) == 1 && glob("((call(oracle.ExtractPhysical)#0(*GetTimestampWithRetry)#0*) - call(oracle.ExtractPhysical)#0(fld(twoPhaseCommitter.startTS,param#0))) + call(sync/atomic.LoadUint64)#0(global(transaction.ManagedLockTTL)))", ds[0])
				a.check(okk, fname(ka)+" newTTL", ci, "newTTL = physical(now) − physical(startTS) + ManagedLockTTL", fmt.Sprint("advised ttl is not (now − start) + ManagedLockTTL: ", ds))
			}
			// the keep-alive loop has a close-channel arm that returns
			okSel := false
			core.Instrs(ka, func(in ssa.Instruction) {
				sel, ok := in.(*ssa.Select)
				if !ok {
					return
				}
				for _, st := range sel.States {
					if par, ok := st.Chan.(*ssa.Parameter); ok && par == ka.Params[1] {
						okSel = true
					}
				}
			})
			a.check(okSel, fname(ka)+" close arm", ka.Blocks[0].Instrs[0], "select has an arm on the close channel", "keep-alive loop cannot be stopped through its close channel")
			// state changes only by CAS in run/close/reset
			for _, w := range p.WritersOf(fState) {
				okk := w.Kind == "atomic:CompareAndSwapUint32" && (fname(w.Fn) == "(*txnkv/transaction.ttlManager).run" || fname(w.Fn) == "(*txnkv/transaction.ttlManager).close" || fname(w.Fn) == "(*txnkv/transaction.ttlManager).reset")
				a.check(okk, writerKey(w, fState), w.Instr, "CAS in run/close/reset", "ttlManager.state written other than by CAS in run/close/reset")
			}
			// run starts keepAlive with c.primary()
			gos := core.FindCalls(run, core.CallsTo(ka))
			a.check(len(gos) == 1, fname(run)+" starts keepAlive", run.Blocks[0].Instrs[0], "", "ttlManager.run does not start exactly one keepAlive")
			// Commit closes the ttl manager on every path that reaches execute
			commit := a.fn(pkgTxn, "KVTxn", "Commit")
			tmClose := a.fn(pkgTxn, "ttlManager", "close")
			if commit != nil && tmClose != nil {
				isCloseDefer := func(in ssa.Instruction) bool {
					d, ok := in.(*ssa.Defer)
					if !ok {
						return false
					}
					if core.CallsTo(tmClose)(&d.Call) {
						return true
					}
					if mc, ok := d.Call.Value.(*ssa.MakeClosure); ok {
						return containsCall(mc.Fn.(*ssa.Function), core.CallsTo(tmClose))
					}
					return false
				}
				for _, ex := range core.FindCalls(commit, core.CallsTo(execute)) {
					g, w := core.MustPassBefore(commit, ex, isCloseDefer)
					a.check(g, fname(commit)+" defers ttlManager.close", ex, "heart-beats stop when Commit returns", "execute reachable without a deferred ttlManager.close: heart-beats would continue after the transaction ended: "+a.w(w))
				}
			}
		}
	}

	// ---- R6: expiry discipline of the resolver ---------------------------------------
	{
		a := rule(c, "C04.R6")
		gts := a.fn(pkgLock, "LockResolver", "getTxnStatus")
		gfl := a.fn(pkgLock, "LockResolver", "getTxnStatusFromLock")
		batch := a.fn(pkgLock, "LockResolver", "BatchResolveLocks")
		pub := a.fn(pkgLock, "LockResolver", "GetTxnStatus")
		fTTL := a.field(pkgLock, "Lock", "TTL")
		if !a.bad {
			msgField(c, "C04.R6", "CheckTxnStatusRequest", "PrimaryKey", []string{"fld(Lock.Primary,*)", "param#2@(*txnkv/txnlock.LockResolver).GetTxnStatus"}, nil, 1, "status is asked of the lock's own primary")
			msgField(c, "C04.R6", "CheckTxnStatusRequest", "LockTs", []string{"fld(Lock.TxnID,*)", "param#0@(*txnkv/txnlock.LockResolver).GetTxnStatus"}, nil, 1, "status is asked for the lock's own transaction")
			const maxU = "const(18446744073709551615)"
			for _, cs := range p.CallersOf(gts) {
				if isProbe(c, cs.Fn) {
					continue
				}
				cur := argOf(cs.Instr, 4)
				rb := argOf(cs.Instr, 5)
				key := fname(cs.Fn) + " getTxnStatus(currentTS, rollbackIfNotExist)"
				cds := p.Prov().Desc(cur)
				rds := p.Prov().Desc(rb)
				switch enclosing(cs.Fn) {
				case batch:
					// GC's documented exception
					okk := len(cds) == 1 && cds[0] == maxU && len(rds) == 1 && rds[0] == "const(true)"
					a.check(okk, key, cs.Instr, "GC batch resolution forces expiry (documented exception)", fmt.Sprint("unexpected arguments in BatchResolveLocks: ", cds, rds))
				case pub:
					okk := len(cds) == 1 && glob("invoke(oracle.Oracle.GetLowResolutionTimestamp)#0*", cds[0])
					a.check(okk, key, cs.Instr, "public GetTxnStatus uses the oracle's low-resolution ts", fmt.Sprint("currentTS not from the oracle: ", cds))
				case gfl:
					// currentTS ∈ {MaxUint64 (only under l.TTL == 0), low-resolution ts}
					okk := true
					for _, d := range cds {
						if d != maxU && !glob("invoke(oracle.Oracle.GetLowResolutionTimestamp)#0*", d) {
							okk = false
						}
					}
					a.check(okk, key, cs.Instr, fmt.Sprint("currentTS roots ", cds), fmt.Sprint("currentTS has a root other than the oracle's clock / MaxUint64: ", cds))
					g, why := phiIncomingGuarded(gfl, cur, func(v ssa.Value) bool {
						cst, ok := v.(*ssa.Const)
						return ok && cst.Value != nil && cst.Value.ExactString() == "18446744073709551615"
					}, []guardSpec{{"l.TTL == 0", core.PCmp(tokEQL, core.LoadsField(fTTL), core.IsIntConst(0)), true}})
					a.check(g, key+" forced expiry", cs.Instr, "MaxUint64 only under the lock's TTL == 0 protocol", "a live lock can be force-expired (currentTS = MaxUint64 without l.TTL == 0): "+why)
					// rollbackIfNotExist true only after UntilExpired(...) <= 0
					g2, why2 := phiIncomingGuarded(gfl, rb, func(v ssa.Value) bool {
						cst, ok := v.(*ssa.Const)
						return ok && cst.Value != nil && cst.Value.String() == "true"
					}, []guardSpec{{"UntilExpired(l.TxnID, l.TTL) <= 0", core.PCmp(tokLEQ, core.IsCallNamed("UntilExpired"), core.IsIntConst(0)), true}})
					okRoots := true
					for _, d := range rds {
						if d != "const(true)" && d != "const(false)" {
							okRoots = false
						}
					}
					a.check(g2 && okRoots, key+" rollbackIfNotExist", cs.Instr, "rollback-if-not-exist only after the lock outlived its ttl on the resolver's clock", "rollbackIfNotExist may be true for a lock that has not expired: "+why2+fmt.Sprint(rds))
				default:
					a.viol(key, cs.Instr, "unexpected caller of getTxnStatus")
				}
			}
			// the expiry test uses the lock's own id and ttl
			for _, ifi := range ifsOn(gfl, core.PCmp(tokLEQ, core.IsCallNamed("UntilExpired"), core.IsIntConst(0))) {
				v, _ := core.CondOf(ifi)
				b := v.(*ssa.BinOp)
				var call *ssa.Call
				if cl, ok := b.X.(*ssa.Call); ok {
					call = cl
				} else if cl, ok := b.Y.(*ssa.Call); ok {
					call = cl
				}
				if call != nil {
					d0 := p.Prov().Desc(call.Call.Args[0])
					d1 := p.Prov().Desc(call.Call.Args[1])
					okk := len(d0) == 1 && d0[0] == "fld(Lock.TxnID,param#1)" && len(d1) == 1 && d1[0] == "fld(Lock.TTL,param#1)"
					a.check(okk, fname(gfl)+" UntilExpired operands", ifi, "UntilExpired(l.TxnID, l.TTL)", fmt.Sprint("expiry computed from other operands: ", d0, d1))
				}
			}
		}
	}
}

func containsStr(s, sub string) bool {
	for i := 0; i+len(sub) <= len(s); i++ {
		if s[i:i+len(sub)] == sub {
			return true
		}
	}
	return false
}
