package rules

// Rules added after the fourth round of independent breaking changes (DESIGN.md §14). Each is a structural
// necessary condition of its property; each was checked to be silent on the pinned tree and on the neutral
// refactorings kept under /verif/seeded.

import (
	"fmt"
	"sort"
	"go/constant"
	"go/token"
	"strings"

	"golang.org/x/tools/go/ssa"

	"verif/sa/core"
)

// loopBodyMust: in fn, every path from `from` (an instruction executed once per loop iteration) to its next
// execution or to a return passes an instruction matching event, unless it takes an edge matching a bypass.
func loopBodyMust(c *core.Ctx, fn *ssa.Function, from ssa.Instruction, event func(ssa.Instruction) bool, bypass []string) (bool, []core.Step, ssa.Instruction) {
	return condMust(c, fn, from, func(x ssa.Instruction) bool {
		if x == from {
			return true
		}
		_, isRet := x.(*ssa.Return)
		return isRet
	}, event, bypass)
}

func init() {
	extend("C02", "(R7) commitTxn reports a failure of the commit phase as failure only while the primary is not known to be committed (the `committed` flag is consulted on the error path).", func(c *core.Ctx) {
		a := rule(c, "C02.R7")
		fn := a.fn(pkgTxn, "twoPhaseCommitter", "commitTxn")
		if fn == nil {
			return
		}
		n := 0
		for _, ci := range core.FindCalls(fn, core.CallsMethodNamed("commitMutations", "")) {
			v, ok := ci.(ssa.Value)
			if !ok {
				continue
			}
			n++
			// on the error edge of the commit, an error return needs the test of mu.committed
			for _, r := range returnsOf(fn) {
				if len(r.Results) == 0 || isNil(r.Results[len(r.Results)-1]) {
					continue
				}
				q := &core.Q{Fn: fn, NoEdge: func(e core.Edge) bool {
					at := c.P.EdgeAtom(e)
					return strings.Contains(at, "struct.committed,") || strings.Contains(at, "twoPhaseCommitter.committed") || strings.Contains(at, ".committed,")
				}}
				found, w, _ := q.Reach(v.(ssa.Instruction), func(in ssa.Instruction) bool { return in == ssa.Instruction(r) })
				a.check(!found, fname(fn)+" commit failure is definite only when the primary is not committed", r, "", "an error of the commit phase is returned without consulting the `committed` flag: when the primary batch was split and one part committed, Commit reports a definite failure for a transaction that is committed: "+a.w(w))
			}
		}
		a.checkAt(n == 1, fname(fn)+" commit call", a.fnPos(fn), "", "commitMutations call not found")
	})
	extend("C03", "(R10) the commit-ts schema check is skipped for async commit (its outcome is already decided by the prewrites).", func(c *core.Ctx) {
		guardTable(c, "C03.R10", []gRow{{Fn: [3]string{pkgTxn, "twoPhaseCommitter", "execute"}, Target: "call:checkSchemaValid",
			Facts: []string{"F:call((*txnkv/transaction.twoPhaseCommitter).isAsyncCommit)#0[recv]"}, Min: 1,
			Why: "a schema check that fails after all prewrites of an async-commit transaction succeeded reports a definite error for a transaction that readers recover as committed"}})
	})
	extend("C05", "(R6) the multi-region batch get keeps the first error of any region batch (a later success does not erase it); loadRegion falls back to the previous region only for an end key equal to the region's start.", func(c *core.Ctx) {
		a := rule(c, "C05.R6")
		if fn := a.fn(pkgSnap, "KVSnapshot", "batchGetKeysByRegions"); fn != nil {
			n := 0
			for _, ci := range core.FindCalls(fn, func(cc *ssa.CallCommon) bool {
				f := cc.StaticCallee()
				return f != nil && f.Name() == "WithStack" && len(cc.Args) == 1
			}) {
				d := strings.Join(c.P.Prov().Desc(ci.Common().Args[0]), "|")
				if !strings.Contains(d, "<-(") {
					continue
				}
				n++
				g, w := guardedByAny(c, fn, ci.(ssa.Instruction), "F:(<-(*) == nil)", "F:(nil == <-(*))")
				a.check(g, fname(fn)+" keeps the first region error", ci, "", "the collected error is overwritten by the result of every finished batch, also a nil one: a later successful batch erases an earlier failure and BatchGet reports success with that region's keys missing: "+a.w(w))
			}
			a.checkAt(n >= 1, fname(fn)+" result collection", a.fnPos(fn), "", "error collection not found")
		}
		if fn := a.fn(pkgLocate, "RegionCache", "loadRegion"); fn != nil {
			n := 0
			core.Instrs(fn, func(in ssa.Instruction) {
				phi, ok := in.(*ssa.Phi)
				if !ok || phi.Comment != "searchPrev" {
					return
				}
				n++
				g, why := phiIncomingGuarded(fn, phi, func(x ssa.Value) bool {
					cst, ok := core.Strip(x).(*ssa.Const)
					return ok && cst.Value != nil && cst.Value.String() == "true"
				}, []guardSpec{{"the key equals the region's start key", core.PTrue(func(v ssa.Value) bool {
					cl, ok := core.Strip(v).(*ssa.Call)
					return ok && cl.Call.StaticCallee() != nil && cl.Call.StaticCallee().String() == "bytes.Equal"
				}), true}})
				a.check(g, fname(fn)+" previous region only for an end key on the region's start", in, "", "the fall-back to the previous region no longer requires the end key to equal the loaded region's start key: LocateEndKey inside a region returns the region before it: "+why)
			})
			a.checkAt(n >= 1, fname(fn)+" searchPrev", a.fnPos(fn), "", "not found")
		}
	})
	extend("C06", "(R11) every batch handed to doActionOnBatches is handled (the sequential path walks all of them); rollback, cleanup and commit actions are not interruptible by the kill flag.", func(c *core.Ctx) {
		a := rule(c, "C06.R11")
		if fn := a.fn(pkgTxn, "twoPhaseCommitter", "doActionOnBatches"); fn != nil {
			n := 0
			for _, f := range core.FuncsIn(fn) {
				for _, ci := range core.FindCalls(f, core.CallsMethodNamed("handleSingleBatch", "")) {
					n++
					args := ci.Common().Args
					b := core.Strip(args[len(args)-1])
					okk := true
					var idx ssa.Value
					switch x := b.(type) {
					case *ssa.UnOp:
						if ia, ok := x.X.(*ssa.IndexAddr); ok {
							idx = ia.Index
						}
					case *ssa.Index:
						idx = x.Index
					}
					if idx != nil {
						if _, isConst := core.Strip(idx).(*ssa.Const); isConst {
							okk = false
						}
					}
					a.check(okk, fname(f)+" handles every batch", ci, "", "only a fixed batch (constant index) is handled on this path: when a batch was regrouped into several (region split during a retry) the others are silently dropped — their keys are never committed / rolled back")
				}
			}
			a.checkAt(n >= 1, fname(fn)+" batch handling", a.fnPos(fn), "", "handleSingleBatch not found")
		}
		for _, act := range []string{"actionPessimisticRollback", "actionCleanup", "actionCommit"} {
			if fn := a.fn(pkgTxn, act, "isInterruptible"); fn != nil {
				for _, r := range returnsOf(fn) {
					cst, ok := asConst(r.Results[0])
					a.check(ok && cst.Value != nil && cst.Value.String() == "false", fname(fn)+" is not interruptible", r, "", "an action that removes the transaction's locks (or finishes its commit) honours the kill flag: a killed session's rollback sends nothing and leaves every lock behind")
				}
			}
		}
	})
	extend("C07", "(R10) the radix tree advances its depth by the node's whole prefix after a full prefix match.", func(c *core.Ctx) {
		a := rule(c, "C07.R10")
		fn := a.fn("internal/unionstore/art", "ART", "recursiveInsert")
		if fn == nil {
			return
		}
		n := 0
		core.Instrs(fn, func(in ssa.Instruction) {
			b, ok := in.(*ssa.BinOp)
			if !ok || b.Op != token.ADD {
				return
			}
			// depth = depth + X where depth is the loop-carried uint32 depth
			if _, isPhi := core.Strip(b.X).(*ssa.Phi); !isPhi || !strings.Contains(b.Type().String(), "uint32") {
				return
			}
			d := strings.Join(c.P.Prov().Desc(b.Y), "|")
			if d == "const(1)" {
				return
			}
			n++
			a.check(strings.Contains(d, "fld(nodeBase.prefixLen,"), fname(fn)+" depth advances by the prefix length", in, d, "after a matching prefix the depth advances by "+d+" instead of the node's prefix length: longer prefixes (beyond the stored maxPrefixLen bytes) put the key under the wrong child")
		})
		a.checkAt(n >= 1, fname(fn)+" depth arithmetic", a.fnPos(fn), "", "not found")
	})
	extend("C08", "(R13) undoing a value write adjusts the size by the lengths recorded in the log header (not by whatever the node points to at that moment); the radix tree counts a key as new only when it has neither flags nor a value (or was discarded).", func(c *core.Ctx) {
		a := rule(c, "C08.R13")
		for _, spec := range [][2]string{{"internal/unionstore/rbt", "RBT"}, {"internal/unionstore/art", "ART"}} {
			fn := a.fn(spec[0], spec[1], "RevertVAddr")
			if fn == nil {
				continue
			}
			for _, ci := range core.FindCalls(fn, core.CallsMethodNamed("GetValue", "")) {
				args := ci.Common().Args
				d := strings.Join(c.P.Prov().Desc(args[len(args)-1]), "|")
				a.check(strings.HasPrefix(d, "fld(MemdbVlogHdr.OldValue,"), fname(fn)+" size restored from the header's old value", ci, d, "the length added back on revert is read through "+d+": after the pointer was (or was not yet) switched this is the wrong value and Size()/the buffer limit drift")
			}
		}
		if fn := a.fn("internal/unionstore/art", "ART", "setValue"); fn != nil {
			n := 0
			for _, st := range storesToFieldNamed(fn, "ART.len") {
				n++
				g, w := guardedByAny(c, fn, st, "T:(call((*internal/unionstore/art.artLeaf).GetKeyFlags)#0* == const(0))", "T:(const(0) == call((*internal/unionstore/art.artLeaf).GetKeyFlags)#0*)", "T:call((*internal/unionstore/art.artLeaf).isDeleted)#0*")
				a.check(g, fname(fn)+" counts a key only when it is new", st, "", "a key that already exists as a flags-only entry is counted again by Len()/Size() (the new-entry test ignores its flags): "+a.w(w))
			}
			a.checkAt(n == 1, fname(fn)+" length update", a.fnPos(fn), "", "not found")
		}
	})
	extend("C09", "(R11) a region reloaded for an end-key lookup is loaded as an end key; an intersecting cached region with a newer version always marks the new one stale; LocateKeyRange decides its stop with ContainsByEnd (empty end = +inf).", func(c *core.Ctx) {
		a := rule(c, "C09.R11")
		if fn := a.fn(pkgLocate, "RegionCache", "findRegionByKey"); fn != nil {
			n := 0
			for _, ci := range core.FindCalls(fn, core.CallsMethodNamed("loadRegion", "")) {
				n++
				d := strings.Join(c.P.Prov().Desc(argOf(ci, 2)), "|")
				a.check(d == "param#2", fname(fn)+" reloads with the caller's end-key mode", ci, d, "the reload uses "+d+" instead of the caller's isEndKey: LocateEndKey on a region border returns the region that STARTS at the key")
			}
			a.checkAt(n >= 1, fname(fn)+" reload", a.fnPos(fn), "", "loadRegion call not found")
		}
		if fn := a.fn(pkgLocate, "SortedRegions", "removeIntersecting"); fn != nil {
			n := 0
			for _, f := range core.FuncsIn(fn) {
				for _, ifi := range ifsOn(f, core.PCmp(tokGTR, func(v ssa.Value) bool { return descHas(c, v, "GetVersion") }, func(v ssa.Value) bool { return descHas(c, v, "RegionVerID.ver") })) {
					n++
					pr := core.PCmp(tokGTR, func(v ssa.Value) bool { return descHas(c, v, "GetVersion") }, func(v ssa.Value) bool { return descHas(c, v, "RegionVerID.ver") })
					b := succOn(ifi, pr, true)
					if b == nil {
						continue
					}
					isStale := func(in ssa.Instruction) bool {
						st, ok := in.(*ssa.Store)
						if !ok {
							return false
						}
						cst, ok := asConst(st.Val)
						return ok && cst.Value != nil && cst.Value.String() == "true"
					}
					found, w, hit := reachFromBlock(f, b, isStale, nil, core.IsReturn)
					if found {
						a.viol(fname(f)+" a newer intersecting region marks the new one stale", hit, "an intersecting cached region with a greater version does not always veto the insertion (an extra condition was added): a stale wide region from a lagging PD answer is installed over the newer one: "+a.w(w))
					} else {
						a.ok(fname(f)+" a newer intersecting region marks the new one stale", ifi, "")
					}
				}
			}
			a.checkAt(n == 1, fname(fn)+" version comparison", a.fnPos(fn), "", "not found")
		}
		if fn := a.fn(pkgLocate, "RegionCache", "LocateKeyRange"); fn != nil {
			// the range's end key (parameter 2: empty = +inf) is an upper bound like a region's end key
			sentinelRuleX(c, "C09.R11", []*ssa.Function{fn}, nil, func(f *ssa.Function, v ssa.Value) bool {
				return strings.Join(c.P.Prov().Desc(v), "|") == "param#2"
			}, 0)
		}
	})
	extend("C10", "(R12) the store-check notification never blocks the sender.", func(c *core.Ctx) {
		a := rule(c, "C10.R12")
		n := 0
		for _, fn := range c.P.Funcs {
			if fn.Pkg != c.P.Pkg(pkgLocate) && enclosing(fn).Pkg != c.P.Pkg(pkgLocate) {
				continue
			}
			core.Instrs(fn, func(in ssa.Instruction) {
				switch x := in.(type) {
				case *ssa.Send:
					if strings.Contains(strings.Join(c.P.Prov().Desc(x.Chan), "|"), "storeCacheImpl.notifyCheckCh") {
						n++
						a.viol(fname(fn)+" notifies without blocking", in, "a plain send on the one-slot notification channel: when the checker goroutine is busy (PD stalled) the request path that invalidates a store blocks")
					}
				case *ssa.Select:
					for _, st := range x.States {
						if st.Dir == 1 && strings.Contains(strings.Join(c.P.Prov().Desc(st.Chan), "|"), "storeCacheImpl.notifyCheckCh") { // types.SendOnly
							n++
							a.check(!x.Blocking, fname(fn)+" notifies without blocking", in, "", "the notification select has no default branch")
						}
					}
				}
			})
		}
		a.checkAt(n >= 1, "sends on storeCacheImpl.notifyCheckCh", "-", fmt.Sprint(n), "not found")
	})
	extend("C11", "(R7) a batch put applies every (key, value) of the call in order (a repeated key keeps its last value); the mock store's reverse raw scan starts no lower than the region start; AppendKeyBatches keeps every key.", func(c *core.Ctx) {
		a := rule(c, "C11.R7")
		if fn := a.fn("rawkv", "Client", "sendBatchPut"); fn != nil {
			n := 0
			core.Instrs(fn, func(in ssa.Instruction) {
				mu, ok := in.(*ssa.MapUpdate)
				if !ok || !strings.Contains(mu.Map.Type().String(), "[]byte") {
					return
				}
				n++
				// the instruction that reads values[i]
				var from ssa.Instruction
				core.Instrs(fn, func(x ssa.Instruction) {
					if ia, ok := x.(*ssa.IndexAddr); ok && strings.Join(c.P.Prov().Desc(ia.X), "|") == "param#1" && from == nil {
						from = x
					}
				})
				if from == nil {
					a.undAt(fname(fn)+" key loop", a.fnPos(fn), "loop over the keys not found")
					return
				}
				okk, w, hit := loopBodyMust(c, fn, from, func(x ssa.Instruction) bool { return x == in }, nil)
				if okk {
					a.ok(fname(fn)+" records every pair", in, "")
				} else {
					a.viol(fname(fn)+" records every pair", hit, "a (key, value) of the call can be skipped (e.g. when the key was seen before): a repeated key keeps its FIRST value instead of the last: "+a.w(w))
				}
			})
			a.checkAt(n >= 1, fname(fn)+" value map", a.fnPos(fn), "", "not found")
		}
		if fn := a.fn(pkgMock, "kvHandler", "handleKvRawScan"); fn != nil {
			for _, ci := range core.FindCalls(fn, core.CallsMethodNamed("RawReverseScan", "")) {
				lb := ci.Common().Args[len(ci.Common().Args)-2]
				_ = lb
				for _, arg := range ci.Common().Args {
					if !strings.Contains(strings.Join(c.P.Prov().Desc(arg), "|"), "RawScanRequest.EndKey") {
						continue
					}
					g, why := phiIncomingGuarded(fn, arg, func(x ssa.Value) bool {
						return strings.Contains(strings.Join(c.P.Prov().Desc(x), "|"), "RawScanRequest.EndKey")
					}, []guardSpec{{"request bound above the region start", func(v ssa.Value) (bool, bool) {
						x, y, neg, ok, _ := bytesLess(v)
						if !ok {
							return false, false
						}
						dx, dy := strings.Join(c.P.Prov().Desc(x), "|"), strings.Join(c.P.Prov().Desc(y), "|")
						if strings.Contains(dx, ".startKey,") && strings.Contains(dy, "RawScanRequest.EndKey") {
							return true, !neg
						}
						return false, false
					}, true}})
					a.check(g, fname(fn)+" reverse scan lower bound = max(region start, request bound)", ci, "", "the request's lower bound is used although it may lie below the region's start: the keys of lower regions are returned again (duplicates, out of order): "+why)
				}
			}
		}
		if fn := a.fn("internal/kvrpc", "", "AppendKeyBatches"); fn != nil {
			n := 0
			var from ssa.Instruction
			core.Instrs(fn, func(x ssa.Instruction) {
				// the loop test `i < len(groupKeys)` (a counted loop or a range loop)
				if bo, ok := x.(*ssa.BinOp); ok && from == nil && bo.Op == token.LSS {
					if strings.Join(c.P.Prov().Desc(bo.Y), "|") == "len(param#2)" {
						from = x
					}
				}
			})
			if from != nil {
				n++
				okk, w, hit := condMust(c, fn, from, func(x ssa.Instruction) bool { return x == from }, func(x ssa.Instruction) bool {
					cl, ok := x.(*ssa.Call)
					if !ok {
						return false
					}
					b, ok := cl.Call.Value.(*ssa.Builtin)
					return ok && b.Name() == "append" && cl.Type().String() == "[][]byte"
				}, nil)
				_ = loopBodyMust
				if okk {
					a.ok(fname(fn)+" appends every key", from, "")
				} else {
					a.viol(fname(fn)+" appends every key", hit, "a key of the group can be passed over without being appended to a batch (e.g. the key that triggers a flush): it is never sent — BatchGet reports it missing, BatchDelete leaves it: "+a.w(w))
				}
			}
			a.checkAt(n == 1, fname(fn)+" key loop", a.fnPos(fn), "", "not found")
		}
	})
	extend("C12", "(R11) a pessimistic rollback removes only a pessimistic lock of this transaction with a for-update ts not above the request's; a heart-beat extends only this transaction's lock; a rollback consults the commit record of the transaction whenever it does not hold the lock.", func(c *core.Ctx) {
		guardTable(c, "C12.R11", []gRow{
			{Fn: [3]string{pkgMock, "", "pessimisticRollbackKey"}, Target: "call:Delete", Facts: []string{
				"F:(param#4 < fld(mvccLock.forUpdateTS,*))", "T:(const(5) == fld(mvccLock.op,*))", "T:(fld(mvccLock.startTS,*) == param#3)"}, Min: 1,
				Why: "the lock removed by a pessimistic rollback must be a pessimistic lock of this transaction acquired at or below the request's for-update ts (a prewrite lock, another transaction's lock or a re-acquired newer lock survives)"},
			{Fn: [3]string{pkgMock, "MVCCLevelDB", "TxnHeartBeat"}, Target: "store:mvccLock.ttl", Facts: []string{"T:(fld(mvccLock.startTS,*) == param#1)"}, Min: 1,
				Why: "a heart-beat must extend only the lock of the transaction that sent it"},
		})
		a := rule(c, "C12.R11")
		if fn := a.fn(pkgMock, "", "rollbackKey"); fn != nil {
			n := 0
			for _, ci := range core.FindCalls(fn, func(cc *ssa.CallCommon) bool {
				f := cc.StaticCallee()
				return f != nil && (f.Name() == "writeRollback" || (f.Name() == "Put" && strings.Contains(f.String(), "leveldb.Batch")))
			}) {
				n++
				in := ci.(ssa.Instruction)
				okk, w, _ := condMust(c, fn, nil, func(x ssa.Instruction) bool { return x == in }, func(x ssa.Instruction) bool {
					cc, ok := x.(ssa.CallInstruction)
					return ok && calleeName(cc) == "getTxnCommitInfo"
				}, []string{"F:fld(Iterator.valid,*"})
				a.check(okk, fname(fn)+" consults the commit record before writing a rollback", in, "", "a rollback record can be written without looking for the transaction's commit record (e.g. when another transaction's lock is on the key): a committed transaction is also rolled back: "+a.w(w))
			}
			a.checkAt(n >= 1, fname(fn)+" rollback write", a.fnPos(fn), "", "not found")
		}
	})
	extend("C13", "(R10) a failed timestamp fetch in the commit-wait loop ends the call with that error.", func(c *core.Ctx) {
		a := rule(c, "C13.R10")
		fn := a.fn(pkgTxn, "KVTxn", "GetTimestampForCommit")
		if fn == nil {
			return
		}
		n := 0
		for _, ci := range core.FindCalls(fn, core.CallsMethodNamed("GetTimestampWithRetry", "")) {
			var errv ssa.Value
			if v, ok := ci.(ssa.Value); ok && v.Referrers() != nil {
				for _, r := range *v.Referrers() {
					if ex, ok := r.(*ssa.Extract); ok && ex.Index == 1 {
						errv = ex
					}
				}
			}
			if errv == nil {
				continue
			}
			n++
			a.check(flowsToReturn(errv), fname(fn)+" the fetch error reaches the caller", ci, "", "the error of GetTimestampWithRetry is tested but never returned (it is bound to a variable of its own, e.g. by `:=` inside the wait loop): after a failed fetch the function returns the lagging timestamp with a nil error")
			pNil := core.PIsNil(func(x ssa.Value) bool { return core.Strip(x) == errv })
			for _, ifi := range ifsOn(fn, pNil) {
				b := succOn(ifi, pNil, false)
				if b == nil {
					continue
				}
				qq := &core.Q{Fn: fn, AssumeNil: map[ssa.Value]bool{errv: false}}
				found, w, hit := qq.ReachFromBlock(b, func(in ssa.Instruction) bool {
					r, ok := in.(*ssa.Return)
					return ok && len(r.Results) == 2 && isNil(r.Results[1])
				})
				if found {
					a.viol(fname(fn)+" a failed fetch ends with its error", hit, "after GetTimestampWithRetry failed the function can return (ts, nil): the lagging timestamp (≤ the commit-wait constraint) is used as commit ts: "+a.w(w))
				} else {
					a.ok(fname(fn)+" a failed fetch ends with its error", ifi, "")
				}
			}
		}
		a.checkAt(n >= 2, fname(fn)+" timestamp fetches", a.fnPos(fn), fmt.Sprint(n), "expected the first attempt and the re-fetch in the wait loop")
	})
	extend("C14", "(R9) a learned txn safe point is always recorded (only a comparison of the safe points themselves may skip the store).", func(c *core.Ctx) {
		a := rule(c, "C14.R9")
		fn := a.fn("tikv", "KVStore", "UpdateTxnSafePointCache")
		if fn == nil {
			return
		}
		n := 0
		for _, st := range storesToFieldNamed(fn, "struct.cachedTxnSafePoint") {
			n++
			okk, w, _ := condMust(c, fn, nil, core.IsReturn, func(x ssa.Instruction) bool { return x == st }, []string{"*param#0*cachedTxnSafePoint*", "*cachedTxnSafePoint*param#0*"})
			a.check(okk, fname(fn)+" records the safe point on every path", st, "", "an update can be dropped for a reason other than the safe point values (e.g. an older wall-clock time): a higher safe point learned out of order is lost and reads below it are served instead of failing: "+a.w(w))
		}
		a.checkAt(n == 1, fname(fn)+" store", a.fnPos(fn), "", "not found")
	})
	extend("C15", "(R9) the request context is attached after the request was encoded (both send paths); (R10) an in-place filter writes at the index it truncates to.", func(c *core.Ctx) {
		a := rule(c, "C15.R9")
		n := 0
		for _, fn := range c.P.Funcs {
			if enclosing(fn).Pkg != c.P.Pkg(pkgClient) || strings.HasSuffix(c.P.Fset.Position(fn.Pos()).Filename, "_test.go") {
				continue
			}
			for _, ci := range core.FindCalls(fn, func(cc *ssa.CallCommon) bool {
				f := cc.StaticCallee()
				return f != nil && f.String() == core.ModPath+"/tikvrpc.AttachContext"
			}) {
				n++
				q := &core.Q{Fn: fn}
				found, w, hit := q.Reach(ci.(ssa.Instruction), func(in ssa.Instruction) bool {
					cc, ok := in.(ssa.CallInstruction)
					return ok && calleeName(cc) == "EncodeRequest"
				})
				if found {
					a.viol(fname(fn)+" attaches the context to the encoded request", hit, "the context is attached before the codec produced the request that is sent: under a keyspace the wire context says API v1 / no keyspace id while the keys are prefixed: "+a.w(w))
				} else {
					a.ok(fname(fn)+" attaches the context to the encoded request", ci, "")
				}
			}
		}
		a.checkAt(n >= 2, "AttachContext call sites in internal/client", "-", fmt.Sprint(n), "not found")
		a2 := rule(c, "C15.R10")
		if fn := a2.fn(pkgAPI, "codecV2", "decodeRegionError"); fn != nil {
			core.Instrs(fn, func(in ssa.Instruction) {
				sl, ok := in.(*ssa.Slice)
				if !ok || sl.High == nil || !strings.Contains(strings.Join(c.P.Prov().Desc(sl.X), "|"), "EpochNotMatch.CurrentRegions") {
					return
				}
				// in-place filter: element stores must use the counter the slice is cut at
				core.Instrs(fn, func(x ssa.Instruction) {
					ia, ok := x.(*ssa.IndexAddr)
					if !ok || !strings.Contains(strings.Join(c.P.Prov().Desc(ia.X), "|"), "EpochNotMatch.CurrentRegions") {
						return
					}
					isStored := false
					for _, r := range *ia.Referrers() {
						if st, ok := r.(*ssa.Store); ok && st.Addr == ssa.Value(ia) {
							isStored = true
						}
					}
					if !isStored {
						return
					}
					a2.check(sameCounter(ia.Index, sl.High), fname(fn)+" in-place filter writes at the kept position", x, "", "the filter keeps n elements but writes the kept element at the loop index: a dropped (out-of-keyspace) region stays in the list and a later in-keyspace one is cut off")
				})
			})
		}
	})
	extend("C16", "(R9) the pipelined buffer's batch get consults both local buffers (the mutable one and the one being flushed); the snapshot-side collector keeps tombstones of the buffer tier.", func(c *core.Ctx) {
		a := rule(c, "C16.R9")
		if fn := a.fn(pkgUnion, "PipelinedMemDB", "BatchGet"); fn != nil {
			n := 0
			for _, ci := range core.FindCalls(fn, core.CallsMethodNamed("GetLocal", "")) {
				n++
				f := ci.Common().StaticCallee()
				a.check(f != nil && strings.Contains(f.String(), "PipelinedMemDB).GetLocal"), fname(fn)+" local lookup covers the flushing buffer", ci, "", "the local lookup goes to the mutable buffer only: while a flush is in flight the transaction's own (being flushed) write is missed or an older generation's value is returned")
			}
			a.checkAt(n >= 1, fname(fn)+" local lookup", a.fnPos(fn), "", "GetLocal not found")
		}
		if fn := a.fn(pkgSnap, "KVSnapshot", "BatchGetWithTier"); fn != nil {
			n := 0
			for _, f := range core.FuncsIn(fn)[1:] {
				for _, ifi := range ifsOn(f, core.PTrue(func(v ssa.Value) bool { return descHas(c, v, "IsValueEmpty") })) {
					n++
					b := succOn(ifi, core.PTrue(func(v ssa.Value) bool { return descHas(c, v, "IsValueEmpty") }), true)
					if b == nil {
						continue
					}
					found, _, _ := reachFromBlock(f, b, nil, nil, func(in ssa.Instruction) bool { _, ok := in.(*ssa.MapUpdate); return ok })
					a.check(found, fname(f)+" an empty value can still be collected (buffer tier)", ifi, "", "an empty value is never collected: in the buffer tier it is the record of a flushed delete — dropping it makes the deleted key show its committed value again")
				}
			}
			a.checkAt(n >= 1, fname(fn)+" collector", a.fnPos(fn), "", "IsValueEmpty test not found")
		}
	})
	extend("C17", "(R10) the scheduler recycles by the released lock's commit ts; Commit publishes its commit ts to the latch whenever it succeeded.", func(c *core.Ctx) {
		a := rule(c, "C17.R10")
		if fn := a.fn("internal/latch", "LatchesScheduler", "run"); fn != nil {
			n := 0
			for _, f := range core.FuncsIn(fn) {
				for _, ci := range core.FindCalls(f, core.CallsMethodNamed("recycle", "")) {
					n++
					args := ci.Common().Args
					d := strings.Join(c.P.Prov().Desc(args[len(args)-1]), "|")
					a.check(strings.HasPrefix(d, "fld(Lock.commitTS,"), fname(f)+" recycles by the commit ts of the released lock", ci, d, "the recycle horizon is "+d+": with timestamps behind the wall clock recent commit information is dropped and a stale transaction is not detected")
				}
			}
			a.checkAt(n >= 1, fname(fn)+" recycle", a.fnPos(fn), "", "not found")
		}
		if fn := a.fn(pkgTxn, "KVTxn", "Commit"); fn != nil {
			for _, ci := range core.FindCalls(fn, core.CallsMethodNamed("execute", "twoPhaseCommitter")) {
				in := ci.(ssa.Instruction)
				// only the execute that runs under the latch (followed by SetCommitTS somewhere)
				if len(core.FindCalls(fn, core.CallsMethodNamed("SetCommitTS", ""))) == 0 {
					continue
				}
				q := &core.Q{Fn: fn}
				reachLatch, _, _ := q.Reach(in, func(x ssa.Instruction) bool {
					cc, ok := x.(ssa.CallInstruction)
					return ok && calleeName(cc) == "SetCommitTS"
				})
				if !reachLatch {
					continue
				}
				okk, w, _ := condMust(c, fn, in, core.IsReturn, func(x ssa.Instruction) bool {
					cc, ok := x.(ssa.CallInstruction)
					return ok && calleeName(cc) == "SetCommitTS"
				}, []string{"F:(call((*txnkv/transaction.twoPhaseCommitter).execute)#0* == nil)"})
				a.check(okk, fname(fn)+" publishes the commit ts after a successful commit", in, "", "a successful commit can return without SetCommitTS on its latch lock: a later transaction with an older start ts on the same key is not rejected as stale: "+a.w(w))
			}
		}
	})
	extend("C18", "(R12) an idle connection pool is refused; the async collapse path applies the same condition as the sync path (no keys and no txn infos).", func(c *core.Ctx) {
		a := rule(c, "C18.R12")
		if fn := a.fn(pkgClient, "RPCClient", "getConnPool"); fn != nil {
			n := 0
			for _, r := range returnsOf(fn) {
				if len(r.Results) != 2 || !isNil(r.Results[1]) || isNil(r.Results[0]) {
					continue
				}
				n++
				okk, w, _ := condMust(c, fn, nil, func(x ssa.Instruction) bool { return x == ssa.Instruction(r) }, func(x ssa.Instruction) bool {
					cc, ok := x.(ssa.CallInstruction)
					return ok && calleeName(cc) == "isIdle"
				}, []string{"T:(fld(connPool.batchConn,*) == nil)"})
				a.check(okk, fname(fn)+" refuses an idle pool", r, "", "a pool whose batch connection went idle (its send loop exited) is handed out: a request queued on it is never sent nor failed: "+a.w(w))
			}
			a.checkAt(n >= 1, fname(fn)+" success return", a.fnPos(fn), "", "not found")
		}
		guardTable(c, "C18.R12", []gRow{{Fn: [3]string{pkgClient, "reqCollapse", "SendRequestAsync"}, Target: "call:resolveLockCollapseKey", Facts: []string{
			"T:(const(0) == len(fld(ResolveLockRequest.Keys,*", "T:(const(0) == len(fld(ResolveLockRequest.TxnInfos,*"}, Min: 1,
			Why: "only region-wide resolve-lock requests (no keys, no txn infos) may share one RPC: a lite request collapsed with another one gets the answer for the other's keys"}})
	})
	extend("C19", "(R7) the signed comparable varint rejects exactly the values beyond the int64 range (strict at MaxInt64); decodeBytes starts from an empty output buffer; every mvcc key carries its version suffix.", func(c *core.Ctx) {
		a := rule(c, "C19.R7")
		if fn := a.fn(pkgCodec, "", "DecodeComparableVarint"); fn != nil {
			// for every branch decided by a comparison of the decoded value with MaxInt64: the truth of
			// "Max < v" on the edge that returns the error
			var forms []string
			isMax := func(v ssa.Value) bool {
				cst, ok := core.Strip(v).(*ssa.Const)
				if !ok || cst.Value == nil || cst.Value.Kind() != constant.Int {
					return false
				}
				u, ok := constant.Uint64Val(cst.Value)
				return ok && u == 1<<63-1
			}
			core.Instrs(fn, func(in ssa.Instruction) {
				bo, ok := in.(*ssa.BinOp)
				if !ok {
					return
				}
				x, y, ng, isOrd := lessForm(bo)
				if !isOrd || (!isMax(x) && !isMax(y)) {
					return
				}
				if isMax(y) {
					forms = append(forms, "v<Max (a test that is strict on the wrong side)")
					return
				}
				// a negation applied to the comparison belongs to it
				if refs := bo.Referrers(); refs != nil && len(*refs) == 1 {
					if u, ok := (*refs)[0].(*ssa.UnOp); ok && u.Op == token.NOT {
						ng = !ng
					}
				}
				forms = append(forms, fmt.Sprintf("error when Max<v is %v", !ng))
			})
			sort.Strings(forms)
			got := strings.Join(forms, "; ")
			a.checkAt(got == "error when Max<v is false; error when Max<v is true", fname(fn)+" range tests at MaxInt64", a.fnPos(fn), got, "the decoded magnitude is not rejected exactly when it is beyond the int64 range (positive tag: v > Max; negative tag: v <= Max): "+got)
		}
		if fn := a.fn(pkgCodec, "", "decodeBytes"); fn != nil {
			n := 0
			core.Instrs(fn, func(in ssa.Instruction) {
				cl, ok := in.(*ssa.Call)
				if !ok {
					return
				}
				b, ok := cl.Call.Value.(*ssa.Builtin)
				if !ok || b.Name() != "append" {
					return
				}
				n++
				ds := c.P.Prov().Desc(cl.Call.Args[0])
				okk := true
				for _, d := range ds {
					if d == "param#1" {
						okk = false
					}
				}
				a.check(okk, fname(fn)+" output starts empty", in, strings.Join(ds, "|"), "the decoded bytes are appended to the caller's buffer as it is (not cut to length 0): a reused scratch buffer's old content is returned in front of the value")
			})
			a.checkAt(n >= 1, fname(fn)+" appends", a.fnPos(fn), "", "not found")
		}
		if fn := a.fn(pkgMock, "", "mvccEncode"); fn != nil {
			for _, r := range returnsOf(fn) {
				d := strings.Join(c.P.Prov().Desc(r.Results[0]), "|")
				a.check(strings.HasPrefix(d, "call(util/codec.EncodeUintDesc)#0"), fname(fn)+" appends the version", r, d, "a key is returned without the version suffix: it is a proper prefix of every other version's key and sorts FIRST instead of last")
			}
		}
	})
}

// sameCounter: both values are the same loop-carried counter (the φ itself, or the φ's +1 successor vs the φ is
// NOT the same).
func sameCounter(x, y ssa.Value) bool {
	return core.Strip(x) == core.Strip(y)
}

func init() {
	extend("C01", "Imported after round 4: C05.R1 (snapshot re-timestamping clears the ignorable locks), C02.R6 (the commit ts in use is the one stored in the committer), C04.R7.", func(c *core.Ctx) {
		c.Import(Registry["C05"].Run, "C05", []string{"R1"}, "viaC05")
		c.Import(Registry["C02"].Run, "C02", []string{"R6"}, "viaC02")
		c.Import(Registry["C04"].Run, "C04", []string{"R7"}, "viaC04")
	})
	extend("C02", "Imported after round 4: C14.R4 (GC scans every lock page), C12.R11 (the store removes only the transaction's own pessimistic lock).", func(c *core.Ctx) {
		c.Import(Registry["C14"].Run, "C14", []string{"R4"}, "viaC14")
		c.Import(Registry["C12"].Run, "C12", []string{"R11"}, "viaC12")
	})
	extend("C03", "Imported after round 4: C02.R6, C04.R1b.", func(c *core.Ctx) {
		c.Import(Registry["C02"].Run, "C02", []string{"R6"}, "viaC02")
		c.Import(Registry["C04"].Run, "C04", []string{"R1b"}, "viaC04")
	})
	extend("C07", "Imported after round 4: C08.R7 (index spaces of the radix tree).", func(c *core.Ctx) {
		c.Import(Registry["C08"].Run, "C08", []string{"R7"}, "viaC08")
	})
	extend("C08", "Imported after round 4: C07.R9 (an iterator whose end bound lies outside all keys is invalid).", func(c *core.Ctx) {
		c.Import(Registry["C07"].Run, "C07", []string{"R9"}, "viaC07")
	})
}
