package rules

import (
	"fmt"
	"go/types"

	"golang.org/x/tools/go/ssa"

	"verif/sa/core"
)

func init() {
	register("C03", &Spec{
		Title: "Commit's answer is truthful",
		Explanation: "Decides the structural bookkeeping Commit's answer is computed from: (R1) after every send of a CommitRequest the undetermined-error is recorded before any exit unless the batch is not primary / no RPC error / async commit; (R2) it is cleared only behind a definite store answer and has a single writer; (R3) every cleanup (rollback) dispatch is guarded by 'not undetermined' and by 'not committed'/'error'; (R4) an undetermined state is reported as ErrResultUndetermined and commitTxn returns nil after an error only when committed; (R5) async/1PC prewrite records undetermined RPC errors and region-level UndeterminedResult; (R6) a CommitTsExpired rejection is never treated as success without a re-send; (R7) `committed` is set only behind a clean commit answer; (R8) the request sender's recorded RPC error is never cleared or overwritten with nil during a call. NOT decided: truthfulness under actual fault sequences (needs executions).",
		Run: runC03,
	})
}

func runC03(c *core.Ctx) {
	p := c.P
	// anchors shared by several rules
	a0 := rule(c, "C03.anchors")
	setU := a0.fn(pkgTxn, "twoPhaseCommitter", "setUndeterminedErr")
	getU := a0.fn(pkgTxn, "twoPhaseCommitter", "getUndeterminedErr")
	isAsync := a0.fn(pkgTxn, "twoPhaseCommitter", "isAsyncCommit")
	isOnePC := a0.fn(pkgTxn, "twoPhaseCommitter", "isOnePC")
	cleanup := a0.fn(pkgTxn, "twoPhaseCommitter", "cleanup")
	sendReq := a0.fn(pkgLocate, "RegionRequestSender", "SendReq")
	getRPCErr := a0.fn(pkgLocate, "RegionRequestSender", "GetRPCError")
	commitH := a0.fn(pkgTxn, "actionCommit", "handleSingleBatch")
	execute := a0.fn(pkgTxn, "twoPhaseCommitter", "execute")
	commitTxn := a0.fn(pkgTxn, "twoPhaseCommitter", "commitTxn")
	commitMut := a0.fn(pkgTxn, "twoPhaseCommitter", "commitMutations")
	fIsPrimary := a0.field(pkgTxn, "batchMutations", "isPrimary")
	fUndet := a0.field(pkgTxn, "twoPhaseCommitter", "mu.undeterminedErr")
	fCommitted := a0.field(pkgTxn, "twoPhaseCommitter", "mu.committed")
	fResp := a0.field(pkgRPC, "Response", "Resp")
	if a0.bad {
		return
	}

	pIsPrimary := core.PTrue(core.LoadsField(fIsPrimary))
	pRPCErrNil := core.PIsNil(core.IsCallTo(getRPCErr))
	pAsync := core.PTrue(core.IsCallTo(isAsync))
	pOnePC := core.PTrue(core.IsCallTo(isOnePC))
	isSend := core.InstrIs(core.CallsTo(sendReq))
	isSetUNonNil := func(in ssa.Instruction) bool {
		ci, ok := in.(ssa.CallInstruction)
		if !ok || !core.CallsTo(setU)(ci.Common()) {
			return false
		}
		return !isNil(argOf(ci, 0))
	}

	// ---- R1: undetermined recorded after every primary commit send -------------------
	{
		a := rule(c, "C03.R1")
		sends := core.FindCalls(commitH, core.CallsTo(sendReq))
		if len(sends) == 0 {
			a.violAt(fname(commitH)+" sends CommitRequest", a.fnPos(commitH), "no SendReq call found in the commit batch handler")
		}
		for _, s := range sends {
			bypass := func(e core.Edge) bool {
				if m, t := core.EdgeTruth(e, pIsPrimary); m && !t {
					return true
				}
				if m, t := core.EdgeTruth(e, pRPCErrNil); m && t {
					return true
				}
				if m, t := core.EdgeTruth(e, pAsync); m && t {
					return true
				}
				return false
			}
			okk, w, hit := core.MustPassAfter(commitH, s, isSetUNonNil, func(in ssa.Instruction) bool { return core.IsReturn(in) || isSend(in) }, bypass)
			key := fname(commitH) + " after SendReq"
			if okk {
				a.ok(key, s, "every path from the send to a return/re-send records the RPC error via setUndeterminedErr unless ¬primary ∨ no RPC error ∨ async commit")
			} else {
				a.viol(key, s, fmt.Sprintf("a path from the commit send reaches %s without recording the undetermined error (primary ∧ RPC error ∧ ¬async not excluded): %s", p.InstrPos(hit), a.w(w)))
			}
		}
		// the recorded error is the sender's RPC error
		for _, ci := range core.FindCalls(commitH, core.CallsTo(setU)) {
			arg := argOf(ci, 0)
			if isNil(arg) {
				continue
			}
			okk, ds := descAll(c, arg, "GetRPCError", "fld(RegionRequestSender.rpcError,")
			a.check(okk, fname(commitH)+" setUndeterminedErr arg", ci, "argument is the sender's RPC error", fmt.Sprintf("argument is not rooted in GetRPCError(): %v", ds))
		}
	}

	// ---- R2: cleared only by a definite answer; single writer -------------------------
	{
		a := rule(c, "C03.R2")
		n := 0
		for _, cs := range p.CallersOf(setU) {
			arg := argOf(cs.Instr, 0)
			if !isNil(arg) {
				continue
			}
			n++
			key := fname(cs.Fn) + " setUndeterminedErr(nil)"
			g1, w1 := core.Guarded(cs.Fn, cs.Instr, core.PIsNil(core.ResultOf(core.IsCallNamed("GetRegionError"), 0)), true)
			g2, w2 := core.Guarded(cs.Fn, cs.Instr, core.PIsNil(core.LoadsField(fResp)), false)
			g3, w3 := core.Guarded(cs.Fn, cs.Instr, core.PIsNil(core.ErrResultOf(core.IsCallTo(sendReq))), true)
			switch {
			case !g3:
				a.viol(key, cs.Instr, "the undetermined error is cleared on a path where the send itself failed: "+a.w(w3))
			case !g1:
				a.viol(key, cs.Instr, "cleared before the region-error check (a region error is not a definite answer): "+a.w(w1))
			case !g2:
				a.viol(key, cs.Instr, "cleared although the response body may be missing: "+a.w(w2))
			default:
				a.ok(key, cs.Instr, "cleared only after err==nil, regionErr==nil and a non-nil response body")
			}
		}
		if n == 0 {
			c.Note("C03.R2: no setUndeterminedErr(nil) call exists (nothing to guard)")
		}
		for _, w := range p.WritersOf(fUndet) {
			a.check(w.Fn == setU, writerKey(w, fUndet), w.Instr, "only setUndeterminedErr writes the field", "undeterminedErr written outside setUndeterminedErr")
		}
	}

	// ---- R3: cleanup only when neither committed nor undetermined ----------------------
	{
		a := rule(c, "C03.R3")
		pUndetNil := func(v ssa.Value) (bool, bool) {
			if m, pol := core.PIsNil(core.IsCallTo(getU))(v); m {
				return m, pol
			}
			return core.PIsNil(core.LoadsField(fUndet))(v)
		}
		pCommitted := core.PTrue(core.LoadsField(fCommitted))
		pErrNil := core.PIsNil(func(v ssa.Value) bool {
			return isErrorType(v.Type())
		})
		sites := p.CallersOf(cleanup)
		if len(sites) == 0 {
			a.violAt("callers of cleanup", a.fnPos(cleanup), "no call of twoPhaseCommitter.cleanup found: a failed commit would leave its locks and C03.R3 has nothing to check")
		}
		for _, cs := range sites {
			if isProbe(c, cs.Fn) {
				continue
			}
			key := fname(cs.Fn) + " calls cleanup"
			gU, wU := core.Guarded(cs.Fn, cs.Instr, pUndetNil, true)
			gC, wC := core.GuardedAny(cs.Fn, cs.Instr, core.AtomT{A: pCommitted, T: false}, core.AtomT{A: pErrNil, T: false})
			switch {
			case !gU:
				a.viol(key, cs.Instr, "cleanup (rollback of all keys) reachable while the commit result may be undetermined: "+a.w(wU))
			case !gC:
				a.viol(key, cs.Instr, "cleanup reachable without testing `committed`=false or err!=nil: "+a.w(wC))
			default:
				a.ok(key, cs.Instr, "guarded by undetermined==nil and (¬committed ∨ err≠nil)")
			}
		}
	}

	// ---- R4: error class provenance ------------------------------------------------
	{
		a := rule(c, "C03.R4")
		isGlobalUndet := loadsGlobal("/error", "ErrResultUndetermined")
		for _, fn := range []*ssa.Function{execute, commitTxn} {
			ifs := ifsOn(fn, core.PIsNil(core.IsCallTo(getU)))
			if len(ifs) == 0 {
				a.violAt(fname(fn)+" consults getUndeterminedErr", a.fnPos(fn), "the function no longer tests getUndeterminedErr() after a failed prewrite/commit; an undetermined outcome would be reported as a definite error")
				continue
			}
			for _, ifi := range ifs {
				b := succOn(ifi, core.PIsNil(core.IsCallTo(getU)), false)
				key := fname(fn) + " undetermined branch"
				found := false
				// blocks dominated by b
				for _, blk := range fn.Blocks {
					if !b.Dominates(blk) {
						continue
					}
					for _, in := range blk.Instrs {
						if v, ok := in.(ssa.Value); ok && isGlobalUndet(v) && flowsToReturn(v) {
							found = true
						}
					}
				}
				a.check(found, key, ifi, "ErrResultUndetermined flows to the return on the undetermined branch", "on the branch where an undetermined error is recorded the function does not return ErrResultUndetermined")
				// the test must happen on the error path of the action
				var callm core.VM
				if fn == execute {
					callm = core.IsCallNamed("prewriteMutations")
				} else {
					callm = core.IsCallTo(commitMut)
				}
				g, w := core.Guarded(fn, ifi, core.PIsNil(core.ErrResultOf(callm)), false)
				a.check(g, key+" on error path", ifi, "tested on the err≠nil path", "getUndeterminedErr consulted off the error path: "+a.w(w))
			}
		}
		// commitTxn: nil after an error only when committed
		for _, ifi := range ifsOn(commitTxn, core.PIsNil(core.ErrResultOf(core.IsCallTo(commitMut)))) {
			b := succOn(ifi, core.PIsNil(core.ErrResultOf(core.IsCallTo(commitMut))), false)
			found, w, hit := reachFromBlock(commitTxn, b, nil, func(e core.Edge) bool {
				m, t := core.EdgeTruth(e, core.PTrue(core.LoadsField(fCommitted)))
				return m && t
			}, func(in ssa.Instruction) bool {
				r, ok := in.(*ssa.Return)
				return ok && len(r.Results) == 1 && isNil(r.Results[0])
			})
			key := fname(commitTxn) + " nil after commit error"
			if found {
				a.viol(key, hit, "commitTxn returns nil after commitMutations failed without `committed` being true: "+a.w(w))
			} else {
				a.ok(key, ifi, "nil is returned after an error only on the committed edge")
			}
		}
		// every return of commitTxn with a non-nil, non-commitMutations error... (covered above)
	}

	// ---- R5: async / 1PC prewrite ------------------------------------------------------
	{
		a := rule(c, "C03.R5")
		drop := a.fn(pkgTxn, "prewrite1BatchReqHandler", "drop")
		hre := a.fn(pkgTxn, "prewrite1BatchReqHandler", "handleRegionErr")
		fCancelled := a.field(pkgTxn, "twoPhaseCommitter", "prewriteCancelled")
		if !a.bad {
			// drop: on err != nil ∧ (async ∨ 1PC) ∧ rpcErr != nil ∧ cancelled == 0 ⇒ setUndeterminedErr
			pErrNil := core.PIsNil(func(v ssa.Value) bool { _, ok := v.(*ssa.Parameter); return ok && isErrorType(v.Type()) })
			bypass := func(e core.Edge) bool {
				if m, t := core.EdgeTruth(e, pErrNil); m && t {
					return true
				}
				if m, t := core.EdgeTruth(e, pRPCErrNil); m && t {
					return true
				}
				// cancelled != 0
				if m, t := core.EdgeTruth(e, core.PCmp(tokEQL, core.LoadsField(fCancelled), core.IsIntConst(0))); m && !t {
					return true
				}
				return false
			}
			// "neither async nor 1PC": a path that took async=false AND onePC=false
			q := &core.Q{Fn: drop, NoPass: isSetUNonNil, NoEdge: bypass}
			// explore: reachable return without set, while not having both async=false and 1pc=false
			found, w, hit := reachAvoidingBoth(q, pAsync, pOnePC)
			key := fname(drop) + " records undetermined"
			if found {
				a.viol(key, hit, "prewrite failure with an RPC error under async-commit/1PC can finish without recording the undetermined error: "+a.w(w))
			} else {
				a.ok(key, drop.Blocks[0].Instrs[0], "err≠nil ∧ (async ∨ 1PC) ∧ RPC error ∧ not cancelled ⇒ setUndeterminedErr on every path")
			}
			for _, ci := range core.FindCalls(drop, core.CallsTo(setU)) {
				okk, ds := descAll(c, argOf(ci, 0), "GetRPCError", "fld(RegionRequestSender.rpcError,")
				a.check(okk, fname(drop)+" setUndeterminedErr arg", ci, "argument is the sender's RPC error", fmt.Sprintf("argument not rooted in GetRPCError(): %v", ds))
			}
			// drop must be called on every exit of the prewrite batch handler with the error returned
			ph := a.fn(pkgTxn, "actionPrewrite", "handleSingleBatch")
			if ph != nil {
				sendCheck := a.fn(pkgTxn, "prewrite1BatchReqHandler", "sendReqAndCheck")
				if sendCheck != nil {
					for _, s := range core.FindCalls(ph, core.CallsTo(sendCheck)) {
						okk, w, hit := core.MustPassAfter(ph, s, core.InstrIs(core.CallsTo(drop)), core.IsReturn, nil)
						if okk {
							a.ok(fname(ph)+" drop before return", s, "every return after a send passes handler.drop(err)")
						} else {
							a.viol(fname(ph)+" drop before return", hit, "a return after sendReqAndCheck skips handler.drop: "+a.w(w))
						}
					}
				}
			}
			// handleRegionErr: UndeterminedResult ∧ (async ∨ 1PC) ⇒ return ErrResultUndetermined
			checkUndeterminedResult(a, c, hre, pAsync, pOnePC, false)
		}
		// commit handler: UndeterminedResult ∧ ¬async ∧ primary ⇒ ErrResultUndetermined
		checkUndeterminedResult(a, c, commitH, pAsync, pIsPrimary, true)
	}

	// ---- R6: commit-ts-expired is retried, never success ----------------------------
	{
		a := rule(c, "C03.R6")
		pExpired := core.PIsNil(core.IsCallNamed("GetCommitTsExpired"))
		ifs := ifsOn(commitH, pExpired)
		if len(ifs) == 0 {
			a.violAt(fname(commitH)+" handles CommitTsExpired", a.fnPos(commitH), "the commit handler no longer distinguishes a CommitTsExpired rejection")
		}
		getTS := core.InstrIs(core.CallsMethodNamed("GetTimestampForCommit", ""))
		for _, ifi := range ifs {
			b := succOn(ifi, pExpired, false)
			isSuccess := func(in ssa.Instruction) bool {
				if st, ok := in.(*ssa.Store); ok {
					if fa, ok := st.Addr.(*ssa.FieldAddr); ok && core.FieldOfAddr(fa) == fCommitted {
						return true
					}
				}
				if r, ok := in.(*ssa.Return); ok && len(r.Results) == 1 && isNil(r.Results[0]) {
					return true
				}
				return false
			}
			found, w, hit := reachFromBlock(commitH, b, isSend, nil, isSuccess)
			key := fname(commitH) + " CommitTsExpired branch"
			if found {
				a.viol(key, hit, "a commit rejected with CommitTsExpired reaches the success exit without a re-send: "+a.w(w))
			} else {
				a.ok(key, ifi, "after CommitTsExpired the only non-error continuation is a re-send")
			}
			// re-send only after a fresh commit ts
			found2, w2, hit2 := reachFromBlock(commitH, b, getTS, nil, isSend)
			if found2 {
				a.viol(key+" fresh ts", hit2, "re-send after CommitTsExpired without fetching a new commit timestamp: "+a.w(w2))
			} else {
				a.ok(key+" fresh ts", ifi, "re-send only after GetTimestampForCommit")
			}
		}
	}

	// ---- R7: committed set only behind a clean answer ---------------------------------
	{
		a := rule(c, "C03.R7")
		cfm := a.fn(pkgTxn, "twoPhaseCommitter", "commitFlushedMutations")
		ws := p.WritersOf(fCommitted)
		if len(ws) == 0 {
			a.violAt("writers of committed", "-", "no writer of twoPhaseCommitter.mu.committed found")
		}
		for _, w := range ws {
			key := writerKey(w, fCommitted)
			switch {
			case w.Fn == commitH:
				g1, w1 := core.Guarded(w.Fn, w.Instr, core.PIsNil(core.IsCallNamed("GetError")), true)
				g2, w2 := core.Guarded(w.Fn, w.Instr, core.PIsNil(core.ErrResultOf(core.IsCallTo(sendReq))), true)
				g3, w3 := core.Guarded(w.Fn, w.Instr, core.PIsNil(core.ResultOf(core.IsCallNamed("GetRegionError"), 0)), true)
				if !g1 {
					a.viol(key, w.Instr, "committed set although the commit response may carry a key error: "+a.w(w1))
				} else if !g2 {
					a.viol(key, w.Instr, "committed set although the send may have failed: "+a.w(w2))
				} else if !g3 {
					a.viol(key, w.Instr, "committed set although a region error may have been returned: "+a.w(w3))
				} else {
					a.ok(key, w.Instr, "behind err==nil, regionErr==nil, keyErr==nil")
				}
			case cfm != nil && w.Fn == cfm:
				g, wz := core.Guarded(w.Fn, w.Instr, core.PIsNil(core.ErrResultOf(core.IsCallTo(commitMut))), true)
				a.check(g, key, w.Instr, "behind commitMutations' success edge", "committed set without commitMutations having succeeded: "+a.w(wz))
			default:
				a.viol(key, w.Instr, "unexpected writer of `committed` (allowed: commit batch handler, commitFlushedMutations)")
			}
		}
	}
	// ---- R8: the sender's RPC error is sticky for the whole retry sequence ---------------
	{
		a := rule(c, "C03.R8")
		fRPC := a.field(pkgLocate, "RegionRequestSender", "rpcError")
		if fRPC != nil {
			ws := p.WritersOf(fRPC)
			n := 0
			for _, w := range ws {
				key := writerKey(w, fRPC)
				if fname(w.Fn) == "(*internal/locate.RegionRequestSender).SetRPCError" {
					continue // exported test hook (frozen exception)
				}
				n++
				if w.Val == nil || isNil(w.Val) {
					a.viol(key, w.Instr, "the recorded RPC error is cleared: a lost response in an earlier attempt of the same call would no longer be reported as undetermined")
					continue
				}
				val := w.Val
				g, wit := core.Guarded(w.Fn, w.Instr, core.PIsNil(func(v ssa.Value) bool {
					return v == val || core.Strip(v) == core.Strip(val) || sameLoad(v, val)
				}), false)
				a.check(g, key, w.Instr, "only a non-nil send error is recorded", "rpcError may be overwritten with nil: "+a.w(wit))
			}
			if n == 0 {
				a.violAt("writers of rpcError", "-", "the sender no longer records RPC errors: undetermined results cannot be detected")
			}
		}
	}
	_ = types.Typ
}

// sameLoad: two loads of the same field address expression (same field of the same base).
func sameLoad(a, b ssa.Value) bool {
	ua, ok1 := core.Strip(a).(*ssa.UnOp)
	ub, ok2 := core.Strip(b).(*ssa.UnOp)
	if !ok1 || !ok2 {
		return false
	}
	fa, ok1 := ua.X.(*ssa.FieldAddr)
	fb, ok2 := ub.X.(*ssa.FieldAddr)
	if !ok1 || !ok2 {
		return false
	}
	return fa.Field == fb.Field && core.AddrPath(fa.X) == core.AddrPath(fb.X)
}

// avoidBoth is the automaton "a path that has established BOTH a=false and b=false is
// excused": state bit0 = a seen false, bit1 = b seen false; reaching 3 prunes the path.
func avoidBoth(a, b core.Pred) func(core.Edge, int) (int, bool) {
	return func(e core.Edge, st int) (int, bool) {
		if m, t := core.EdgeTruth(e, a); m && !t {
			st |= 1
		}
		if m, t := core.EdgeTruth(e, b); m && !t {
			st |= 2
		}
		return st, st != 3
	}
}

func reachAvoidingBoth(q *core.Q, a, b core.Pred) (bool, []core.Step, ssa.Instruction) {
	q.Auto = avoidBoth(a, b)
	return q.Reach(nil, core.IsReturn)
}

// checkUndeterminedResult: in fn, on regionErr.GetUndeterminedResult() != nil and the mode
// atoms, ErrResultUndetermined is returned. conj=false: (x ∨ y) form (prewrite);
// conj=true: (¬x ∧ y) form (commit: ¬async ∧ primary).
func checkUndeterminedResult(a *A, c *core.Ctx, fn *ssa.Function, x, y core.Pred, commitForm bool) {
	if fn == nil {
		return
	}
	pUR := core.PIsNil(core.IsCallNamed("GetUndeterminedResult"))
	ifs := ifsOn(fn, pUR)
	key := fname(fn) + " UndeterminedResult"
	if len(ifs) == 0 {
		a.violAt(key, a.fnPos(fn), "a region error carrying UndeterminedResult is no longer distinguished: it would be retried / reported as a definite failure")
		return
	}
	for _, ifi := range ifs {
		b := succOn(ifi, pUR, false)
		// from b, with the mode atoms deleting the excused edges, every path must hit a
		// return of ErrResultUndetermined before any other call with effects (back-off).
		isUndetReturn := func(in ssa.Instruction) bool {
			r, ok := in.(*ssa.Return)
			if !ok {
				return false
			}
			for _, res := range r.Results {
				if isErrorType(res.Type()) && descHas(c, res, "global(error.ErrResultUndetermined)") {
					return true
				}
			}
			return false
		}
		isBackoff := core.InstrIs(core.CallsMethodNamed("MayBackoffForRegionError", ""))
		var found bool
		var w []core.Step
		var hit ssa.Instruction
		if commitForm {
			// excused when async=true or primary=false
			noEdge := func(e core.Edge) bool {
				if m, t := core.EdgeTruth(e, x); m && t {
					return true
				}
				if m, t := core.EdgeTruth(e, y); m && !t {
					return true
				}
				return false
			}
			found, w, hit = reachFromBlock(fn, b, isUndetReturn, noEdge, func(in ssa.Instruction) bool {
				return isBackoff(in) || (core.IsReturn(in) && !isUndetReturn(in))
			})
		} else {
			q := &core.Q{Fn: fn, NoPass: isUndetReturn}
			found, w, hit = reachAvoidingBothFrom(q, b, x, y, func(in ssa.Instruction) bool {
				return isBackoff(in) || (core.IsReturn(in) && !isUndetReturn(in))
			})
		}
		if found {
			a.viol(key, hit, "UndeterminedResult under a mode where the request may have moved the commit point is not answered with ErrResultUndetermined: "+a.w(w))
		} else {
			a.ok(key, ifi, "answered with ErrResultUndetermined before any back-off/retry")
		}
	}
}

func reachAvoidingBothFrom(q *core.Q, start *ssa.BasicBlock, a, b core.Pred, target func(ssa.Instruction) bool) (bool, []core.Step, ssa.Instruction) {
	q.Auto = avoidBoth(a, b)
	return q.ReachFromBlock(start, target)
}
