package rules

import (
	"fmt"
	"strings"

	"golang.org/x/tools/go/ssa"

	"verif/sa/core"
)

func init() {
	register("C02", &Spec{
		Title:       "Crash atomicity / single outcome",
		Explanation: "Decides the ordering and 'apply exactly what the primary says' obligations a single outcome rests on: (R1) the primary batch is dispatched and has succeeded (and is forgotten) before the remaining batches for commit(non-async)/cleanup/pessimistic-lock; (R2) resolve requests carry the lock's own transaction id and the commit ts of the status that was checked for that lock; (R3) a lock is removed only when the checked status has ttl==0 or the async-commit lock expired on the resolver's clock (operands: the lock's txn id, the status' ttl); (R4) only final statuses are cached, and 'rolled back' means ttl==0 ∧ commitTS==0 ∧ one of the three rollback actions; (R5) async-commit recovery raises the commit ts only while no lock is missing, adopts the store's commit ts otherwise, and refuses mismatches; (R6) one commit timestamp: a CommitTsExpired retry updates the committer's commit ts together with the request. NOT decided: outcomes after a crash at each RPC index (needs executions).",
		Run:         runC02,
	})
}

func runC02(c *core.Ctx) {
	runC02own(c)
	if c.Property == "C02" {
		// "the outcome is committed iff the client had been told success": the undetermined /
		// cleanup bookkeeping of C03 is the structural core of that clause as well.
		c.Import(runC03, "C03", []string{"R1", "R2", "R3", "R6", "R7"}, "viaC03")
		c.Import(runC04, "C04", []string{"R2"}, "viaC04")
	}
}

func runC02own(c *core.Ctx) {
	p := c.P
	a0 := rule(c, "C02.anchors")
	grp := a0.fn(pkgTxn, "twoPhaseCommitter", "doActionOnGroupMutations")
	doBatches := a0.fn(pkgTxn, "twoPhaseCommitter", "doActionOnBatches")
	setPrimary := a0.fn(pkgTxn, "batched", "setPrimary")
	primaryBatch := a0.fn(pkgTxn, "batched", "primaryBatch")
	forget := a0.fn(pkgTxn, "batched", "forgetPrimary")
	isAsync := a0.fn(pkgTxn, "twoPhaseCommitter", "isAsyncCommit")
	resolveLocks := a0.fn(pkgLock, "LockResolver", "resolveLocks")
	gfl := a0.fn(pkgLock, "LockResolver", "getTxnStatusFromLock")
	saveResolved := a0.fn(pkgLock, "LockResolver", "saveResolved")
	addKeys := a0.fn(pkgLock, "asyncResolveData", "addKeys")
	fCommitTs := a0.field(pkgLock, "asyncResolveData", "commitTs")
	fMissing := a0.field(pkgLock, "asyncResolveData", "missingLock")
	batchResolve := a0.fn(pkgLock, "LockResolver", "BatchResolveLocks")
	commitH := a0.fn(pkgTxn, "actionCommit", "handleSingleBatch")
	if a0.bad {
		return
	}

	// ---- R1 primary batch strictly first ----------------------------------------------------
	{
		a := rule(c, "C02.R1")
		isAll := func(cc *ssa.CallCommon) bool {
			if !core.CallsTo(doBatches)(cc) {
				return false
			}
			ds := strings.Join(p.Prov().Desc(cc.Args[len(cc.Args)-1]), "|")
			return strings.Contains(ds, "fld(batched.batches,") || strings.Contains(ds, "allBatches")
		}
		isPrim := func(in ssa.Instruction) bool {
			ci, ok := in.(ssa.CallInstruction)
			if !ok || !core.CallsTo(doBatches)(ci.Common()) {
				return false
			}
			args := ci.Common().Args
			return core.IsCallTo(primaryBatch)(args[len(args)-1])
		}
		sites := dispatchSites(grp, isAll)
		if len(sites) == 0 {
			a.violAt(fname(grp)+" dispatch of all batches", a.fnPos(grp), "no dispatch of allBatches() found")
		}
		pFirst := core.PTrue(core.IsCallTo(setPrimary))
		pCommit := core.PTrue(isTypeAssertOK("actionCommit"))
		pCleanup := core.PTrue(isTypeAssertOK("actionCleanup"))
		pPLock := core.PTrue(isTypeAssertOK("actionPessimisticLock"))
		pAsync := core.PTrue(core.IsCallTo(isAsync))
		isForget := core.InstrIs(core.CallsTo(forget))
		for _, s := range sites {
			// automaton: bits 0 cleanup=false, 1 plock=false, 2 (commit=false or async=true); excused when
			// firstIsPrimary=false, or all three bits set.
			q := &core.Q{Fn: grp, NoPass: isForget,
				NoEdge: func(e core.Edge) bool { m, t := core.EdgeTruth(e, pFirst); return m && !t },
				Auto: func(e core.Edge, st int) (int, bool) {
					if m, t := core.EdgeTruth(e, pCleanup); m && !t {
						st |= 1
					}
					if m, t := core.EdgeTruth(e, pPLock); m && !t {
						st |= 2
					}
					if m, t := core.EdgeTruth(e, pCommit); m && !t {
						st |= 4
					}
					if m, t := core.EdgeTruth(e, pAsync); m && t {
						st |= 4
					}
					return st, st != 7
				}}
			found, w, _ := q.Reach(nil, func(in ssa.Instruction) bool { return in == s })
			key := fname(grp) + " remaining batches after the primary"
			if found {
				a.viol(key, s, "the remaining batches can be dispatched although the primary batch has not been handled first (commit ∧ ¬async, cleanup or pessimistic lock with the primary in the first batch): "+a.w(w))
			} else {
				a.ok(key, s, "unless ¬firstIsPrimary ∨ (¬cleanup ∧ ¬pessimisticLock ∧ (¬commit ∨ async)) the path passed forgetPrimary()")
			}
		}
		// forgetPrimary only after the primary dispatch succeeded
		for _, f := range core.FindCalls(grp, core.CallsTo(forget)) {
			g, w := core.MustPassBefore(grp, f, isPrim)
			a.check(g, fname(grp)+" forgetPrimary after primary dispatch", f, "", "forgetPrimary without dispatching the primary batch: "+a.w(w))
			var prim ssa.CallInstruction
			core.Instrs(grp, func(in ssa.Instruction) {
				if isPrim(in) {
					prim = in.(ssa.CallInstruction)
				}
			})
			if prim != nil {
				g2, w2 := core.Guarded(grp, f, core.PIsNil(errVarOf(prim)), true)
				a.check(g2, fname(grp)+" primary succeeded", f, "the rest is dispatched only after the primary batch returned nil", "the primary batch's error is not checked before going on: "+a.w(w2))
			}
		}
		// primaryBatch = batches[:1]; forgetPrimary = batches[1:]
		for _, r := range returnsOf(primaryBatch) {
			ds := p.Prov().Desc(r.Results[0])
			a.check(len(ds) == 1 && ds[0] == "slice(fld(batched.batches,recv),,const(1))", fname(primaryBatch), r, "batches[:1]", fmt.Sprint("primaryBatch is not batches[:1]: ", ds))
		}
		nf := 0
		for _, st := range storesToFieldNamed(forget, "batched.batches") {
			nf++
			ds := p.Prov().Desc(st.(*ssa.Store).Val)
			a.check(len(ds) == 1 && ds[0] == "slice(fld(batched.batches,recv),const(1),)", fname(forget), st, "batches[1:]", fmt.Sprint("forgetPrimary is not batches[1:]: ", ds))
		}
		a.checkAt(nf == 1, fname(forget)+" drops the first batch", a.fnPos(forget), "", "forgetPrimary no longer drops the primary batch")
	}

	// ---- R2 resolve requests carry the checked status ----------------------------------------
	{
		pCommitted := core.PTrue(core.IsCallNamed("IsCommitted"))
		msgField(c, "C02.R2", "ResolveLockRequest", "StartVersion", []string{"fld(Lock.TxnID,param#*)", "fld(twoPhaseCommitter.startTS,*"}, nil, 2, "a resolve request names the transaction of the lock being resolved")
		a := rule(c, "C02.R2")
		f := a.extField(kvrpcpb, "ResolveLockRequest", "CommitVersion")
		if f != nil {
			n := 0
			for _, w := range prodWriters(c, f) {
				if !strings.Contains(fname(w.Fn), "txnlock") {
					continue
				}
				n++
				key := fmt.Sprintf("%s sets ResolveLockRequest.CommitVersion", fname(w.Fn))
				ds := p.Prov().Desc(w.Val)
				okk := len(ds) == 1 && glob("call((txnkv/txnlock.TxnStatus).CommitTS)#0[param#*]", ds[0])
				g, wit := core.Guarded(w.Fn, w.Instr, pCommitted, true)
				a.check(okk && g, key, w.Instr, "commit version = the checked status' commit ts, only when it is committed", fmt.Sprint("a lock can be resolved with a commit ts that is not the checked status' (or without IsCommitted): ", ds, a.w(wit)))
				// same status parameter on both sides
				if okk {
					if ifs := ifsOn(w.Fn, pCommitted); len(ifs) > 0 {
						v, _ := core.CondOf(ifs[0])
						cd := p.Prov().Desc(v)
						a.check(len(cd) == 1 && strings.HasSuffix(cd[0], ds[0][strings.Index(ds[0], "#0["):]), key+" same status", w.Instr, "", fmt.Sprint("IsCommitted and CommitTS are taken from different statuses: ", cd, ds))
					}
				}
			}
			a.checkAt(n >= 2, "resolver writers of CommitVersion", "-", "", "resolve request construction sites not found")
		}
		// status passed to the resolving calls is the one obtained for the same lock
		var closure *ssa.Function
		for _, af := range core.FuncsIn(resolveLocks)[1:] { // closures, and functions the pinned tree does not have
			np := af.Signature.Params().Len()
			if containsCall(af, core.CallsTo(gfl)) && np == 2 {
				closure = af
			}
		}
		if closure == nil {
			a.violAt(fname(resolveLocks)+" resolve closure", a.fnPos(resolveLocks), "per-lock resolve closure calling getTxnStatusFromLock not found")
		} else {
			for _, ci := range core.FindCalls(closure, core.CallsTo(gfl)) {
				ld := p.Prov().Desc(argOf(ci, 1))
				a.check(len(ld) == 1 && ld[0] == "param#0", fname(closure)+" status of the same lock", ci, "", fmt.Sprint("status is fetched for another lock: ", ld))
			}
			for _, name := range []string{"resolveLock", "resolveAsyncCommitLock"} {
				for _, ci := range callsIn(closure, core.CallsMethodNamed(name, "LockResolver")) {
					ld := p.Prov().Desc(argOf(ci, 1))
					sd := p.Prov().Desc(argOf(ci, 2))
					okL := len(ld) == 1 && (ld[0] == "param#0" || strings.Contains(ld[0], "param#0"))
					okS := len(sd) > 0
					for _, d := range sd {
						if !strings.Contains(d, "getTxnStatusFromLock)#0") && !strings.Contains(d, "resolveAsyncCommitLock)#0") && !glob("*resolveLocks$*", d) && !strings.Contains(d, "call("+core.FuncName(closure)+")#0") && d != "zero(txnlock.TxnStatus)" && d != "nil" && !strings.Contains(d, "new(txnlock.TxnStatus)") {
							okS = false
						}
					}
					a.check(okL && okS, fname(ci.Parent())+" "+name+"(l, status)", ci, "lock and status belong together", fmt.Sprint("the lock is resolved with a status that was not obtained for it: lock=", ld, " status=", sd))
				}
			}
		}
		// BatchResolveLocks: txnInfos[l.TxnID] ← status.commitTS / resolveData.commitTs
		core.Instrs(batchResolve, func(in ssa.Instruction) {
			mu, ok := in.(*ssa.MapUpdate)
			if !ok || !strings.Contains(mu.Map.Type().String(), "map[uint64]uint64") {
				return
			}
			kd := p.Prov().Desc(mu.Key)
			vd := p.Prov().Desc(mu.Value)
			okk := len(kd) == 1 && glob("fld(Lock.TxnID,*", kd[0])
			for _, d := range vd {
				if !glob("fld(TxnStatus.commitTS,*", d) && !glob("fld(asyncResolveData.commitTs,*", d) {
					okk = false
				}
			}
			a.check(okk, fname(batchResolve)+" txnInfos", in, fmt.Sprint(vd), fmt.Sprint("batch resolution records a status that is not the checked one: key=", kd, " value=", vd))
		})
	}

	// ---- R3 never resolve a live lock ---------------------------------------------------------
	{
		a := rule(c, "C02.R3")
		var closure *ssa.Function
		for _, af := range core.FuncsIn(resolveLocks)[1:] { // closures, and functions the pinned tree does not have
			np := af.Signature.Params().Len()
			if containsCall(af, core.CallsTo(gfl)) && np == 2 {
				closure = af
			}
		}
		if closure != nil {
			removal := func(in ssa.Instruction) bool {
				if isCallNamed("resolveLock")(in) || isCallNamed("resolvePessimisticLock")(in) || isCallNamed("resolveAsyncCommitLock")(in) {
					return true
				}
				if mc, ok := in.(*ssa.MakeClosure); ok && containsCall(mc.Fn.(*ssa.Function), core.CallsMethodNamed("resolveLock", "")) {
					return true
				}
				if r, ok := in.(*ssa.Return); ok && len(r.Results) == 3 {
					if cst, ok := asConst(r.Results[1]); ok && cst.Value != nil && cst.Value.String() == "true" {
						return true // needBatchLiteResolve
					}
				}
				return false
			}
			n := 0
			core.Instrs(closure, func(in ssa.Instruction) {
				if !removal(in) {
					return
				}
				n++
				okk, w, _ := condMust(c, closure, nil, func(x ssa.Instruction) bool { return x == in }, func(ssa.Instruction) bool { return false }, []string{
					"T:(const(0) == fld(TxnStatus.ttl,*", "T:invoke(oracle.Oracle.IsExpired)#0*", "T:(fld(LockResolver.store,*) == nil)",
				})
				a.check(okk, fname(closure)+" lock removal needs ttl==0 or expiry", in, "", "a lock whose transaction is alive (status ttl ≠ 0, not expired on the resolver's clock) can be resolved / rolled back: "+a.w(w))
				// … and, while the transaction still has a ttl, only on the async-commit path (an expired ttl alone
				// makes the reader wait, it does not entitle it to remove the lock)
				okk2, w2, _ := condMust(c, closure, nil, func(x ssa.Instruction) bool { return x == in }, func(ssa.Instruction) bool { return false }, []string{
					"T:(const(0) == fld(TxnStatus.ttl,*", "T:fld(LockInfo.UseAsyncCommit,*",
				})
				a.check(okk2, fname(closure)+" with a live ttl only an async-commit lock is removed", in, "", "a lock whose transaction still reports a ttl is resolved although it is not an (expired) async-commit lock: a reader with a lagging clock rolls back a secondary of a running committer: "+a.w(w2))
			})
			a.checkAt(n >= 4, fname(closure)+" removal sites", a.fnPos(closure), fmt.Sprint(n), "lock-removal sites not found")
			// expiry operands
			for _, ci := range core.FindCalls(closure, core.CallsMethodNamed("IsExpired", "")) {
				d0 := p.Prov().Desc(ci.Common().Args[0])
				d1 := p.Prov().Desc(ci.Common().Args[1])
				okk := len(d0) == 1 && d0[0] == "fld(Lock.TxnID,param#0)" && len(d1) >= 1
				for _, d := range d1 {
					if !glob("fld(TxnStatus.ttl,*", d) {
						okk = false
					}
				}
				a.check(okk, fname(closure)+" IsExpired(l.TxnID, status.ttl)", ci, "expiry of the primary's ttl as reported by the store", fmt.Sprint("expiry is computed from other operands (e.g. the secondary's own ttl): ", d0, d1))
			}
		}
		// BatchResolveLocks: status.ttl > 0 ⇒ error before recording
		core.Instrs(batchResolve, func(in ssa.Instruction) {
			mu, ok := in.(*ssa.MapUpdate)
			if !ok || !strings.Contains(mu.Map.Type().String(), "map[uint64]uint64") {
				return
			}
			vd := p.Prov().Desc(mu.Value)
			if len(vd) == 1 && glob("fld(TxnStatus.commitTS,*", vd[0]) {
				g, w := p.GuardedByAtom(batchResolve, in, "T:(fld(TxnStatus.ttl,*) < const(1))")
				a.check(g, fname(batchResolve)+" live lock refused", in, "", "GC batch resolution records an outcome although the status still has a ttl: "+a.w(w))
			}
		})
	}

	// ---- R4 only final statuses are cached ------------------------------------------------------
	{
		a := rule(c, "C02.R4")
		for _, cs := range p.CallersOf(saveResolved) {
			if isProbe(c, cs.Fn) {
				continue
			}
			g, w := core.Guarded(cs.Fn, cs.Instr, core.PTrue(core.IsCallNamed("StatusCacheable")), true)
			a.check(g, fname(cs.Fn)+" saveResolved", cs.Instr, "behind StatusCacheable()", "a status is cached without StatusCacheable(): "+a.w(w))
		}
		fResolved := core.Field(p.Named(pkgLock, "LockResolver"), "mu.resolved")
		if fResolved != nil {
			for _, w := range p.WritersOf(fResolved) {
				okk := w.Fn == saveResolved || strings.HasSuffix(fname(w.Fn), "txnlock.NewLockResolver")
				a.check(okk, writerKey(w, fResolved), w.Instr, "", "the resolved-status cache is written outside saveResolved")
			}
		}
		// definitions: StatusCacheable = IsStatusDetermined = IsRolledBack ∨ IsCommitted
		sc := a.fn(pkgLock, "TxnStatus", "StatusCacheable")
		sd := a.fn(pkgLock, "TxnStatus", "IsStatusDetermined")
		rb := a.fn(pkgLock, "TxnStatus", "IsRolledBack")
		ic := a.fn(pkgLock, "TxnStatus", "IsCommitted")
		if sc != nil && sd != nil && rb != nil && ic != nil {
			a.checkAt(len(core.FindCalls(sc, core.CallsTo(sd))) == 1 && len(sc.Blocks) == 1, fname(sc), a.fnPos(sc), "", "StatusCacheable is no longer IsStatusDetermined()")
			a.checkAt(len(core.FindCalls(sd, core.CallsTo(rb))) == 1 && len(core.FindCalls(sd, core.CallsTo(ic))) == 1, fname(sd), a.fnPos(sd), "", "IsStatusDetermined is no longer IsRolledBack() || IsCommitted()")
			// IsRolledBack: exactly the three rollback actions, with ttl == 0 and commitTS == 0
			acts := map[int64]bool{}
			core.Instrs(rb, func(in ssa.Instruction) {
				b, ok := in.(*ssa.BinOp)
				if !ok || b.Op != tokEQL {
					return
				}
				if cst, ok := b.Y.(*ssa.Const); ok && strings.Contains(b.X.Type().String(), "Action") {
					acts[cst.Int64()] = true
				}
			})
			want := map[int64]bool{}
			for _, n := range []string{"Action_NoAction", "Action_LockNotExistRollback", "Action_TTLExpireRollback"} {
				want[constInt(c, kvrpcpb, n)] = true
			}
			same := len(acts) == len(want)
			for k := range want {
				if !acts[k] {
					same = false
				}
			}
			a.checkAt(same, fname(rb)+" rollback actions", a.fnPos(rb), "", fmt.Sprint("IsRolledBack accepts a different set of actions than {NoAction, LockNotExistRollback, TTLExpireRollback}: ", acts, " (a non-final answer would be cached as rolled back)"))
			hasTTL := len(ifsOn(rb, core.PCmp(tokEQL, core.AnyV, core.IsIntConst(0)))) >= 2
			a.checkAt(hasTTL, fname(rb)+" ttl==0 ∧ commitTS==0", a.fnPos(rb), "", "IsRolledBack no longer requires ttl == 0 and commitTS == 0")
			// IsCommitted: commitTS > 0
			okc := false
			core.Instrs(ic, func(in ssa.Instruction) {
				if b, ok := in.(*ssa.BinOp); ok && b.Op == tokGTR {
					if cst, ok := b.Y.(*ssa.Const); ok && cst.Int64() == 0 {
						okc = true
					}
				}
			})
			a.checkAt(okc, fname(ic), a.fnPos(ic), "", "IsCommitted is no longer commitTS > 0")
		}
	}

	// ---- R5 async recovery bookkeeping ------------------------------------------------------------
	{
		a := rule(c, "C02.R5")
		for _, w := range p.WritersOf(fCommitTs) {
			key := writerKey(w, fCommitTs)
			ds := p.Prov().Desc(w.Val)
			switch {
			case w.Fn == addKeys && len(ds) == 1 && ds[0] == "fld(LockInfo.MinCommitTs,rangenext#2)" || (w.Fn == addKeys && len(ds) == 1 && strings.Contains(ds[0], "LockInfo.MinCommitTs")):
				g1, w1 := core.Guarded(w.Fn, w.Instr, core.PTrue(core.LoadsField(fMissing)), false)
				g2, w2 := core.Guarded(w.Fn, w.Instr, core.PCmp(tokGTR, func(v ssa.Value) bool { return descHas(c, v, "LockInfo.MinCommitTs") }, core.LoadsField(fCommitTs)), true)
				a.check(g1, key+" raise needs ¬missingLock", w.Instr, "", "the recovery commit ts can be raised after a lock was found missing (the store already decided the outcome): "+a.w(w1))
				a.check(g2, key+" raise only upward", w.Instr, "", "the recovery commit ts is not the maximum of the locks' min commit ts: "+a.w(w2))
			case w.Fn == addKeys && len(ds) == 1 && ds[0] == "param#3":
				g1, w1 := core.Guarded(w.Fn, w.Instr, core.PTrue(core.LoadsField(fMissing)), false)
				a.check(g1, key+" adopt store's commit ts once", w.Instr, "", "the store's commit ts can overwrite an already adopted one: "+a.w(w1))
			case strings.HasSuffix(fname(w.Fn), "LockResolver).checkAllSecondaries") && len(ds) == 1 && glob("fld(LockInfo.MinCommitTs,fld(TxnStatus.primaryLock,*", ds[0]):
				a.ok(key, w.Instr, "initialised from the primary's min commit ts")
			default:
				a.viol(key, w.Instr, fmt.Sprint("unexpected writer of the async-recovery commit ts: ", ds))
			}
		}
		// mismatch ⇒ error
		n := len(ifsOn(addKeys, core.PCmp(tokNEQ, core.LoadsField(fCommitTs), func(v ssa.Value) bool { par, ok := v.(*ssa.Parameter); return ok && par == addKeys.Params[4] })))
		a.checkAt(n >= 1, fname(addKeys)+" mismatch refused", a.fnPos(addKeys), "", "a commit-ts mismatch between secondaries is no longer refused")
		// resolveAsyncCommitLock: status.commitTS ← resolveData.commitTs
		racl := a.fn(pkgLock, "LockResolver", "resolveAsyncCommitLock")
		if racl != nil {
			cnt := 0
			for _, st := range storesToFieldNamed(racl, "TxnStatus.commitTS") {
				cnt++
				ds := p.Prov().Desc(st.(*ssa.Store).Val)
				a.check(len(ds) == 1 && glob("fld(asyncResolveData.commitTs,call((*txnkv/txnlock.LockResolver).checkAllSecondaries)#0*", ds[0]), fname(racl)+" commit ts from the secondaries", st, "", fmt.Sprint("async-commit outcome is not derived from all secondaries: ", ds))
			}
			a.checkAt(cnt == 1, fname(racl)+" sets status.commitTS", a.fnPos(racl), "", "resolveAsyncCommitLock no longer derives the status from checkAllSecondaries")
		}
	}

	// ---- R6 one commit timestamp across the retry --------------------------------------------------
	{
		a := rule(c, "C02.R6")
		for _, ci := range core.FindCalls(commitH, core.CallsMethodNamed("GetTimestampForCommit", "")) {
			isSend := isCallNamed("SendReq")
			isStoreTS := isStoreTo(c, "twoPhaseCommitter.commitTS", "call((*txnkv/transaction.KVTxn).GetTimestampForCommit)#0*")
			isStoreReq := isStoreTo(c, "CommitRequest.CommitVersion", "call((*txnkv/transaction.KVTxn).GetTimestampForCommit)#0*")
			okk, w, hit := condMust(c, commitH, ci, isSend, isStoreTS, nil)
			if okk {
				a.ok(fname(commitH)+" retry updates c.commitTS", ci, "")
			} else {
				a.viol(fname(commitH)+" retry updates c.commitTS", hit, "after CommitTsExpired the primary is re-sent with a new commit ts but the committer's commit ts (used for the secondaries) is not updated: "+a.w(w))
			}
			okk, w, hit = condMust(c, commitH, ci, isSend, isStoreReq, nil)
			if okk {
				a.ok(fname(commitH)+" retry updates the request", ci, "")
			} else {
				a.viol(fname(commitH)+" retry updates the request", hit, "re-send without the new commit ts in the request: "+a.w(w))
			}
		}
	}
}
