package rules

import (
	"fmt"
	"strings"

	"golang.org/x/tools/go/ssa"

	"verif/sa/core"
)

func init() {
	register("C18", &Spec{
		Title: "Batched RPC multiplexing",
		Explanation: "Decides: (R1) request ids of a batch connection are only ever incremented (never reset, not even by builder.reset); (R2) dispatch is by id and position: the send loop registers entry[i] under RequestIds[i] before the batch is sent, the receive loop completes the entry found under RequestIds[i] with Responses[i] (same index), unknown ids are skipped; (R3) single completion: entry.error is called only from failRequest (after removing the entry from the pending map), the init-failure path of send (entries not yet registered), the async context-cancel hook and the test-only cancel; entry.response only in the receive loop when not cancelled, and the pending-map entry is deleted afterwards on every path; the result channel has capacity 1; (R4) every wait of the synchronous path has context, connection-closed and timer arms, and arms that give up after enqueueing mark the entry cancelled; the async enqueue has context and closed arms; (R6) only interchangeable resolve-lock requests are collapsed (key = request's region + transaction), and the synchronous path arms one timer with the caller's time-out; (R5) a stream failure fails exactly the pending entries of that stream's forwarded host before re-creating the stream. NOT decided: request/response identity under concurrent stream failures (interleavings).",
		Run: runC18,
	})
}

func runC18(c *core.Ctx) {
	p := c.P
	a0 := rule(c, "C18.anchors")
	fID := a0.field(pkgClient, "batchCommandsBuilder", "idAlloc")
	reset := a0.fn(pkgClient, "batchCommandsBuilder", "reset")
	recvLoop := a0.fn(pkgClient, "batchCommandsClient", "batchRecvLoop")
	send := a0.fn(pkgClient, "batchCommandsClient", "send")
	failReq := a0.fn(pkgClient, "batchCommandsClient", "failRequest")
	failPending := a0.fn(pkgClient, "batchCommandsClient", "failPendingRequests")
	recreate := a0.fn(pkgClient, "batchCommandsClient", "recreateStreamingClient")
	entryErr := a0.fn(pkgClient, "batchCommandsEntry", "error")
	entryResp := a0.fn(pkgClient, "batchCommandsEntry", "response")
	sbr := a0.fn(pkgClient, "", "sendBatchRequest")
	fCanceled := a0.field(pkgClient, "batchCommandsEntry", "canceled")
	if a0.bad {
		return
	}
	isBatched := func(ci ssa.CallInstruction, method string) bool {
		cl := ci.Common().StaticCallee()
		return cl != nil && cl.String() == "(*sync.Map)."+method && len(ci.Common().Args) > 0 && descHas(c, ci.Common().Args[0], "fld(batchCommandsClient.batched,")
	}

	// ---- R1 ids ------------------------------------------------------------------------------------
	{
		a := rule(c, "C18.R1")
		n := 0
		for _, w := range p.WritersOf(fID) {
			n++
			ds := p.Prov().Desc(w.Val)
			okk := len(ds) == 1 && (glob("(fld(batchCommandsBuilder.idAlloc,*) + const(1))", ds[0]) || (ds[0] == "const(0)" && fname(w.Fn) == "internal/client.newBatchCommandsBuilder"))
			a.check(okk, writerKey(w, fID), w.Instr, fmt.Sprint(ds), fmt.Sprint("request id allocator is written other than +1 / initial 0 (ids could repeat while older requests are pending): ", ds))
		}
		a.checkAt(n >= 2, "writers of idAlloc", "-", "", "id allocation not found")
		a.checkAt(len(storesToField(reset, fID)) == 0, fname(reset)+" keeps idAlloc", a.fnPos(reset), "", "builder.reset() resets the id allocator")
		// the id handed to collect / appended to RequestIds is the freshly incremented one
		bw := a.fn(pkgClient, "batchCommandsBuilder", "buildWithLimit")
		if bw != nil {
			for _, f := range core.FuncsIn(bw) {
				core.Instrs(f, func(in ssa.Instruction) {
					st, ok := in.(*ssa.Store)
					if !ok {
						return
					}
					ia, ok := st.Addr.(*ssa.IndexAddr)
					if !ok {
						return
					}
					al, ok := ia.X.(*ssa.Alloc)
					if !ok || al.Type().String() != "*[1]uint64" {
						return
					}
					ds := p.Prov().Desc(st.Val)
					a.check(core.HasSub(ds, "fld(batchCommandsBuilder.idAlloc,"), fname(f)+" RequestIds gets the new id", st, "", fmt.Sprint("the id appended to the batch is ", ds))
				})
			}
		}
	}

	// ---- R2 dispatch by id and index --------------------------------------------------------------------
	{
		a := rule(c, "C18.R2")
		// receive loop
		var loadKeyIdx, respIdx ssa.Value
		var loadCall ssa.CallInstruction
		core.Instrs(recvLoop, func(in ssa.Instruction) {
			ci, ok := in.(ssa.CallInstruction)
			if !ok {
				return
			}
			if isBatched(ci, "Load") {
				loadCall = ci
				k := core.Strip(ci.Common().Args[1])
				if u, ok := k.(*ssa.UnOp); ok {
					if ia, ok := u.X.(*ssa.IndexAddr); ok {
						loadKeyIdx = ia.Index
						kd := p.Prov().Desc(ia.X)
						a.check(core.HasSub(kd, "GetRequestIds"), fname(recvLoop)+" looks up by RequestIds[i]", in, "", fmt.Sprint("pending entry is looked up by ", kd))
					}
				}
			}
			if core.CallsTo(entryResp)(ci.Common()) {
				v := core.Strip(argOf(ci, 0))
				if u, ok := v.(*ssa.UnOp); ok {
					if ia, ok := u.X.(*ssa.IndexAddr); ok {
						respIdx = ia.Index
						rd := p.Prov().Desc(ia.X)
						a.check(core.HasSub(rd, "GetResponses"), fname(recvLoop)+" completes with Responses[i]", in, "", fmt.Sprint("response comes from ", rd))
					}
				}
				// the completed entry is the one loaded
				ed := p.Prov().Desc(ci.Common().Args[0])
				a.check(core.HasSub(ed, "(*sync.Map).Load)#0"), fname(recvLoop)+" completes the looked-up entry", in, "", fmt.Sprint(ed))
			}
		})
		a.checkAt(loadKeyIdx != nil && respIdx != nil && loadKeyIdx == respIdx, fname(recvLoop)+" same index for id and response", a.fnPos(recvLoop), "RequestIds[i] ↔ Responses[i]", "the response handed to a caller is not the one at the position of its request id (another call's response)")
		if loadCall != nil {
			// unknown id ⇒ skipped
			pOK := core.PTrue(core.ResultOf(func(v ssa.Value) bool { return v == loadCall.(ssa.Value) }, 1))
			for _, rc := range core.FindCalls(recvLoop, core.CallsTo(entryResp)) {
				g, w := core.Guarded(recvLoop, rc, pOK, true)
				a.check(g, fname(recvLoop)+" unknown ids skipped", rc, "", "a response for an unknown id is dispatched: "+a.w(w))
			}
		}
		// send loop
		var storeKeyIdx, entryIdx ssa.Value
		var storeCall ssa.CallInstruction
		core.Instrs(send, func(in ssa.Instruction) {
			ci, ok := in.(ssa.CallInstruction)
			if !ok || !isBatched(ci, "Store") {
				return
			}
			if _, isDefer := in.(*ssa.Defer); isDefer {
				a.viol(fname(send)+" registers before sending", in, "the registration of an entry is deferred to the end of send(): the batch is on the wire before its entries are in the pending map")
				return
			}
			storeCall = ci
			if u, ok := core.Strip(ci.Common().Args[1]).(*ssa.UnOp); ok {
				if ia, ok := u.X.(*ssa.IndexAddr); ok {
					storeKeyIdx = ia.Index
					a.check(descHas(c, ia.X, "RequestIds"), fname(send)+" registers under RequestIds[i]", in, "", "")
				}
			}
			if u, ok := core.Strip(ci.Common().Args[2]).(*ssa.UnOp); ok {
				if ia, ok := u.X.(*ssa.IndexAddr); ok {
					entryIdx = ia.Index
					a.check(descHas(c, ia.X, "fld(batchCommandsRequestGroup.entries,"), fname(send)+" registers entries[i]", in, "", "")
				}
			}
		})
		a.checkAt(storeKeyIdx != nil && entryIdx != nil && storeKeyIdx == entryIdx, fname(send)+" same index for id and entry", a.fnPos(send), "", "an entry is registered under another entry's request id")
		for _, sc := range core.FindCalls(send, core.CallsMethodNamed("Send", "")) {
			if storeCall == nil {
				break
			}
			found, w, _ := (&core.Q{Fn: send}).Reach(sc, func(in ssa.Instruction) bool { return in == storeCall.(ssa.Instruction) })
			a.check(!found, fname(send)+" registers before sending", sc, "", "entries are registered after the batch was sent (a fast response would be dropped as unknown): "+a.w(w))
		}
		a.checkAt(storeCall != nil, fname(send)+" registers its entries", a.fnPos(send), "", "the send loop no longer registers entries in the pending map")
	}

	// ---- R3 single completion ------------------------------------------------------------------------------
	{
		a := rule(c, "C18.R3")
		for _, cs := range p.CallersOf(entryErr) {
			fn := fname(enclosing(cs.Fn))
			key := fname(cs.Fn) + " calls entry.error"
			switch {
			case enclosing(cs.Fn) == failReq:
				g, w := core.MustPassBefore(cs.Fn, cs.Instr.(ssa.Instruction), func(in ssa.Instruction) bool {
					ci, ok := in.(ssa.CallInstruction)
					return ok && isBatched(ci, "Delete")
				})
				a.check(g, key, cs.Instr, "after removing the entry from the pending map", "entry failed while still registered (the receive loop could complete it again): "+a.w(w))
			case enclosing(cs.Fn) == send:
				// init-failure path: before any registration
				found, w, _ := (&core.Q{Fn: send}).Reach(nil, func(in ssa.Instruction) bool { return in == cs.Instr.(ssa.Instruction) })
				_ = found
				_ = w
				reg := false
				q := &core.Q{Fn: send, NoPass: func(in ssa.Instruction) bool { return in == cs.Instr.(ssa.Instruction) }}
				_ = q
				// the error call must not be reachable after a batched.Store
				core.Instrs(send, func(in ssa.Instruction) {
					ci, ok := in.(ssa.CallInstruction)
					if ok && isBatched(ci, "Store") {
						if f, _, _ := (&core.Q{Fn: send}).Reach(in, func(x ssa.Instruction) bool { return x == cs.Instr.(ssa.Instruction) }); f {
							reg = true
						}
					}
				})
				a.check(!reg, key, cs.Instr, "only for entries that were never registered", "send fails entries directly after registering them (double completion with failRequest / the receive loop)")
			case strings.HasSuffix(fn, "batchCommandsBuilder).cancel"):
				a.ok(key, cs.Instr, "frozen exception: test-only helper")
			case strings.Contains(fn, "sendBatchRequestAsync") || strings.Contains(fn, "SendRequestAsync"):
				a.ok(key, cs.Instr, "async context-cancel hook (completion through the callback, which fires once)")
			default:
				a.viol(key, cs.Instr, "entry.error called from an unexpected place: an entry may be completed twice (close of closed channel) or with another call's error")
			}
		}
		for _, cs := range p.CallersOf(entryResp) {
			key := fname(cs.Fn) + " calls entry.response"
			if enclosing(cs.Fn) != recvLoop {
				a.viol(key, cs.Instr, "entry.response called outside the receive loop")
				continue
			}
			g, w := core.Guarded(cs.Fn, cs.Instr.(ssa.Instruction), core.PCmp(tokEQL, core.LoadsField(fCanceled), core.IsIntConst(0)), true)
			a.check(g, key+" only when not cancelled", cs.Instr, "", "a response is delivered to a cancelled entry (nobody reads the channel / callback already failed): "+a.w(w))
			okk, w2, hit := condMust(c, cs.Fn, cs.Instr.(ssa.Instruction), func(in ssa.Instruction) bool {
				ci, ok := in.(ssa.CallInstruction)
				return (ok && isBatched(ci, "Load")) || core.IsReturn(in)
			}, func(in ssa.Instruction) bool {
				ci, ok := in.(ssa.CallInstruction)
				return ok && isBatched(ci, "Delete")
			}, nil)
			if okk {
				a.ok(key+" then unregisters", cs.Instr, "")
			} else {
				a.viol(key+" then unregisters", hit, "a completed entry stays in the pending map (it would be failed again on the next stream error): "+a.w(w2))
			}
		}
		// result channel capacity 1
		core.Instrs(sbr, func(in ssa.Instruction) {
			if mc, ok := in.(*ssa.MakeChan); ok && strings.Contains(mc.Type().String(), "BatchCommandsResponse_Response") {
				cst, ok := mc.Size.(*ssa.Const)
				a.check(ok && cst.Int64() == 1, fname(sbr)+" result channel capacity", in, "1", "the per-call result channel is not buffered with capacity 1: the receive loop can block on a caller that gave up")
			}
		})
	}

	// ---- R4 every wait can time out ------------------------------------------------------------------------------
	{
		a := rule(c, "C18.R4")
		n := 0
		core.Instrs(sbr, func(in ssa.Instruction) {
			sel, ok := in.(*ssa.Select)
			if !ok || !sel.Blocking {
				return
			}
			n++
			var arms []string
			for _, st := range sel.States {
				arms = append(arms, strings.Join(p.Prov().Desc(st.Chan), "|"))
			}
			all := strings.Join(arms, " ; ")
			a.check(strings.Contains(all, "Done") && strings.Contains(all, "fld(batchConn.closed,") && strings.Contains(all, "fld(Timer.C,"), fmt.Sprintf("%s select #%d arms", fname(sbr), n), in, all, "a wait of the synchronous batch path lacks a context / connection-closed / timer arm (the call could block beyond its time-out): "+all)
		})
		a.checkAt(n == 2, fname(sbr)+" two waits", a.fnPos(sbr), "", fmt.Sprintf("expected the enqueue wait and the response wait, found %d blocking selects", n))
		// giving up after the entry was enqueued marks it cancelled
		var second *ssa.Select
		cnt := 0
		core.Instrs(sbr, func(in ssa.Instruction) {
			if sel, ok := in.(*ssa.Select); ok && sel.Blocking {
				cnt++
				if cnt == 2 {
					second = sel
				}
			}
		})
		if second != nil {
			isCancel := func(in ssa.Instruction) bool {
				ci, ok := in.(*ssa.Call)
				if !ok || ci.Call.StaticCallee() == nil || !strings.HasPrefix(ci.Call.StaticCallee().Name(), "StoreInt32") {
					return false
				}
				fa, ok := ci.Call.Args[0].(*ssa.FieldAddr)
				return ok && core.FieldOfAddr(fa) == fCanceled
			}
			okk, w, hit := condMust(c, sbr, second, func(in ssa.Instruction) bool {
				r, ok := in.(*ssa.Return)
				return ok && len(r.Results) == 2 && isNil(r.Results[0])
			}, isCancel, []string{"T:(const(0) == select#0)", "F:select#1*", "F:ok", "F:extract*"})
			if okk {
				a.ok(fname(sbr)+" giving up marks the entry cancelled", second, "")
			} else {
				a.viol(fname(sbr)+" giving up marks the entry cancelled", hit, "a caller can give up waiting (context / closed / time-out) without marking its entry cancelled: the late response would be sent to nobody or block the receive loop: "+a.w(w))
			}
		}
		// async enqueue
		for _, fn := range p.Funcs {
			if !strings.HasSuffix(fname(fn), "RPCClient).SendRequestAsync") && !strings.HasSuffix(fname(fn), "sendBatchRequestAsync") {
				continue
			}
			core.Instrs(fn, func(in ssa.Instruction) {
				sel, ok := in.(*ssa.Select)
				if !ok || !sel.Blocking || !core.Feasible(in) {
					return
				}
				var arms []string
				for _, st := range sel.States {
					arms = append(arms, strings.Join(p.Prov().Desc(st.Chan), "|"))
				}
				all := strings.Join(arms, " ; ")
				if !strings.Contains(all, "batchCommandsCh") {
					return
				}
				a.check(strings.Contains(all, "Done") && strings.Contains(all, "fld(batchConn.closed,"), fname(fn)+" async enqueue arms", in, all, "the async enqueue can block without a context / closed arm: "+all)
			})
		}
	}

	// ---- R6 collapsed requests are identical; one time-out per call ------------------------------------------
	{
		a := rule(c, "C18.R6")
		ck := a.fn(pkgClient, "", "resolveLockCollapseKey")
		if ck != nil {
			var parts []string
			core.Instrs(ck, func(in ssa.Instruction) {
				ci, ok := in.(*ssa.Call)
				if !ok || ci.Call.StaticCallee() == nil || !strings.HasPrefix(ci.Call.StaticCallee().String(), "strconv.Format") {
					return
				}
				parts = append(parts, strings.Join(p.Prov().Desc(ci.Call.Args[0]), "|"))
			})
			all := strings.Join(parts, " ; ")
			a.checkAt(strings.Contains(all, "fld(Context.RegionId,&fld(Request.Context,param#0))"), fname(ck)+" keyed by the request's region", a.fnPos(ck), all, "the collapse key does not contain the region id of the request being sent (req.RegionId): resolve-lock calls for different regions are merged and one caller gets another call's response: "+all)
			a.checkAt(strings.Contains(all, "fld(ResolveLockRequest.StartVersion,"), fname(ck)+" keyed by the transaction", a.fnPos(ck), "", "the collapse key does not contain the transaction's start version: "+all)
		}
		// only whole-region resolves (no key list, no txn infos) are collapsed
		tc := a.fn(pkgClient, "reqCollapse", "tryCollapseRequest")
		if tc != nil {
			guardTable(c, "C18.R6", []gRow{
				{Fn: [3]string{pkgClient, "reqCollapse", "tryCollapseRequest"}, Target: "call:collapse", Facts: []string{"T:(len(fld(ResolveLockRequest.Keys,*) < const(1))", "T:(len(fld(ResolveLockRequest.TxnInfos,*) < const(1))"}, Why: "requests that name keys / transactions are not interchangeable and must not be collapsed"},
			})
		}
		// the synchronous path arms its timer once, with the caller's time-out
		nNew, nReset := 0, 0
		core.Instrs(sbr, func(in ssa.Instruction) {
			ci, ok := in.(*ssa.Call)
			if !ok || ci.Call.StaticCallee() == nil {
				return
			}
			switch ci.Call.StaticCallee().String() {
			case "time.NewTimer":
				nNew++
				ds := p.Prov().Desc(ci.Call.Args[0])
				a.check(len(ds) == 1 && strings.HasPrefix(ds[0], "param#"), fname(sbr)+" timer = caller's time-out", in, "", fmt.Sprint("timer armed with ", ds))
			case "(*time.Timer).Reset":
				nReset++
				a.viol(fname(sbr)+" timer re-armed", in, "the time-out timer is re-armed during the call: the call can block longer than its time-out")
			}
		})
		a.checkAt(nNew == 1, fname(sbr)+" one timer per call", a.fnPos(sbr), "", fmt.Sprintf("expected one timer, found %d", nNew))
	}

	// ---- R5 stream failure fails its pending entries first -----------------------------------------------------------
	{
		a := rule(c, "C18.R5")
		for _, rc := range core.FindCalls(recreate, core.CallsMethodNamed("recreateStreamingClientOnce", "")) {
			g, w := core.MustPassBefore(recreate, rc, core.InstrIs(core.CallsTo(failPending)))
			a.check(g, fname(recreate)+" fails pending requests before re-creating", rc, "", "the stream is re-created without failing the requests pending on the broken one (their callers wait for the full time-out): "+a.w(w))
		}
		for _, fc := range core.FindCalls(recreate, core.CallsTo(failPending)) {
			ds := p.Prov().Desc(argOf(fc, 1))
			a.check(len(ds) == 1 && ds[0] == "fld(batchCommandsStream.forwardedHost,param#1)", fname(recreate)+" fails only this stream's host", fc, "", fmt.Sprint("pending requests are failed for host ", ds))
			ed := p.Prov().Desc(argOf(fc, 0))
			a.check(len(ed) == 1 && ed[0] == "param#0", fname(recreate)+" fails with the stream error", fc, "", fmt.Sprint(ed))
		}
		// the filter
		guardTable(c, "C18.R5", []gRow{
			{Fn: [3]string{pkgClient, "batchCommandsClient", "failPendingRequests"}, Target: "call:failRequest", Facts: []string{"T:(fld(batchCommandsEntry.forwardedHost,*) == *"}, Why: "only entries of the failed stream's forwarded host are failed"},
		})
	}
}
