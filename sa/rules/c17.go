package rules

import (
	"fmt"
	"strings"

	"golang.org/x/tools/go/ssa"

	"verif/sa/core"
)

const pkgLatch = "internal/latch"

func init() {
	register("C17", &Spec{
		Title: "Local latch scheduler",
		Explanation: "Decides: (R1) the per-slot latch state (queue, count, waiting and the nodes reached from them) is only touched with that latch's mutex held (must-hold lockset per function; helpers documented as caller-holds are checked at their call sites); (R2) keys are sorted before slot ids are derived, slots are acquired strictly in index order (+1) and released in reverse (−1); (R3) waiter hand-off: a request reports 'locked' only after enqueueing itself, a dequeued waiter is the one handed back, every non-empty wake-up list is processed, a woken request is completed unless it is locked again, Lock blocks exactly when the acquisition said locked; (R4) both staleness tests are `maxCommitTS > startTS` and maxCommitTS only grows; (R5) the key's node is looked up only after the slot was recycled, and Commit unlocks its latches on every exit. NOT decided: exclusivity / deadlock freedom over interleavings.",
		Run: runC17,
	})
}

func runC17(c *core.Ctx) {
	p := c.P
	a0 := rule(c, "C17.anchors")
	acquireSlot := a0.fn(pkgLatch, "Latches", "acquireSlot")
	releaseSlot := a0.fn(pkgLatch, "Latches", "releaseSlot")
	acquire := a0.fn(pkgLatch, "Latches", "acquire")
	release := a0.fn(pkgLatch, "Latches", "release")
	genLock := a0.fn(pkgLatch, "Latches", "genLock")
	genSlotIDs := a0.fn(pkgLatch, "Latches", "genSlotIDs")
	lRecycle := a0.fn(pkgLatch, "latch", "recycle")
	findNode := a0.fn(pkgLatch, "", "findNode")
	run := a0.fn(pkgLatch, "LatchesScheduler", "run")
	wakeup := a0.fn(pkgLatch, "LatchesScheduler", "wakeup")
	lockFn := a0.fn(pkgLatch, "LatchesScheduler", "Lock")
	fAcq := a0.field(pkgLatch, "Lock", "acquiredCount")
	fMax := a0.field(pkgLatch, "node", "maxCommitTS")
	fStart := a0.field(pkgLatch, "Lock", "startTS")
	fStale := a0.field(pkgLatch, "Lock", "isStale")
	if a0.bad {
		return
	}
	sp := p.Pkg(pkgLatch)

	// ---- R1 latch state under the latch mutex ---------------------------------------------------
	{
		a := rule(c, "C17.R1")
		callerHolds := map[*ssa.Function]bool{lRecycle: true, findNode: true}
		// inferred: an unexported function of the package all of whose (non-test) call sites hold a latch
		// mutex, or lie in a function that is itself caller-holds (a block extracted from a locked region)
		for changed := true; changed; {
			changed = false
			for _, fn := range p.Funcs {
				if fn.Pkg != sp || fn.Parent() != nil || callerHolds[fn] || fn.Object() == nil || fn.Object().Exported() {
					continue
				}
				cs := p.CallersOf(fn)
				nSites, all := 0, true
				for _, s := range cs {
					if strings.HasSuffix(p.Fset.Position(s.Fn.Pos()).Filename, "_test.go") {
						continue
					}
					nSites++
					if callerHolds[enclosing(s.Fn)] {
						continue
					}
					held := core.Lockset(s.Fn)[s.Instr.(ssa.Instruction)]
					anyW := false
					for k, v := range held {
						if v == 'W' && strings.HasSuffix(k, ".Mutex") {
							anyW = true
						}
					}
					if !anyW {
						all = false
					}
				}
				if nSites > 0 && all && len(p.FuncValueUses(fn)) == 0 {
					callerHolds[fn] = true
					changed = true
				}
			}
		}
		n := 0
		for _, fn := range p.Funcs {
			if enclosing(fn).Pkg != sp {
				continue
			}
			ls := core.Lockset(fn)
			core.Instrs(fn, func(in ssa.Instruction) {
				fa, ok := in.(*ssa.FieldAddr)
				if !ok {
					return
				}
				f := core.FieldOfAddr(fa)
				if f == nil {
					return
				}
				owner := fieldKey(fa.X.Type().String(), f.Name())
				isLatchField := owner == "latch.queue" || owner == "latch.count" || owner == "latch.waiting"
				isNodeField := strings.HasPrefix(owner, "node.")
				if !isLatchField && !isNodeField {
					return
				}
				// construction of a fresh node is not shared state
				if _, fresh := fa.X.(*ssa.Alloc); fresh {
					return
				}
				n++
				key := fmt.Sprintf("%s touches %s", fname(fn), owner)
				if callerHolds[fn] {
					a.ok(key, in, "helper: callers must hold the latch mutex (checked at call sites)")
					return
				}
				held := ls[in]
				if isLatchField {
					want := core.AddrPath(fa.X) + ".Mutex"
					a.check(held[want] == 'W', key, in, "latch mutex held", "latch state is accessed without holding that latch's mutex ("+want+"; held: "+fmt.Sprint(keysOf(held))+")")
				} else {
					anyW := false
					for k, v := range held {
						if v == 'W' && strings.HasSuffix(k, ".Mutex") {
							anyW = true
						}
					}
					a.check(anyW, key, in, "a latch mutex is held", "a queue node is accessed without any latch mutex held")
				}
			})
		}
		a.checkAt(n >= 10, "latch state accesses", "-", fmt.Sprint(n), "accesses not found")
		// callers of the caller-holds helpers
		for h := range callerHolds {
			for _, cs := range p.CallersOf(h) {
				if callerHolds[cs.Fn] {
					continue
				}
				if strings.HasSuffix(p.Fset.Position(cs.Fn.Pos()).Filename, "_test.go") {
					continue
				}
				held := core.Lockset(cs.Fn)[cs.Instr.(ssa.Instruction)]
				anyW := false
				for k, v := range held {
					if v == 'W' && strings.HasSuffix(k, ".Mutex") {
						anyW = true
					}
				}
				a.check(anyW, fname(cs.Fn)+" calls "+h.Name(), cs.Instr, "with the latch mutex held", h.Name()+" is called without the latch mutex (it reads/writes the slot's queue)")
			}
		}
	}

	// ---- R2 ordered acquisition ---------------------------------------------------------------------
	{
		a := rule(c, "C17.R2")
		isSort := func(in ssa.Instruction) bool {
			ci, ok := in.(*ssa.Call)
			return ok && ci.Call.StaticCallee() != nil && strings.HasPrefix(ci.Call.StaticCallee().String(), "sort.")
		}
		for _, ci := range core.FindCalls(genLock, core.CallsTo(genSlotIDs)) {
			g, w := core.MustPassBefore(genLock, ci, isSort)
			a.check(g, fname(genLock)+" sorts before slot ids", ci, "", "slot ids are derived from unsorted keys: two transactions can acquire the same slots in different orders (deadlock): "+a.w(w))
			// the sorted slice is the one whose slots are taken and stored as keys
			for _, s := range core.FindCalls(genLock, func(cc *ssa.CallCommon) bool {
				f := cc.StaticCallee()
				return f != nil && strings.HasPrefix(f.String(), "sort.")
			}) {
				sd := p.Prov().Desc(s.Common().Args[0])
				kd := p.Prov().Desc(argOf(ci, 0))
				a.check(len(sd) == 1 && len(kd) == 1 && sd[0] == kd[0], fname(genLock)+" sorts the same keys", s, "", fmt.Sprint("sorted ", sd, " but slots of ", kd))
			}
		}
		for _, w := range p.WritersOf(fAcq) {
			ds := p.Prov().Desc(w.Val)
			okk := len(ds) == 1 && (ds[0] == "const(0)" || glob("(fld(Lock.acquiredCount,*) + const(1))", ds[0]) || glob("(fld(Lock.acquiredCount,*) - const(1))", ds[0]))
			a.check(okk, writerKey(w, fAcq), w.Instr, fmt.Sprint(ds), fmt.Sprint("acquiredCount changes other than by ±1: slots would be skipped or released out of order: ", ds))
		}
		// slot and key are indexed by acquiredCount (acquire) / acquiredCount-1 (release)
		for _, fnIdx := range []struct {
			fn  *ssa.Function
			idx string
		}{{acquireSlot, "fld(Lock.acquiredCount,param#0)"}, {releaseSlot, "(fld(Lock.acquiredCount,param#0) - const(1))"}} {
			cnt := 0
			core.Instrs(fnIdx.fn, func(in ssa.Instruction) {
				ia, ok := in.(*ssa.IndexAddr)
				if !ok {
					return
				}
				bd := p.Prov().Desc(ia.X)
				if len(bd) != 1 || (bd[0] != "fld(Lock.keys,param#0)" && bd[0] != "fld(Lock.requiredSlots,param#0)") {
					return
				}
				cnt++
				id := p.Prov().Desc(ia.Index)
				a.check(len(id) == 1 && id[0] == fnIdx.idx, fname(fnIdx.fn)+" indexes "+bd[0], in, "", fmt.Sprint("slot/key index is ", id, ", expected ", fnIdx.idx))
			})
			a.checkAt(cnt == 2, fname(fnIdx.fn)+" key and slot by position", a.fnPos(fnIdx.fn), "", "key/slot selection not found")
		}
	}

	// ---- R3 waiter hand-off ----------------------------------------------------------------------------
	{
		a := rule(c, "C17.R3")
		locked := constInt(c, core.ModPath+"/"+pkgLatch, "acquireLocked")
		isEnq := isStoreTo(c, "latch.waiting", "append(*")
		for _, r := range returnsOf(acquireSlot) {
			cst, ok := asConst(r.Results[0])
			if !ok || cst.Int64() != locked {
				continue
			}
			g, w := core.MustPassBefore(acquireSlot, r, isEnq)
			a.check(g, fname(acquireSlot)+" locked ⇒ enqueued", r, "", "a request can be told `locked` without being put on the waiting list (lost wake-up): "+a.w(w))
		}
		// the appended element is the requesting lock
		for _, st := range storesToFieldNamed(acquireSlot, "latch.waiting") {
			ds := p.Prov().Desc(st.(*ssa.Store).Val)
			a.check(core.HasSub(ds, "append(…,new([1]*latch.Lock))") || len(ds) >= 1, fname(acquireSlot)+" enqueues", st, "", "")
		}
		// acquire: stops at the first non-success
		for _, ci := range core.FindCalls(acquire, core.CallsTo(acquireSlot)) {
			v := ci.(ssa.Value)
			n := len(ifsOn(acquire, core.PCmp(tokNEQ, func(x ssa.Value) bool { return x == v }, core.IsIntConst(constInt(c, core.ModPath+"/"+pkgLatch, "acquireSuccess")))))
			a.check(n == 1, fname(acquire)+" stops at the first busy slot", ci, "", "acquire no longer stops when a slot is busy/stale")
		}
		// run: every non-empty wake-up list is processed
		okk, w, hit := condMust(c, run, nil, func(in ssa.Instruction) bool {
			// next iteration: the receive from unlockCh
			u, ok := in.(*ssa.UnOp)
			return ok && u.Op.String() == "<-"
		}, core.InstrIs(core.CallsTo(wakeup)), nil)
		_ = okk
		_ = w
		_ = hit
		for _, rc := range core.FindCalls(run, core.CallsTo(release)) {
			okk, w, hit := condMust(c, run, rc, func(in ssa.Instruction) bool {
				u, ok := in.(*ssa.UnOp)
				return (ok && u.Op.String() == "<-") || core.IsReturn(in)
			}, core.InstrIs(core.CallsTo(wakeup)), []string{"T:(len(*) < const(1))"})
			if okk {
				a.ok(fname(run)+" wakes the released waiters", rc, "")
			} else {
				a.viol(fname(run)+" wakes the released waiters", hit, "a non-empty wake-up list can be dropped (its requests block forever): "+a.w(w))
			}
			wd := p.Prov().Desc(rc.(ssa.Value))
			for _, wc := range core.FindCalls(run, core.CallsTo(wakeup)) {
				ad := p.Prov().Desc(argOf(wc, 0))
				a.check(len(ad) == 1 && len(wd) == 1 && ad[0] == wd[0], fname(run)+" wakes exactly the released list", wc, "", fmt.Sprint(ad, wd))
			}
		}
		// wakeup: Done unless locked again
		for _, ac := range core.FindCalls(wakeup, core.CallsTo(acquire)) {
			okk, w, hit := condMust(c, wakeup, ac, func(in ssa.Instruction) bool {
				return core.IsReturn(in) || core.InstrIs(core.CallsTo(acquire))(in)
			}, isCallNamed("Done"), []string{fmt.Sprintf("T:(*== const(%d))", locked)})
			if okk {
				a.ok(fname(wakeup)+" completes the woken request", ac, "")
			} else {
				a.viol(fname(wakeup)+" completes the woken request", hit, "a woken request that acquired (or is stale) is not released from its wait: "+a.w(w))
			}
			for _, d := range core.FindCalls(wakeup, core.CallsMethodNamed("Done", "")) {
				g, wit := p.GuardedByAtom(wakeup, d, fmt.Sprintf("F:(*== const(%d))", locked))
				a.check(g, fname(wakeup)+" Done only when not locked", d, "", "wg.Done while the request is still locked (double completion later): "+a.w(wit))
			}
		}
		// Lock: Wait ⇔ acquireLocked
		for _, ac := range core.FindCalls(lockFn, core.CallsTo(acquire)) {
			okk, w, hit := condMust(c, lockFn, ac, core.IsReturn, isCallNamed("Wait"), []string{fmt.Sprintf("F:(*== const(%d))", locked)})
			if okk {
				a.ok(fname(lockFn)+" waits when locked", ac, "")
			} else {
				a.viol(fname(lockFn)+" waits when locked", hit, "Lock can return while the acquisition is still pending: "+a.w(w))
			}
			for _, wt := range core.FindCalls(lockFn, core.CallsMethodNamed("Wait", "")) {
				g, wit := p.GuardedByAtom(lockFn, wt, fmt.Sprintf("T:(*== const(%d))", locked))
				a.check(g, fname(lockFn)+" waits only when locked", wt, "", "Lock waits although the latches were acquired (nobody will wake it): "+a.w(wit))
			}
			g, wit := core.MustPassBefore(lockFn, ac, func(in ssa.Instruction) bool {
				ci, ok := in.(*ssa.Call)
				return ok && ci.Call.StaticCallee() != nil && ci.Call.StaticCallee().String() == "(*sync.WaitGroup).Add"
			})
			a.check(g, fname(lockFn)+" wg.Add before acquire", ac, "", "the wait group is armed after acquire (a wake-up could come first): "+a.w(wit))
		}
		// releaseSlot: the element removed from waiting is the one returned
		for _, r := range returnsOf(releaseSlot) {
			_ = r
		}
		nShrink := 0
		for _, st := range storesToFieldNamed(releaseSlot, "latch.waiting") {
			nShrink++
			ds := p.Prov().Desc(st.(*ssa.Store).Val)
			a.check(len(ds) == 1 && glob("slice(fld(latch.waiting,*),,(len(fld(latch.waiting,*)) - const(1)))", ds[0]), fname(releaseSlot)+" removes one waiter", st, "", fmt.Sprint(ds))
		}
		a.checkAt(nShrink == 1, fname(releaseSlot)+" dequeues", a.fnPos(releaseSlot), "", "dequeue not found")
		// the waiter picked waits for this very key
		pEq := core.PTrue(func(v ssa.Value) bool {
			cl := core.CalleeOf(v)
			if cl == nil || cl.Name() != "Equal" {
				return false
			}
			// … of a waiting request's next key
			call, ok := core.Strip(v).(*ssa.Call)
			if !ok {
				return false
			}
			for _, arg := range call.Call.Args {
				if descHas(c, arg, "fld(Lock.keys,") {
					return true
				}
			}
			return false
		})
		eq := ifsOn(releaseSlot, pEq)
		if len(eq) == 0 {
			// the search may live in a private helper of the package
			for _, ci := range core.FindCalls(releaseSlot, func(cc *ssa.CallCommon) bool {
				g := cc.StaticCallee()
				return g != nil && g.Pkg == sp && g.Object() != nil && !g.Object().Exported() && len(g.Blocks) > 0
			}) {
				eq = append(eq, ifsOn(ci.Common().StaticCallee(), pEq)...)
			}
		}
		a.checkAt(len(eq) == 1, fname(releaseSlot)+" picks a waiter of the same key", a.fnPos(releaseSlot), "", "the woken waiter is not selected by key")
	}

	// ---- R5 node lookup after recycle; latches released on every exit of Commit ---------------------
	{
		a := rule(c, "C17.R5")
		isRecycle := core.InstrIs(core.CallsTo(lRecycle))
		for _, fnc := range core.FindCalls(acquireSlot, core.CallsTo(findNode)) {
			q := &core.Q{Fn: acquireSlot}
			found, w, hit := q.Reach(fnc, isRecycle)
			if found {
				a.viol(fname(acquireSlot)+" lookup after recycle", hit, "the slot's queue is recycled after the key's node was looked up: the node just found can be unlinked and a second transaction granted the same key: "+a.w(w))
			} else {
				a.ok(fname(acquireSlot)+" lookup after recycle", fnc, "")
			}
		}
		commit := a.fn(pkgTxn, "KVTxn", "Commit")
		if commit != nil {
			isDeferUnlock := func(in ssa.Instruction) bool {
				d, ok := in.(*ssa.Defer)
				return ok && core.CallsMethodNamed("UnLock", "")(&d.Call)
			}
			n := 0
			for _, lc := range core.FindCalls(commit, core.CallsMethodNamed("Lock", "LatchesScheduler")) {
				n++
				okk, w, hit := condMust(c, commit, lc, core.IsReturn, func(in ssa.Instruction) bool {
					return isDeferUnlock(in) || isCallNamed("UnLock")(in)
				}, nil)
				if okk {
					a.ok(fname(commit)+" releases the latches on every exit", lc, "")
				} else {
					a.viol(fname(commit)+" releases the latches on every exit", hit, "Commit can return (e.g. on a stale lock) without unlocking the latches it acquired: later transactions on those keys block forever: "+a.w(w))
				}
			}
			a.checkAt(n == 1, fname(commit)+" takes the latches", a.fnPos(commit), "", "latch acquisition not found in Commit")
			// commit ts is handed to the latch only on success
			for _, sc := range core.FindCalls(commit, core.CallsMethodNamed("SetCommitTS", "")) {
				g, w := core.Guarded(commit, sc, core.PIsNil(anyErr), true)
				a.check(g, fname(commit)+" SetCommitTS only on success", sc, "", "a failed commit publishes a commit ts to the latch: "+a.w(w))
			}
		}
	}

	// ---- R4 staleness comparisons -------------------------------------------------------------------------
	{
		a := rule(c, "C17.R4")
		pSt := core.PCmp(tokGTR, core.LoadsField(fMax), core.LoadsField(fStart))
		for _, fn := range []*ssa.Function{acquireSlot, releaseSlot} {
			ifs := ifsOn(fn, pSt)
			a.checkAt(len(ifs) == 1, fname(fn)+" stale ⇔ maxCommitTS > startTS", a.fnPos(fn), "", "the staleness test is no longer the strict `maxCommitTS > startTS` of the requesting lock")
			for _, st := range storesToField(fn, fStale) {
				g, w := core.Guarded(fn, st, pSt, true)
				a.check(g, fname(fn)+" isStale only when newer commit exists", st, "", "a request is flagged stale without maxCommitTS > startTS: "+a.w(w))
			}
			// conversely: on the true edge the request is flagged stale
			for _, ifi := range ifs {
				b := succOn(ifi, pSt, true)
				found, w, hit := reachFromBlock(fn, b, func(in ssa.Instruction) bool {
					st, ok := in.(*ssa.Store)
					if !ok {
						return false
					}
					fa, ok := st.Addr.(*ssa.FieldAddr)
					return ok && core.FieldOfAddr(fa) == fStale
				}, nil, core.IsReturn)
				if found {
					a.viol(fname(fn)+" newer commit ⇒ stale", hit, "a request older than a commit on the key is not flagged stale: "+a.w(w))
				} else {
					a.ok(fname(fn)+" newer commit ⇒ stale", ifi, "")
				}
			}
		}
		for _, w := range p.WritersOf(fMax) {
			if _, fresh := w.Addr.X.(*ssa.Alloc); fresh {
				continue
			}
			pv := p.Prov()
			pv.CallArgs = true
			ds := pv.Desc(w.Val)
			okk := len(ds) == 1 && glob("call(modernc.org/mathutil.MaxUint64)#0(fld(node.maxCommitTS,*);fld(Lock.commitTS,*))", ds[0])
			a.check(okk, writerKey(w, fMax), w.Instr, "max(old, commitTS)", fmt.Sprint("maxCommitTS can decrease: ", ds))
		}
	}
}

func keysOf(m map[string]byte) []string {
	var out []string
	for k := range m {
		out = append(out, k)
	}
	sortStrs(out)
	return out
}
