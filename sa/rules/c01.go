package rules

import (
	"fmt"
	"strings"

	"golang.org/x/tools/go/ssa"

	"verif/sa/core"
)

func init() {
	register("C01", &Spec{
		Title: "Snapshot isolation / external consistency: timestamp obligations of the client",
		Explanation: "Decides the timestamp-ordering obligations of the client that snapshot isolation rests on: (R1) the start ts of a transaction and of its snapshot is one value obtained from the oracle (or the caller's option); (R2) the 2PC commit ts is fetched only after prewriteMutations succeeded, the async commit ts is the min-commit-ts manager's value; (R3) when a commit ts may be calculated by the store and linearizability (or commit-wait) is required, a fresh ts + 1 is pushed into the min-commit-ts manager and the max commit ts is calculated before prewrite; (R4) the prewrite / pessimistic-lock / flush min-commit-ts exceeds start ts and for-update ts; (R5) every successful async prewrite response raises the min commit ts (monotone manager); (R6) pessimistic locks are taken at the for-update ts which comes from the oracle; (R7) the buffered-write → mutation decision table (put / insert / delete / check-not-exists / lock / skip) equals the property's table for all 256 flag valuations, and the first lockable key becomes primary; (R8) status definitions (committed / rolled back) shared with C02. NOT decided: that histories are snapshot isolated (needs executions over interleavings and the store's behaviour).",
		Run: runC01,
	})
}

func runC01(c *core.Ctx) {
	p := c.P
	a0 := rule(c, "C01.anchors")
	execute := a0.fn(pkgTxn, "twoPhaseCommitter", "execute")
	prewriteMut := a0.fn(pkgTxn, "twoPhaseCommitter", "prewriteMutations")
	setAsync := a0.fn(pkgTxn, "twoPhaseCommitter", "setAsyncCommit")
	setOnePC := a0.fn(pkgTxn, "twoPhaseCommitter", "setOnePC")
	tryUpdate := a0.fn(pkgTxn, "minCommitTsManager", "tryUpdate")
	fMinVal := a0.field(pkgTxn, "minCommitTsManager", "value")
	begin := a0.fn("tikv", "KVStore", "Begin")
	gtr := a0.fn("tikv", "KVStore", "getTimestampWithRetry")
	build := a0.fn(pkgTxn, "twoPhaseCommitter", "buildPrewriteRequest")
	succeed := a0.fn(pkgTxn, "prewrite1BatchReqHandler", "handleSingleBatchSucceed")
	needLin := a0.fn(pkgTxn, "twoPhaseCommitter", "needLinearizability")
	calcMax := a0.fn(pkgTxn, "twoPhaseCommitter", "calculateMaxCommitTS")
	fStart := a0.field(pkgTxn, "twoPhaseCommitter", "startTS")
	fFU := a0.field(pkgTxn, "twoPhaseCommitter", "forUpdateTS")
	if a0.bad {
		return
	}

	// ---- R1 start ts provenance -------------------------------------------------------------
	{
		a := rule(c, "C01.R1")
		var snapArg, txnArg ssa.Value
		for _, ci := range core.FindCalls(begin, core.CallsMethodNamed("NewTiKVSnapshot", "")) {
			snapArg = ci.Common().Args[1]
		}
		for _, ci := range core.FindCalls(begin, core.CallsMethodNamed("NewTiKVTxn", "")) {
			txnArg = ci.Common().Args[2]
			ds := p.Prov().Desc(txnArg)
			okk := len(ds) >= 1
			for _, d := range ds {
				if d != "call((*tikv.KVStore).getTimestampWithRetry)#0[recv]" && !glob("*(fld(TxnOptions.StartTS,*", d) {
					okk = false
				}
			}
			a.check(okk, fname(begin)+" start ts", ci, fmt.Sprint(ds), fmt.Sprint("the start ts is not the oracle's timestamp (or the caller's option): ", ds))
		}
		a.checkAt(snapArg != nil && txnArg != nil && snapArg == txnArg, fname(begin)+" snapshot and txn share the ts", a.fnPos(begin), "", "the snapshot and the transaction are created with different timestamps")
		// the oracle's ts is used only on its success edge
		for _, ci := range core.FindCalls(begin, core.CallsTo(gtr)) {
			sites := core.FindCalls(begin, core.CallsMethodNamed("NewTiKVTxn", ""))
			for _, s := range sites {
				q := &core.Q{Fn: begin, NoEdge: func(e core.Edge) bool { m, t := core.EdgeTruth(e, core.PIsNil(errVarOf(ci))); return m && t }}
				found, w, _ := q.Reach(ci, func(in ssa.Instruction) bool { return in == s.(ssa.Instruction) })
				a.check(!found, fname(begin)+" ts fetch succeeded", s, "", "a transaction can be created although fetching the start ts failed: "+a.w(w))
			}
		}
		// getTimestampWithRetry returns the oracle's value on err == nil only
		for _, r := range returnsOf(gtr) {
			if len(r.Results) != 2 || !isNil(r.Results[1]) {
				continue
			}
			ds := p.Prov().Desc(r.Results[0])
			okk := len(ds) == 1 && glob("invoke(oracle.Oracle.GetTimestamp)#0*", ds[0])
			a.check(okk, fname(gtr)+" returns the oracle's ts", r, "", fmt.Sprint("a nil-error return yields ", ds))
		}
	}

	// ---- R2 commit ts after all prewrites --------------------------------------------------------
	{
		a := rule(c, "C01.R2")
		isPW := core.InstrIs(core.CallsTo(prewriteMut))
		n := 0
		for _, w := range p.WritersOf(core.Field(p.Named(pkgTxn, "twoPhaseCommitter"), "commitTS")) {
			if w.Fn != execute {
				continue
			}
			n++
			ds := p.Prov().Desc(w.Val)
			key := writerKey(w, fStart) + " commitTS"
			okRoots := len(ds) >= 1
			for _, d := range ds {
				switch {
				case glob("call((*txnkv/transaction.KVTxn).GetTimestampForCommit)#0*", d):
				case glob("call((*txnkv/transaction.minCommitTsManager).get)#0*", d):
				case d == "fld(twoPhaseCommitter.onePCCommitTS,recv)":
				default:
					okRoots = false
				}
			}
			a.check(okRoots, key+" roots", w.Instr, fmt.Sprint(ds), fmt.Sprint("commit ts has a root other than a fresh oracle ts / the min-commit-ts manager / the 1PC ts: ", ds))
			g, wit := core.MustPassBefore(execute, w.Instr, isPW)
			a.check(g, key+" after prewrite", w.Instr, "", "commit ts is fixed on a path that did not prewrite: "+a.w(wit))
		}
		a.checkAt(n >= 2, fname(execute)+" writes commitTS", a.fnPos(execute), "", "commit ts assignment not found in execute")
		// the GetTimestampForCommit call that feeds the commit ts happens after prewrite's success edge
		for _, ci := range core.FindCalls(execute, core.CallsMethodNamed("GetTimestampForCommit", "")) {
			v := ci.(ssa.Value)
			feeds := false
			for _, w := range p.WritersOf(core.Field(p.Named(pkgTxn, "twoPhaseCommitter"), "commitTS")) {
				if w.Fn == execute && w.Val != nil && valueFlowsFrom(w.Val, v) {
					feeds = true
				}
			}
			if !feeds {
				continue
			}
			g, wit := core.MustPassBefore(execute, ci, isPW)
			a.check(g, fname(execute)+" commit ts fetched after prewrite", ci, "", "the commit timestamp is fetched before all prewrites were sent (a concurrent reader could start after it and miss the write): "+a.w(wit))
			for _, pw := range core.FindCalls(execute, core.CallsTo(prewriteMut)) {
				q := &core.Q{Fn: execute, NoEdge: func(e core.Edge) bool { m, t := core.EdgeTruth(e, core.PIsNil(errVarOf(pw))); return m && t }}
				found, w, _ := q.Reach(pw, func(in ssa.Instruction) bool { return in == ci.(ssa.Instruction) })
				a.check(!found, fname(execute)+" commit ts only after prewrite succeeded", ci, "", "commit ts fetched although prewrite failed: "+a.w(w))
			}
		}
	}

	// ---- R3 linearizability bump -------------------------------------------------------------------
	{
		a := rule(c, "C01.R3")
		isBump := func(in ssa.Instruction) bool {
			ci, ok := in.(ssa.CallInstruction)
			if !ok || !core.CallsTo(tryUpdate)(ci.Common()) {
				return false
			}
			ds := p.Prov().Desc(argOf(ci, 0))
			return len(ds) == 1 && glob("(call((*txnkv/transaction.KVTxn).GetTimestampForCommit)#0[*] + const(1))", ds[0])
		}
		pNeedLin := core.PTrue(core.IsCallTo(needLin))
		pWait := core.PCmp(tokGTR, func(v ssa.Value) bool { return descHas(c, v, "commitWaitUntilTSO") }, core.IsIntConst(0))
		n := 0
		for _, setter := range []*ssa.Function{setAsync, setOnePC} {
			for _, ci := range core.FindCalls(execute, core.CallsTo(setter)) {
				cst, ok := asConst(argOf(ci, 0))
				if !ok || cst.Value == nil || cst.Value.String() != "true" {
					continue
				}
				n++
				q := &core.Q{Fn: execute, NoPass: isBump, Auto: avoidBoth(pNeedLin, pWait)}
				found, w, hit := q.Reach(ci, func(in ssa.Instruction) bool {
					return core.InstrIs(core.CallsTo(prewriteMut))(in) || isCallNamed("Flush")(in)
				})
				key := fname(execute) + " " + setter.Name() + "(true) ⇒ min commit ts bumped"
				if found {
					a.viol(key, hit, "with a store-calculated commit ts (async commit / 1PC) and linearizability or commit-wait required, prewrite can start without pushing a fresh oracle ts + 1 into the min commit ts: "+a.w(w))
				} else {
					a.ok(key, ci, "")
				}
				// max commit ts calculated too
				okk, w2, hit2 := condMust(c, execute, ci, core.InstrIs(core.CallsTo(prewriteMut)), core.InstrIs(core.CallsTo(calcMax)), nil)
				if okk {
					a.ok(fname(execute)+" "+setter.Name()+"(true) ⇒ max commit ts", ci, "")
				} else {
					a.viol(fname(execute)+" "+setter.Name()+"(true) ⇒ max commit ts", hit2, "async commit / 1PC prewrite without calculating the max commit ts (schema-lease bound): "+a.w(w2))
				}
			}
		}
		a.checkAt(n >= 2, fname(execute)+" enables async/1PC", a.fnPos(execute), "", "setAsyncCommit(true)/setOnePC(true) not found in execute")
	}

	// ---- R4 request min-commit-ts exceeds start / for-update ts ---------------------------------------
	{
		a := rule(c, "C01.R4")
		f := a.extField(kvrpcpb, "PrewriteRequest", "MinCommitTs")
		if f != nil {
			n := 0
			for _, w := range prodWriters(c, f) {
				n++
				key := fname(w.Fn) + " sets PrewriteRequest.MinCommitTs"
				ds := p.Prov().Desc(w.Val)
				allow := []string{"(fld(twoPhaseCommitter.forUpdateTS,recv) + const(1))", "(fld(twoPhaseCommitter.startTS,recv) + const(1))", "call((*txnkv/transaction.minCommitTsManager).get)#0[fld(twoPhaseCommitter.minCommitTSMgr,recv)]"}
				okk := len(ds) >= 1
				for _, d := range ds {
					if !globAny(allow, d) {
						okk = false
					}
				}
				a.check(okk, key+" roots", w.Instr, fmt.Sprint(ds), fmt.Sprint("min commit ts has a root other than forUpdateTS+1 / startTS+1 / the manager's value: ", ds))
				isRaw := func(v ssa.Value) bool { return core.IsCallNamed("get")(v) }
				g, why := phiIncomingGuarded(w.Fn, w.Val, isRaw, []guardSpec{
					{"startTS >= minCommitTS is false", core.PCmp(tokGEQ, core.LoadsField(fStart), core.IsCallNamed("get")), false},
				})
				a.check(g, key+" > startTS", w.Instr, "the manager's value is used only when it exceeds the start ts", "min commit ts can be <= start ts: "+why)
				// for-update ts: raw value only when forUpdateTS == 0 or forUpdateTS < min
				okFU := true
				whyFU := ""
				phi, _ := core.Strip(w.Val).(*ssa.Phi)
				if phi == nil {
					okFU = false
					whyFU = "min commit ts is not the guarded three-way choice"
				} else {
					okFU, whyFU = rawGuardedByEither(w.Fn, phi, isRaw,
						core.PCmp(tokGEQ, core.LoadsField(fFU), core.IsCallNamed("get")), false,
						core.PCmp(tokGTR, core.LoadsField(fFU), core.IsIntConst(0)), false)
				}
				a.check(okFU, key+" > forUpdateTS", w.Instr, "", "min commit ts can be <= for-update ts: "+whyFU)
			}
			a.checkAt(n == 1, "PrewriteRequest.MinCommitTs writers", a.fnPos(build), "", "expected one construction site")
		}
		msgField(c, "C01.R4", "PessimisticLockRequest", "MinCommitTs", []string{"(fld(twoPhaseCommitter.forUpdateTS,*) + const(1))"}, nil, 1, "pessimistic lock min commit ts = for-update ts + 1")
		msgField(c, "C01.R4", "FlushRequest", "MinCommitTs", []string{"(fld(twoPhaseCommitter.startTS,*) + const(1))"}, nil, 1, "flush min commit ts = start ts + 1")
	}

	// ---- R5 async commit ts = max of prewrite answers ---------------------------------------------------
	{
		a := rule(c, "C01.R5")
		fRespMin := a.extField(kvrpcpb, "PrewriteResponse", "MinCommitTs")
		isAsync := p.Func(pkgTxn, "twoPhaseCommitter", "isAsyncCommit")
		if fRespMin != nil && isAsync != nil {
			isUpd := func(in ssa.Instruction) bool {
				ci, ok := in.(ssa.CallInstruction)
				if !ok || !core.CallsTo(tryUpdate)(ci.Common()) {
					return false
				}
				return descHas(c, argOf(ci, 0), "fld(PrewriteResponse.MinCommitTs,")
			}
			okk, w, hit := condMust(c, succeed, nil, core.IsReturn, isUpd, []string{
				"F:call((*txnkv/transaction.twoPhaseCommitter).isAsyncCommit)#0[*",
				"T:(const(0) == fld(PrewriteResponse.MinCommitTs,*",
				"F:(call((*txnkv/transaction.minCommitTsManager).get)#0[*] < fld(PrewriteResponse.MinCommitTs,*",
				"T:call((*txnkv/transaction.twoPhaseCommitter).isOnePC)#0[*",
			})
			if okk {
				a.ok(fname(succeed)+" raises min commit ts", succeed.Blocks[0].Instrs[0], "every async prewrite answer with a min commit ts above the manager's value is pushed into it")
			} else {
				a.viol(fname(succeed)+" raises min commit ts", hit, "a successful async-commit prewrite response can be accepted without raising the transaction's min commit ts (the final commit ts could be below a secondary's min commit ts): "+a.w(w))
			}
		}
		// the manager is monotone
		for _, w := range p.WritersOf(fMinVal) {
			g, wit := core.Guarded(w.Fn, w.Instr, core.PCmp(tokGTR, func(v ssa.Value) bool { _, ok := v.(*ssa.Parameter); return ok }, core.LoadsField(fMinVal)), true)
			a.check(w.Fn == tryUpdate && g, writerKey(w, fMinVal), w.Instr, "only raised", "min commit ts manager can be lowered / written outside tryUpdate: "+a.w(wit))
		}
	}

	// ---- R6 pessimistic lock at for-update ts ---------------------------------------------------------------
	{
		a := rule(c, "C01.R6")
		for _, w := range p.WritersOf(fFU) {
			fn := fname(w.Fn)
			ds := p.Prov().Desc(w.Val)
			key := writerKey(w, fFU)
			switch {
			case strings.HasSuffix(fn, "KVTxn).lockKeys"):
				a.check(len(ds) == 1 && ds[0] == "fld(LockCtx.ForUpdateTS,param#1)", key, w.Instr, "", fmt.Sprint("for-update ts of the lock request is not the lock context's: ", ds))
			case strings.HasSuffix(fn, "twoPhaseCommitter).execute"):
				a.check(len(ds) == 1 && ds[0] == "fld(twoPhaseCommitter.startTS,recv)", key, w.Instr, "", fmt.Sprint(ds))
			case strings.HasSuffix(fn, "asyncPessimisticRollback"):
				a.ok(key, w.Instr, "rollback clone")
			case isProbe(c, w.Fn):
			default:
				a.viol(key, w.Instr, fmt.Sprint("unexpected writer of forUpdateTS: ", ds))
			}
		}
		lk := a.fn(pkgTxn, "KVTxn", "LockKeysWithWaitTime")
		if lk != nil {
			for _, ci := range core.FindCalls(lk, core.CallsMethodNamed("NewLockCtx", "")) {
				ds := p.Prov().Desc(ci.Common().Args[0])
				okk := len(ds) == 2 && strings.Contains(strings.Join(ds, "|"), "GetTimestampWithRetry)#0") && strings.Contains(strings.Join(ds, "|"), "fld(KVTxn.startTS,recv)")
				a.check(okk, fname(lk)+" for-update ts", ci, "", fmt.Sprint("for-update ts is not a fresh oracle ts (pessimistic) / the start ts: ", ds))
			}
		}
	}

	// ---- R7 mutation decision table ---------------------------------------------------------------------------
	mutationTable(c, "C01.R7")
	// ---- R8 status definitions --------------------------------------------------------------------------------
	statusDefinitions(c, "C01.R8")
}

// valueFlowsFrom: does v derive from src through φ / conversions.
func valueFlowsFrom(v, src ssa.Value) bool {
	seen := map[ssa.Value]bool{}
	var rec func(x ssa.Value) bool
	rec = func(x ssa.Value) bool {
		if x == src {
			return true
		}
		if seen[x] {
			return false
		}
		seen[x] = true
		switch y := x.(type) {
		case *ssa.Phi:
			for _, e := range y.Edges {
				if rec(e) {
					return true
				}
			}
		case *ssa.Extract:
			return rec(y.Tuple)
		case *ssa.Convert:
			return rec(y.X)
		case *ssa.ChangeType:
			return rec(y.X)
		}
		return false
	}
	return rec(v)
}

// rawGuardedByEither: every φ alternative matching isRaw reaches the merge only via an edge
// (a1 = t1) or (a2 = t2).
func rawGuardedByEither(fn *ssa.Function, phi *ssa.Phi, isRaw core.VM, a1 core.Pred, t1 bool, a2 core.Pred, t2 bool) (bool, string) {
	return rawGuardedByEitherRec(fn, phi, isRaw, a1, t1, a2, t2, map[*ssa.Phi]bool{})
}

func rawGuardedByEitherRec(fn *ssa.Function, phi *ssa.Phi, isRaw core.VM, a1 core.Pred, t1 bool, a2 core.Pred, t2 bool, seen map[*ssa.Phi]bool) (bool, string) {
	if seen[phi] {
		return true, ""
	}
	seen[phi] = true
	for i, e := range phi.Edges {
		if !core.FeasibleEdgeInto(phi.Block(), i) {
			continue
		}
		ev := core.Strip(e)
		if p2, ok := ev.(*ssa.Phi); ok {
			if ok, why := rawGuardedByEitherRec(fn, p2, isRaw, a1, t1, a2, t2, seen); !ok {
				return false, why
			}
			continue
		}
		if !isRaw(ev) {
			continue
		}
		pred := phi.Block().Preds[i]
		last := pred.Instrs[len(pred.Instrs)-1]
		q := &core.Q{Fn: fn, NoEdge: func(x core.Edge) bool {
			if m, t := core.EdgeTruth(x, a1); m && t == t1 {
				return true
			}
			if m, t := core.EdgeTruth(x, a2); m && t == t2 {
				return true
			}
			return false
		}}
		// the final edge pred -> merge may be the guard edge itself
		if ifi, ok := last.(*ssa.If); ok {
			k := 0
			if pred.Succs[1] == phi.Block() && pred.Succs[0] != phi.Block() {
				k = 1
			}
			e := core.Edge{If: ifi, True: k == 0}
			if m, t := core.EdgeTruth(e, a1); m && t == t1 {
				continue
			}
			if m, t := core.EdgeTruth(e, a2); m && t == t2 {
				continue
			}
		}
		if found, _, _ := q.Reach(nil, func(in ssa.Instruction) bool { return in == last }); found {
			return false, "the unadjusted value reaches the request without either guard"
		}
	}
	return true, ""
}

// statusDefinitions: shared by C01/C02/C05 — what counts as committed / rolled back.
func statusDefinitions(c *core.Ctx, ruleID string) {
	a := rule(c, ruleID)
	rb := a.fn(pkgLock, "TxnStatus", "IsRolledBack")
	ic := a.fn(pkgLock, "TxnStatus", "IsCommitted")
	if rb == nil || ic == nil {
		return
	}
	acts := map[int64]bool{}
	core.Instrs(rb, func(in ssa.Instruction) {
		b, ok := in.(*ssa.BinOp)
		if !ok || b.Op != tokEQL {
			return
		}
		if cst, ok := b.Y.(*ssa.Const); ok && strings.Contains(b.X.Type().String(), "Action") {
			acts[cst.Int64()] = true
		}
	})
	want := map[int64]bool{}
	for _, n := range []string{"Action_NoAction", "Action_LockNotExistRollback", "Action_TTLExpireRollback"} {
		want[constInt(c, kvrpcpb, n)] = true
	}
	same := len(acts) == len(want)
	for k := range want {
		if !acts[k] {
			same = false
		}
	}
	a.checkAt(same, fname(rb)+" rollback actions", a.fnPos(rb), "", fmt.Sprint("IsRolledBack accepts a different set of actions than {NoAction, LockNotExistRollback, TTLExpireRollback}: ", acts, " — a non-final answer (e.g. LockNotExistDoNothing) would be treated and cached as rolled back"))
	a.checkAt(len(ifsOn(rb, core.PCmp(tokEQL, core.AnyV, core.IsIntConst(0)))) >= 2, fname(rb)+" ttl==0 ∧ commitTS==0", a.fnPos(rb), "", "IsRolledBack no longer requires ttl == 0 and commitTS == 0")
	okc := false
	core.Instrs(ic, func(in ssa.Instruction) {
		if b, ok := in.(*ssa.BinOp); ok && b.Op == tokGTR {
			if cst, ok := b.Y.(*ssa.Const); ok && cst.Int64() == 0 {
				okc = true
			}
		}
	})
	a.checkAt(okc, fname(ic), a.fnPos(ic), "", "IsCommitted is no longer commitTS > 0")
}
