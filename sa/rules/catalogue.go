package rules

import (
	"go/ast"
	"go/constant"
	"go/token"
	"go/types"
	"sort"
	"strings"

	"golang.org/x/tools/go/packages"

	"verif/sa/core"
)

// Catalogue extraction over the type-checked syntax tree: `switch x { case K1, K2: body }`
// statements whose tag has a given type are read as tables {constant → body}. Everything is
// resolved through types.Info (constants by object and value, callees by *types.Func, fields by
// *types.Var); no names are matched textually.

type swCase struct {
	Consts  []*types.Const // value-switch: the case constants
	Types   []types.Type   // type-switch: the case types
	Default bool
	Body    []ast.Stmt
	Pos     token.Pos
	Bind    *types.Var // type-switch binding in this clause
}

type funcSyntax struct {
	Pkg  *packages.Package
	Decl *ast.FuncDecl
}

// findFuncDecl: syntax of a package-level function or method (recv == "" for functions).
func findFuncDecl(p *core.Prog, rel, recv, name string) *funcSyntax {
	path := core.ModPath
	if rel != "" {
		path += "/" + rel
	}
	pk := p.ByPath[path]
	if pk == nil {
		return nil
	}
	for _, f := range pk.Syntax {
		for _, d := range f.Decls {
			fd, ok := d.(*ast.FuncDecl)
			if !ok || fd.Name.Name != name || fd.Body == nil {
				continue
			}
			r := ""
			if fd.Recv != nil && len(fd.Recv.List) == 1 {
				t := fd.Recv.List[0].Type
				if st, ok := t.(*ast.StarExpr); ok {
					t = st.X
				}
				if id, ok := t.(*ast.Ident); ok {
					r = id.Name
				}
			}
			if r == recv {
				return &funcSyntax{pk, fd}
			}
		}
	}
	return nil
}

// valueSwitches: every value switch in the function whose tag has the named type.
func (fs *funcSyntax) valueSwitches(tagType func(types.Type) bool) [][]swCase {
	var out [][]swCase
	ast.Inspect(fs.Decl.Body, func(n ast.Node) bool {
		sw, ok := n.(*ast.SwitchStmt)
		if !ok || sw.Tag == nil {
			return true
		}
		tv, ok := fs.Pkg.TypesInfo.Types[sw.Tag]
		if !ok || !tagType(tv.Type) {
			return true
		}
		var cases []swCase
		for _, st := range sw.Body.List {
			cc := st.(*ast.CaseClause)
			c := swCase{Body: cc.Body, Pos: cc.Pos(), Default: cc.List == nil}
			for _, e := range cc.List {
				if k := constOf(fs.Pkg, e); k != nil {
					c.Consts = append(c.Consts, k)
				}
			}
			cases = append(cases, c)
		}
		out = append(out, cases)
		return true
	})
	return out
}

// typeSwitches: every type switch in the function.
func (fs *funcSyntax) typeSwitches() [][]swCase {
	var out [][]swCase
	ast.Inspect(fs.Decl.Body, func(n ast.Node) bool {
		sw, ok := n.(*ast.TypeSwitchStmt)
		if !ok {
			return true
		}
		var cases []swCase
		for _, st := range sw.Body.List {
			cc := st.(*ast.CaseClause)
			c := swCase{Body: cc.Body, Pos: cc.Pos(), Default: cc.List == nil}
			for _, e := range cc.List {
				if tv, ok := fs.Pkg.TypesInfo.Types[e]; ok && tv.IsType() {
					c.Types = append(c.Types, tv.Type)
				}
			}
			if obj, ok := fs.Pkg.TypesInfo.Implicits[cc].(*types.Var); ok {
				c.Bind = obj
			}
			cases = append(cases, c)
		}
		out = append(out, cases)
		return true
	})
	return out
}

func constOf(pk *packages.Package, e ast.Expr) *types.Const {
	switch x := e.(type) {
	case *ast.Ident:
		if c, ok := pk.TypesInfo.Uses[x].(*types.Const); ok {
			return c
		}
	case *ast.SelectorExpr:
		if c, ok := pk.TypesInfo.Uses[x.Sel].(*types.Const); ok {
			return c
		}
	case *ast.ParenExpr:
		return constOf(pk, x.X)
	}
	return nil
}

// callsIn: every call expression in stmts with its resolved callee (nil for dynamic calls).
type astCall struct {
	Call   *ast.CallExpr
	Callee *types.Func
}

func callsInStmts(pk *packages.Package, stmts []ast.Stmt) []astCall {
	var out []astCall
	for _, s := range stmts {
		ast.Inspect(s, func(n ast.Node) bool {
			ce, ok := n.(*ast.CallExpr)
			if !ok {
				return true
			}
			var fn *types.Func
			switch f := ce.Fun.(type) {
			case *ast.Ident:
				fn, _ = pk.TypesInfo.Uses[f].(*types.Func)
			case *ast.SelectorExpr:
				fn, _ = pk.TypesInfo.Uses[f.Sel].(*types.Func)
			}
			out = append(out, astCall{ce, fn})
			return true
		})
	}
	return out
}

// fieldAssign: an assignment `x.F = rhs` (or one position of a tuple assignment) in stmts.
type fieldAssign struct {
	Base  types.Type // type of x (pointers removed)
	Field *types.Var
	Rhs   ast.Expr // the whole right-hand side (call for tuple assignments)
	Idx   int      // position in a tuple assignment
	Stmt  *ast.AssignStmt
}

func fieldAssignsIn(pk *packages.Package, stmts []ast.Stmt) []fieldAssign {
	var out []fieldAssign
	for _, s := range stmts {
		ast.Inspect(s, func(n ast.Node) bool {
			as, ok := n.(*ast.AssignStmt)
			if !ok {
				return true
			}
			for i, lhs := range as.Lhs {
				for {
					// X.F[i] = … assigns (elements of) field F
					if ix, ok := lhs.(*ast.IndexExpr); ok {
						lhs = ix.X
						continue
					}
					if pe, ok := lhs.(*ast.ParenExpr); ok {
						lhs = pe.X
						continue
					}
					break
				}
				sel, ok := lhs.(*ast.SelectorExpr)
				if !ok {
					continue
				}
				fv, ok := pk.TypesInfo.Uses[sel.Sel].(*types.Var)
				if !ok || !fv.IsField() {
					continue
				}
				bt := pk.TypesInfo.TypeOf(sel.X)
				if pt, ok := bt.(*types.Pointer); ok {
					bt = pt.Elem()
				}
				fa := fieldAssign{Base: bt, Field: fv, Idx: i, Stmt: as}
				if len(as.Rhs) == len(as.Lhs) {
					fa.Rhs = as.Rhs[i]
				} else if len(as.Rhs) == 1 {
					fa.Rhs = as.Rhs[0]
				}
				out = append(out, fa)
			}
			return true
		})
	}
	return out
}

// compositeLitsIn: composite literals in stmts with their struct type and keyed fields.
type astLit struct {
	Type   types.Type
	Fields map[string]ast.Expr
	Lit    *ast.CompositeLit
}

func compositeLitsIn(pk *packages.Package, stmts []ast.Stmt) []astLit {
	var out []astLit
	for _, s := range stmts {
		ast.Inspect(s, func(n ast.Node) bool {
			cl, ok := n.(*ast.CompositeLit)
			if !ok {
				return true
			}
			t := pk.TypesInfo.TypeOf(cl)
			l := astLit{Type: t, Fields: map[string]ast.Expr{}, Lit: cl}
			for _, e := range cl.Elts {
				if kv, ok := e.(*ast.KeyValueExpr); ok {
					if id, ok := kv.Key.(*ast.Ident); ok {
						l.Fields[id.Name] = kv.Value
					}
				}
			}
			out = append(out, l)
			return true
		})
	}
	return out
}

func constInt64(k *types.Const) int64 {
	v, _ := constant.Int64Val(constant.ToInt(k.Val()))
	return v
}

// namedOf strips pointers and returns the named type (nil if none).
func namedOf(t types.Type) *types.Named {
	for {
		switch x := t.(type) {
		case *types.Pointer:
			t = x.Elem()
			continue
		case *types.Named:
			return x
		case *types.Alias:
			t = types.Unalias(x)
			continue
		}
		return nil
	}
}

func typeName(t types.Type) string {
	n := namedOf(t)
	if n == nil {
		if t == nil {
			return "<nil>"
		}
		return t.String()
	}
	if n.Obj().Pkg() == nil {
		return n.Obj().Name()
	}
	return n.Obj().Pkg().Name() + "." + n.Obj().Name()
}

// keyFieldPaths: the key-bearing fields of a protobuf message type, found by walking the type:
// a field is key-bearing when its type is []byte or [][]byte and its name is not in the
// non-key table, or when it is a (slice of) pointer to a message that has key-bearing fields.
// Only the first level is returned (nested messages are the responsibility of the helper that
// handles the element type); for each first-level field the list of nested leaf paths is kept
// for the report.
type keyField struct {
	Field  *types.Var
	Leaves []string // e.g. "Mutations[].Key"
}

func keyFields(t types.Type, nonKey map[string]string, skipTypes map[string]string) []keyField {
	var out []keyField
	st, ok := namedOf(t).Underlying().(*types.Struct)
	if !ok {
		return nil
	}
	for i := 0; i < st.NumFields(); i++ {
		f := st.Field(i)
		if !f.Exported() || strings.HasPrefix(f.Name(), "XXX_") {
			continue
		}
		leaves := keyLeaves(f.Type(), f.Name(), nonKey, skipTypes, map[*types.Named]bool{namedOf(t): true}, 0)
		if len(leaves) > 0 {
			out = append(out, keyField{f, leaves})
		}
	}
	return out
}

func keyLeaves(t types.Type, path string, nonKey, skipTypes map[string]string, seen map[*types.Named]bool, depth int) []string {
	if depth > 16 {
		return nil
	}
	last := path
	if i := strings.LastIndex(path, "."); i >= 0 {
		last = path[i+1:]
	}
	last = strings.TrimSuffix(last, "[]")
	switch x := t.Underlying().(type) {
	case *types.Slice:
		if b, ok := x.Elem().Underlying().(*types.Basic); ok && b.Kind() == types.Byte {
			if _, no := nonKey[last]; no {
				return nil
			}
			return []string{path}
		}
		if s2, ok := x.Elem().Underlying().(*types.Slice); ok {
			if b, ok := s2.Elem().Underlying().(*types.Basic); ok && b.Kind() == types.Byte {
				if _, no := nonKey[last]; no {
					return nil
				}
				return []string{path + "[]"}
			}
		}
		return keyLeaves(x.Elem(), path+"[]", nonKey, skipTypes, seen, depth+1)
	case *types.Pointer:
		return keyLeaves(x.Elem(), path, nonKey, skipTypes, seen, depth+1)
	case *types.Struct:
		n := namedOf(t)
		if n == nil || seen[n] {
			return nil
		}
		if _, skip := skipTypes[typeName(n)]; skip {
			return nil
		}
		seen2 := map[*types.Named]bool{n: true}
		for k := range seen {
			seen2[k] = true
		}
		var out []string
		for i := 0; i < x.NumFields(); i++ {
			f := x.Field(i)
			if !f.Exported() || strings.HasPrefix(f.Name(), "XXX_") {
				continue
			}
			out = append(out, keyLeaves(f.Type(), path+"."+f.Name(), nonKey, skipTypes, seen2, depth+1)...)
		}
		return out
	}
	return nil
}

func sortedKeys[V any](m map[string]V) []string {
	var ks []string
	for k := range m {
		ks = append(ks, k)
	}
	sort.Strings(ks)
	return ks
}
