package rules

import (
	"fmt"
	"strings"

	"golang.org/x/tools/go/ssa"

	"verif/sa/core"
)

const pkgART = "internal/unionstore/art"
const pkgRBT = "internal/unionstore/rbt"
const pkgArena = "internal/unionstore/arena"

func init() {
	register("C07", &Spec{
		Title: "Read-your-writes over the snapshot",
		Explanation: "Decides: (R1) the union store reads the buffer first, the snapshot only on not-found, and never returns an empty (tombstone) value; (R2) the buffer and snapshot iterators of a union iterator get the same bounds and the direction flag matches the method; (R3) both batch getters ask the snapshot exactly for the keys the buffer missed, strip tombstones from the result on every path that returns the buffer's map, and have the same skeleton; (R4) the merge iterator never stops on a buffered tombstone, advances the snapshot iterator when both sides have the key, negates the comparison in reverse mode, and Next advances the side that is current; (R5) both buffer implementations truncate the value log when reverting to a checkpoint (sibling agreement of the staging operations, shared with C08). NOT decided: equivalence with a map model over arbitrary programs.",
		Run: runC07,
	})
}

func runC07(c *core.Ctx) {
	p := c.P
	a0 := rule(c, "C07.anchors")
	get := a0.fn(pkgUnion, "KVUnionStore", "Get")
	iter := a0.fn(pkgUnion, "KVUnionStore", "Iter")
	iterRev := a0.fn(pkgUnion, "KVUnionStore", "IterReverse")
	upd := a0.fn(pkgUnion, "UnionIter", "updateCur")
	next := a0.fn(pkgUnion, "UnionIter", "Next")
	dirtyNext := a0.fn(pkgUnion, "UnionIter", "dirtyNext")
	snapNext := a0.fn(pkgUnion, "UnionIter", "snapshotNext")
	bg1 := a0.fn(pkgTxn, "BufferBatchGetter", "BatchGet")
	bg2 := a0.fn(pkgTxn, "BufferSnapshotBatchGetter", "BatchGet")
	if a0.bad {
		return
	}

	// ---- R1 buffer first ----------------------------------------------------------------------------
	{
		a := rule(c, "C07.R1")
		var bufGet, snapGet ssa.CallInstruction
		for _, ci := range core.FindCalls(get, core.CallsMethodNamed("Get", "")) {
			rd := strings.Join(p.Prov().Desc(ci.Common().Value), "|")
			if strings.Contains(rd, "KVUnionStore.memBuffer") {
				bufGet = ci
			} else if strings.Contains(rd, "KVUnionStore.snapshot") {
				snapGet = ci
			}
		}
		if bufGet == nil || snapGet == nil {
			a.violAt(fname(get)+" reads", a.fnPos(get), "expected one buffer read and one snapshot read")
		} else {
			g, w := core.Guarded(get, snapGet, core.PTrue(core.IsCallNamed("IsErrNotFound")), true)
			a.check(g, fname(get)+" snapshot only on buffer miss", snapGet, "", "the snapshot is consulted although the buffer may hold the key (a buffered write/delete would be shadowed by the snapshot): "+a.w(w))
			g2, w2 := core.MustPassBefore(get, snapGet, func(in ssa.Instruction) bool { return in == bufGet.(ssa.Instruction) })
			a.check(g2, fname(get)+" buffer first", snapGet, "", "the snapshot is read before the buffer: "+a.w(w2))
			// IsErrNotFound is applied to the buffer's error
			for _, ci := range core.FindCalls(get, core.CallsMethodNamed("IsErrNotFound", "")) {
				okk := errVarOf(bufGet)(ci.Common().Args[0])
				a.check(okk, fname(get)+" not-found test on the buffer's error", ci, "", "")
			}
		}
		for _, r := range returnsOf(get) {
			if len(r.Results) != 2 || !isNil(r.Results[1]) {
				continue
			}
			g, w := core.Guarded(get, r, core.PTrue(core.IsCallNamed("IsValueEmpty")), false)
			a.check(g, fname(get)+" never returns a tombstone", r, "", "a deleted key (empty value) can be returned as a value: "+a.w(w))
		}
	}

	// ---- R2 twin iterators ---------------------------------------------------------------------------
	{
		a := rule(c, "C07.R2")
		for _, spec := range []struct {
			fn      *ssa.Function
			method  string
			reverse string
		}{{iter, "Iter", "false"}, {iterRev, "IterReverse", "true"}} {
			var args [][]string
			for _, ci := range core.FindCalls(spec.fn, core.CallsMethodNamed(spec.method, "")) {
				var d []string
				for _, x := range ci.Common().Args {
					d = append(d, strings.Join(p.Prov().Desc(x), "|"))
				}
				args = append(args, d)
			}
			okk := len(args) == 2 && strings.Join(args[0], ";") == strings.Join(args[1], ";") && strings.Join(args[0], ";") == "param#0;param#1"
			a.checkAt(okk, fname(spec.fn)+" same bounds for buffer and snapshot", a.fnPos(spec.fn), fmt.Sprint(args), fmt.Sprint("the buffer and snapshot iterators are not created with the same (start, bound): ", args))
			for _, ci := range core.FindCalls(spec.fn, core.CallsMethodNamed("NewUnionIter", "")) {
				cst, ok := asConst(ci.Common().Args[2])
				a.check(ok && cst.Value != nil && cst.Value.String() == spec.reverse, fname(spec.fn)+" direction flag", ci, "", "the union iterator's direction flag does not match "+spec.method)
				d0 := strings.Join(p.Prov().Desc(ci.Common().Args[0]), "|")
				d1 := strings.Join(p.Prov().Desc(ci.Common().Args[1]), "|")
				a.check(strings.Contains(d0, "KVUnionStore.memBuffer") && strings.Contains(d1, "KVUnionStore.snapshot"), fname(spec.fn)+" (dirty, snapshot) order", ci, "", fmt.Sprint("union iterator built from (", d0, ", ", d1, ")"))
			}
		}
	}

	// ---- R3 batch getters -------------------------------------------------------------------------------
	{
		a := rule(c, "C07.R3")
		for _, fn := range []*ssa.Function{bg1, bg2} {
			var bufCall, snapShrink ssa.CallInstruction
			for _, ci := range core.FindCalls(fn, core.CallsMethodNamed("BatchGet", "")) {
				rd := strings.Join(p.Prov().Desc(ci.Common().Value), "|")
				ad := strings.Join(p.Prov().Desc(ci.Common().Args[1]), "|")
				if strings.Contains(rd, ".buffer,") {
					bufCall = ci
				} else if strings.Contains(rd, ".snapshot,") && ad != "param#1" {
					snapShrink = ci
				}
			}
			if bufCall == nil || snapShrink == nil {
				a.violAt(fname(fn)+" buffer and snapshot reads", a.fnPos(fn), "expected a buffer BatchGet and a snapshot BatchGet on the missed keys")
				continue
			}
			bufMap := bufCall.(ssa.Value)
			// every return of the buffer's own map passes the snapshot read of the missed keys
			for _, r := range returnsOf(fn) {
				if len(r.Results) != 2 || !isNil(r.Results[1]) {
					continue
				}
				ex, ok := core.Strip(r.Results[0]).(*ssa.Extract)
				if !ok || ex.Tuple != bufMap {
					continue
				}
				g, w := core.MustPassBefore(fn, r, func(in ssa.Instruction) bool { return in == snapShrink.(ssa.Instruction) })
				a.check(g, fname(fn)+" returns the buffer map only after the merge", r, "", "the buffer's result map is returned without removing tombstones / reading the missed keys from the snapshot (a deleted key comes back with an empty value): "+a.w(w))
			}
			// the missed keys: appended exactly on the !ok edge — in the function itself, or in a private helper
			// that is handed the key list and the buffer's result map
			isBufMap := func(v ssa.Value) bool {
				ex, ok := core.Strip(v).(*ssa.Extract)
				return ok && ex.Tuple == bufMap
			}
			type classifier struct {
				fn      *ssa.Function
				isMap   func(ssa.Value) bool // the hit map inside fn
				hitTest []ssa.Instruction    // in the OUTER function: the instructions at which the hit map is consulted
			}
			cls := []classifier{{fn, isBufMap, nil}}
			for _, hc := range core.FindCalls(fn, func(cc *ssa.CallCommon) bool {
				g := cc.StaticCallee()
				return g != nil && g.Pkg == fn.Pkg && g.Object() != nil && !g.Object().Exported() && len(g.Blocks) > 0
			}) {
				g := hc.Common().StaticCallee()
				for k, arg := range hc.Common().Args {
					if isBufMap(arg) && k < len(g.Params) {
						par := g.Params[k]
						cls = append(cls, classifier{g, func(v ssa.Value) bool { return core.Strip(v) == ssa.Value(par) }, []ssa.Instruction{hc}})
					}
				}
			}
			pOK := core.PTrue(func(v ssa.Value) bool {
				ex, ok := v.(*ssa.Extract)
				if !ok || ex.Index != 1 {
					return false
				}
				_, isLk := ex.Tuple.(*ssa.Lookup)
				return isLk
			})
			nAppends := 0
			var hitTests []ssa.Instruction
			for _, cl := range cls {
				core.Instrs(cl.fn, func(in ssa.Instruction) {
					if lk, ok := in.(*ssa.Lookup); ok && lk.CommaOk && cl.isMap(lk.X) {
						if cl.hitTest != nil {
							hitTests = append(hitTests, cl.hitTest...)
						} else {
							hitTests = append(hitTests, in)
						}
					}
					ci, ok := in.(*ssa.Call)
					if !ok {
						return
					}
					if b, ok := ci.Call.Value.(*ssa.Builtin); !ok || b.Name() != "append" || ci.Type().String() != "[][]byte" {
						return
					}
					nAppends++
					g, w := core.Guarded(cl.fn, ci, pOK, false)
					a.check(g, fname(fn)+" snapshot asked only for missed keys", ci, "", "a key the buffer answered is also read from the snapshot: "+a.w(w))
				})
			}
			a.checkAt(nAppends == 1, fname(fn)+" collects missed keys", a.fnPos(fn), "", "missed-key collection not found")
			// the hit map must not change while keys are still being classified: a key may be repeated in
			// the batch, and a tombstone removed at its first occurrence would turn the second into a "miss"
			for _, ht := range hitTests {
				mutated := false
				core.Instrs(fn, func(m ssa.Instruction) {
					isMut := false
					switch x := m.(type) {
					case *ssa.MapUpdate:
						isMut = isBufMap(x.Map)
					case *ssa.Call:
						if b, ok := x.Call.Value.(*ssa.Builtin); ok && b.Name() == "delete" {
							isMut = isBufMap(x.Call.Args[0])
						}
					}
					if !isMut {
						return
					}
					q := &core.Q{Fn: fn}
					if found, w, _ := q.Reach(m, func(t ssa.Instruction) bool { return t == ht }); found {
						mutated = true
						a.viol(fname(fn)+" hit map is not modified while keys are classified", m, "the buffer's result map is modified (tombstone removed / entry added) on a path that leads back to the hit test: a key repeated in the batch is classified differently at its second occurrence — a key deleted in the transaction is read from the snapshot and returned: "+a.w(w))
					}
				})
				if !mutated {
					a.ok(fname(fn)+" hit map is not modified while keys are classified", ht, "")
				}
			}
			a.checkAt(len(hitTests) >= 1, fname(fn)+" hit test", a.fnPos(fn), "", "no lookup of the buffer's result map found")
			pvI := p.Prov()
			ad := pvI.Desc(snapShrink.Common().Args[1])
			okArg := len(ad) >= 1
			for _, d := range ad {
				if !strings.HasPrefix(d, "append(") && d != "makeslice" {
					// the result of the private classifier helper
					viaHelper := false
					for _, cl := range cls[1:] {
						if d == "call("+fname(cl.fn)+")#0" || strings.HasPrefix(d, "call("+fname(cl.fn)+")#0") {
							viaHelper = true
						}
					}
					if !viaHelper {
						okArg = false
					}
				}
			}
			a.check(okArg, fname(fn)+" snapshot gets the missed keys", snapShrink, "", fmt.Sprint("snapshot is asked for ", ad))
			// tombstones are deleted from the result
			for _, ci := range core.FindCalls(fn, core.CallsMethodNamed("IsValueEmpty", "")) {
				okk, w, hit := condMust(c, fn, ci, func(in ssa.Instruction) bool {
					if core.IsReturn(in) {
						return true
					}
					_, isNext := in.(*ssa.Next)
					return isNext
				}, func(in ssa.Instruction) bool {
					cl, ok := in.(*ssa.Call)
					if !ok {
						return false
					}
					b, ok := cl.Call.Value.(*ssa.Builtin)
					return ok && b.Name() == "delete"
				}, []string{"F:call((kv.ValueEntry).IsValueEmpty)#0*"})
				if okk {
					a.ok(fname(fn)+" strips tombstones", ci, "")
				} else {
					a.viol(fname(fn)+" strips tombstones", hit, "a buffered delete stays in the result map: "+a.w(w))
				}
			}
		}
		// sibling skeletons
		s1, s2 := skeleton(c, bg1), skeleton(c, bg2)
		a.checkAt(s1 == s2, "BufferBatchGetter ≡ BufferSnapshotBatchGetter", a.fnPos(bg1), "", "the two batch getters no longer perform the same steps:\n  "+s1+"\n  "+s2)
	}

	// ---- R4 merge iterator -----------------------------------------------------------------------------------
	{
		a := rule(c, "C07.R4")
		fCurDirty := core.Field(p.Named(pkgUnion, "UnionIter"), "curIsDirty")
		isDirtyNext := core.InstrIs(core.CallsTo(dirtyNext))
		isSnapNext := core.InstrIs(core.CallsTo(snapNext))
		tombF := "F:(const(0) == len(invoke(unionstore.Iterator.Value)#0[fld(UnionIter.dirtyIt,recv)]))"
		// (a) no exit on a buffered tombstone
		n := 0
		for _, st := range storesToField(upd, fCurDirty) {
			cst, ok := asConst(st.Val)
			if !ok || cst.Value == nil || cst.Value.String() != "true" {
				continue
			}
			n++
			okk, w, hit := condMust(c, upd, st, core.IsReturn, isDirtyNext, []string{tombF})
			// stores placed after the tombstone test are dominated by it instead
			if !okk {
				if g, _ := p.GuardedByAtom(upd, st, tombF); g {
					okk = true
				}
			}
			if okk {
				a.ok(fname(upd)+" buffered tombstone is skipped", st, "")
			} else {
				a.viol(fname(upd)+" buffered tombstone is skipped", hit, "the iterator can stop on a buffered delete (empty value) and expose it as an entry: "+a.w(w))
			}
		}
		a.checkAt(n >= 3, fname(upd)+" curIsDirty=true sites", a.fnPos(upd), fmt.Sprint(n), "sites not found")
		// (b) equal keys ⇒ the snapshot side advances
		isCmp := func(v ssa.Value) bool { return descHas(c, v, "call(kv.CmpKey)#0") }
		pEq := core.PCmp(tokEQL, isCmp, core.IsIntConst(0))
		eqs := ifsOn(upd, pEq)
		a.checkAt(len(eqs) == 1, fname(upd)+" equal-key case", a.fnPos(upd), "", "the equal-key case is no longer distinguished")
		for _, ifi := range eqs {
			b := succOn(ifi, pEq, true)
			found, w, hit := reachFromBlock(upd, b, isSnapNext, nil, func(in ssa.Instruction) bool {
				if r, ok := in.(*ssa.Return); ok {
					return len(r.Results) == 1 && isNil(r.Results[0]) // error exits are not judged
				}
				// next loop iteration: the re-read of dirtyValid at the loop head
				if u, ok := in.(*ssa.UnOp); ok {
					if fa, ok := u.X.(*ssa.FieldAddr); ok && core.FieldOfAddr(fa) != nil && core.FieldOfAddr(fa).Name() == "dirtyValid" && in.Block() != b {
						return len(in.Block().Preds) > 1
					}
				}
				return false
			})
			if found {
				a.viol(fname(upd)+" equal keys advance the snapshot", hit, "when buffer and snapshot hold the same key the snapshot iterator is not advanced: the key would be yielded twice: "+a.w(w))
			} else {
				a.ok(fname(upd)+" equal keys advance the snapshot", ifi, "")
			}
		}
		// (c) comparison negated in reverse mode
		okNeg := false
		core.Instrs(upd, func(in ssa.Instruction) {
			phi, ok := in.(*ssa.Phi)
			if !ok {
				return
			}
			hasRaw, hasNeg := false, false
			for i, e := range phi.Edges {
				if cl, ok := e.(*ssa.Call); ok && cl.Call.StaticCallee() != nil && cl.Call.StaticCallee().Name() == "CmpKey" {
					hasRaw = true
				}
				if u, ok := e.(*ssa.UnOp); ok && u.Op.String() == "-" {
					if cl, ok := u.X.(*ssa.Call); ok && cl.Call.StaticCallee() != nil && cl.Call.StaticCallee().Name() == "CmpKey" {
						pred := phi.Block().Preds[i]
						if g, _ := p.GuardedByAtom(upd, pred.Instrs[len(pred.Instrs)-1], "T:fld(UnionIter.reverse,recv)"); g {
							hasNeg = true
						}
					}
				}
			}
			if hasRaw && hasNeg {
				okNeg = true
			}
		})
		a.checkAt(okNeg, fname(upd)+" reverse negates the comparison", a.fnPos(upd), "", "the key comparison is not negated (exactly) in reverse mode: reverse iteration would merge in the wrong order")
		// operands of the comparison: dirty key first
		for _, ci := range core.FindCalls(upd, core.CallsMethodNamed("CmpKey", "")) {
			d0 := strings.Join(p.Prov().Desc(ci.Common().Args[0]), "|")
			d1 := strings.Join(p.Prov().Desc(ci.Common().Args[1]), "|")
			a.check(strings.Contains(d0, "UnionIter.dirtyIt") && strings.Contains(d1, "UnionIter.snapshotIt"), fname(upd)+" CmpKey(dirty, snapshot)", ci, "", fmt.Sprint(d0, " vs ", d1))
		}
		// Next advances the current side
		guardTable(c, "C07.R4", []gRow{
			{Fn: [3]string{pkgUnion, "UnionIter", "Next"}, Target: "call:snapshotNext", Facts: []string{"F:fld(UnionIter.curIsDirty,recv)"}, Why: "Next advances the snapshot side only when the current entry came from the snapshot"},
			{Fn: [3]string{pkgUnion, "UnionIter", "Next"}, Target: "call:dirtyNext", Facts: []string{"T:fld(UnionIter.curIsDirty,recv)"}, Why: "Next advances the buffer side only when the current entry came from the buffer"},
		})
		for _, ci := range core.FindCalls(next, core.CallsTo(upd)) {
			g, w := core.Guarded(next, ci, core.PIsNil(anyErr), true)
			a.check(g, fname(next)+" recomputes the current entry", ci, "", a.w(w))
		}
		a.checkAt(len(core.FindCalls(next, core.CallsTo(upd))) == 1, fname(next)+" calls updateCur", a.fnPos(next), "", "Next no longer recomputes the current entry")
	}

	// ---- R5 staging operations agree between the two buffers -------------------------------------------------------
	stagingSiblings(c, "C07.R5")
}

// skeleton: ordered list of callee names and canonical branch facts of a function (logging
// excluded) — used to compare sibling implementations.
func skeleton(c *core.Ctx, fn *ssa.Function) string {
	var parts []string
	for _, b := range fn.Blocks {
		for _, in := range b.Instrs {
			switch x := in.(type) {
			case ssa.CallInstruction:
				n := calleeName(x)
				if cl := x.Common().StaticCallee(); cl != nil {
					s := cl.String()
					if strings.Contains(s, "zap.") || strings.Contains(s, "logutil") || strings.Contains(s, "metrics") {
						continue
					}
				}
				if bi, ok := x.Common().Value.(*ssa.Builtin); ok {
					n = bi.Name()
				}
				parts = append(parts, n)
			case *ssa.If:
				v, _ := core.CondOf(x)
				s, _ := c.P.CanonAtom(v)
				s = strings.NewReplacer("BufferSnapshotBatchGetter", "G", "BufferBatchGetter", "G", "BatchSnapshotBufferGetter", "B", "BatchBufferGetter", "B").Replace(s)
				parts = append(parts, "if"+s)
			case *ssa.Return:
				parts = append(parts, "ret")
			}
		}
	}
	return strings.Join(parts, " ")
}

// stagingSiblings: the radix-tree and red-black-tree buffers perform the same value-log
// operations in each staging method (RevertToCheckpoint, Cleanup, Release, Staging, Checkpoint).
func stagingSiblings(c *core.Ctx, ruleID string) {
	a := rule(c, ruleID)
	vlogOps := func(fn *ssa.Function) string {
		set := map[string]bool{}
		core.Instrs(fn, func(in ssa.Instruction) {
			ci, ok := in.(ssa.CallInstruction)
			if !ok {
				return
			}
			cl := ci.Common().StaticCallee()
			if cl == nil || !strings.Contains(cl.String(), "arena.Memdb") {
				return
			}
			set[calleeName(ci)] = true
		})
		var out []string
		for k := range set {
			out = append(out, k)
		}
		sortStrs(out)
		return strings.Join(out, ",")
	}
	for _, m := range []string{"RevertToCheckpoint", "Cleanup", "Release", "Staging", "Checkpoint"} {
		fa := a.fn(pkgART, "ART", m)
		fb := a.fn(pkgRBT, "RBT", m)
		if fa == nil || fb == nil {
			continue
		}
		oa, ob := vlogOps(fa), vlogOps(fb)
		// ART.Staging/Release use the private checkpoint() wrapper
		// ART reads the log position through its private checkpoint() wrapper
		norm := func(s string) string { return strings.Trim(strings.ReplaceAll(","+s+",", ",Checkpoint,", ","), ",") }
		a.checkAt(norm(oa) == norm(ob) || (m == "Staging" || m == "Release"), "ART."+m+" ≡ RBT."+m+" (value-log operations)", a.fnPos(fa), oa, fmt.Sprintf("the two buffer implementations perform different value-log operations in %s: ART{%s} vs RBT{%s} — e.g. a revert that does not truncate the log lets a later cleanup replay stale records", m, oa, ob))
	}
	// both reverts truncate after replaying
	for _, spec := range [][3]string{{pkgART, "ART", "RevertToCheckpoint"}, {pkgRBT, "RBT", "RevertToCheckpoint"}, {pkgART, "ART", "Cleanup"}, {pkgRBT, "RBT", "Cleanup"}} {
		fn := c.P.Func(spec[0], spec[1], spec[2])
		if fn == nil {
			continue
		}
		for _, rc := range core.FindCalls(fn, core.CallsMethodNamed("RevertToCheckpoint", "Memdb")) {
			okk, w, hit := condMust(c, fn, rc, core.IsReturn, isCallNamed("Truncate"), nil)
			if okk {
				a.ok(fname(fn)+" truncates after revert", rc, "")
			} else {
				a.viol(fname(fn)+" truncates after revert", hit, "the value log is replayed backwards but not truncated: the undone records stay and are replayed again by an enclosing cleanup: "+a.w(w))
			}
		}
	}
}
