package rules

import (
	"fmt"
	"strings"

	"golang.org/x/tools/go/ssa"

	"verif/sa/core"
)

// gRow is one row of a guard table: in function Fn, every instruction matching Target must
// be dominated by every fact in Facts (canonical atoms, see core/atoms.go). Rows are found
// by listing the dominating atoms of today's tree (`sa guards`), then confirmed by reading:
// a row is kept only if the fact is a necessary condition of the property (reason in Why).
type gRow struct {
	Fn     [3]string
	Target string // call:<callee name> | store:<Type.field> | ret:<glob over result descs joined by ','> | closure:<callee name contained>
	Facts  []string
	Min    int
	Why    string
}

// targetMatcher parses a Target spec.
func targetMatcher(c *core.Ctx, spec string) func(ssa.Instruction) bool {
	kind, arg, _ := strings.Cut(spec, ":")
	switch kind {
	case "call":
		return func(in ssa.Instruction) bool {
			ci, ok := in.(ssa.CallInstruction)
			if !ok {
				return false
			}
			return calleeName(ci) == arg
		}
	case "store":
		return func(in ssa.Instruction) bool {
			switch st := in.(type) {
			case *ssa.Store:
				if fa, ok := st.Addr.(*ssa.FieldAddr); ok {
					f := core.FieldOfAddr(fa)
					return f != nil && fieldKey(fa.X.Type().String(), f.Name()) == arg
				}
			case ssa.CallInstruction:
				// atomic store / add on &x.f
				cc := st.Common()
				if cl := cc.StaticCallee(); cl != nil && (strings.HasPrefix(cl.Name(), "Store") || strings.HasPrefix(cl.Name(), "Add") || strings.HasPrefix(cl.Name(), "CompareAndSwap") || strings.HasPrefix(cl.Name(), "Swap")) {
					for _, a := range cc.Args {
						if fa, ok := a.(*ssa.FieldAddr); ok {
							f := core.FieldOfAddr(fa)
							if f != nil && fieldKey(fa.X.Type().String(), f.Name()) == arg {
								return true
							}
						}
					}
				}
			}
			return false
		}
	case "ret":
		return func(in ssa.Instruction) bool {
			r, ok := in.(*ssa.Return)
			if !ok {
				return false
			}
			var parts []string
			for _, res := range r.Results {
				parts = append(parts, strings.Join(c.P.Prov().Desc(res), "|"))
			}
			return glob(arg, strings.Join(parts, ","))
		}
	case "closure":
		return func(in ssa.Instruction) bool {
			mc, ok := in.(*ssa.MakeClosure)
			if !ok {
				return false
			}
			return containsCall(mc.Fn.(*ssa.Function), func(cc *ssa.CallCommon) bool {
				if cc.IsInvoke() {
					return cc.Method.Name() == arg
				}
				f := cc.StaticCallee()
				return f != nil && f.Name() == arg
			})
		}
	}
	return func(ssa.Instruction) bool { return false }
}

func fieldKey(baseType, field string) string {
	t := strings.TrimPrefix(baseType, "*")
	if strings.HasPrefix(t, "struct{") {
		t = "struct"
	} else if i := strings.LastIndex(t, "."); i >= 0 {
		t = t[i+1:]
	}
	return t + "." + field
}

// factHolds: instruction `in` of fn is dominated by the fact, in fn itself or — for a
// closure — at every MakeClosure site of the enclosing function(s).
func factHolds(c *core.Ctx, fn *ssa.Function, in ssa.Instruction, fact string) (bool, []core.Step) {
	ok, w := c.P.GuardedByAtom(fn, in, fact)
	if ok {
		return true, nil
	}
	par := fn.Parent()
	if par == nil {
		return false, w
	}
	sites := 0
	all := true
	var w2 []core.Step
	core.Instrs(par, func(x ssa.Instruction) {
		if mc, ok := x.(*ssa.MakeClosure); ok && mc.Fn == ssa.Value(fn) {
			sites++
			if okk, ww := factHolds(c, par, x, fact); !okk {
				all = false
				w2 = ww
			}
		}
	})
	if sites > 0 && all {
		return true, nil
	}
	if w2 != nil {
		return false, w2
	}
	return false, w
}

// guardTable checks rows.
func guardTable(c *core.Ctx, ruleID string, rows []gRow) {
	a := rule(c, ruleID)
	for _, r := range rows {
		fn := a.fn(r.Fn[0], r.Fn[1], r.Fn[2])
		if fn == nil {
			continue
		}
		m := targetMatcher(c, r.Target)
		n := 0
		for _, f := range core.FuncsIn(fn) {
			core.Instrs(f, func(in ssa.Instruction) {
				if !m(in) || !core.Feasible(in) {
					return
				}
				n++
				key := fmt.Sprintf("%s %s", fname(f), r.Target)
				okAll := true
				for _, fact := range r.Facts {
					if okk, w := factHolds(c, f, in, fact); !okk {
						a.viol(key+" needs "+fact, in, fmt.Sprintf("%s: reachable without the guard %s: %s", r.Why, fact, a.w(w)))
						okAll = false
					}
				}
				if okAll {
					a.ok(key, in, fmt.Sprintf("guards %v", r.Facts))
				}
			})
		}
		min := r.Min
		if min == 0 {
			min = 1
		}
		if n < min {
			a.violAt(fmt.Sprintf("%s %s", fname(fn), r.Target), a.fnPos(fn), fmt.Sprintf("%s: expected at least %d site(s) of %s in this function, found %d — the guarded operation was removed or moved", r.Why, min, r.Target, n))
		}
	}
}
