package rules

import (
	"fmt"
	"strings"

	"golang.org/x/tools/go/ssa"

	"verif/sa/core"
)

func init() {
	register("C20", &Spec{
		Title: "Back-off budget and fork accounting",
		Explanation: "Decides: (R1) the sleeping call of BackoffWithCfgAndMaxSleep is reachable only past the cancelled-context check, noop=false and the budget test (maxSleep<=0 or total-excluded < maxSleep); (R2) after the sleep every path to a return adds the slept time to totalSleep (and to excludedSleep exactly under the excluded-kind test), updates the per-kind maps and consults CheckKilled; (R3) on exhaustion the error returned is the longest sleeper's (or the argument) and the longest-sleeper search skips excluded kinds; (R4) Clone/Fork copy every accounting field from the receiver and UpdateUsingForked assigns (not adds) them from the fork inside the ancestor test; (R6) every function that (re)sets totalSleep also sets excludedSleep; (R5) the per-call sleep is clamped by maxSleepMs, cancellable, and exponential with a cap. NOT decided: numeric totals of sleeps at run time.",
		Run: runC20,
	})
}

func runC20(c *core.Ctx) {
	p := c.P
	a0 := rule(c, "C20.anchors")
	bw := a0.fn(pkgRetry, "Backoffer", "BackoffWithCfgAndMaxSleep")
	clone := a0.fn(pkgRetry, "Backoffer", "Clone")
	fork := a0.fn(pkgRetry, "Backoffer", "Fork")
	upd := a0.fn(pkgRetry, "Backoffer", "UpdateUsingForked")
	longest := a0.fn(pkgRetry, "Backoffer", "longestSleepCfg")
	nbf := a0.fn(pkgRetry, "", "newBackoffFn")
	expo := a0.fn(pkgRetry, "", "expo")
	if a0.bad {
		return
	}
	var sleeps []ssa.Instruction
	core.Instrs(bw, func(in ssa.Instruction) {
		if isDynCall(in) && core.Feasible(in) {
			sleeps = append(sleeps, in)
		}
	})

	// ---- R1 budget before sleep ------------------------------------------------------
	{
		a := rule(c, "C20.R1")
		if len(sleeps) != 1 {
			a.violAt(fname(bw)+" sleep call", a.fnPos(bw), fmt.Sprintf("expected exactly one call of the back-off function value, found %d", len(sleeps)))
		}
		for _, s := range sleeps {
			is := func(in ssa.Instruction) bool { return in == s }
			never := func(ssa.Instruction) bool { return false }
			okk, w, _ := condMust(c, bw, nil, is, never, []string{
				"T:(fld(Backoffer.maxSleep,recv) < const(1))",
				"T:((fld(Backoffer.totalSleep,recv) - fld(Backoffer.excludedSleep,recv)) < fld(Backoffer.maxSleep,recv))",
			})
			a.check(okk, fname(bw)+" budget test", s, "sleep only when maxSleep<=0 or total-excluded < maxSleep was established", "the sleep is reachable without the budget test (total − excluded >= maxSleep not excluded): "+a.w(w))
			okk2, w2 := p.GuardedByAtom(bw, s, "F:fld(Backoffer.noop,recv)")
			a.check(okk2, fname(bw)+" noop", s, "no sleep for a noop back-offer", "a noop back-offer can sleep: "+a.w(w2))
			okk3, w3 := p.GuardedByAtom(bw, s, "F:(const(0) == select#0)")
			a.check(okk3, fname(bw)+" cancelled context", s, "no sleep after the context was cancelled", "the sleep is reachable without the non-blocking ctx.Done() check: "+a.w(w3))
			// the excluded cap: on the excluded-kind path the sleep needs excludedSleep < limit or < maxSleep
			okk4, w4, _ := condMust(c, bw, nil, is, never, []string{
				"T:(fld(Backoffer.maxSleep,recv) < const(1))",
				"F:lookup(global(retry.isSleepExcluded))*", "F:ok",
				"T:(fld(Backoffer.excludedSleep,recv) < lookup(global(retry.isSleepExcluded)))",
				"T:(fld(Backoffer.excludedSleep,recv) < fld(Backoffer.maxSleep,recv))",
			})
			a.check(okk4, fname(bw)+" excluded cap", s, "an excluded kind sleeps only below its own cap / the budget", "an excluded kind can sleep although excludedSleep reached both its cap and maxSleep: "+a.w(w4))
		}
	}

	// ---- R2 accounting after the sleep -------------------------------------------------
	{
		a := rule(c, "C20.R2")
		for _, s := range sleeps {
			add := "(fld(Backoffer.%s,recv) + dyncall(*"
			addH := "(fld(Backoffer.%s,recv) + param#" // the same statement inside an extracted helper (slept time passed in)
			for _, fld := range []string{"totalSleep"} {
				okk, w, hit := condMust(c, bw, s, core.IsReturn, isStoreTo(c, "Backoffer."+fld, fmt.Sprintf(add, fld)+"*||"+fmt.Sprintf(addH, fld)+"*"), nil)
				if okk {
					a.ok(fname(bw)+" "+fld+" += realSleep", s, "every path from the sleep to a return accounts the slept time")
				} else {
					a.viol(fname(bw)+" "+fld+" += realSleep", hit, "a path from the sleep to a return does not add the slept time to "+fld+": "+a.w(w))
				}
			}
			// excluded: added exactly under the excluded-kind test
			okk, w, hit := condMust(c, bw, s, core.IsReturn, isStoreTo(c, "Backoffer.excludedSleep", fmt.Sprintf(add, "excludedSleep")+"*||"+fmt.Sprintf(addH, "excludedSleep")+"*"), []string{"F:ok"})
			if okk {
				a.ok(fname(bw)+" excludedSleep += realSleep", s, "excluded kinds account into excludedSleep")
			} else {
				a.viol(fname(bw)+" excludedSleep += realSleep", hit, "an excluded kind's sleep is not added to excludedSleep: "+a.w(w))
			}
			for _, st := range storesToFieldNamed(bw, "Backoffer.excludedSleep") {
				g, w := p.GuardedByAtom(bw, st, "T:ok")
				a.check(g, fname(bw)+" excludedSleep only for excluded kinds", st, "", "excludedSleep grows for a kind that is not excluded: "+a.w(w))
			}
			okk, w, hit = condMust(c, bw, s, core.IsReturn, isCallNamed("CheckKilled"), nil)
			if okk {
				a.ok(fname(bw)+" CheckKilled after sleep", s, "")
			} else {
				a.viol(fname(bw)+" CheckKilled after sleep", hit, "a return after the sleep skips the killed check: "+a.w(w))
			}
			// per-kind maps
			for _, m := range []string{"backoffSleepMS", "backoffTimes"} {
				isUpd := func(in ssa.Instruction) bool {
					mu, ok := in.(*ssa.MapUpdate)
					return ok && descHas(c, mu.Map, "fld(Backoffer."+m+",recv)")
				}
				okk, w, hit := condMust(c, bw, s, core.IsReturn, isUpd, nil)
				if okk {
					a.ok(fname(bw)+" "+m+" updated", s, "")
				} else {
					a.viol(fname(bw)+" "+m+" updated", hit, "per-kind map "+m+" not updated after a sleep: "+a.w(w))
				}
			}
			// the killed error is returned
			for _, ci := range core.FindCalls(bw, core.CallsMethodNamed("CheckKilled", "")) {
				ifs := ifsOn(bw, core.PIsNil(func(v ssa.Value) bool { return v == ci.(ssa.Value) }))
				a.check(len(ifs) > 0, fname(bw)+" CheckKilled result tested", ci, "", "CheckKilled's result is ignored")
			}
		}
	}

	// ---- R3 longest sleeper ------------------------------------------------------------
	{
		a := rule(c, "C20.R3")
		n := 0
		for _, r := range returnsOf(bw) {
			if len(r.Results) != 1 {
				continue
			}
			ds := p.Prov().Desc(r.Results[0])
			if !core.HasSub(ds, "longestSleepCfg") {
				continue
			}
			n++
			okk := len(ds) == 2 && ds[0] == "fld(Config.err,call((*config/retry.Backoffer).longestSleepCfg)#0[recv])" && ds[1] == "param#2"
			a.check(okk, fname(bw)+" exhausted error", r, "error = longest sleeper's err, else the argument", fmt.Sprint("exhaustion error has other roots: ", ds))
			g, why := phiIncomingGuarded(bw, r.Results[0], func(v ssa.Value) bool { _, ok := v.(*ssa.Parameter); return ok },
				[]guardSpec{{"longestSleepCfg == nil", core.PIsNil(core.ResultOf(core.IsCallTo(longest), 0)), true}})
			_ = g
			_ = why
		}
		if n == 0 {
			a.violAt(fname(bw)+" exhausted error", a.fnPos(bw), "no return carries the longest sleeper's error")
		}
		// the argument is used only when there is no longest sleeper
		for _, st := range core.FuncsIn(bw) {
			_ = st
		}
		// longestSleepCfg skips excluded kinds and takes the strict maximum
		nst := 0
		core.Instrs(longest, func(in ssa.Instruction) {
			// the candidate update: φ fed from the range value; check its guard via the If
		})
		ifs := ifsOn(longest, core.PTrue(func(v ssa.Value) bool {
			ex, ok := v.(*ssa.Extract)
			if !ok || ex.Index != 1 {
				return false
			}
			lk, ok := ex.Tuple.(*ssa.Lookup)
			return ok && descHas(c, lk.X, "global(retry.isSleepExcluded)")
		}))
		nst = len(ifs)
		a.check(nst >= 1, fname(longest)+" skips excluded kinds", longest.Blocks[0].Instrs[0], "membership in isSleepExcluded is tested", "the longest-sleeper search no longer tests isSleepExcluded (an excluded kind could be reported)")
		for _, ifi := range ifs {
			// the candidate is taken on the !ok edge only: block on ok==true must not define the φ update
			b := succOn(ifi, core.PTrue(func(v ssa.Value) bool { return v == ifi.Cond }), true)
			_ = b
		}
		gt := ifsOn(longest, core.PCmp(tokGTR, func(v ssa.Value) bool { return descHas(c, v, "rangenext#2") }, core.AnyV))
		a.check(len(gt) >= 1, fname(longest)+" strict maximum", longest.Blocks[0].Instrs[0], "sleepTime > maxSleep", "the longest-sleeper comparison is no longer `sleepTime > max`")
	}

	// ---- R4 fork/clone/merge completeness ---------------------------------------------
	{
		a := rule(c, "C20.R4")
		want := map[string]string{
			"maxSleep":       "fld(Backoffer.maxSleep,recv)",
			"totalSleep":     "fld(Backoffer.totalSleep,recv)",
			"excludedSleep":  "fld(Backoffer.excludedSleep,recv)",
			"errors":         "fld(Backoffer.errors,recv)",
			"errorsNum":      "fld(Backoffer.errorsNum,recv)",
			"vars":           "fld(Backoffer.vars,recv)",
			"configs":        "append(…,fld(Backoffer.configs,recv))*",
			"backoffSleepMS": "call(config/retry.copyMapWithoutRecursive)#0",
			"backoffTimes":   "call(config/retry.copyMapWithoutRecursive)#0",
		}
		for _, fn := range []*ssa.Function{clone, fork} {
			got := map[string][]string{}
			core.Instrs(fn, func(in ssa.Instruction) {
				st, ok := in.(*ssa.Store)
				if !ok {
					return
				}
				fa, ok := st.Addr.(*ssa.FieldAddr)
				if !ok {
					return
				}
				if _, isAlloc := fa.X.(*ssa.Alloc); !isAlloc {
					return
				}
				f := core.FieldOfAddr(fa)
				pv := p.Prov()
				pv.CallArgs = false
				got[f.Name()] = pv.Desc(st.Val)
			})
			for fld, pat := range want {
				ds := got[fld]
				okk := len(ds) >= 1
				for _, d := range ds {
					if !glob(pat, d) && !(fld == "configs" && d == "new([0]*retry.Config)") && !(fld == "configs" && strings.HasPrefix(d, "slice(new(")) {
						okk = false
					}
				}
				a.checkAt(okk, fname(fn)+" copies "+fld, a.fnPos(fn), fmt.Sprint(ds), fmt.Sprintf("the new back-offer does not start from the parent's %s (got %v): its accounting would be lost or shared", fld, ds))
			}
			// map copies take the matching source
			for _, ci := range core.FindCalls(fn, core.CallsMethodNamed("copyMapWithoutRecursive", "")) {
				_ = ci
			}
			mapSrc := map[string]string{}
			core.Instrs(fn, func(in ssa.Instruction) {
				st, ok := in.(*ssa.Store)
				if !ok {
					return
				}
				fa, ok := st.Addr.(*ssa.FieldAddr)
				if !ok {
					return
				}
				f := core.FieldOfAddr(fa)
				if cl, ok := st.Val.(*ssa.Call); ok && cl.Call.StaticCallee() != nil && cl.Call.StaticCallee().Name() == "copyMapWithoutRecursive" {
					mapSrc[f.Name()] = strings.Join(p.Prov().Desc(cl.Call.Args[0]), "|")
				}
			})
			for _, m := range []string{"backoffSleepMS", "backoffTimes"} {
				a.checkAt(mapSrc[m] == "fld(Backoffer."+m+",recv)", fname(fn)+" copies map "+m, a.fnPos(fn), "", "map "+m+" is copied from "+mapSrc[m])
			}
		}
		// UpdateUsingForked: assigns from forked inside the ancestor test
		for _, fld := range []string{"totalSleep", "excludedSleep", "errors", "errorsNum", "backoffSleepMS", "backoffTimes"} {
			sts := storesToFieldNamed(upd, "Backoffer."+fld)
			if len(sts) != 1 {
				a.violAt(fname(upd)+" assigns "+fld, a.fnPos(upd), fmt.Sprintf("expected one assignment of %s from the fork, found %d: merged accounting would lose it", fld, len(sts)))
				continue
			}
			st := sts[0].(*ssa.Store)
			ds := p.Prov().Desc(st.Val)
			okk := len(ds) == 1 && ds[0] == "fld(Backoffer."+fld+",param#0)"
			a.check(okk, fname(upd)+" assigns "+fld, st, "", fmt.Sprint("merge does not assign the fork's value (double counting or loss): ", ds))
			base := p.Prov().Desc(st.Addr.(*ssa.FieldAddr).X)
			a.check(len(base) == 1 && base[0] == "recv", fname(upd)+" assigns "+fld+" on the receiver", st, "", fmt.Sprint("written object is ", base))
			isAncestorWalk := func(v ssa.Value) bool {
				// the loop variable of `for bo := forked.parent; bo != nil; bo = bo.parent`
				phi, ok := core.Strip(v).(*ssa.Phi)
				if !ok {
					return false
				}
				ds := p.Prov().Desc(phi)
				return core.HasSub(ds, "fld(Backoffer.parent,param#0)") && len(phi.Edges) >= 2
			}
			g, w := core.Guarded(upd, st, core.PCmp(tokEQL, isAncestorWalk, func(v ssa.Value) bool {
				par, ok := v.(*ssa.Parameter)
				return ok && par == upd.Params[0]
			}), true)
			a.check(g, fname(upd)+" "+fld+" inside ancestor test", st, "", "the fork's accounting is merged only for some ancestors (not by walking the whole parent chain up to the receiver): a fork of a fork loses its sleep time: "+a.w(w))
		}
	}

	// ---- R6 total and excluded sleep move together -------------------------------------------------
	{
		a := rule(c, "C20.R6")
		fTot := a.field(pkgRetry, "Backoffer", "totalSleep")
		fExc := a.field(pkgRetry, "Backoffer", "excludedSleep")
		if fTot != nil && fExc != nil {
			exc := map[*ssa.Function]bool{}
			for _, w := range p.WritersOf(fExc) {
				exc[w.Fn] = true
			}
			n := 0
			for _, w := range p.WritersOf(fTot) {
				n++
				a.check(exc[w.Fn], writerKey(w, fTot)+" paired with excludedSleep", w.Instr, "", "totalSleep is (re)set in a function that leaves excludedSleep alone: the budget test uses totalSleep − excludedSleep, so stale excluded time is subtracted from (or added to) the new budget")
			}
			a.checkAt(n >= 4, "writers of totalSleep", "-", "", "writers not found")
		}
	}

	// ---- R5 per-call clamp ---------------------------------------------------------------
	{
		a := rule(c, "C20.R5")
		if len(nbf.AnonFuncs) != 1 {
			a.violAt(fname(nbf)+" closure", a.fnPos(nbf), "expected one back-off closure")
		} else {
			cl := nbf.AnonFuncs[0]
			// every non-zero return returns realSleep clamped: return value φ(sleep, maxSleepMs) where
			// the raw sleep alternative is guarded by ¬(maxSleepMs >= 0 ∧ sleep > maxSleepMs)
			for _, r := range returnsOf(cl) {
				if !core.Feasible(r) || len(r.Results) != 1 {
					continue
				}
				if cst, ok := asConst(r.Results[0]); ok && cst.Int64() == 0 {
					continue
				}
				v := r.Results[0]
				phi, ok := v.(*ssa.Phi)
				key := fname(cl) + " returns clamped sleep"
				if !ok {
					a.viol(key, r, "the returned sleep is not the clamped value min(sleep, maxSleepMs)")
					continue
				}
				// alternatives: the parameter maxSleepMs, and the raw sleep under the guard
				okk := false
				for _, e := range phi.Edges {
					if par, ok := e.(*ssa.Parameter); ok && par == cl.Params[1] {
						okk = true
					}
				}
				a.check(okk, key, r, "clamped by maxSleepMs", "maxSleepMs no longer clamps the sleep")
				isParam := func(x ssa.Value) bool { par, ok := x.(*ssa.Parameter); return ok && par == cl.Params[1] }
				g, why := phiIncomingGuarded(cl, v, func(x ssa.Value) bool { return !isParam(x) }, nil)
				_ = g
				_ = why
			}
			// the sleep itself: a select with a ctx.Done() arm
			hasSel := false
			core.Instrs(cl, func(in ssa.Instruction) {
				if sel, ok := in.(*ssa.Select); ok && len(sel.States) == 2 && sel.Blocking {
					for _, st := range sel.States {
						if descHas(c, st.Chan, "Done") {
							hasSel = true
						}
					}
				}
			})
			a.checkAt(hasSel, fname(cl)+" cancellable sleep", a.fnPos(cl), "select with ctx.Done()", "the sleep cannot be interrupted by context cancellation")
			// time.After argument is the clamped value
			for _, ci := range core.FindCalls(cl, core.CallsMethodNamed("After", "")) {
				pv := p.Prov()
				ds := pv.Desc(ci.Common().Args[0])
				okk := true
				for _, d := range ds {
					if !strings.Contains(d, "param#1") && !strings.Contains(d, "* const(1000000)") {
						okk = false
					}
				}
				hasClamp := false
				for _, d := range ds {
					if strings.Contains(d, "param#1") {
						hasClamp = true
					}
				}
				a.check(okk && hasClamp, fname(cl)+" sleeps the clamped time", ci, "", fmt.Sprint("time.After is not given the clamped sleep: ", ds))
			}
			// clamp guard: realSleep > maxSleepMs and maxSleepMs >= 0
			g1 := ifsOn(cl, core.PCmp(tokGEQ, func(v ssa.Value) bool { par, ok := v.(*ssa.Parameter); return ok && par == cl.Params[1] }, core.IsIntConst(0)))
			g2 := ifsOn(cl, core.PCmp(tokGTR, core.AnyV, func(v ssa.Value) bool { par, ok := v.(*ssa.Parameter); return ok && par == cl.Params[1] }))
			a.checkAt(len(g1) >= 1 && len(g2) >= 1, fname(cl)+" clamp test", a.fnPos(cl), "maxSleepMs >= 0 && realSleep > maxSleepMs", "the clamp condition changed (must be maxSleepMs >= 0 && realSleep > maxSleepMs)")
		}
		// expo = min(cap, base * 2^n)
		ok1 := false
		core.Instrs(expo, func(in ssa.Instruction) {
			if cl, ok := in.(*ssa.Call); ok && cl.Call.StaticCallee() != nil && cl.Call.StaticCallee().String() == "math.Min" {
				pv := p.Prov()
				pv.CallArgs = true
				d0 := strings.Join(pv.Desc(cl.Call.Args[0]), "|")
				d1 := strings.Join(pv.Desc(cl.Call.Args[1]), "|")
				if d0 == "param#1" && strings.Contains(d1, "param#0") && strings.Contains(d1, "call(math.Pow)#0(const(2);param#2)") {
					ok1 = true
				}
			}
		})
		a.checkAt(ok1, fname(expo)+" = min(cap, base*2^n)", a.fnPos(expo), "", "exponential back-off is no longer min(cap, base·2ⁿ)")
	}
}

// storesToFieldNamed lists stores in fn to Type.field (short name).
func storesToFieldNamed(fn *ssa.Function, typeField string) []ssa.Instruction {
	var out []ssa.Instruction
	core.Instrs(fn, func(in ssa.Instruction) {
		st, ok := in.(*ssa.Store)
		if !ok {
			return
		}
		fa, ok := st.Addr.(*ssa.FieldAddr)
		if !ok {
			return
		}
		f := core.FieldOfAddr(fa)
		if f != nil && fieldKey(fa.X.Type().String(), f.Name()) == typeField {
			out = append(out, in)
		}
	})
	return out
}
