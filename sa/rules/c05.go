package rules

import (
	"fmt"
	"go/token"
	"strings"

	"golang.org/x/tools/go/ssa"

	"verif/sa/core"
)

func init() {
	register("C05", &Spec{
		Title: "Snapshot reads are stable and identical across all access paths",
		Explanation: "Decides: (R1) the snapshot cache is tied to the version: moving the timestamp always drops the cache and the pushed-lock set, the cache map is written only by UpdateSnapshotCache (never for the max timestamp; called only after the visibility check succeeded and, in batch get, only for the snapshot tier) and consulted only for the snapshot tier; (R2) a met lock is never skipped: in get / batch get (sync and async) / scan a response carrying a key error leads only to an error return or to resolve → (back-off when not expired) → re-send, data is taken from a response only when it carried no error, batch get narrows the pending keys to the locked keys only when the response had no response-level error, and a locked scan pair is re-read by a point get before it is yielded; (R3) read-side lock classification is the partition ignore ⇔ pushed ∨ rolled back ∨ committed after the snapshot, read-through ⇔ committed at or before it, wait otherwise (decided over all orderings/flags), and the two lists reach the right request fields on every send; (R4) every read request carries the snapshot version and every read-side resolve passes it as the caller start ts; (R5) scan cursors: +∞ sentinel discipline in the scanner, continuation keys (next start = region end or successor of the last key; reverse: region start or last key), request bounds clamped to the region under an emptiness test, eof raised only on the last region / exhausted range; plus imported rules: region-cache +∞ discipline (C09.R4), mock MVCC read guards (C12.R4), never resolve a live lock (C02.R3), visibility check after each read (C14.R1). NOT decided: equality of the four access paths' results with the MVCC truth over histories, layouts and schedules.",
		Run: runC05,
	})
}

func runC05(c *core.Ctx) {
	runC05own(c)
	c.Import(runC09, "C09", []string{"R4"}, "viaC09")
	c.Import(runC12, "C12", []string{"R4"}, "viaC12")
	c.Import(runC02, "C02", []string{"R3"}, "viaC02")
	c.Import(runC14, "C14", []string{"R1"}, "viaC14")
}

func runC05own(c *core.Ctx) {
	p := c.P
	pv := p.Prov()
	a0 := rule(c, "C05.anchors")
	setTS := a0.fn(pkgSnap, "KVSnapshot", "SetSnapshotTS")
	updCache := a0.fn(pkgSnap, "KVSnapshot", "UpdateSnapshotCache")
	snapGet := a0.fn(pkgSnap, "KVSnapshot", "Get")
	bgTier := a0.fn(pkgSnap, "KVSnapshot", "BatchGetWithTier")
	get := a0.fn(pkgSnap, "KVSnapshot", "get")
	bgSingle := a0.fn(pkgSnap, "KVSnapshot", "batchGetSingleRegion")
	bgRetry := a0.fn(pkgSnap, "KVSnapshot", "retryBatchGetSingleRegionAfterAsyncAPI")
	bgAsync := a0.fn(pkgSnap, "KVSnapshot", "tryBatchGetSingleRegionUsingAsyncAPI")
	collect := a0.fn(pkgSnap, "", "collectBatchGetResponseData")
	handleLocks := a0.fn(pkgSnap, "KVSnapshot", "handleBatchGetLocks")
	getData := a0.fn(pkgSnap, "Scanner", "getData")
	next := a0.fn(pkgSnap, "Scanner", "Next")
	resolveCur := a0.fn(pkgSnap, "Scanner", "resolveCurrentLock")
	chResolveOpts := a0.fn(pkgSnap, "ClientHelper", "ResolveLocksWithOpts")
	chResolve := a0.fn(pkgSnap, "ClientHelper", "ResolveLocks")
	chSend := a0.fn(pkgSnap, "ClientHelper", "SendReqCtx")
	chSendAsync := a0.fn(pkgSnap, "ClientHelper", "SendReqAsync")
	resolveLocks := a0.fn(pkgLock, "LockResolver", "resolveLocks")
	forRead := a0.fn(pkgLock, "LockResolver", "ResolveLocksForRead")
	fVersion := a0.field(pkgSnap, "KVSnapshot", "version")
	if a0.bad {
		return
	}
	descSet := func(v ssa.Value) string {
		ds := pv.Desc(v)
		sortStrs(ds)
		return strings.Join(ds, "|")
	}

	// ---- R1 cache tied to the version ----------------------------------------------------------------------
	{
		a := rule(c, "C05.R1")
		// writers of version
		for _, w := range p.WritersOf(fVersion) {
			if isProbe(c, w.Fn) {
				continue
			}
			switch {
			case w.Fn == setTS:
				okk, ww, hit := core.MustPassAfter(setTS, w.Instr, isStoreTo(c, "struct.cached", "nil"), core.IsReturn, nil)
				if okk {
					a.ok(fname(setTS)+" drops the cache when the version moves", w.Instr, "")
				} else {
					a.viol(fname(setTS)+" drops the cache when the version moves", hit, "the snapshot timestamp is changed but answers cached for the old timestamp survive: "+a.w(ww))
				}
				okk, ww, hit = core.MustPassAfter(setTS, w.Instr, isStoreTo(c, "KVSnapshot.resolvedLocks", ""), core.IsReturn, nil)
				if okk {
					a.ok(fname(setTS)+" drops the pushed-lock set when the version moves", w.Instr, "")
				} else {
					a.viol(fname(setTS)+" drops the pushed-lock set when the version moves", hit, "locks whose min-commit-ts was pushed above the OLD timestamp stay ignorable for the new one: "+a.w(ww))
				}
			case fname(w.Fn) == "txnkv/txnsnapshot.NewTiKVSnapshot":
				a.ok("version set by the constructor", w.Instr, "")
			default:
				a.viol("KVSnapshot.version writer "+fname(w.Fn), w.Instr, "the snapshot version is changed outside SetSnapshotTS/the constructor: cached answers and pushed locks of the old version are not dropped")
			}
		}
		// the cache map: field stores and map updates
		isCachedMap := func(v ssa.Value) bool { return descHas(c, v, "fld(struct.cached,&fld(KVSnapshot.mu,") }
		nUpd := 0
		for _, fn := range pkgFuncs(c, pkgSnap) {
			if isProbe(c, fn) || strings.HasSuffix(p.Fset.Position(fn.Pos()).Filename, "_test.go") {
				continue
			}
			core.Instrs(fn, func(in ssa.Instruction) {
				switch x := in.(type) {
				case *ssa.MapUpdate:
					if !isCachedMap(x.Map) {
						return
					}
					nUpd++
					if enclosing(fn) != updCache {
						a.viol("snapshot cache written by "+fname(fn), in, "the snapshot cache is filled outside UpdateSnapshotCache (no version / max-timestamp guard)")
						return
					}
					g, w := p.GuardedByAtom(fn, in, "F:(const(18446744073709551615) == fld(KVSnapshot.version,recv))")
					a.check(g, fname(fn)+" never caches for the max timestamp", in, "", "answers read at the max timestamp (always-latest reads) are cached and returned again later: "+a.w(w))
				case *ssa.Store:
					fa, ok := x.Addr.(*ssa.FieldAddr)
					if !ok {
						return
					}
					f := core.FieldOfAddr(fa)
					if f == nil || f.Name() != "cached" || !descHas(c, fa.X, "fld(KVSnapshot.mu,") {
						return
					}
					switch {
					case enclosing(fn) == updCache:
						g, w := p.GuardedByAtom(fn, in, "F:(const(18446744073709551615) == fld(KVSnapshot.version,recv))")
						a.check(g, fname(fn)+" never creates the cache for the max timestamp", in, "", a.w(w))
					case enclosing(fn) == setTS && isNil(x.Val):
						// counted above
					default:
						a.viol("snapshot cache replaced by "+fname(fn), in, "the snapshot cache map is replaced outside UpdateSnapshotCache/SetSnapshotTS")
					}
				}
			})
		}
		a.checkAt(nUpd >= 1, "snapshot cache fill site", a.fnPos(updCache), fmt.Sprint(nUpd), "cache fill not found")
		// call sites of UpdateSnapshotCache in production code
		nCalls := 0
		for _, cs := range p.CallersOf(updCache) {
			if isProbe(c, cs.Fn) || !p.InModule(cs.Fn) || strings.HasSuffix(p.Fset.Position(cs.Fn.Pos()).Filename, "_test.go") {
				continue
			}
			if enclosing(cs.Fn).Pkg != p.Pkg(pkgSnap) {
				// other packages (e.g. the transaction's buffer-miss path) feed answers obtained through this snapshot
				continue
			}
			nCalls++
			in := ssa.Instruction(cs.Instr)
			g, w := core.MustPassBefore(cs.Fn, in, isCallNamed("CheckVisibility"))
			a.check(g, fname(cs.Fn)+" caches only after the visibility check", in, "", "an answer is cached before the safe-point visibility check: "+a.w(w))
			g2, w2 := p.GuardedByAtom(cs.Fn, in, "T:(invoke(txnsnapshot.kvstore.CheckVisibility)#0[fld(KVSnapshot.store,recv)] == nil)")
			a.check(g2, fname(cs.Fn)+" caches only when the visibility check passed", in, "", a.w(w2))
			if cs.Fn == bgTier {
				g3, w3 := p.GuardedByAtom(cs.Fn, in, "T:(const(1) == param#2)")
				a.check(g3, fname(cs.Fn)+" caches only snapshot-tier answers", in, "", "buffer-tier answers (uncommitted pipelined data) are put into the snapshot cache: "+a.w(w3))
			}
		}
		a.checkAt(nCalls >= 2, "UpdateSnapshotCache call sites", a.fnPos(updCache), fmt.Sprint(nCalls), "call sites not found")
		// the cache is consulted in batch get only for the snapshot tier
		for _, ci := range core.FindCalls(bgTier, core.CallsMethodNamed("getSnapCacheWithoutLock", "")) {
			g, w := p.GuardedByAtom(bgTier, ci, "T:(const(1) == param#2)")
			a.check(g, fname(bgTier)+" consults the cache only for the snapshot tier", ci, "", "buffer-tier reads are answered from the snapshot cache: "+a.w(w))
		}
		_ = snapGet
	}

	// ---- R2 a met lock is never skipped -------------------------------------------------------------------------
	{
		a := rule(c, "C05.R2")
		guardTable(c, "C05.R2", []gRow{
			{Fn: [3]string{pkgSnap, "KVSnapshot", "get"}, Target: "ret:call(kv.NewValueEntry)#0,nil", Facts: []string{"T:(call((*kvrpcpb.GetResponse).GetError)#0[*] == nil)", "T:(call((*tikvrpc.Response).GetRegionError)#0[*] == nil)"}, Min: 1,
				Why: "a point get answers only from a response without key error and without region error"},
			{Fn: [3]string{pkgSnap, "KVSnapshot", "batchGetSingleRegion"}, Target: "ret:nil", Facts: []string{"T:(len(fld(batchGetLockInfo.lockedKeys,call(txnkv/txnsnapshot.collectBatchGetResponseData)#0)) < const(1))", "T:(call((*tikvrpc.Response).GetRegionError)#0[*] == nil)"}, Min: 1,
				Why: "batch get finishes a region only when no key of the response was locked"},
			{Fn: [3]string{pkgSnap, "KVSnapshot", "retryBatchGetSingleRegionAfterAsyncAPI"}, Target: "ret:nil", Facts: []string{"T:(len(fld(batchGetLockInfo.lockedKeys,*)) < const(1))", "T:(*GetRegionError)#0[*] == nil)"}, Min: 1,
				Why: "the async retry loop finishes only when no key was locked"},
			{Fn: [3]string{pkgSnap, "Scanner", "getData"}, Target: "store:Scanner.cache", Facts: []string{"T:(call((*kvrpcpb.ScanResponse).GetError)#0[*] == nil)", "T:(call((*tikvrpc.Response).GetRegionError)#0[*] == nil)"}, Min: 1,
				Why: "scan pairs are accepted only from a response without response-level key error (the pairs of an error response are incomplete)"},
			{Fn: [3]string{pkgSnap, "Scanner", "getData"}, Target: "store:Scanner.nextStartKey", Facts: []string{"T:(call((*kvrpcpb.ScanResponse).GetError)#0[*] == nil)"}, Min: 2,
				Why: "the scan cursor advances only past a response without response-level key error"},
			{Fn: [3]string{pkgSnap, "Scanner", "getData"}, Target: "store:Scanner.nextEndKey", Facts: []string{"T:(call((*kvrpcpb.ScanResponse).GetError)#0[*] == nil)"}, Min: 2,
				Why: "the reverse scan cursor advances only past a response without response-level key error"},
			{Fn: [3]string{pkgSnap, "", "collectBatchGetResponseData"}, Target: "call:dyn", Facts: []string{"F:(fld(Response.Resp,param#0) == nil)"}, Min: 2,
				Why: "collected pairs come from a present response body"},
		})
		// collect: the pair callback runs only for pairs without error and responses without response-level error
		nKv := 0
		core.Instrs(collect, func(in ssa.Instruction) {
			ci, ok := in.(*ssa.Call)
			if !ok || ci.Call.IsInvoke() || ci.Call.StaticCallee() != nil {
				return
			}
			if par, ok := ci.Call.Value.(*ssa.Parameter); !ok || par != collect.Params[1] {
				return
			}
			nKv++
			g1, w1 := p.GuardedByAtom(collect, in, "T:(call((*kvrpcpb.KvPair).GetError)#0[*] == nil)")
			a.check(g1, fname(collect)+" yields only pairs without key error", in, "", "a pair carrying a lock error is handed to the result collector as if it were data: "+a.w(w1))
			g2, w2 := p.GuardedByAtom(collect, in, "T:(call((*kvrpcpb.BatchGetResponse).GetError)#0[*] == nil)")
			a.check(g2, fname(collect)+" yields pairs only without a response-level error", in, "", a.w(w2))
		})
		a.checkAt(nKv == 1, fname(collect)+" pair callback site", a.fnPos(collect), "", "pair callback not found")
		// collect: a pair with error always lands in lockedKeys (or an error return)
		for _, ifi := range ifsOn(collect, core.PIsNil(func(v ssa.Value) bool { return descHas(c, v, "(*kvrpcpb.KvPair).GetError)#0") })) {
			b := succOn(ifi, core.PIsNil(func(v ssa.Value) bool { return descHas(c, v, "(*kvrpcpb.KvPair).GetError)#0") }), false)
			if b == nil {
				a.undAt(fname(collect)+" pair-error branch", a.fnPos(collect), "cannot locate the error edge")
				continue
			}
			// from the error edge: next loop iteration / return reached only through lockedKeys append or an error return
			found, w, hit := reachFromBlock(collect, b, isStoreTo(c, "batchGetLockInfo.lockedKeys", ""), nil, func(in ssa.Instruction) bool {
				if r, ok := in.(*ssa.Return); ok {
					return len(r.Results) == 2 && isNil(r.Results[1])
				}
				if ci, ok := in.(ssa.CallInstruction); ok && calleeName(ci) == "GetError" && strings.Contains(descSet(ci.Common().Args[0]), "idx(") {
					return true // next pair
				}
				return false
			})
			if found {
				a.viol(fname(collect)+" records every locked pair", hit, "a pair with a lock error can be passed over without recording its key as locked: the key silently disappears from the batch-get result: "+a.w(w))
			} else {
				a.ok(fname(collect)+" records every locked pair", ifi, "")
			}
		}
		// after a key error the request is re-sent only after resolving
		type resend struct {
			fn      *ssa.Function
			from    func(*ssa.CallCommon) bool
			resolve string
			send    string
			bypass  []string
		}
		for _, rs := range []resend{
			{get, core.CallsMethodNamed("ExtractLockFromKeyErr", ""), "ResolveLocksWithOpts", "SendReqCtx", []string{"T:(const(18446744073709551615) == fld(KVSnapshot.version,recv))"}},
			{getData, core.CallsMethodNamed("ExtractLockFromKeyErr", ""), "ResolveLocks", "SendReq", []string{"F:(const(0) == len(fld(KvPair.Key,*)))", "F:(len(fld(KvPair.Key,*)) < const(1))"}},
			{bgSingle, core.CallsMethodNamed("collectBatchGetResponseData", ""), "handleBatchGetLocks", "SendReqCtx", []string{"T:(len(fld(batchGetLockInfo.lockedKeys,*)) < const(1))"}},
		} {
			froms := core.FindCalls(rs.fn, rs.from)
			a.checkAt(len(froms) >= 1, fname(rs.fn)+" lock handling", a.fnPos(rs.fn), "", "lock extraction not found")
			for _, fr := range froms {
				if rs.fn == getData {
					// only the response-level extraction (the pair-level one fills in the key and keeps the pair, which Next resolves)
					if g, _ := p.GuardedByAtom(getData, fr, "F:(call((*kvrpcpb.ScanResponse).GetError)#0[*] == nil)"); !g {
						continue
					}
				}
				okk, w, hit := condMust(c, rs.fn, fr, isCallNamed(rs.send), isCallNamed(rs.resolve), rs.bypass)
				if okk {
					a.ok(fname(rs.fn)+" re-sends only after resolving the met lock", fr, "")
				} else {
					a.viol(fname(rs.fn)+" re-sends only after resolving the met lock", hit, "after a response carrying a lock the request is re-sent without resolving it: the read spins on the lock / waits forever: "+a.w(w))
				}
				// and it cannot fall through to a success exit
				okk2, w2, hit2 := condMust(c, rs.fn, fr, func(in ssa.Instruction) bool {
					if r, ok := in.(*ssa.Return); ok {
						e := r.Results[len(r.Results)-1]
						return isNil(e)
					}
					if rs.fn == getData {
						return isStoreTo(c, "Scanner.cache", "")(in)
					}
					return false
				}, isCallNamed(rs.send), rs.bypass)
				if okk2 {
					a.ok(fname(rs.fn)+" never treats a locked response as data", fr, "")
				} else {
					a.viol(fname(rs.fn)+" never treats a locked response as data", hit2, "after a response carrying a lock the function can succeed / accept the response's pairs without re-reading: "+a.w(w2))
				}
			}
		}
		// the autocommit exception in get records the skipped lock as resolved
		for _, fr := range core.FindCalls(get, core.CallsMethodNamed("ExtractLockFromKeyErr", "")) {
			okk, w, hit := condMust(c, get, fr, isCallNamed("SendReqCtx"), func(in ssa.Instruction) bool {
				return isCallNamed("ResolveLocksWithOpts")(in) || (isCallNamed("Put")(in) && descHas(c, in.(ssa.CallInstruction).Common().Args[0], "ClientHelper.resolvedLocks"))
			}, nil)
			if okk {
				a.ok(fname(get)+" frozen exception: autocommit get ignores a second transaction's lock by recording it", fr, "")
			} else {
				a.viol(fname(get)+" skipped lock is recorded as ignorable", hit, "a lock is skipped without being resolved or recorded in resolvedLocks: the re-sent request meets it again forever: "+a.w(w))
			}
		}
		// resolve, then back off while the lock is alive
		for _, spec := range []struct {
			fn      *ssa.Function
			resolve string
			send    string
			ttl     string
		}{
			{get, "ResolveLocksWithOpts", "SendReqCtx", "F:(fld(ResolveLockResult.TTL,*) < const(1))"},
			{getData, "ResolveLocks", "SendReq", "F:(call(*ResolveLocks)#0* < const(1))"},
		} {
			for _, rc := range core.FindCalls(spec.fn, core.CallsMethodNamed(spec.resolve, "")) {
				q := &core.Q{Fn: spec.fn, NoPass: isCallNamed("BackoffWithMaxSleepTxnLockFast"), NoEdge: func(e core.Edge) bool {
					at := p.EdgeAtom(e)
					return strings.HasPrefix(at, "T:") && glob("T:"+strings.TrimPrefix(spec.ttl, "F:"), at)
				}}
				found, w, hit := q.Reach(rc, isCallNamed(spec.send))
				if found {
					a.viol(fname(spec.fn)+" backs off while the lock is alive", hit, "the request is re-sent immediately although the lock has time to live: a busy loop against the store: "+a.w(w))
				} else {
					a.ok(fname(spec.fn)+" backs off while the lock is alive", rc, "")
				}
			}
		}
		{
			rcs := core.FindCalls(handleLocks, core.CallsMethodNamed("ResolveLocksWithOpts", ""))
			a.checkAt(len(rcs) == 1, fname(handleLocks)+" resolves the met locks", a.fnPos(handleLocks), "", "resolve call not found")
			for _, rc := range rcs {
				q := &core.Q{Fn: handleLocks, NoPass: isCallNamed("BackoffWithMaxSleepTxnLockFast"), NoEdge: func(e core.Edge) bool {
					return glob("T:(fld(ResolveLockResult.TTL,*) < const(1))", p.EdgeAtom(e)) || glob("F:(* == nil)", p.EdgeAtom(e))
				}}
				found, w, hit := q.Reach(rc, func(in ssa.Instruction) bool {
					r, ok := in.(*ssa.Return)
					return ok && isNil(r.Results[0])
				})
				if found {
					a.viol(fname(handleLocks)+" backs off while the lock is alive", hit, a.w(w))
				} else {
					a.ok(fname(handleLocks)+" backs off while the lock is alive", rc, "")
				}
				ds := descSet(rc.Common().Args[2])
				_ = ds
			}
			for _, st := range storesToFieldNamed(handleLocks, "ResolveLocksOptions.Locks") {
				d := descSet(st.(*ssa.Store).Val)
				a.check(d == "fld(batchGetLockInfo.locks,param#1)", fname(handleLocks)+" resolves all met locks", st, d, "not all locks met by the batch get are resolved: "+d)
			}
		}
		// batch get narrows `pending` only without a response-level error
		for _, spec := range []struct {
			fn  *ssa.Function
			arg int
		}{{bgSingle, 1}, {bgRetry, 1}} {
			for _, bc := range core.FindCalls(spec.fn, core.CallsMethodNamed("buildBatchGetRequest", "")) {
				keys := bc.Common().Args[spec.arg]
				isLocked := func(v ssa.Value) bool { return descHas(c, v, "batchGetLockInfo.lockedKeys") }
				isKeyErrNil := core.PIsNil(func(v ssa.Value) bool { return descHas(c, v, "fld(batchGetLockInfo.keyErr,") })
				if spec.fn == bgRetry {
					// batch.keys is a field of a spilled parameter: look at its stores
					n := 0
					for _, st := range storesToFieldNamed(spec.fn, "batchKeys.keys") {
						if !isLocked(st.(*ssa.Store).Val) {
							continue
						}
						n++
						g, w := core.Guarded(spec.fn, st, isKeyErrNil, true)
						a.check(g, fname(spec.fn)+" narrows the pending keys only without a response-level error", st, "", "after a response-level lock error (no pairs were read) only the locked key is re-read: every other key of the batch is reported missing: "+a.w(w))
					}
					a.checkAt(n == 1, fname(spec.fn)+" narrows the pending keys", a.fnPos(spec.fn), "", "narrowing site not found")
					continue
				}
				g, why := phiIncomingGuarded(spec.fn, keys, isLocked, []guardSpec{{"lockInfo.keyErr == nil", isKeyErrNil, true}})
				d := descSet(keys)
				a.check(strings.Contains(d, "batchGetLockInfo.lockedKeys") && strings.Contains(d, "fld(batchKeys.keys,"), fname(spec.fn)+" pending keys are the batch or the locked keys", bc, d, "unexpected pending key set: "+d)
				a.check(g, fname(spec.fn)+" narrows the pending keys only without a response-level error", bc, "", "after a response-level lock error (no pairs were read) only the locked key is re-read: every other key of the batch is reported missing: "+why)
			}
		}
		// async callback: success is reported only when nothing was locked and no region error
		{
			var onResp *ssa.Function
			for _, an := range bgAsync.AnonFuncs {
				if len(core.FindCalls(an, core.CallsMethodNamed("collectBatchGetResponseData", ""))) > 0 {
					onResp = an
				}
			}
			if onResp == nil {
				a.undAt(fname(bgAsync)+" response callback", a.fnPos(bgAsync), "callback closure not found")
			} else {
				n := 0
				for _, ci := range core.FindCalls(onResp, core.CallsMethodNamed("Invoke", "")) {
					args := ci.Common().Args
					if !isNil(args[len(args)-1]) {
						continue
					}
					n++
					g, w := p.GuardedByAtom(onResp, ci, "T:(len(fld(batchGetLockInfo.lockedKeys,*)) < const(1))")
					a.check(g, fname(onResp)+" reports success only when no key was locked", ci, "", a.w(w))
					g2, w2 := p.GuardedByAtom(onResp, ci, "T:(*GetRegionError)#0[*] == nil)")
					a.check(g2, fname(onResp)+" reports success only without region error", ci, "", a.w(w2))
				}
				a.checkAt(n == 1, fname(onResp)+" success report", a.fnPos(onResp), "", "success report not found")
			}
		}
		// scanner: a locked pair is yielded only after re-reading it with a point get
		{
			isErrNil := core.PIsNil(func(v ssa.Value) bool { return descHas(c, v, "(*kvrpcpb.KvPair).GetError)#0") })
			ifs := ifsOn(next, isErrNil)
			a.checkAt(len(ifs) == 1, fname(next)+" checks the current pair for a lock", a.fnPos(next), "", "lock test of the current pair not found")
			for _, ifi := range ifs {
				b := succOn(ifi, isErrNil, false)
				found, w, hit := reachFromBlock(next, b, isCallNamed("resolveCurrentLock"), nil, core.IsReturn)
				if found {
					a.viol(fname(next)+" resolves a locked pair before yielding it", hit, "a scan pair that carries a lock error is yielded (with an empty value) or skipped without re-reading the key: "+a.w(w))
				} else {
					a.ok(fname(next)+" resolves a locked pair before yielding it", ifi, "")
				}
				// every yield (return nil while valid) passes the lock test
				for _, r := range returnsOf(next) {
					if !isNil(r.Results[0]) {
						continue
					}
					q := &core.Q{Fn: next, NoPass: func(in ssa.Instruction) bool {
						return in == ssa.Instruction(ifi) || isCallNamed("Close")(in)
					}}
					if f2, w2, _ := q.Reach(nil, func(in ssa.Instruction) bool { return in == ssa.Instruction(r) }); f2 {
						a.viol(fname(next)+" every yielded pair was tested for a lock", r, "a pair is yielded without looking at its error field: "+a.w(w2))
					} else {
						a.ok(fname(next)+" every yielded pair was tested for a lock", r, "")
					}
				}
			}
			gets := core.FindCalls(resolveCur, core.CallsMethodNamed("get", ""))
			a.checkAt(len(gets) == 1, fname(resolveCur)+" re-reads by point get", a.fnPos(resolveCur), "", "point get not found")
			for _, g := range gets {
				d := descSet(g.Common().Args[3])
				a.check(d == "fld(KvPair.Key,param#1)", fname(resolveCur)+" re-reads the locked key", g, d, "the point get reads another key: "+d)
			}
			for _, st := range storesToFieldNamed(resolveCur, "KvPair.Value") {
				d := descSet(st.(*ssa.Store).Val)
				a.check(strings.HasPrefix(d, "fld(ValueEntry.Value,"), fname(resolveCur)+" takes the value of the point get", st, d, "the pair's value is not the point get's answer: "+d)
				g, w := p.GuardedByAtom(resolveCur, st, "T:(call((*txnkv/txnsnapshot.KVSnapshot).get)#1[*] == nil)")
				a.check(g, fname(resolveCur)+" fills the pair only when the point get succeeded", st, "", a.w(w))
			}
		}
	}

	// ---- R3 read-side lock classification -------------------------------------------------------------------------
	{
		a := rule(c, "C05.R3")
		pushedK := constInt(c, kvrpcpb, "Action_MinCommitTSPushed")
		isAction := func(v ssa.Value) bool { return descHas(c, v, "fld(TxnStatus.action,") }
		pPushed := core.PCmp(token.EQL, isAction, core.IsIntConst(pushedK))
		pRolled := core.PTrue(core.IsCallNamed("IsRolledBack"))
		pCommitted := core.PTrue(core.IsCallNamed("IsCommitted"))
		ifs := ifsOn(resolveLocks, pPushed)
		a.checkAt(len(ifs) == 1, fname(resolveLocks)+" classification entry", a.fnPos(resolveLocks), "", "classification (`status.action == MinCommitTSPushed`) not found")
		// identify the two append sinks by the result field they flow into
		var retIgnore, retAccess ssa.Value
		for _, st := range storesToFieldNamed(resolveLocks, "ResolveLockResult.IgnoreLocks") {
			retIgnore = st.(*ssa.Store).Val
		}
		for _, st := range storesToFieldNamed(resolveLocks, "ResolveLockResult.AccessLocks") {
			retAccess = st.(*ssa.Store).Val
		}
		if len(ifs) == 1 && retIgnore != nil && retAccess != nil {
			appendInto := func(root ssa.Value) func(ssa.Instruction) bool {
				set := phiClosure(root)
				return func(in ssa.Instruction) bool {
					cl, ok := in.(*ssa.Call)
					if !ok {
						return false
					}
					if b, ok := cl.Call.Value.(*ssa.Builtin); !ok || b.Name() != "append" {
						return false
					}
					return set[cl]
				}
			}
			sinks := map[string]func(ssa.Instruction) bool{
				"ignore": appendInto(retIgnore),
				"access": appendInto(retAccess),
				"wait":   isCallNamed("UntilExpired"),
			}
			pairs := []orderPair{{"commitTS:callerStartTS", "call((txnkv/txnlock.TxnStatus).CommitTS)#0*", "fld(ResolveLocksOptions.CallerStartTS,*"}}
			flags := []flagAtom{{"pushed", pPushed}, {"rolledBack", pRolled}, {"committed", pCommitted}}
			stop := func(in ssa.Instruction) bool {
				// next loop iteration / function exit
				if _, ok := in.(*ssa.Return); ok {
					return true
				}
				if n, ok := in.(*ssa.Next); ok && !n.IsString {
					return true
				}
				return isCallNamed("IsShared")(in)
			}
			res := decisionSinks(c, resolveLocks, ifs[0].Block(), pairs, flags, stop, sinks)
			bad := 0
			for _, sc := range res {
				pushed, rolled, committed := sc.Case.Flag[0], sc.Case.Flag[1], sc.Case.Flag[2]
				ord := sc.Case.Ord[0]
				want := "wait"
				switch {
				case pushed || rolled || (committed && ord > 0):
					want = "ignore"
				case committed && ord <= 0:
					want = "access"
				}
				got := strings.Join(sc.Reached, "+")
				if got != want {
					bad++
					a.violAt(fname(resolveLocks)+" read-side classification", p.InstrPos(ifs[0]), fmt.Sprintf("for %s a lock is classified %q, expected %q (ignore ⇔ pushed ∨ rolled back ∨ committed after the snapshot; read through ⇔ committed at or before it; otherwise wait)", sc.Case.String(pairs, flags), got, want))
				}
			}
			if bad == 0 {
				a.okAt(fname(resolveLocks)+" read-side classification", p.InstrPos(ifs[0]), fmt.Sprintf("%d cases evaluated", len(res)))
			}
			// the appended element is the lock's transaction id
			for name, root := range map[string]ssa.Value{"ignore": retIgnore, "access": retAccess} {
				for v := range phiClosure(root) {
					cl, ok := v.(*ssa.Call)
					if !ok {
						continue
					}
					for _, e := range appendedElems(cl) {
						d := descSet(e)
						a.check(strings.HasPrefix(d, "fld(Lock.TxnID,"), fname(resolveLocks)+" "+name+" list holds lock transaction ids", cl, d, "a value other than the lock's start ts is recorded: "+d)
					}
				}
			}
		} else {
			a.undAt(fname(resolveLocks)+" classification", a.fnPos(resolveLocks), "result fields not found")
		}
		// ResolveLocksForRead returns (ttl, ignore, access)
		for _, r := range returnsOf(forRead) {
			if len(r.Results) != 4 {
				continue
			}
			d1, d2 := descSet(r.Results[1]), descSet(r.Results[2])
			a.check(strings.Contains(d1, "ResolveLockResult.IgnoreLocks") && strings.Contains(d2, "ResolveLockResult.AccessLocks"), fname(forRead)+" returns ignore, access in order", r, "", "ignore/access lists are swapped: "+d1+" / "+d2)
		}
		// ClientHelper stores ignore→resolvedLocks, access→committedLocks
		checkPut := func(fn *ssa.Function, want map[string]string) {
			n := 0
			for _, ci := range core.FindCalls(fn, core.CallsMethodNamed("Put", "")) {
				recv := descSet(ci.Common().Args[0])
				arg := descSet(ci.Common().Args[1])
				for rf, src := range want {
					if strings.Contains(recv, rf) {
						n++
						a.check(strings.Contains(arg, src), fname(fn)+" "+rf+" ← "+src, ci, arg, "the wrong lock list is stored into "+rf+": "+arg+" — locks to ignore would be read through (or committed locks ignored)")
					}
				}
			}
			a.checkAt(n == 2, fname(fn)+" stores both lists", a.fnPos(fn), "", "Put sites not found")
		}
		checkPut(chResolveOpts, map[string]string{"ClientHelper.resolvedLocks": "ResolveLockResult.IgnoreLocks", "ClientHelper.committedLocks": "ResolveLockResult.AccessLocks"})
		checkPut(chResolve, map[string]string{"ClientHelper.resolvedLocks": "ResolveLocksForRead)#1", "ClientHelper.committedLocks": "ResolveLocksForRead)#2"})
		for _, st := range storesToFieldNamed(chResolveOpts, "ResolveLocksOptions.ForRead") {
			a.check(descSet(st.(*ssa.Store).Val) == "const(true)", fname(chResolveOpts)+" resolves for read", st, "", "read-side resolution is not requested")
		}
		for _, fn := range []*ssa.Function{chSend, chSendAsync} {
			for field, src := range map[string]string{"Context.ResolvedLocks": "ClientHelper.resolvedLocks", "Context.CommittedLocks": "ClientHelper.committedLocks"} {
				sts := storesToFieldNamed(fn, field)
				a.checkAt(len(sts) == 1, fname(fn)+" sets "+field, a.fnPos(fn), "", "the request does not carry "+field)
				for _, st := range sts {
					d := descSet(st.(*ssa.Store).Val)
					a.check(strings.Contains(d, "GetAll)#0[fld("+src), fname(fn)+" "+field+" ← "+src, st, d, "the request's "+field+" is not the helper's "+src+": "+d)
					// before the send
					send := "SendReqCtx"
					if fn == chSendAsync {
						send = "SendReqAsync"
					}
					for _, sc := range core.FindCalls(fn, core.CallsMethodNamed(send, "")) {
						g, w := core.MustPassBefore(fn, sc, func(in ssa.Instruction) bool { return in == st })
						a.check(g, fname(fn)+" "+field+" set before sending", sc, "", a.w(w))
					}
				}
			}
		}
		// every helper is built on the snapshot's own sets, in this order
		n := 0
		for _, fn := range pkgFuncs(c, pkgSnap) {
			if isProbe(c, fn) || strings.HasSuffix(p.Fset.Position(fn.Pos()).Filename, "_test.go") {
				continue
			}
			for _, ci := range core.FindCalls(fn, core.CallsMethodNamed("NewClientHelper", "")) {
				n++
				d1, d2 := descSet(ci.Common().Args[1]), descSet(ci.Common().Args[2])
				a.check(strings.Contains(d1, "KVSnapshot.resolvedLocks") && strings.Contains(d2, "KVSnapshot.committedLocks"), fname(fn)+" helper uses the snapshot's lock sets", ci, "", "resolved/committed lock sets are swapped or foreign: "+d1+" / "+d2)
			}
		}
		a.checkAt(n >= 3, "NewClientHelper sites in the snapshot", "-", fmt.Sprint(n), "helper construction sites not found")
	}

	// ---- R4 read timestamp --------------------------------------------------------------------------------------
	{
		snapVer := []string{"fld(KVSnapshot.version,recv)", "fld(KVSnapshot.version,fld(Scanner.snapshot,recv))"}
		for _, m := range []string{"GetRequest", "BatchGetRequest", "BufferBatchGetRequest", "ScanRequest"} {
			a := rule(c, "C05.R4")
			f := a.extField(kvrpcpb, m, "Version")
			if f == nil {
				continue
			}
			n := 0
			for _, w := range prodWriters(c, f) {
				if enclosing(w.Fn).Pkg != p.Pkg(pkgSnap) {
					continue
				}
				n++
				d := descSet(w.Val)
				a.check(globAny(snapVer, d), m+".Version ← snapshot version in "+fname(w.Fn), w.Instr, d, "a read request is sent with a timestamp other than the snapshot's: "+d)
			}
			a.checkAt(n >= 1, m+".Version writers in the snapshot package", "-", fmt.Sprint(n), "no writer found")
		}
		a := rule(c, "C05.R4")
		n := 0
		for _, fn := range pkgFuncs(c, pkgSnap) {
			if isProbe(c, fn) || strings.HasSuffix(p.Fset.Position(fn.Pos()).Filename, "_test.go") {
				continue
			}
			for _, st := range storesToFieldNamed(fn, "ResolveLocksOptions.CallerStartTS") {
				n++
				d := descSet(st.(*ssa.Store).Val)
				a.check(globAny(snapVer, d), fname(fn)+" resolves with the snapshot version", st, d, "read-side resolution classifies locks against a timestamp other than the snapshot's: "+d)
			}
		}
		for _, ci := range core.FindCalls(getData, core.CallsMethodNamed("ResolveLocks", "")) {
			n++
			d := descSet(ci.Common().Args[2])
			a.check(globAny(snapVer, d), fname(getData)+" resolves with the snapshot version", ci, d, "read-side resolution classifies locks against a timestamp other than the snapshot's: "+d)
		}
		a.checkAt(n >= 3, "read-side resolve sites", "-", fmt.Sprint(n), "resolve sites not found")
	}

	// ---- R5 scan cursors ----------------------------------------------------------------------------------------------
	{
		var fns []*ssa.Function
		for _, f := range pkgFuncs(c, pkgSnap) {
			if strings.HasSuffix(p.Fset.Position(f.Pos()).Filename, "/scan.go") {
				fns = append(fns, f)
			}
		}
		sentinelRuleX(c, "C05.R5", fns, nil, func(fn *ssa.Function, v ssa.Value) bool { return descHas(c, v, "fld(Scanner.endKey,") }, 4)
		a := rule(c, "C05.R5")
		want := map[string][]string{
			"Scanner.nextStartKey": {"call(kv.NextKey)#0", "fld(KeyLocation.EndKey,call((*internal/locate.RegionCache).Locate*Key)#0[*"},
			"Scanner.nextEndKey":   {"call((*kvrpcpb.KvPair).GetKey)#0[idx(fld(ScanResponse.Pairs,*", "fld(KeyLocation.StartKey,call((*internal/locate.RegionCache).Locate*Key)#0[*||fld(Scanner.nextStartKey,recv)||nil"},
		}
		for f, allowed := range want {
			sts := storesToFieldNamed(getData, f)
			a.checkAt(len(sts) == 2, fname(getData)+" advances "+f, a.fnPos(getData), "", "cursor stores not found")
			for _, st := range sts {
				for _, d := range pv.Desc(st.(*ssa.Store).Val) {
					a.check(globAny(allowed, d), fname(getData)+" "+f+" continuation", st, d, "the scan continues from a key that is neither the region bound nor (the successor of) the last returned key: keys are skipped or repeated: "+d)
				}
			}
		}
		// NextKey is applied to the last pair's key
		for _, ci := range core.FindCalls(getData, core.CallsMethodNamed("NextKey", "")) {
			d := descSet(ci.Common().Args[0])
			a.check(strings.HasPrefix(d, "call((*kvrpcpb.KvPair).GetKey)#0[idx(fld(ScanResponse.Pairs,"), fname(getData)+" continues after the last returned key", ci, d, "successor taken of another key: "+d)
		}
		// full batch ⇒ continue inside the region; short batch ⇒ region bound
		guardTable(c, "C05.R5", []gRow{
			{Fn: [3]string{pkgSnap, "Scanner", "getData"}, Target: "call:NextKey", Facts: []string{"F:(len(fld(ScanResponse.Pairs,*)) < fld(Scanner.batchSize,recv))", "F:fld(Scanner.reverse,recv)"}, Min: 1,
				Why: "only a full batch continues inside the region"},
			{Fn: [3]string{pkgSnap, "Scanner", "getData"}, Target: "store:Scanner.eof", Facts: []string{"T:(len(fld(ScanResponse.Pairs,*)) < fld(Scanner.batchSize,recv))"}, Min: 1,
				Why: "eof is raised only when the region is exhausted"},
			{Fn: [3]string{pkgSnap, "Scanner", "getData"}, Target: "call:LocateKey", Facts: []string{"F:fld(Scanner.reverse,recv)"}, Min: 1, Why: "forward scans locate by start key"},
			{Fn: [3]string{pkgSnap, "Scanner", "getData"}, Target: "call:LocateEndKey", Facts: []string{"T:fld(Scanner.reverse,recv)"}, Min: 1, Why: "reverse scans locate by end key"},
		})
		// request bounds
		for _, spec := range []struct{ field, fwd, rev string }{
			{"ScanRequest.StartKey", "fld(Scanner.nextStartKey,recv)", "fld(Scanner.nextEndKey,recv)"},
		} {
			for _, st := range storesToFieldNamed(getData, spec.field) {
				d := descSet(st.(*ssa.Store).Val)
				rev, _ := p.GuardedByAtom(getData, st, "T:fld(Scanner.reverse,recv)")
				if rev {
					a.check(d == spec.rev, fname(getData)+" reverse request starts at the cursor", st, d, "reverse scan request does not start at the cursor: "+d)
				} else {
					a.check(d == spec.fwd, fname(getData)+" request starts at the cursor", st, d, "scan request does not start at the cursor: "+d)
				}
			}
		}
		for _, st := range storesToFieldNamed(getData, "ScanRequest.EndKey") {
			ds := pv.Desc(st.(*ssa.Store).Val)
			rev, _ := p.GuardedByAtom(getData, st, "T:fld(Scanner.reverse,recv)")
			for _, d := range ds {
				if rev {
					a.check(glob("fld(KeyLocation.StartKey,*", d) || d == "fld(Scanner.nextStartKey,recv)" || d == "nil", fname(getData)+" reverse request bound", st, d, "reverse scan lower bound is neither the region start nor the requested lower bound: "+d)
				} else {
					a.check(glob("fld(KeyLocation.EndKey,*", d) || d == "fld(Scanner.endKey,recv)" || d == "nil", fname(getData)+" request bound", st, d, "scan upper bound is neither the region end nor the requested upper bound: "+d)
				}
			}
		}
		for _, st := range storesToFieldNamed(getData, "ScanRequest.Limit") {
			d := descSet(st.(*ssa.Store).Val)
			a.check(d == "fld(Scanner.batchSize,recv)", fname(getData)+" asks for a full batch", st, d, "the request limit is not the batch size the short-batch test compares with: "+d)
		}
		// Next: a forward pair at/after endKey (reverse: before the lower bound) ends the scan
		{
			pairs := []orderPair{
				{"key:endKey", "fld(KvPair.Key,*", "fld(Scanner.endKey,recv)"},
				{"key:lower", "fld(KvPair.Key,*", "fld(Scanner.nextStartKey,recv)"},
			}
			_ = pairs
		}
	}
}

// phiClosure: the set of values reachable from root through φ edges, append's first argument,
// slices and defer spills — i.e. the SSA values that are earlier versions of one slice variable.
func phiClosure(root ssa.Value) map[ssa.Value]bool {
	set := map[ssa.Value]bool{}
	var rec func(v ssa.Value)
	rec = func(v ssa.Value) {
		v = core.Strip(v)
		if v == nil || set[v] {
			return
		}
		set[v] = true
		switch x := v.(type) {
		case *ssa.Phi:
			for _, e := range x.Edges {
				rec(e)
			}
		case *ssa.Call:
			if b, ok := x.Call.Value.(*ssa.Builtin); ok && b.Name() == "append" {
				rec(x.Call.Args[0])
			}
		case *ssa.Slice:
			rec(x.X)
		case *ssa.UnOp:
			if r := core.ResolveLoad(x); r != nil {
				rec(r)
			} else if al, ok := x.X.(*ssa.Alloc); ok {
				for _, ref := range *al.Referrers() {
					if st, ok := ref.(*ssa.Store); ok && st.Addr == ssa.Value(al) {
						rec(st.Val)
					}
				}
			}
		}
	}
	rec(root)
	return set
}

// pkgFuncs: all functions (incl. closures) whose enclosing function belongs to the package.
func pkgFuncs(c *core.Ctx, rel string) []*ssa.Function {
	sp := c.P.Pkg(rel)
	var out []*ssa.Function
	for _, f := range c.P.Funcs {
		if enclosing(f).Pkg == sp {
			out = append(out, f)
		}
	}
	return out
}
