package rules

import (
	"fmt"
	"go/ast"
	"go/types"
	"sort"
	"strings"

	"golang.org/x/tools/go/packages"
	"golang.org/x/tools/go/ssa"

	"verif/sa/core"
)

func init() {
	register("C15", &Spec{
		Title:       "Keyspace (API v2) encoding is transparent, isolating, complete over all commands",
		Explanation: "Decides, exhaustively over the command catalogue (all constants of tikvrpc.CmdType, enumerated from the type-checked program on every run): (R1) per command, the request accessor agrees between CallRPC, patchCmdCtx, ToBatchCommandsRequest, EncodeRequest; a request type with a Context field has a patchCmdCtx case (or is folded / explicitly context-free in AttachContext); a response type with a RegionError field has a GenRegionErrorResp case building exactly that type with RegionError: e; a request type that is a member of the BatchCommands oneof has the ToBatchCommandsRequest case and its response the FromBatchCommandsResponse case; (R2) type-directed: every key-bearing field (byte strings and messages containing them, minus a frozen non-key table) of every command's request type is re-assigned from a codec encode helper in EncodeRequest, on a copy; element helpers cover their element type; (R3) the same for DecodeResponse and the nested decoders; (R4) encodeRange, evaluated abstractly for every (reverse, empty start, empty end): forward → (Enc(start), end empty ? keyspace end : Enc(end)), reverse → (start empty ? keyspace end : Enc(start), Enc(end)); EncodeKey prepends the prefix, DecodeKey strips it only behind the prefix test; (R5) CodecPDClient: every key handed to PD is the result of the codec's region-key encoding on every path, every returned region is decoded, and every pd.Client method that carries keys/regions is overridden. NOT decided: end-to-end equality of v1 and v2 behaviour, isolation between keyspaces at run time.",
		Run:         runC15,
	})
}

// nonKeyFields: byte-string fields of kvproto messages that are not keys (frozen, with reason).
var c15NonKey = map[string]string{
	"Value": "user value", "Values": "user values", "Data": "coprocessor / snapshot payload", "ShortValue": "inlined user value",
	"PreviousValue": "CAS operand (value)", "PreviousNotExist": "", "TraceId": "tracing id", "Snapshot": "raft snapshot payload",
	"ResourceGroupTag": "opaque tag", "MemTableData": "payload", "FtsQueryInfo": "payload", "EncodedPlan": "plan payload", "Chunks": "result payload",
	"EncodedTask": "plan payload", "OtherError": "text", "Message": "text", "Msg": "text", "Props": "text", "ArrowBytes": "payload",
	"ResolvedLocks": "", "CommittedLocks": "", "KeyspaceName": "name", "TableSchema": "payload", "Checksum": "payload",
	"Iv": "encryption iv", "Extra": "", "ExtraMessage": "", "Token": "opaque token", "ConnectionId": "id", "ConnectionAlias": "id", "SourceStmt": "",
}

// skipTypes: message types that are not walked (with reason).
var c15SkipTypes = map[string]string{
	"kvrpcpb.Context":              "request context (no user keys; keyspace id is set by setAPICtx)",
	"kvrpcpb.ExecDetails":          "statistics",
	"kvrpcpb.ExecDetailsV2":        "statistics",
	"tipb.SelectResponse":          "payload",
	"metapb.Peer":                  "peer identity",
	"metapb.RegionEpoch":           "epoch numbers",
	"tracepb.TraceContext":         "tracing",
	"resource_manager.Consumption": "statistics",
}

type cmdInfo struct {
	Name     string
	Consts   []*types.Const
	Accessor map[string]*types.Func // table name → accessor
	Resp     types.Type
}

func runC15(c *core.Ctx) {
	p := c.P
	a := rule(c, "C15.anchors")
	rpcPkg := p.ByPath[core.ModPath+"/tikvrpc"]
	if rpcPkg == nil {
		a.undAt("package tikvrpc", "-", "package not found")
		return
	}
	cmdObj, _ := rpcPkg.Types.Scope().Lookup("CmdType").(*types.TypeName)
	reqObj, _ := rpcPkg.Types.Scope().Lookup("Request").(*types.TypeName)
	if cmdObj == nil || reqObj == nil {
		a.undAt("tikvrpc.CmdType / tikvrpc.Request", "-", "type not found")
		return
	}
	cmdType := cmdObj.Type()
	isCmd := func(t types.Type) bool { return t != nil && types.Identical(t, cmdType) }

	// ---- the catalogue -----------------------------------------------------------------------------
	byVal := map[int64]*cmdInfo{}
	for _, n := range rpcPkg.Types.Scope().Names() {
		k, ok := rpcPkg.Types.Scope().Lookup(n).(*types.Const)
		if !ok || !isCmd(k.Type()) {
			continue
		}
		v := constInt64(k)
		ci := byVal[v]
		if ci == nil {
			ci = &cmdInfo{Name: k.Name(), Accessor: map[string]*types.Func{}}
			byVal[v] = ci
		}
		ci.Consts = append(ci.Consts, k)
	}
	var vals []int64
	for v := range byVal {
		vals = append(vals, v)
	}
	sort.Slice(vals, func(i, j int) bool { return vals[i] < vals[j] })
	a.checkAt(len(vals) >= 50, "command catalogue", "-", fmt.Sprintf("%d commands", len(vals)), fmt.Sprintf("only %d CmdType constants found", len(vals)))

	isAccessor := func(fn *types.Func) bool {
		if fn == nil {
			return false
		}
		sig := fn.Type().(*types.Signature)
		if sig.Recv() == nil || namedOf(sig.Recv().Type()) == nil || namedOf(sig.Recv().Type()).Obj() != reqObj {
			return false
		}
		if sig.Params().Len() != 0 || sig.Results().Len() != 1 {
			return false
		}
		n := namedOf(sig.Results().At(0).Type())
		if n == nil {
			return false
		}
		_, isStruct := n.Underlying().(*types.Struct)
		_, isPtr := sig.Results().At(0).Type().(*types.Pointer)
		return isStruct && isPtr && n.Obj().Pkg() != nil && n.Obj().Pkg().Path() != core.ModPath+"/tikvrpc"
	}
	// table extraction: {cmd value → case} for the single CmdType switch of a function
	type table struct {
		name  string
		fs    *funcSyntax
		cases map[int64]swCase
		def   *swCase
	}
	load := func(rel, recv, name string) *table {
		fs := findFuncDecl(p, rel, recv, name)
		label := name
		if fs == nil {
			a.undAt("anchor "+rel+"."+recv+"."+name, "-", "function not found")
			return nil
		}
		sws := fs.valueSwitches(isCmd)
		if len(sws) == 0 {
			a.undAt(label+" command switch", p.Pos(fs.Decl.Pos()), "no switch over CmdType found")
			return nil
		}
		t := &table{name: label, fs: fs, cases: map[int64]swCase{}}
		// the widest switch is the catalogue switch
		best := sws[0]
		for _, s := range sws {
			if len(s) > len(best) {
				best = s
			}
		}
		for i := range best {
			cs := best[i]
			if cs.Default {
				t.def = &best[i]
			}
			for _, k := range cs.Consts {
				t.cases[constInt64(k)] = cs
			}
		}
		// a catalogue split over several switches of the same function (one per command family): their cases
		// belong to the same table
		for _, s := range sws {
			if &s[0] == &best[0] {
				continue
			}
			for _, cs := range s {
				for _, k := range cs.Consts {
					if old, dup := t.cases[constInt64(k)]; dup {
						old.Body = append(append([]ast.Stmt(nil), old.Body...), cs.Body...)
						t.cases[constInt64(k)] = old
					} else {
						t.cases[constInt64(k)] = cs
					}
				}
			}
		}
		return t
	}
	accessorIn := func(t *table, cs swCase) []*types.Func {
		var out []*types.Func
		for _, cl := range callsInStmts(t.fs.Pkg, cs.Body) {
			if isAccessor(cl.Callee) {
				dup := false
				for _, o := range out {
					if o == cl.Callee {
						dup = true
					}
				}
				if !dup {
					out = append(out, cl.Callee)
				}
			}
		}
		return out
	}
	callRPC := load("tikvrpc", "", "CallRPC")
	callDbg := load("tikvrpc", "", "CallDebugRPC")
	patch := load("tikvrpc", "", "patchCmdCtx")
	attach := load("tikvrpc", "", "AttachContext")
	genErr := load("tikvrpc", "", "GenRegionErrorResp")
	toBatch := load("tikvrpc", "Request", "ToBatchCommandsRequest")
	enc := load("internal/apicodec", "codecV2", "EncodeRequest")
	dec := load("internal/apicodec", "codecV2", "DecodeResponse")
	if callRPC == nil || callDbg == nil || patch == nil || attach == nil || genErr == nil || toBatch == nil || enc == nil || dec == nil {
		return
	}
	// accessor + response type per command
	for _, t := range []*table{callRPC, callDbg, patch, toBatch, enc} {
		for _, v := range vals {
			cs, ok := t.cases[v]
			if !ok {
				continue
			}
			accs := accessorIn(t, cs)
			if len(accs) == 1 {
				byVal[v].Accessor[t.name] = accs[0]
			} else if len(accs) > 1 {
				rule(c, "C15.R1").violAt(t.name+" case "+byVal[v].Name, p.Pos(cs.Pos), "more than one request accessor is used in the case of one command")
			}
			if t == callRPC || t == callDbg {
				for _, cl := range callsInStmts(t.fs.Pkg, cs.Body) {
					if cl.Callee == nil {
						continue
					}
					sig := cl.Callee.Type().(*types.Signature)
					if sig.Recv() != nil && types.IsInterface(sig.Recv().Type()) && sig.Results().Len() == 2 {
						byVal[v].Resp = sig.Results().At(0).Type()
					}
				}
				for _, lit := range compositeLitsIn(t.fs.Pkg, cs.Body) {
					if byVal[v].Resp == nil && namedOf(lit.Type) != nil && strings.HasSuffix(namedOf(lit.Type).Obj().Name(), "Response") {
						byVal[v].Resp = types.NewPointer(lit.Type)
					}
				}
			}
		}
	}
	reqTypeOf := func(ci *cmdInfo) types.Type {
		for _, n := range []string{"CallRPC", "CallDebugRPC", "EncodeRequest", "patchCmdCtx", "ToBatchCommandsRequest"} {
			if f := ci.Accessor[n]; f != nil {
				return f.Type().(*types.Signature).Results().At(0).Type()
			}
		}
		return nil
	}
	hasField := func(t types.Type, name string) *types.Var {
		n := namedOf(t)
		if n == nil {
			return nil
		}
		st, ok := n.Underlying().(*types.Struct)
		if !ok {
			return nil
		}
		for i := 0; i < st.NumFields(); i++ {
			if st.Field(i).Name() == name {
				return st.Field(i)
			}
		}
		return nil
	}

	// ---- R1 catalogue agreement ---------------------------------------------------------------------------------
	{
		a := rule(c, "C15.R1")
		// folds and explicit context-free commands in AttachContext
		fold := map[int64]int64{}
		ast.Inspect(attach.fs.Decl.Body, func(n ast.Node) bool {
			ifs, ok := n.(*ast.IfStmt)
			if !ok {
				return true
			}
			be, ok := ifs.Cond.(*ast.BinaryExpr)
			if !ok || be.Op.String() != "==" {
				return true
			}
			from := constOf(attach.fs.Pkg, be.Y)
			if from == nil || !isCmd(from.Type()) || len(ifs.Body.List) != 1 {
				return true
			}
			if as, ok := ifs.Body.List[0].(*ast.AssignStmt); ok && len(as.Rhs) == 1 {
				if to := constOf(attach.fs.Pkg, as.Rhs[0]); to != nil && isCmd(to.Type()) {
					fold[constInt64(from)] = constInt64(to)
				}
			}
			return true
		})
		for _, v := range vals {
			ci := byVal[v]
			pos := p.Pos(ci.Consts[0].Pos())
			// sibling agreement on the accessor
			var ref *types.Func
			refT := ""
			for _, tn := range sortedKeys(ci.Accessor) {
				f := ci.Accessor[tn]
				if ref == nil {
					ref, refT = f, tn
				} else if f != ref {
					a.violAt(ci.Name+" request accessor agrees across tables", pos, fmt.Sprintf("%s uses %s but %s uses %s for the same command: one of them reads the request as the wrong message type (nil / panic at run time)", refT, ref.Name(), tn, f.Name()))
				}
			}
			if ref != nil {
				a.okAt(ci.Name+" request accessor agrees across tables", pos, fmt.Sprintf("%s in %d tables", ref.Name(), len(ci.Accessor)))
			}
			rt := reqTypeOf(ci)
			// (a) context
			target := v
			if to, ok := fold[v]; ok {
				target = to
			}
			_, inPatch := patch.cases[target]
			acs, inAttach := attach.cases[v]
			explicit := inAttach && !acs.Default
			switch {
			case rt != nil && hasField(rt, "Context") != nil:
				okk := inPatch
				a.checkAt(okk, ci.Name+" context can be attached", pos, "patchCmdCtx case", fmt.Sprintf("%s's request type %s has a Context field but patchCmdCtx has no case for it (and AttachContext does not fold it): the region context is never attached / AttachContext reports an invalid request type", ci.Name, typeName(rt)))
				if inPatch {
					cs := patch.cases[target]
					set := false
					for _, fa := range fieldAssignsIn(patch.fs.Pkg, cs.Body) {
						if fa.Field.Name() == "Context" && types.Identical(types.NewPointer(fa.Base), rt) {
							set = true
						}
					}
					a.checkAt(set, ci.Name+" patchCmdCtx sets the request's Context", p.Pos(cs.Pos), "", "the case does not assign the Context field of "+typeName(rt))
				}
			case inPatch || explicit:
				a.okAt(ci.Name+" context can be attached", pos, "no Context field: explicit context-free command")
			case rt != nil:
				// no Context field: there is nothing to attach (store-level command); AttachContext's result is
				// not consulted on the send path
				a.okAt(ci.Name+" context can be attached", pos, "request type "+typeName(rt)+" has no Context field: nothing to attach")
			default:
				a.violAt(ci.Name+" context can be attached", pos, "AttachContext returns false for this command (neither a patchCmdCtx case, a fold, nor an explicit context-free case) and its request type is unknown")
			}
			// (b) region error
			if ci.Resp != nil && hasField(ci.Resp, "RegionError") != nil {
				cs, ok := genErr.cases[v]
				if !ok {
					a.violAt(ci.Name+" region-error response can be generated", pos, fmt.Sprintf("%s's response type %s has a RegionError field but GenRegionErrorResp has no case for it: a region error detected on the client (stale epoch, no leader) turns into an 'invalid request type' failure instead of a retry", ci.Name, typeName(ci.Resp)))
				} else {
					found := false
					for _, lit := range compositeLitsIn(genErr.fs.Pkg, cs.Body) {
						if !types.Identical(types.NewPointer(lit.Type), ci.Resp) {
							continue
						}
						if e, ok := lit.Fields["RegionError"]; ok {
							if id, ok := e.(*ast.Ident); ok {
								if v, ok := genErr.fs.Pkg.TypesInfo.Uses[id].(*types.Var); ok && v.Name() == genErr.fs.Decl.Type.Params.List[1].Names[0].Name {
									found = true
								}
							}
						}
					}
					a.checkAt(found, ci.Name+" region-error response can be generated", p.Pos(cs.Pos), typeName(ci.Resp), fmt.Sprintf("the GenRegionErrorResp case of %s does not build a %s carrying the given region error", ci.Name, typeName(ci.Resp)))
					// read back
					n := namedOf(ci.Resp)
					ms := types.NewMethodSet(types.NewPointer(n))
					a.checkAt(ms.Lookup(n.Obj().Pkg(), "GetRegionError") != nil, ci.Name+" region error can be read back", pos, "", typeName(ci.Resp)+" has no GetRegionError method")
				}
			} else if ci.Resp != nil {
				a.okAt(ci.Name+" region-error response can be generated", pos, "response type "+typeName(ci.Resp)+" has no RegionError field: not a region-routed command")
			}
		}
		// (c) batch wire form: every member of the request oneof whose payload is a command's request type
		tikvpb := findPkg(p, "github.com/pingcap/kvproto/pkg/tikvpb")
		if tikvpb == nil {
			a.undAt("package tikvpb", "-", "not loaded")
		} else {
			reqWrap, respWrap := map[string]*types.Named{}, map[string]*types.Named{} // payload type string → wrapper
			for _, n := range tikvpb.Types.Scope().Names() {
				tn, ok := tikvpb.Types.Scope().Lookup(n).(*types.TypeName)
				if !ok {
					continue
				}
				st, ok := tn.Type().Underlying().(*types.Struct)
				if !ok || st.NumFields() != 1 {
					continue
				}
				switch {
				case strings.HasPrefix(n, "BatchCommandsRequest_Request_"):
					reqWrap[st.Field(0).Type().String()] = tn.Type().(*types.Named)
				case strings.HasPrefix(n, "BatchCommandsResponse_Response_"):
					respWrap[st.Field(0).Type().String()] = tn.Type().(*types.Named)
				}
			}
			a.checkAt(len(reqWrap) >= 20 && len(respWrap) >= 20, "BatchCommands oneof members", "-", fmt.Sprintf("%d request / %d response wrappers", len(reqWrap), len(respWrap)), "oneof wrappers not found")
			// FromBatchCommandsResponse type switch
			from := findFuncDecl(p, "tikvrpc", "", "FromBatchCommandsResponse")
			fromTypes := map[string]swCase{}
			if from == nil {
				a.undAt("anchor tikvrpc.FromBatchCommandsResponse", "-", "not found")
			} else {
				for _, sw := range from.typeSwitches() {
					for _, cs := range sw {
						for _, t := range cs.Types {
							fromTypes[t.String()] = cs
						}
					}
				}
			}
			for _, v := range vals {
				ci := byVal[v]
				rt := reqTypeOf(ci)
				if rt == nil {
					continue
				}
				w := reqWrap[rt.String()]
				if w == nil {
					continue
				}
				// the stream variant shares the request type but is never batched
				if _, folded := fold[v]; folded {
					continue
				}
				pos := p.Pos(ci.Consts[0].Pos())
				cs, ok := toBatch.cases[v]
				if !ok {
					a.violAt(ci.Name+" converts to the batched wire form", pos, fmt.Sprintf("%s is a member of the BatchCommands request oneof (%s) but ToBatchCommandsRequest has no case for %s: the command silently falls back / is dropped when batching is enabled", typeName(rt), w.Obj().Name(), ci.Name))
				} else {
					found := false
					for _, lit := range compositeLitsIn(toBatch.fs.Pkg, cs.Body) {
						if types.Identical(lit.Type, w) {
							found = true
						}
					}
					a.checkAt(found, ci.Name+" converts to the batched wire form", p.Pos(cs.Pos), w.Obj().Name(), "the case wraps the request into another oneof member than "+w.Obj().Name())
				}
				if ci.Resp != nil {
					if rw := respWrap[ci.Resp.String()]; rw != nil && from != nil {
						cs, ok := fromTypes[types.NewPointer(rw).String()]
						if !ok {
							a.violAt(ci.Name+" converts back from the batched wire form", pos, fmt.Sprintf("FromBatchCommandsResponse has no case for %s: the batched response of %s is reported as an unknown command response", rw.Obj().Name(), ci.Name))
						} else {
							a.okAt(ci.Name+" converts back from the batched wire form", p.Pos(cs.Pos), rw.Obj().Name())
						}
					}
				}
			}
		}
	}

	// ---- R2 request key fields -------------------------------------------------------------------------------------
	codecPkg := p.ByPath[core.ModPath+"/internal/apicodec"]
	isCodecMethod := func(fn *types.Func, prefixes ...string) bool {
		if fn == nil || fn.Pkg() == nil || fn.Pkg().Path() != core.ModPath+"/internal/apicodec" {
			return false
		}
		sig := fn.Type().(*types.Signature)
		if sig.Recv() == nil {
			return false
		}
		for _, pre := range prefixes {
			if strings.HasPrefix(fn.Name(), pre) {
				return true
			}
		}
		return false
	}
	// assigned fields of a given struct type within stmts, with whether the rhs is a codec helper call over the same field
	type assignInfo struct {
		ok  bool
		why string
	}
	assignedFields := func(pk *packages.Package, stmts []ast.Stmt, helperPrefixes []string) map[string]assignInfo {
		out := map[string]assignInfo{}
		for _, fa := range fieldAssignsIn(pk, stmts) {
			if namedOf(fa.Base) == nil {
				continue
			}
			info := assignInfo{}
			ce, isCall := fa.Rhs.(*ast.CallExpr)
			if !isCall {
				info.why = "assigned from something that is not a codec call"
			} else {
				var callee *types.Func
				if sel, ok := ce.Fun.(*ast.SelectorExpr); ok {
					callee, _ = pk.TypesInfo.Uses[sel.Sel].(*types.Func)
				}
				if !isCodecMethod(callee, helperPrefixes...) {
					info.why = "assigned from a call that is not a codec helper"
				} else {
					// some argument mentions the same field
					mentions := false
					mentionsField := func(e ast.Expr) bool {
						m := false
						ast.Inspect(e, func(n ast.Node) bool {
							if sel, ok := n.(*ast.SelectorExpr); ok {
								if fv, ok := pk.TypesInfo.Uses[sel.Sel].(*types.Var); ok && fv == fa.Field {
									m = true
								}
							}
							return true
						})
						return m
					}
					for _, arg := range ce.Args {
						if mentionsField(arg) {
							mentions = true
						}
						// `for i, x := range r.F { r.F[i] = helper(x) }`: the range value of a loop over the field
						if id, ok := arg.(*ast.Ident); ok {
							if obj, ok := pk.TypesInfo.Uses[id].(*types.Var); ok {
								for _, st := range stmts {
									ast.Inspect(st, func(n ast.Node) bool {
										rs, ok := n.(*ast.RangeStmt)
										if !ok || rs.Value == nil {
											return true
										}
										if vid, ok := rs.Value.(*ast.Ident); ok && pk.TypesInfo.Defs[vid] == obj && mentionsField(rs.X) {
											mentions = true
										}
										return true
									})
								}
							}
						}
					}
					if !mentions {
						info.why = "the codec helper is not applied to the same field"
					} else {
						info.ok = true
					}
				}
			}
			k := typeName(fa.Base) + "." + fa.Field.Name()
			if prev, seen := out[k]; !seen || (!prev.ok && info.ok) {
				out[k] = info
			}
		}
		return out
	}
	// cover: which key-bearing fields of message type t are (not) handled by stmts. A field is handled
	// when it is re-assigned from a codec helper applied to itself, or - for a nested message handled
	// inline - when every key-bearing field of the nested type is (coverage of nested messages is by
	// element type, not by access path).
	type coverRes struct {
		field  string // Type.Field
		leaves string
		ok     bool
		why    string
	}
	var cover func(as map[string]assignInfo, t types.Type, depth int, seen map[string]bool) []coverRes
	cover = func(as map[string]assignInfo, t types.Type, depth int, seen map[string]bool) []coverRes {
		tn := typeName(t)
		if seen[tn] || depth > 4 {
			return nil
		}
		seen[tn] = true
		defer delete(seen, tn)
		var out []coverRes
		for _, kf := range keyFields(t, c15NonKey, c15SkipTypes) {
			k := tn + "." + kf.Field.Name()
			leaves := strings.Join(kf.Leaves, ", ")
			if info, ok := as[k]; ok && (info.ok || !strings.Contains(info.why, "not a codec call")) {
				out = append(out, coverRes{k, leaves, info.ok, info.why})
				continue
			}
			// (assigned from a local that was built element by element: judge the element type)
			ft := kf.Field.Type()
			if sl, ok := ft.Underlying().(*types.Slice); ok {
				ft = sl.Elem()
			}
			if n := namedOf(ft); n != nil {
				if _, isStruct := n.Underlying().(*types.Struct); isStruct {
					anyAssigned := false
					for ak := range as {
						if strings.HasPrefix(ak, typeName(n)+".") {
							anyAssigned = true
						}
					}
					if anyAssigned {
						out = append(out, cover(as, ft, depth+1, seen)...)
						continue
					}
					// one level deeper (a wrapper message whose only content is another message)
					sub := cover(as, ft, depth+1, seen)
					allOK := len(sub) > 0
					for _, r := range sub {
						if !r.ok {
							allOK = false
						}
					}
					if allOK {
						out = append(out, sub...)
						continue
					}
				}
			}
			out = append(out, coverRes{k, leaves, false, "not re-assigned from a codec helper"})
		}
		return out
	}
	{
		a := rule(c, "C15.R2")
		nCases := 0
		for _, v := range vals {
			ci := byVal[v]
			rt := reqTypeOf(ci)
			if rt == nil {
				continue
			}
			kfs := keyFields(rt, c15NonKey, c15SkipTypes)
			pos := p.Pos(ci.Consts[0].Pos())
			cs, has := enc.cases[v]
			if len(kfs) == 0 {
				a.okAt(ci.Name+" request has no key-bearing field", pos, typeName(rt))
				continue
			}
			if !has {
				var ls []string
				for _, kf := range kfs {
					ls = append(ls, kf.Leaves...)
				}
				key := ci.Name + " request keys are encoded"
				if why, ok := c15ReqExceptions[ci.Name+".*"]; ok {
					a.okAt(key, pos, "frozen exception: "+why)
				} else {
					a.violAt(key, pos, fmt.Sprintf("%s (%s) carries keys in %s but EncodeRequest has no case for it: the keys go to the store without the keyspace prefix", ci.Name, typeName(rt), strings.Join(ls, ", ")))
				}
				continue
			}
			nCases++
			as := assignedFields(enc.fs.Pkg, cs.Body, []string{"encode", "Encode"})
			for _, r := range cover(as, rt, 0, map[string]bool{}) {
				key := ci.Name + " " + r.field + " is encoded"
				if why, ok := c15ReqExceptions[r.field]; ok {
					a.okAt(key, p.Pos(cs.Pos), "frozen exception: "+why)
					continue
				}
				if r.ok {
					a.okAt(key, p.Pos(cs.Pos), r.leaves)
				} else {
					a.violAt(key, p.Pos(cs.Pos), fmt.Sprintf("key-bearing field %s (%s) of %s's request is %s in EncodeRequest: these keys are sent without the keyspace prefix (they address another keyspace's / raw data)", r.field, r.leaves, ci.Name, r.why))
				}
			}
			// encoded on a copy that replaces req.Req
			copied, replaced := false, false
			for _, s := range cs.Body {
				ast.Inspect(s, func(n ast.Node) bool {
					as, ok := n.(*ast.AssignStmt)
					if !ok {
						return true
					}
					for i, rhs := range as.Rhs {
						if st, ok := rhs.(*ast.StarExpr); ok && i < len(as.Lhs) {
							if ce, ok := st.X.(*ast.CallExpr); ok {
								if sel, ok := ce.Fun.(*ast.SelectorExpr); ok {
									if fn, _ := enc.fs.Pkg.TypesInfo.Uses[sel.Sel].(*types.Func); isAccessor(fn) {
										copied = true
									}
								}
							}
						}
						if ue, ok := rhs.(*ast.UnaryExpr); ok && ue.Op.String() == "&" && i < len(as.Lhs) {
							if sel, ok := as.Lhs[i].(*ast.SelectorExpr); ok && sel.Sel.Name == "Req" {
								replaced = true
							}
						}
					}
					return true
				})
			}
			a.checkAt(copied && replaced, ci.Name+" is encoded on a copy", p.Pos(cs.Pos), "", "the case does not (copy the request message, encode the copy, install the copy): the caller's request is overwritten and a retry encodes the keys twice / the encoded fields are lost")
		}
		a.checkAt(nCases >= 35, "EncodeRequest cases with key-bearing requests", "-", fmt.Sprint(nCases), "too few cases analysed")
		// element helpers: every key-bearing field of the element type is assigned in the helper
		for _, h := range []struct{ fn, elemPkg, elem string }{
			{"encodeMutations", kvrpcpb, "Mutation"}, {"encodeParis", kvrpcpb, "KvPair"}, {"encodeKeyRange", kvrpcpb, "KeyRange"},
			{"encodeCopRange", "github.com/pingcap/kvproto/pkg/coprocessor", "KeyRange"}, {"encodeRegionInfo", "github.com/pingcap/kvproto/pkg/coprocessor", "RegionInfo"},
			{"encodeTableRegions", "github.com/pingcap/kvproto/pkg/coprocessor", "TableRegions"}, {"encodeStoreBatchTasks", "github.com/pingcap/kvproto/pkg/coprocessor", "StoreBatchTask"},
		} {
			fs := findFuncDecl(p, "internal/apicodec", "codecV2", h.fn)
			et := p.ExtNamed(h.elemPkg, h.elem)
			if fs == nil || et == nil {
				a.undAt("anchor codecV2."+h.fn, "-", "helper or element type not found")
				continue
			}
			as := assignedFields(fs.Pkg, fs.Decl.Body.List, []string{"encode", "Encode"})
			for _, r := range cover(as, et, 0, map[string]bool{}) {
				key := h.fn + " encodes " + r.field
				if why, ok := c15ReqExceptions[r.field]; ok {
					a.okAt(key, p.Pos(fs.Decl.Pos()), "frozen exception: "+why)
					continue
				}
				a.checkAt(r.ok, key, p.Pos(fs.Decl.Pos()), r.leaves, fmt.Sprintf("helper %s: %s (%s) is %s", h.fn, r.field, r.leaves, r.why))
			}
		}
		_ = codecPkg
	}

	// ---- R3 response key fields -------------------------------------------------------------------------------------
	{
		a := rule(c, "C15.R3")
		nCases := 0
		for _, v := range vals {
			ci := byVal[v]
			if ci.Resp == nil {
				continue
			}
			kfs := keyFields(ci.Resp, c15NonKey, c15SkipTypes)
			pos := p.Pos(ci.Consts[0].Pos())
			if len(kfs) == 0 {
				continue
			}
			cs, has := dec.cases[v]
			if !has {
				var ls []string
				for _, kf := range kfs {
					ls = append(ls, kf.Leaves...)
				}
				key := ci.Name + " response keys are decoded"
				if why, ok := c15RespExceptions[ci.Name+".*"]; ok {
					a.okAt(key, pos, "frozen exception: "+why)
				} else {
					a.violAt(key, pos, fmt.Sprintf("%s's response %s carries keys in %s but DecodeResponse has no case for it: the caller sees prefixed keys", ci.Name, typeName(ci.Resp), strings.Join(ls, ", ")))
				}
				continue
			}
			nCases++
			as := assignedFields(dec.fs.Pkg, cs.Body, []string{"decode", "Decode"})
			for _, r := range cover(as, ci.Resp, 0, map[string]bool{}) {
				key := ci.Name + " response " + r.field + " is decoded"
				if why, ok := c15RespExceptions[r.field]; ok {
					a.okAt(key, p.Pos(cs.Pos), "frozen exception: "+why)
					continue
				}
				if r.ok {
					a.okAt(key, p.Pos(cs.Pos), r.leaves)
				} else {
					a.violAt(key, p.Pos(cs.Pos), fmt.Sprintf("key-bearing field %s (%s) of %s's response is %s in DecodeResponse: the caller sees keys with the keyspace prefix", r.field, r.leaves, ci.Name, r.why))
				}
			}
		}
		a.checkAt(nCases >= 30, "DecodeResponse cases with key-bearing responses", "-", fmt.Sprint(nCases), "too few cases analysed")
		// nested decoders cover their message type
		for _, h := range []struct{ fn, pkg, typ string }{
			{"decodeKeyError", kvrpcpb, "KeyError"}, {"decodeLockInfo", kvrpcpb, "LockInfo"}, {"decodeMvccInfo", kvrpcpb, "MvccInfo"},
			{"decodePairs", kvrpcpb, "KvPair"}, {"decodeRegionError", "github.com/pingcap/kvproto/pkg/errorpb", "Error"},
		} {
			fs := findFuncDecl(p, "internal/apicodec", "codecV2", h.fn)
			et := p.ExtNamed(h.pkg, h.typ)
			if fs == nil || et == nil {
				a.undAt("anchor codecV2."+h.fn, "-", "decoder or message type not found")
				continue
			}
			as := assignedFields(fs.Pkg, fs.Decl.Body.List, []string{"decode", "Decode"})
			for _, r := range cover(as, et, 0, map[string]bool{}) {
				key := h.fn + " decodes " + r.field
				if why, ok := c15RespExceptions[r.field]; ok {
					a.okAt(key, p.Pos(fs.Decl.Pos()), "frozen exception: "+why)
					continue
				}
				a.checkAt(r.ok, key, p.Pos(fs.Decl.Pos()), r.leaves, fmt.Sprintf("decoder %s: %s (%s) is %s: the caller sees prefixed keys in this part of the response", h.fn, r.field, r.leaves, r.why))
			}
		}
	}

	// frozen exceptions that are re-checked on every run: deprecated fields that client-go neither
	// writes (request side) nor reads (response side)
	{
		a := rule(c, "C15.R2")
		if f := a.extField(kvrpcpb, "SplitRegionRequest", "SplitKey"); f != nil {
			ws := prodWriters(c, f)
			for _, w := range ws {
				a.viol("deprecated SplitRegionRequest.SplitKey is never set", w.Instr, "the deprecated singular split key is set here but EncodeRequest does not prefix it")
			}
			if len(ws) == 0 {
				a.okAt("deprecated SplitRegionRequest.SplitKey is never set", "-", "no writer in the module (the exception for the missing encode is valid)")
			}
		}
		a3 := rule(c, "C15.R3")
		for _, fname0 := range []string{"Left", "Right"} {
			f := a3.extField(kvrpcpb, "SplitRegionResponse", fname0)
			if f == nil {
				continue
			}
			n := 0
			for _, fn := range p.Funcs {
				if isProbe(c, fn) || strings.HasSuffix(p.Fset.Position(fn.Pos()).Filename, "_test.go") {
					continue
				}
				core.Instrs(fn, func(in ssa.Instruction) {
					if fa, ok := in.(*ssa.FieldAddr); ok && core.FieldOfAddr(fa) == f {
						n++
						a3.viol("deprecated SplitRegionResponse."+fname0+" is never read", in, "the deprecated field is read here but DecodeResponse does not strip the keyspace prefix from it")
					}
				})
			}
			if n == 0 {
				a3.okAt("deprecated SplitRegionResponse."+fname0+" is never read", "-", "no reader in the module (the exception for the missing decode is valid)")
			}
		}
	}

	runC15ranges(c)
	runC15pd(c)
}

// frozen exceptions, each triaged by reading the code (see DESIGN.md, C15)
var c15ReqExceptions = map[string]string{
	"kvrpcpb.SplitRegionRequest.SplitKey": "deprecated singular form of SplitKeys; never set by client-go (re-checked: no writer in the module)",
	"kvrpcpb.KvPair.Error":                "response-only field of a message shared between requests and responses; never set in a request",
	"CmdCompact.*":                        "TiFlash compaction cursor: an opaque physical key that is only ever fed back from CompactResponse.CompactedEndKey; the keyspace travels in the request's explicit api_version/keyspace_id fields; not a region-routed command (no Context)",
}
var c15RespExceptions = map[string]string{
	"CmdCompact.*":                      "opaque TiFlash compaction cursor (see the request side)",
	"kvrpcpb.SplitRegionResponse.Left":  "deprecated in favour of Regions (which is decoded); never read by client-go (re-checked: no reader in the module)",
	"kvrpcpb.SplitRegionResponse.Right": "deprecated in favour of Regions (which is decoded); never read by client-go (re-checked: no reader in the module)",
	"CmdGetHealthFeedback.*":            "store-level command addressed by store address: its RegionError can carry no key (no key was sent)",
}

func findPkg(p *core.Prog, path string) *packages.Package {
	var found *packages.Package
	packages.Visit(p.Pkgs, func(pk *packages.Package) bool { return found == nil }, func(pk *packages.Package) {
		if pk.PkgPath == path && pk.Types != nil {
			found = pk
		}
	})
	return found
}

// ---- R4: encodeRange evaluated abstractly ------------------------------------------------------------------------------
func runC15ranges(c *core.Ctx) {
	p := c.P
	a := rule(c, "C15.R4")
	fn := a.fn(pkgAPI, "codecV2", "encodeRange")
	encKey := a.fn(pkgAPI, "codecV2", "EncodeKey")
	decKey := a.fn(pkgAPI, "codecV2", "DecodeKey")
	if a.bad {
		return
	}
	pv := p.Prov()
	type env struct {
		sym      [2]string // symbolic names of param start / end
		empty    [2]bool
		reverse  bool
		revKnown bool
	}
	var eval func(e env, depth int) ([2]string, string)
	eval = func(e env, depth int) ([2]string, string) {
		if depth > 3 {
			return [2]string{}, "recursion too deep"
		}
		unknown := ""
		paramIdx := func(v ssa.Value) int {
			v = core.Strip(v)
			for i, par := range fn.Params {
				if v == ssa.Value(par) {
					return i // 0 = receiver, 1 = start, 2 = end, 3 = reverse
				}
			}
			return -1
		}
		truth := func(v ssa.Value) (bool, bool) {
			v = core.Strip(v)
			if paramIdx(v) == 3 {
				return e.reverse, true
			}
			if b, ok := v.(*ssa.BinOp); ok {
				lenOf := func(x ssa.Value) int {
					if cl, ok := core.Strip(x).(*ssa.Call); ok {
						if bi, ok := cl.Call.Value.(*ssa.Builtin); ok && bi.Name() == "len" {
							if i := paramIdx(cl.Call.Args[0]); i == 1 || i == 2 {
								return i - 1
							}
						}
					}
					return -1
				}
				if k := lenOf(b.X); k >= 0 {
					if cst, ok := b.Y.(*ssa.Const); ok && cst.Value != nil {
						n := int64(1)
						if e.empty[k] {
							n = 0
						}
						d := 0
						switch {
						case n < cst.Int64():
							d = -1
						case n > cst.Int64():
							d = 1
						}
						// n is 0 (empty) or "positive": comparisons with constants 0 and 1 are decided
						if cst.Int64() == 0 || (cst.Int64() == 1 && (b.Op.String() == "<" || b.Op.String() == ">=")) {
							return cmpTruth(b.Op, d)
						}
					}
				}
			}
			return false, false
		}
		q := &core.Q{Fn: fn, NoEdge: func(ed core.Edge) bool {
			v, neg := ed.Cond()
			t, known := truth(v)
			if !known {
				unknown = strings.Join(pv.Desc(v), "|")
				return false
			}
			return t != (ed.True != neg)
		}}
		found, _, hit := q.Reach(nil, core.IsReturn)
		if unknown != "" {
			return [2]string{}, "branches on `" + unknown + "`, which is not an input of the range encoding"
		}
		if !found {
			return [2]string{}, "no return reached"
		}
		r := hit.(*ssa.Return)
		if len(r.Results) != 2 {
			return [2]string{}, "not two results"
		}
		var symOf func(v ssa.Value) (string, string)
		symOf = func(v ssa.Value) (string, string) {
			v = core.Strip(core.PhiAlong(core.Strip(v), q.LastBlocks))
			switch x := v.(type) {
			case *ssa.Extract:
				cl, ok := x.Tuple.(*ssa.Call)
				if !ok || cl.Call.StaticCallee() != fn {
					return "", "result of an unknown call"
				}
				ne := env{}
				for k := 0; k < 2; k++ {
					i := paramIdx(cl.Call.Args[1+k])
					if i != 1 && i != 2 {
						return "", "recursive call with a computed bound"
					}
					ne.sym[k], ne.empty[k] = e.sym[i-1], e.empty[i-1]
				}
				cst, ok := core.Strip(cl.Call.Args[3]).(*ssa.Const)
				if !ok {
					if paramIdx(cl.Call.Args[3]) == 3 {
						ne.reverse = e.reverse
					} else {
						return "", "recursive call with a computed direction"
					}
				} else {
					ne.reverse = cst.Value != nil && cst.Value.String() == "true"
				}
				res, why := eval(ne, depth+1)
				if why != "" {
					return "", why
				}
				return res[x.Index], ""
			case *ssa.Call:
				if cl := x.Call.StaticCallee(); cl == encKey {
					i := paramIdx(x.Call.Args[1])
					if i == 1 || i == 2 {
						return "Enc(" + e.sym[i-1] + ")", ""
					}
					return "", "EncodeKey of a computed value"
				}
			case *ssa.UnOp:
				d := strings.Join(pv.Desc(x), "|")
				switch d {
				case "fld(codecV2.endKey,recv)":
					return "keyspaceEnd", ""
				case "fld(codecV2.prefix,recv)":
					return "keyspaceStart", ""
				}
			}
			return "", "result `" + strings.Join(pv.Desc(v), "|") + "` is not an encoded bound"
		}
		var out [2]string
		for k := 0; k < 2; k++ {
			s, why := symOf(r.Results[k])
			if why != "" {
				return out, why
			}
			out[k] = s
		}
		return out, ""
	}
	n, bad := 0, 0
	for _, rev := range []bool{false, true} {
		for _, es := range []bool{false, true} {
			for _, ee := range []bool{false, true} {
				res, why := eval(env{sym: [2]string{"start", "end"}, empty: [2]bool{es, ee}, reverse: rev}, 0)
				label := fmt.Sprintf("reverse=%v emptyStart=%v emptyEnd=%v", rev, es, ee)
				if why != "" {
					a.undAt(fname(fn)+" range encoding table", a.fnPos(fn), label+": "+why)
					continue
				}
				var want [2]string
				if !rev {
					want = [2]string{"Enc(start)", "Enc(end)"}
					if ee {
						want[1] = "keyspaceEnd"
					}
				} else {
					// start is the upper bound of a reverse range, end its lower bound
					want = [2]string{"Enc(start)", "Enc(end)"}
					if es {
						want[0] = "keyspaceEnd"
					}
				}
				n++
				if res != want {
					bad++
					a.violAt(fname(fn)+" range encoding table", a.fnPos(fn), fmt.Sprintf("for %s the encoded range is (%s, %s), expected (%s, %s): an unbounded end must become the end of the keyspace and nothing else may", label, res[0], res[1], want[0], want[1]))
				}
			}
		}
	}
	if bad == 0 && n == 8 {
		a.okAt(fname(fn)+" range encoding table", a.fnPos(fn), "8 cases evaluated")
	}
	// EncodeKey = prefix ++ key
	for _, r := range returnsOf(encKey) {
		d := strings.Join(pv.Desc(r.Results[0]), "|")
		a.check(strings.HasPrefix(d, "append(") && strings.Contains(d, "param#0") || d == "append(…,param#0)", fname(encKey)+" appends the key to the prefix", r, d, "EncodeKey is not prefix ++ key: "+d)
		if cl, ok := core.Strip(r.Results[0]).(*ssa.Call); ok && len(cl.Call.Args) == 2 {
			d0 := strings.Join(pv.Desc(cl.Call.Args[0]), "|")
			a.check(d0 == "fld(codecV2.prefix,recv)", fname(encKey)+" prefix first", r, d0, "the first operand is not the keyspace prefix: "+d0)
		}
	}
	// DecodeKey strips the prefix only behind the prefix test
	nStrip := 0
	core.Instrs(decKey, func(in ssa.Instruction) {
		sl, ok := in.(*ssa.Slice)
		if !ok || sl.Low == nil {
			return
		}
		if d := strings.Join(pv.Desc(sl.X), "|"); d != "param#0" {
			return
		}
		nStrip++
		dl := strings.Join(pv.Desc(sl.Low), "|")
		a.check(dl == "len(fld(codecV2.prefix,recv))", fname(decKey)+" strips exactly the prefix", in, dl, "the stripped length is not the prefix length: "+dl)
		g, w := p.GuardedByAtom(decKey, in, "T:call(bytes.HasPrefix)#0")
		a.check(g, fname(decKey)+" strips only keys of this keyspace", in, "", "a key that does not carry this keyspace's prefix is stripped and returned as if it belonged to the keyspace: "+a.w(w))
	})
	a.checkAt(nStrip == 1, fname(decKey)+" strip site", a.fnPos(decKey), "", "prefix strip not found")
	for _, ci := range core.FindCalls(decKey, func(cc *ssa.CallCommon) bool {
		return cc.StaticCallee() != nil && cc.StaticCallee().String() == "bytes.HasPrefix"
	}) {
		d0, d1 := strings.Join(pv.Desc(ci.Common().Args[0]), "|"), strings.Join(pv.Desc(ci.Common().Args[1]), "|")
		a.check(d0 == "param#0" && d1 == "fld(codecV2.prefix,recv)", fname(decKey)+" tests the keyspace prefix", ci, "", "prefix test on other operands: "+d0+" / "+d1)
	}
}

// ---- R5: PD client wrapper ------------------------------------------------------------------------------------------------
func runC15pd(c *core.Ctx) {
	p := c.P
	a := rule(c, "C15.R5")
	pv := p.Prov()
	named := p.Named("internal/locate", "CodecPDClient")
	if named == nil {
		a.undAt("anchor internal/locate.CodecPDClient", "-", "type not found")
		return
	}
	isKeyType := func(t types.Type) bool {
		s := t.String()
		return s == "[]byte" || s == "[][]byte" || strings.HasSuffix(s, "router.KeyRange") || strings.HasSuffix(s, "[]github.com/tikv/pd/client/clients/router.KeyRange")
	}
	isRegionType := func(t types.Type) bool {
		s := t.String()
		return strings.HasSuffix(s, "router.Region")
	}
	// methods declared on *CodecPDClient
	declared := map[string]*ssa.Function{}
	for i := 0; i < named.NumMethods(); i++ {
		if fn := p.SSA.FuncValue(named.Method(i)); fn != nil {
			declared[named.Method(i).Name()] = fn
		}
	}
	// the embedded client interface
	st := named.Underlying().(*types.Struct)
	var iface *types.Interface
	for i := 0; i < st.NumFields(); i++ {
		if st.Field(i).Embedded() {
			if it, ok := st.Field(i).Type().Underlying().(*types.Interface); ok {
				iface = it
			}
		}
	}
	if iface == nil {
		a.undAt("CodecPDClient embedded pd.Client", "-", "embedded interface not found")
		return
	}
	nKeyMethods := 0
	for i := 0; i < iface.NumMethods(); i++ {
		m := iface.Method(i)
		sig := m.Type().(*types.Signature)
		carries := false
		for j := 0; j < sig.Params().Len(); j++ {
			if isKeyType(sig.Params().At(j).Type()) {
				carries = true
			}
		}
		for j := 0; j < sig.Results().Len(); j++ {
			if isRegionType(sig.Results().At(j).Type()) {
				carries = true
			}
		}
		if !carries {
			continue
		}
		nKeyMethods++
		key := "CodecPDClient overrides pd.Client." + m.Name()
		if why, ok := c15PDExceptions[m.Name()]; ok {
			a.okAt(key, "-", "frozen exception: "+why)
			continue
		}
		fn := declared[m.Name()]
		if why, ok := c15PDUncalled[m.Name()]; ok && fn == nil {
			// excused only while nothing in the module calls it on a pd.Client
			n := 0
			for _, f := range p.Funcs {
				if isProbe(c, f) || strings.HasSuffix(p.Fset.Position(f.Pos()).Filename, "_test.go") || strings.Contains(f.String(), "/mock") || strings.Contains(f.String(), "unimplementedPDClient") {
					continue
				}
				for _, ci := range core.FindCalls(f, func(cc *ssa.CallCommon) bool { return cc.IsInvoke() && cc.Method.Name() == m.Name() }) {
					n++
					a.viol(key, ci, fmt.Sprintf("pd.Client.%s carries keys but CodecPDClient does not wrap it, and it is called here: with a keyspace the keys reach PD unencoded", m.Name()))
				}
			}
			if n == 0 {
				a.okAt(key, "-", "frozen exception (checked: no call site in the module): "+why)
			}
			continue
		}
		if fn == nil {
			a.violAt(key, p.Pos(named.Obj().Pos()), fmt.Sprintf("pd.Client.%s carries keys or regions but CodecPDClient does not wrap it: through the embedded client the keys reach PD unencoded / regions come back undecoded", m.Name()))
			continue
		}
		a.okAt(key, a.fnPos(fn), "")
		// every key argument of the delegated call is encoded on every path
		for _, ci := range core.FindCalls(fn, func(cc *ssa.CallCommon) bool { return cc.IsInvoke() && cc.Method.Name() == m.Name() }) {
			for j, arg := range ci.Common().Args {
				if !isKeyType(arg.Type()) {
					continue
				}
				ds := pv.Desc(arg)
				okk := len(ds) > 0
				for _, d := range ds {
					if !strings.Contains(d, "EncodeRegionKey)#") && !strings.Contains(d, "EncodeRegionRange)#") && !strings.HasPrefix(d, "append(") && !strings.Contains(d, "makeslice") && d != "nil" {
						okk = false
					}
				}
				a.check(okk, fmt.Sprintf("%s argument %d is region-key encoded on every path", fname(fn), j), ci, strings.Join(ds, "|"), fmt.Sprintf("a key reaches PD without the codec's region-key encoding on some path (for an unbounded end the encoding supplies the keyspace end): the lookup leaves the keyspace: %s", strings.Join(ds, "|")))
			}
		}
		// slices built element-wise: the appended / stored elements are encoded
		core.Instrs(fn, func(in ssa.Instruction) {
			if cl, ok := in.(*ssa.Call); ok {
				if b, ok := cl.Call.Value.(*ssa.Builtin); ok && b.Name() == "append" && cl.Type().String() == "[][]byte" {
					for _, e := range appendedElems(cl) {
						d := strings.Join(pv.Desc(e), "|")
						a.check(strings.Contains(d, "EncodeRegionKey)#"), fname(fn)+" appended keys are encoded", in, d, "a raw key is collected for PD: "+d)
					}
				}
			}
		})
		// returned regions are decoded
		for _, r := range returnsOf(fn) {
			for _, res := range r.Results {
				if !isRegionType(res.Type()) && !strings.HasSuffix(res.Type().String(), "router.Region") {
					continue
				}
				if isNil(res) {
					continue
				}
				d := strings.Join(pv.Desc(res), "|")
				if strings.Contains(d, "processRegionResult)#0") {
					a.ok(fname(fn)+" returns decoded regions", r, d)
					continue
				}
				// a list: every element is decoded in place (the decode call's argument is an element of the returned list)
				decoded := false
				for _, dc := range core.FindCalls(fn, core.CallsMethodNamed("decodeRegionKeyInPlace", "")) {
					for _, alt := range pv.Desc(dc.Common().Args[1]) {
						for _, rd := range pv.Desc(res) {
							if alt == "idx("+rd+")" {
								decoded = true
							}
						}
					}
				}
				if !decoded {
					// … or the list is handed to a private helper of the same package that decodes every element
					for _, hc := range core.FindCalls(fn, func(cc *ssa.CallCommon) bool {
						g := cc.StaticCallee()
						return g != nil && g.Pkg == fn.Pkg && g.Object() != nil && !g.Object().Exported() && len(g.Blocks) > 0
					}) {
						g := hc.Common().StaticCallee()
						for k, arg := range hc.Common().Args {
							same := false
							for _, ad := range pv.Desc(arg) {
								for _, rd := range pv.Desc(res) {
									if ad == rd {
										same = true
									}
								}
							}
							if !same || k == 0 {
								continue
							}
							for _, dc := range core.FindCalls(g, core.CallsMethodNamed("decodeRegionKeyInPlace", "")) {
								for _, alt := range pv.Desc(dc.Common().Args[1]) {
									if alt == fmt.Sprintf("idx(param#%d)", k-1) {
										decoded = true
									}
								}
							}
						}
					}
				}
				a.check(decoded, fname(fn)+" returns decoded regions", r, d, "regions from PD are returned without decoding their keys: "+d)
			}
		}
	}
	a.checkAt(nKeyMethods >= 5, "pd.Client methods that carry keys/regions", "-", fmt.Sprint(nKeyMethods), "interface methods not found")
	// the decoders
	if fn := p.Func("internal/locate", "CodecPDClient", "decodeRegionKeyInPlace"); fn != nil {
		for _, f := range []string{"Region.StartKey", "Region.EndKey"} {
			sts := storesToFieldNamed(fn, f)
			a.checkAt(len(sts) == 1, fname(fn)+" decodes "+f, a.fnPos(fn), "", "store not found")
			for _, st := range sts {
				d := strings.Join(pv.Desc(st.(*ssa.Store).Val), "|")
				want := "DecodeRegionRange)#0"
				if f == "Region.EndKey" {
					want = "DecodeRegionRange)#1"
				}
				a.check(strings.Contains(d, want), fname(fn)+" "+f+" ← decoded range", st, d, "start/end swapped or not decoded: "+d)
			}
		}
	} else {
		a.undAt("anchor CodecPDClient.decodeRegionKeyInPlace", "-", "not found")
	}
}

// pd.Client methods whose byte-string parameters are not data keys
var c15PDExceptions = map[string]string{
	"Get":   "meta-storage (etcd) key, not a data key",
	"Put":   "meta-storage (etcd) key, not a data key",
	"Watch": "meta-storage (etcd) key, not a data key",
}

// pd.Client methods that carry data keys, are not wrapped, and are tolerated only while the
// module itself never calls them (the rule re-checks that on every run)
var c15PDUncalled = map[string]string{
	"GetRegionFromMember":    "not used by client-go",
	"SplitAndScatterRegions": "not used by client-go (SplitRegions is wrapped)",
}
