package rules

import (
	"fmt"
	"go/token"
	"strings"

	"golang.org/x/tools/go/ssa"

	"verif/sa/core"
)

// Order tables: a boolean function whose inputs are touched only through comparisons is
// decided by enumerating the finite set of orderings. Each orderPair names two operands by
// provenance glob; each flagAtom a boolean input. For every combination of
// (ordering ∈ {<,=,>} per pair, truth per flag) the function's CFG is walked with exactly the
// consistent branch edges, the returned boolean is evaluated along the path, and compared with
// the expected function. Any spelling of the comparisons (>, >=, swapped operands, one
// expression or several ifs) gives the same table.

type orderPair struct {
	Name string
	X, Y string // provenance globs of the two operands (conversions are transparent)
}

type flagAtom struct {
	Name string
	P    core.Pred
}

type orderCase struct {
	Ord  []int  // -1, 0, +1 per pair (X<Y, X==Y, X>Y)
	Flag []bool // per flag
}

func (oc orderCase) String(pairs []orderPair, flags []flagAtom) string {
	var parts []string
	for i, p := range pairs {
		parts = append(parts, p.Name+map[int]string{-1: "<", 0: "=", 1: ">"}[oc.Ord[i]])
	}
	for i, f := range flags {
		parts = append(parts, fmt.Sprintf("%s=%v", f.Name, oc.Flag[i]))
	}
	return strings.Join(parts, " ")
}

// cmpTruth evaluates comparison op on an ordering.
func cmpTruth(op token.Token, ord int) (bool, bool) {
	switch op {
	case token.LSS:
		return ord < 0, true
	case token.LEQ:
		return ord <= 0, true
	case token.GTR:
		return ord > 0, true
	case token.GEQ:
		return ord >= 0, true
	case token.EQL:
		return ord == 0, true
	case token.NEQ:
		return ord != 0, true
	}
	return false, false
}

// orderTable returns, per case, the boolean the function returns (ok=false when no path or
// the result cannot be evaluated).
func orderTable(c *core.Ctx, fn *ssa.Function, pairs []orderPair, flags []flagAtom, expected func(orderCase) bool) (mismatches []string, evaluated int, undecided []string) {
	return orderTableF(c, fn, pairs, flags, nil, expected)
}

// orderTableF: as orderTable, with a feasibility filter on the enumerated cases (e.g. an empty
// byte string is the smallest one).
// truthFn evaluates a boolean SSA value under an ordering/flag case; known=false when the value is
// not a function of the declared inputs.
type truthFn func(v ssa.Value, oc orderCase) (bool, bool)

func makeTruth(c *core.Ctx, pairs []orderPair, flags []flagAtom) (truthFn, func(ssa.Value) string) {
	pv := c.P.Prov()
	descOf := func(v ssa.Value) string { return strings.Join(pv.Desc(v), "|") }
	// truth of a (Not-stripped) boolean value under a case; known=false if it is not one of the inputs
	var truthOf func(v ssa.Value, oc orderCase) (bool, bool)
	truthOf = func(v ssa.Value, oc orderCase) (bool, bool) {
		v = core.Strip(v)
		if cst, ok := v.(*ssa.Const); ok && cst.Value != nil {
			return cst.Value.String() == "true", true
		}
		if u, ok := v.(*ssa.UnOp); ok && u.Op == token.NOT {
			t, k := truthOf(u.X, oc)
			return !t, k
		}
		for i, f := range flags {
			if m, pol := f.P(v); m {
				return oc.Flag[i] == pol, true
			}
		}
		// bytes.Equal(a, b)
		if cl, ok := v.(*ssa.Call); ok && cl.Call.StaticCallee() != nil && cl.Call.StaticCallee().String() == "bytes.Equal" {
			dx, dy := descOf(cl.Call.Args[0]), descOf(cl.Call.Args[1])
			for i, p := range pairs {
				if (glob(p.X, dx) && glob(p.Y, dy)) || (glob(p.X, dy) && glob(p.Y, dx)) {
					return oc.Ord[i] == 0, true
				}
			}
		}
		if b, ok := v.(*ssa.BinOp); ok {
			// bytes.Compare(a, b) <op> k   /   kv.CmpKey(a, b) <op> k
			cmpCall := func(x ssa.Value) (*ssa.Call, bool) {
				cl, ok := core.Strip(x).(*ssa.Call)
				if !ok || cl.Call.StaticCallee() == nil {
					return nil, false
				}
				n := cl.Call.StaticCallee().String()
				return cl, n == "bytes.Compare" || strings.HasSuffix(n, "/kv.CmpKey")
			}
			evalCmp := func(cl *ssa.Call, k int64, op token.Token) (bool, bool) {
				dx, dy := descOf(cl.Call.Args[0]), descOf(cl.Call.Args[1])
				for i, p := range pairs {
					ord, hit := 0, false
					if glob(p.X, dx) && glob(p.Y, dy) {
						ord, hit = oc.Ord[i], true
					} else if glob(p.X, dy) && glob(p.Y, dx) {
						ord, hit = -oc.Ord[i], true
					}
					if hit {
						d := 0
						switch {
						case int64(ord) < k:
							d = -1
						case int64(ord) > k:
							d = 1
						}
						return cmpTruth(op, d)
					}
				}
				return false, false
			}
			if cl, ok := cmpCall(b.X); ok {
				if cst, ok := b.Y.(*ssa.Const); ok && cst.Value != nil {
					return evalCmp(cl, cst.Int64(), b.Op)
				}
			}
			if cl, ok := cmpCall(b.Y); ok {
				if cst, ok := b.X.(*ssa.Const); ok && cst.Value != nil {
					flip := map[token.Token]token.Token{token.LSS: token.GTR, token.GTR: token.LSS, token.LEQ: token.GEQ, token.GEQ: token.LEQ, token.EQL: token.EQL, token.NEQ: token.NEQ}
					return evalCmp(cl, cst.Int64(), flip[b.Op])
				}
			}
			dx, dy := descOf(b.X), descOf(b.Y)
			for i, p := range pairs {
				if glob(p.X, dx) && glob(p.Y, dy) {
					return cmpTruth(b.Op, oc.Ord[i])
				}
				if glob(p.X, dy) && glob(p.Y, dx) {
					return cmpTruth(b.Op, -oc.Ord[i])
				}
			}
		}
		return false, false
	}
	return truthOf, descOf
}

// enumCases lists all (ordering, flag) combinations.
func enumCases(pairs []orderPair, flags []flagAtom) []orderCase {
	var cases []orderCase
	var gen func(i int, ord []int)
	gen = func(i int, ord []int) {
		if i == len(pairs) {
			for m := 0; m < 1<<len(flags); m++ {
				fl := make([]bool, len(flags))
				for k := range flags {
					fl[k] = m&(1<<k) != 0
				}
				cases = append(cases, orderCase{append([]int(nil), ord...), fl})
			}
			return
		}
		for _, o := range []int{-1, 0, 1} {
			gen(i+1, append(ord, o))
		}
	}
	gen(0, nil)
	return cases
}

type sinkCase struct {
	Case    orderCase
	Reached []string
}

// decisionSinks: starting at block `from`, for every case walk the CFG along the branch edges
// consistent with the case (branches on values that are not declared inputs are explored both
// ways; `stop` instructions end a path) and report which of the named sinks are reachable.
// A classification is well-defined when exactly one sink is reachable per case.
func decisionSinks(c *core.Ctx, fn *ssa.Function, from *ssa.BasicBlock, pairs []orderPair, flags []flagAtom, stop func(ssa.Instruction) bool, sinks map[string]func(ssa.Instruction) bool) []sinkCase {
	truthOf, _ := makeTruth(c, pairs, flags)
	var out []sinkCase
	names := make([]string, 0, len(sinks))
	for n := range sinks {
		names = append(names, n)
	}
	sortStrs(names)
	for _, oc := range enumCases(pairs, flags) {
		oc := oc
		var reached []string
		for _, n := range names {
			others := func(in ssa.Instruction) bool {
				if stop != nil && stop(in) {
					return true
				}
				for m, f := range sinks {
					if m != n && f(in) {
						return true
					}
				}
				return false
			}
			q := &core.Q{Fn: fn, NoPass: others, NoEdge: func(e core.Edge) bool {
				v, neg := e.Cond()
				t, known := truthOf(v, oc)
				if !known {
					return false
				}
				return t != (e.True != neg)
			}}
			if found, _, _ := q.ReachFromBlock(from, sinks[n]); found {
				reached = append(reached, n)
			}
		}
		out = append(out, sinkCase{oc, reached})
	}
	return out
}

func orderTableF(c *core.Ctx, fn *ssa.Function, pairs []orderPair, flags []flagAtom, feasible func(orderCase) bool, expected func(orderCase) bool) (mismatches []string, evaluated int, undecided []string) {
	truthOf, descOf := makeTruth(c, pairs, flags)
	cases := enumCases(pairs, flags)
	for _, oc := range cases {
		oc := oc
		if feasible != nil && !feasible(oc) {
			continue
		}
		sawUnknown := ""
		q := &core.Q{Fn: fn, NoEdge: func(e core.Edge) bool {
			v, neg := e.Cond()
			t, known := truthOf(v, oc)
			if !known {
				sawUnknown = descOf(v)
				return false
			}
			valTrue := e.True != neg
			return t != valTrue
		}}
		found, _, hit := q.Reach(nil, core.IsReturn)
		if sawUnknown != "" {
			undecided = append(undecided, oc.String(pairs, flags)+": branches on `"+sawUnknown+"`, which is not one of the declared inputs")
			continue
		}
		if !found {
			undecided = append(undecided, oc.String(pairs, flags)+": no return reached")
			continue
		}
		r := hit.(*ssa.Return)
		if len(r.Results) != 1 {
			undecided = append(undecided, "not a single boolean result")
			continue
		}
		val := core.PhiAlong(core.Strip(r.Results[0]), q.LastBlocks)
		got, known := truthOf(val, oc)
		if !known {
			undecided = append(undecided, oc.String(pairs, flags)+": result `"+descOf(val)+"` is not a function of the declared inputs")
			continue
		}
		evaluated++
		if want := expected(oc); got != want {
			mismatches = append(mismatches, fmt.Sprintf("for %s the function returns %v, expected %v", oc.String(pairs, flags), got, want))
		}
	}
	return
}

// emptyFlag: flag atom "len(X) == 0" for operands whose provenance matches the glob.
func emptyFlag(c *core.Ctx, name, descGlob string) flagAtom {
	pv := c.P.Prov()
	return flagAtom{name, core.PEmpty(func(v ssa.Value) bool {
		return glob(descGlob, strings.Join(pv.Desc(v), "|"))
	})}
}

// reportTable turns an order-table result into obligations.
func reportTable(a *A, key, pos, spec string, mism []string, n int, und []string) {
	for _, m := range mism {
		a.violAt(key, pos, spec+": "+m)
	}
	for _, u := range und {
		a.undAt(key, pos, u)
	}
	if len(mism) == 0 && len(und) == 0 {
		a.okAt(key, pos, fmt.Sprintf("%d orderings evaluated: %s", n, spec))
	}
}
