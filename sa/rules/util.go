package rules

import (
	"sort"
	"os"
	"fmt"
	"go/constant"
	"go/token"
	"go/types"
	"strings"

	"golang.org/x/tools/go/ssa"

	"verif/sa/core"
)

const (
	pkgTxn    = "txnkv/transaction"
	pkgLock   = "txnkv/txnlock"
	pkgSnap   = "txnkv/txnsnapshot"
	pkgLocate = "internal/locate"
	pkgUnion  = "internal/unionstore"
	pkgMock   = "internal/mockstore/mocktikv"
	pkgRetry  = "config/retry"
	pkgClient = "internal/client"
	pkgCodec  = "util/codec"
	pkgAPI    = "internal/apicodec"
	pkgRPC    = "tikvrpc"
	pkgOracle = "oracle/oracles"
	kvrpcpb   = "github.com/pingcap/kvproto/pkg/kvrpcpb"
)

// A is the per-rule helper: resolves anchors and reports UNDECIDED when one is missing.
type A struct {
	c    *core.Ctx
	rule string
	bad  bool
}

func rule(c *core.Ctx, id string) *A { return &A{c: c, rule: id} }

// fn resolves a function anchor.
func (a *A) fn(pkg, recv, name string) *ssa.Function {
	f := a.c.P.Func(pkg, recv, name)
	if f == nil {
		a.bad = true
		a.c.Und(a.rule, "anchor "+pkg+"."+recv+"."+name, "-", "anchored function not found (renamed or removed): rule cannot be decided")
	}
	return f
}

// field resolves a field anchor of a module type.
func (a *A) field(pkg, typ, path string) *types.Var {
	n := a.c.P.Named(pkg, typ)
	v := core.Field(n, path)
	if v == nil {
		a.bad = true
		a.c.Und(a.rule, "anchor "+pkg+"."+typ+"."+path, "-", "anchored field not found (renamed or removed): rule cannot be decided")
	}
	return v
}

// extField resolves a field of an external (kvproto …) type.
func (a *A) extField(pkgPath, typ, path string) *types.Var {
	n := a.c.P.ExtNamed(pkgPath, typ)
	v := core.Field(n, path)
	if v == nil {
		a.bad = true
		a.c.Und(a.rule, "anchor "+pkgPath+"."+typ+"."+path, "-", "anchored field not found: rule cannot be decided")
	}
	return v
}

func (a *A) ok(construct string, in ssa.Instruction, detail string) {
	a.c.OK(a.rule, construct, a.c.P.InstrPos(in), detail)
}
func (a *A) viol(construct string, in ssa.Instruction, detail string) {
	a.c.Bad(a.rule, construct, a.c.P.InstrPos(in), detail)
}
func (a *A) okAt(construct, pos, detail string)   { a.c.OK(a.rule, construct, pos, detail) }
func (a *A) violAt(construct, pos, detail string) { a.c.Bad(a.rule, construct, pos, detail) }
func (a *A) undAt(construct, pos, detail string)  { a.c.Und(a.rule, construct, pos, detail) }

func (a *A) check(cond bool, construct string, in ssa.Instruction, okDetail, badDetail string) bool {
	if cond {
		a.ok(construct, in, okDetail)
	} else {
		a.viol(construct, in, badDetail)
	}
	return cond
}

func (a *A) fnPos(f *ssa.Function) string { return a.c.P.Pos(f.Pos()) }

// witness renders a path.
func (a *A) w(steps []core.Step) string { return a.c.P.Witness(steps) }

// callsIn returns call instructions to callee within fn and its closures.
func callsIn(fn *ssa.Function, m func(*ssa.CallCommon) bool) []ssa.CallInstruction {
	var out []ssa.CallInstruction
	for _, f := range core.FuncsIn(fn) {
		out = append(out, core.FindCalls(f, m)...)
	}
	return out
}

// name of function for construct keys.
func fname(f *ssa.Function) string { return core.FuncName(f) }

// calleeName for construct keys.
func calleeName(c ssa.CallInstruction) string {
	cc := c.Common()
	if cc.IsInvoke() {
		return cc.Method.Name()
	}
	if f := cc.StaticCallee(); f != nil {
		if f.Origin() != nil {
			return f.Origin().Name()
		}
		return f.Name()
	}
	return "dyn"
}

// argOf returns argument i of a call, not counting the receiver for methods.
func argOf(c ssa.CallInstruction, i int) ssa.Value {
	cc := c.Common()
	args := cc.Args
	if !cc.IsInvoke() {
		if f := cc.StaticCallee(); f != nil && f.Signature.Recv() != nil {
			args = args[1:]
		} else if f == nil {
			// dynamic call through func value: args as is
		}
	}
	if i < len(args) {
		return args[i]
	}
	return nil
}

func isNil(v ssa.Value) bool {
	c, ok := core.Strip(v).(*ssa.Const)
	if !ok {
		c, ok = v.(*ssa.Const)
	}
	return ok && c.Value == nil
}

// asConst sees through value-preserving conversions and defer-spilled results
// (`*t0 = 1; rundefers; t1 = *t0; return t1`).
func asConst(v ssa.Value) (*ssa.Const, bool) {
	if c, ok := v.(*ssa.Const); ok {
		return c, true
	}
	c, ok := core.Strip(v).(*ssa.Const)
	return c, ok
}

// storesToField lists stores in fn (and closures) to field f.
func storesToField(fn *ssa.Function, f *types.Var) []*ssa.Store {
	var out []*ssa.Store
	for _, g := range core.FuncsIn(fn) {
		core.Instrs(g, func(in ssa.Instruction) {
			if st, ok := in.(*ssa.Store); ok {
				if fa, ok := st.Addr.(*ssa.FieldAddr); ok && core.FieldOfAddr(fa) == f {
					out = append(out, st)
				}
			}
		})
	}
	return out
}

// ifsOn finds If instructions in fn whose condition matches atom a.
func ifsOn(fn *ssa.Function, a core.Pred) []*ssa.If {
	var out []*ssa.If
	core.Instrs(fn, func(in ssa.Instruction) {
		if i, ok := in.(*ssa.If); ok {
			v, _ := core.CondOf(i)
			if m, _ := a(v); m {
				out = append(out, i)
			}
		}
	})
	return out
}

// succOn returns the successor block of ifi on which atom a has truth t.
func succOn(ifi *ssa.If, a core.Pred, t bool) *ssa.BasicBlock {
	for k := 0; k < 2; k++ {
		m, tr := core.EdgeTruth(core.Edge{If: ifi, True: k == 0}, a)
		if m && tr == t {
			return ifi.Block().Succs[k]
		}
	}
	return nil
}

// reachFromBlock: path query starting at the first instruction of block b.
func reachFromBlock(fn *ssa.Function, b *ssa.BasicBlock, noPass func(ssa.Instruction) bool, noEdge func(core.Edge) bool, target func(ssa.Instruction) bool) (bool, []core.Step, ssa.Instruction) {
	q := &core.Q{Fn: fn, NoPass: noPass, NoEdge: noEdge}
	return q.ReachFromBlock(b, target)
}

// flowsToReturn: does value v flow (through error wrappers, conversions, φ, stores to a
// named result) into a return of its function.
func flowsToReturn(v ssa.Value) bool {
	seen := map[ssa.Value]bool{}
	var rec func(v ssa.Value) bool
	rec = func(v ssa.Value) bool {
		if seen[v] {
			return false
		}
		seen[v] = true
		refs := v.Referrers()
		if refs == nil {
			return false
		}
		for _, r := range *refs {
			switch y := r.(type) {
			case *ssa.Return:
				return true
			case *ssa.Phi:
				if rec(y) {
					return true
				}
			case *ssa.MakeInterface:
				if rec(y) {
					return true
				}
			case *ssa.ChangeType:
				if rec(y) {
					return true
				}
			case *ssa.ChangeInterface:
				if rec(y) {
					return true
				}
			case *ssa.Call:
				if c := y.Call.StaticCallee(); c != nil && c.Pkg != nil && strings.HasSuffix(c.Pkg.Pkg.Path(), "/errors") {
					if rec(y) {
						return true
					}
				}
			case *ssa.Store:
				if al, ok := y.Addr.(*ssa.Alloc); ok && y.Val == v {
					// named result or local that is later returned
					for _, rr := range *al.Referrers() {
						if ld, ok := rr.(*ssa.UnOp); ok && ld.Op == token.MUL {
							if rec(ld) {
								return true
							}
						}
					}
				}
			}
		}
		return false
	}
	return rec(v)
}

// loadsGlobal matches a load of package-level variable pkgSuffix.name.
func loadsGlobal(pkgSuffix, name string) core.VM {
	return func(v ssa.Value) bool {
		u, ok := core.Strip(v).(*ssa.UnOp)
		if !ok || u.Op != token.MUL {
			return false
		}
		g, ok := u.X.(*ssa.Global)
		return ok && g.Name() == name && strings.HasSuffix(g.Pkg.Pkg.Path(), pkgSuffix)
	}
}

// returnsOf lists the Return instructions of fn.
func returnsOf(fn *ssa.Function) []*ssa.Return {
	var out []*ssa.Return
	core.Instrs(fn, func(in ssa.Instruction) {
		if r, ok := in.(*ssa.Return); ok {
			out = append(out, r)
		}
	})
	return out
}

// writerKey builds a construct key for a field writer.
func writerKey(w core.Writer, f *types.Var) string {
	return fmt.Sprintf("%s writes %s (%s)", fname(w.Fn), f.Name(), w.Kind)
}

// inFuncs: is fn (or an enclosing parent) one of the allowed functions.
func inFuncs(fn *ssa.Function, allowed ...*ssa.Function) bool {
	for f := fn; f != nil; f = f.Parent() {
		for _, a := range allowed {
			if a != nil && f == a {
				return true
			}
		}
	}
	return false
}

// descHas: any root description of v contains sub.
func descHas(c *core.Ctx, v ssa.Value, sub string) bool {
	return core.HasSub(c.P.Prov().Desc(v), sub)
}

// descAll: every root description of v contains one of subs.
func descAll(c *core.Ctx, v ssa.Value, subs ...string) (bool, []string) {
	ds := c.P.Prov().Desc(v)
	for _, d := range ds {
		ok := false
		for _, s := range subs {
			if strings.Contains(d, s) {
				ok = true
			}
		}
		if !ok {
			return false, ds
		}
	}
	return len(ds) > 0, ds
}

// enclosing returns the outermost named function containing fn.
func enclosing(fn *ssa.Function) *ssa.Function {
	for fn.Parent() != nil {
		fn = fn.Parent()
	}
	return fn
}

// errTyped matches values of type error that are loads of captured/spilled variables or φ.
func isErrorType(t types.Type) bool {
	n, ok := t.(*types.Named)
	return ok && n.Obj().Pkg() == nil && n.Obj().Name() == "error"
}

const (
	tokEQL = token.EQL
	tokNEQ = token.NEQ
	tokLSS = token.LSS
	tokLEQ = token.LEQ
	tokGTR = token.GTR
	tokGEQ = token.GEQ
)

// isProbe: functions defined in the repository's test_probe.go files are white-box test
// hooks (exported *Probe types used only by the test suites); rules about production call
// sites skip them. Frozen exception, by file, with this reason.
func isProbe(c *core.Ctx, fn *ssa.Function) bool {
	f := enclosing(fn)
	pos := c.P.Fset.Position(f.Pos())
	return strings.HasSuffix(pos.Filename, "/test_probe.go") || strings.HasSuffix(pos.Filename, "/test_util.go")
}

// glob matches s against pattern p where '*' matches any substring.
func glob(p, s string) bool {
	if strings.Contains(p, "||") {
		for _, alt := range strings.Split(p, "||") {
			if glob(alt, s) {
				return true
			}
		}
		return false
	}
	parts := strings.Split(p, "*")
	if len(parts) == 1 {
		return p == s
	}
	if !strings.HasPrefix(s, parts[0]) {
		return false
	}
	s = s[len(parts[0]):]
	for i := 1; i < len(parts)-1; i++ {
		k := strings.Index(s, parts[i])
		if k < 0 {
			return false
		}
		s = s[k+len(parts[i]):]
	}
	return strings.HasSuffix(s, parts[len(parts)-1])
}

func globAny(ps []string, s string) bool {
	for _, p := range ps {
		if glob(p, s) {
			return true
		}
	}
	return false
}

// descInter: provenance of v where roots that are exactly a parameter of the enclosing
// function are replaced by the provenance of the corresponding argument at every static
// call site (recursively, up to `levels` call levels). A parameter of a function without
// module callers stays "param#i@Func".
func descInter(c *core.Ctx, fn *ssa.Function, v ssa.Value, levels int) []string {
	pv := c.P.Prov()
	out := map[string]bool{}
	var expand func(fn *ssa.Function, ds []string, lv int)
	expand = func(fn *ssa.Function, ds []string, lv int) {
		for _, d := range ds {
			idx := -1
			if d == "recv" {
				idx = 0
			} else if strings.HasPrefix(d, "param#") && !strings.ContainsAny(d[6:], " (),") {
				fmt.Sscanf(d[6:], "%d", &idx)
				if fn.Signature.Recv() != nil {
					idx++
				}
			}
			if idx < 0 || lv == 0 {
				out[d] = true
				continue
			}
			// closures: parameters of an anonymous function are not expanded
			sites := c.P.CallersOf(fn)
			n := 0
			for _, s := range sites {
				if isProbe(c, s.Fn) {
					continue
				}
				args := s.Instr.Common().Args
				if s.Instr.Common().IsInvoke() {
					// receiver is Value; Args exclude it
					if idx == 0 {
						continue
					}
					if idx-1 < len(args) {
						n++
						expand(s.Fn, pv.Desc(args[idx-1]), lv-1)
					}
					continue
				}
				if idx < len(args) {
					n++
					expand(s.Fn, pv.Desc(args[idx]), lv-1)
				}
			}
			if n == 0 {
				out[d+"@"+fname(fn)] = true
			}
		}
	}
	expand(fn, pv.Desc(v), levels)
	var res []string
	for k := range out {
		res = append(res, k)
	}
	sortStrs(res)
	return res
}

func sortStrs(a []string) {
	for i := 1; i < len(a); i++ {
		for j := i; j > 0 && a[j] < a[j-1]; j-- {
			a[j], a[j-1] = a[j-1], a[j]
		}
	}
}

// containsCall: does fn (or a closure nested in it) contain a call matching m.
func containsCall(fn *ssa.Function, m func(*ssa.CallCommon) bool) bool {
	return len(callsIn(fn, m)) > 0
}

// dispatchSites: instructions of fn that dispatch a call matching m: the calls themselves
// (Call/Go/Defer) and MakeClosure instructions whose closure (transitively) contains one.
func dispatchSites(fn *ssa.Function, m func(*ssa.CallCommon) bool) []ssa.Instruction {
	var out []ssa.Instruction
	core.Instrs(fn, func(in ssa.Instruction) {
		switch x := in.(type) {
		case ssa.CallInstruction:
			if m(x.Common()) {
				out = append(out, in)
			}
		case *ssa.MakeClosure:
			if containsCall(x.Fn.(*ssa.Function), m) {
				out = append(out, in)
			}
		}
	})
	return out
}

// isTypeAssertOK matches the ok result of `x.(T)` where T's name is typeName.
func isTypeAssertOK(typeName string) core.VM {
	return func(v ssa.Value) bool {
		ex, ok := core.Strip(v).(*ssa.Extract)
		if !ok || ex.Index != 1 {
			return false
		}
		ta, ok := ex.Tuple.(*ssa.TypeAssert)
		if !ok {
			return false
		}
		t := ta.AssertedType
		if p, ok := t.(*types.Pointer); ok {
			t = p.Elem()
		}
		n, ok := t.(*types.Named)
		return ok && n.Obj().Name() == typeName
	}
}

// anyErr matches any value of interface type error.
func anyErr(v ssa.Value) bool { return isErrorType(v.Type()) }

// errVarOf: matcher for "the error produced by call": the call's error result itself, or a
// load of the local variable (Alloc) that the result was stored into.
func errVarOf(call ssa.CallInstruction) core.VM {
	var allocs []*ssa.Alloc
	cv, _ := call.(ssa.Value)
	if cv != nil {
		var collect func(v ssa.Value)
		collect = func(v ssa.Value) {
			if v.Referrers() == nil {
				return
			}
			for _, r := range *v.Referrers() {
				switch y := r.(type) {
				case *ssa.Store:
					if al, ok := y.Addr.(*ssa.Alloc); ok && y.Val == v {
						allocs = append(allocs, al)
					}
				case *ssa.Extract:
					if isErrorType(y.Type()) {
						collect(y)
					}
				}
			}
		}
		collect(cv)
	}
	return func(v ssa.Value) bool {
		if !isErrorType(v.Type()) {
			return false
		}
		if v == cv {
			return true
		}
		if ex, ok := v.(*ssa.Extract); ok && ex.Tuple == cv {
			return true
		}
		if u, ok := v.(*ssa.UnOp); ok && u.Op == token.MUL {
			for _, al := range allocs {
				if u.X == ssa.Value(al) {
					return true
				}
			}
		}
		// a φ that merges the call's error with other definitions of the same variable
		if phi, ok := v.(*ssa.Phi); ok {
			seen := map[*ssa.Phi]bool{}
			var rec func(p *ssa.Phi) bool
			rec = func(p *ssa.Phi) bool {
				if seen[p] {
					return false
				}
				seen[p] = true
				for _, e := range p.Edges {
					if e == cv {
						return true
					}
					if ex, ok := e.(*ssa.Extract); ok && ex.Tuple == cv {
						return true
					}
					if p2, ok := e.(*ssa.Phi); ok && rec(p2) {
						return true
					}
				}
				return false
			}
			return rec(phi)
		}
		return false
	}
}

// constInt returns the value of an integer constant declared in any loaded package.
func constInt(c *core.Ctx, pkgPath, name string) int64 {
	n := c.P.ExtConst(pkgPath, name)
	if n == nil {
		c.Und("anchors", "const "+pkgPath+"."+name, "-", "constant not found")
		return -1 << 40
	}
	v, _ := constantInt64(n)
	return v
}

func constantInt64(c *types.Const) (int64, bool) { return constant.Int64Val(constant.ToInt(c.Val())) }

// condMust: every feasible path from `from` (nil = entry) to an instruction matching target
// passes an instruction matching event first, unless it takes an edge that establishes one
// of the bypass facts (canonical atoms, '*' globs allowed).
func condMust(c *core.Ctx, fn *ssa.Function, from ssa.Instruction, target, event func(ssa.Instruction) bool, bypass []string) (bool, []core.Step, ssa.Instruction) {
	q := &core.Q{Fn: fn, NoPass: event, NoEdge: func(e core.Edge) bool {
		if len(bypass) == 0 {
			return false
		}
		at := c.P.EdgeAtom(e)
		for _, b := range bypass {
			if glob(b, at) {
				if os.Getenv("SA_DEBUG") != "" {
					fmt.Fprintf(os.Stderr, "condMust %s: bypass %q by %q\n", fname(fn), at, b)
				}
				return true
			}
		}
		return false
	}}
	found, w, hit := q.Reach(from, func(in ssa.Instruction) bool { return !event(in) && target(in) })
	return !found, w, hit
}

// isStoreTo matches a store to field Type.field (short type name) whose value description
// (alternatives joined by '|') matches valGlob ("" = any).
func isStoreTo(c *core.Ctx, typeField, valGlob string) func(ssa.Instruction) bool {
	return func(in ssa.Instruction) bool {
		st, ok := in.(*ssa.Store)
		if !ok {
			return false
		}
		fa, ok := st.Addr.(*ssa.FieldAddr)
		if !ok {
			return false
		}
		f := core.FieldOfAddr(fa)
		if f == nil || fieldKey(fa.X.Type().String(), f.Name()) != typeField {
			return false
		}
		if valGlob == "" {
			return true
		}
		return glob(valGlob, strings.Join(c.P.Prov().Desc(st.Val), "|"))
	}
}

// isCallNamed matches Call/Go instructions (not defers) by callee/method name.
func isCallNamed(name string) func(ssa.Instruction) bool {
	return core.InstrIs(core.CallsMethodNamed(name, ""))
}

// isDynCall matches calls through a function value (closure variable / map lookup).
func isDynCall(in ssa.Instruction) bool {
	ci, ok := in.(*ssa.Call)
	if !ok {
		return false
	}
	cc := ci.Common()
	if cc.IsInvoke() || cc.StaticCallee() != nil {
		return false
	}
	_, isBuiltin := cc.Value.(*ssa.Builtin)
	return !isBuiltin
}

func (a *A) checkAt(cond bool, construct, pos, okDetail, badDetail string) bool {
	if cond {
		a.okAt(construct, pos, okDetail)
	} else {
		a.violAt(construct, pos, badDetail)
	}
	return cond
}

// appendedElems: for `append(s, x...)` returns the values placed in the variadic array.
func appendedElems(ci *ssa.Call) []ssa.Value {
	if len(ci.Call.Args) < 2 {
		return nil
	}
	sl, ok := ci.Call.Args[1].(*ssa.Slice)
	if !ok {
		return []ssa.Value{ci.Call.Args[1]}
	}
	al, ok := sl.X.(*ssa.Alloc)
	if !ok {
		return []ssa.Value{ci.Call.Args[1]}
	}
	var out []ssa.Value
	for _, r := range *al.Referrers() {
		if ia, ok := r.(*ssa.IndexAddr); ok {
			for _, rr := range *ia.Referrers() {
				if st, ok := rr.(*ssa.Store); ok && st.Addr == ssa.Value(ia) {
					out = append(out, st.Val)
				}
			}
		}
	}
	return out
}

// lessForm normalises an ordering comparison to "a < b" (xor neg): x >= y is (x < y, neg), x <= y is
// (y < x, neg), x > y is (y < x), !(e) flips neg. ok=false when v is not an ordering comparison.
func lessForm(v ssa.Value) (a, b ssa.Value, neg, ok bool) {
	v = core.Strip(v)
	if u, isU := v.(*ssa.UnOp); isU && u.Op == token.NOT {
		a, b, neg, ok = lessForm(u.X)
		return a, b, !neg, ok
	}
	bo, isB := v.(*ssa.BinOp)
	if !isB {
		return nil, nil, false, false
	}
	switch bo.Op {
	case token.LSS:
		return bo.X, bo.Y, false, true
	case token.GEQ:
		return bo.X, bo.Y, true, true
	case token.GTR:
		return bo.Y, bo.X, false, true
	case token.LEQ:
		return bo.Y, bo.X, true, true
	}
	return nil, nil, false, false
}

// bytesLess normalises a test of a bytes.Compare result (`bytes.Compare(a, b) <op> K`, any spelling) to
// "x < y" (xor neg) over the compared byte strings. ok=false when v is not such a test.
func bytesLess(v ssa.Value) (x, y ssa.Value, neg, ok bool, call *ssa.Call) {
	v = core.Strip(v)
	if u, isU := v.(*ssa.UnOp); isU && u.Op == token.NOT {
		x, y, neg, ok, call = bytesLess(u.X)
		return x, y, !neg, ok, call
	}
	bo, isB := v.(*ssa.BinOp)
	if !isB {
		return nil, nil, false, false, nil
	}
	asCmp := func(w ssa.Value) *ssa.Call {
		cl, _ := core.Strip(w).(*ssa.Call)
		if cl != nil && cl.Call.StaticCallee() != nil && cl.Call.StaticCallee().String() == "bytes.Compare" {
			return cl
		}
		return nil
	}
	asK := func(w ssa.Value) (int64, bool) {
		cst, okc := core.Strip(w).(*ssa.Const)
		if !okc || cst.Value == nil || cst.Value.Kind() != constant.Int {
			return 0, false
		}
		return constant.Int64Val(cst.Value)
	}
	if bo.Op == token.EQL || bo.Op == token.NEQ {
		cl, k, okk := asCmp(bo.X), int64(0), false
		if cl != nil {
			k, okk = asK(bo.Y)
		} else if cl = asCmp(bo.Y); cl != nil {
			k, okk = asK(bo.X)
		}
		if cl == nil || !okk || (k != -1 && k != 1) {
			return nil, nil, false, false, nil
		}
		a, b := cl.Call.Args[0], cl.Call.Args[1]
		if k == 1 {
			a, b = b, a
		}
		return a, b, bo.Op == token.NEQ, true, cl
	}
	p, q, ng, isOrd := lessForm(bo) // (p < q) xor ng
	if !isOrd {
		return nil, nil, false, false, nil
	}
	if cl := asCmp(p); cl != nil {
		k, okk := asK(q)
		if !okk {
			return nil, nil, false, false, nil
		}
		a, b := cl.Call.Args[0], cl.Call.Args[1]
		switch k { // cmp < k
		case 0:
			return a, b, ng, true, cl // a < b
		case 1:
			return b, a, !ng, true, cl // cmp <= 0: !(b < a)
		}
		return nil, nil, false, false, nil
	}
	if cl := asCmp(q); cl != nil {
		k, okk := asK(p)
		if !okk {
			return nil, nil, false, false, nil
		}
		a, b := cl.Call.Args[0], cl.Call.Args[1]
		switch k { // k < cmp
		case 0:
			return b, a, ng, true, cl // b < a
		case -1:
			return a, b, !ng, true, cl // cmp >= 0: !(a < b)
		}
	}
	return nil, nil, false, false, nil
}

// ownerOf: the function a piece of code logically belongs to for who-may-write rules: closures
// belong to their parent; an unexported function/method all of whose static call sites lie in one
// function (after the same reduction) belongs to that caller (a block extracted into a private
// helper keeps its owner).
func ownerOf(c *core.Ctx, fn *ssa.Function) *ssa.Function {
	seen := map[*ssa.Function]bool{}
	for fn != nil && !seen[fn] {
		seen[fn] = true
		if par := fn.Parent(); par != nil {
			fn = par
			continue
		}
		if fn.Object() == nil || fn.Object().Exported() {
			return fn
		}
		var owner *ssa.Function
		okk := true
		cs := c.P.CallersOf(fn)
		for _, s := range cs {
			o := enclosing(s.Fn)
			if o == fn {
				continue
			}
			if owner == nil {
				owner = o
			} else if owner != o {
				okk = false
			}
		}
		if !okk || owner == nil || len(c.P.FuncValueUses(fn)) > 0 {
			return fn
		}
		fn = owner
	}
	return fn
}

// retCtx is a return instruction found in fn itself or in a private helper whose result fn returns
// unchanged (`if err := t.check(k, v); err != nil { return err }`), together with a renaming of the
// helper's parameter names (in atoms/provenance) to the caller's argument descriptions.
type retCtx struct {
	Fn     *ssa.Function
	Ret    *ssa.Return
	Rename func(string) string
}

// deepReturns: the returns of fn, where a return that hands back result #0 of a private same-package
// helper is replaced by that helper's returns (one level).
func deepReturns(c *core.Ctx, fn *ssa.Function) []retCtx {
	var out []retCtx
	id := func(s string) string { return s }
	for _, r := range returnsOf(fn) {
		expanded := false
		for _, res := range r.Results {
			ex := core.Strip(res)
			var cl *ssa.Call
			switch x := ex.(type) {
			case *ssa.Call:
				cl = x
			case *ssa.Extract:
				cl, _ = x.Tuple.(*ssa.Call)
			}
			if cl == nil {
				continue
			}
			g := cl.Call.StaticCallee()
			if g == nil || len(g.Blocks) == 0 || g.Pkg != fn.Pkg || g.Object() == nil || g.Object().Exported() || !isErrorType(res.Type()) {
				continue
			}
			// parameter renaming
			pv := c.P.Prov()
			ren := map[string]string{}
			off := 0
			if g.Signature.Recv() != nil {
				off = 1
				if d := pv.Desc(cl.Call.Args[0]); len(d) == 1 {
					ren["recv"] = d[0]
				}
			}
			for i := off; i < len(cl.Call.Args); i++ {
				if d := pv.Desc(cl.Call.Args[i]); len(d) == 1 {
					ren[fmt.Sprintf("param#%d", i-off)] = d[0]
				}
			}
			rename := func(s string) string {
				// replace longest keys first; param#1 must not clobber param#10
				keys := make([]string, 0, len(ren))
				for k := range ren {
					keys = append(keys, k)
				}
				sort.Slice(keys, func(i, j int) bool { return len(keys[i]) > len(keys[j]) })
				for i, k := range keys {
					s = strings.ReplaceAll(s, k, fmt.Sprintf("\x00%d\x00", i))
				}
				for i, k := range keys {
					s = strings.ReplaceAll(s, fmt.Sprintf("\x00%d\x00", i), ren[k])
				}
				return s
			}
			for _, r2 := range returnsOf(g) {
				out = append(out, retCtx{g, r2, rename})
			}
			expanded = true
		}
		if !expanded {
			out = append(out, retCtx{fn, r, id})
		}
	}
	return out
}

// lockLeaks: for every Lock/RLock call in fn, a path from the call to a return that passes neither an
// Unlock/RUnlock of the same mutex path nor a `defer` of one (the deferred call runs at the return).
type lockLeak struct {
	Lock ssa.Instruction
	Path string
	Ret  ssa.Instruction
	W    []core.Step
}

func lockLeaks(fn *ssa.Function) []lockLeak {
	var out []lockLeak
	core.Instrs(fn, func(in ssa.Instruction) {
		cl, ok := in.(*ssa.Call)
		if !ok {
			return
		}
		path, op := core.LockOp(&cl.Call)
		if op != "Lock" && op != "RLock" {
			return
		}
		release := map[string]bool{"Lock": false}
		_ = release
		want := "Unlock"
		if op == "RLock" {
			want = "RUnlock"
		}
		isRelease := func(x ssa.Instruction) bool {
			switch y := x.(type) {
			case *ssa.Call:
				p2, o2 := core.LockOp(&y.Call)
				return o2 == want && p2 == path
			case *ssa.Defer:
				p2, o2 := core.LockOp(&y.Call)
				if o2 == want && p2 == path {
					return true
				}
				// defer func() { …Unlock() }()
				if mc, ok := y.Call.Value.(*ssa.MakeClosure); ok {
					found := false
					core.Instrs(mc.Fn.(*ssa.Function), func(z ssa.Instruction) {
						if c2, ok := z.(*ssa.Call); ok {
							if _, o3 := core.LockOp(&c2.Call); o3 == want {
								found = true
							}
						}
					})
					return found
				}
			}
			return false
		}
		// a defer registered BEFORE the lock also covers it
		deferredBefore := false
		q0 := &core.Q{Fn: fn, NoHelpers: true}
		core.Instrs(fn, func(x ssa.Instruction) {
			if d, ok := x.(*ssa.Defer); ok && isRelease(d) {
				if found, _, _ := q0.Reach(d, func(t ssa.Instruction) bool { return t == in }); found {
					deferredBefore = true
				}
			}
		})
		if deferredBefore {
			return
		}
		q := &core.Q{Fn: fn, NoPass: isRelease, NoHelpers: true}
		if found, w, hit := q.Reach(in, core.IsReturn); found {
			out = append(out, lockLeak{in, path, hit, w})
		}
	})
	return out
}

// LockLeakSurvey prints every lock leak candidate of the module (debugging aid).
func LockLeakSurvey(p *core.Prog) {
	for _, fn := range p.Funcs {
		if strings.HasSuffix(p.Fset.Position(fn.Pos()).Filename, "_test.go") {
			continue
		}
		for _, l := range lockLeaks(fn) {
			fmt.Printf("%s\t%s\t%s\treturn at %s\n", fname(fn), l.Path, p.InstrPos(l.Lock), p.InstrPos(l.Ret))
		}
	}
}
