package rules

import (
	"fmt"
	"go/token"
	"go/types"
	"strings"

	"golang.org/x/tools/go/ssa"

	"verif/sa/core"
)

const (
	pkgTxn    = "txnkv/transaction"
	pkgLock   = "txnkv/txnlock"
	pkgSnap   = "txnkv/txnsnapshot"
	pkgLocate = "internal/locate"
	pkgUnion  = "internal/unionstore"
	pkgMock   = "internal/mockstore/mocktikv"
	pkgRetry  = "config/retry"
	pkgClient = "internal/client"
	pkgCodec  = "util/codec"
	pkgAPI    = "internal/apicodec"
	pkgRPC    = "tikvrpc"
	pkgOracle = "oracle/oracles"
	kvrpcpb   = "github.com/pingcap/kvproto/pkg/kvrpcpb"
)

// A is the per-rule helper: resolves anchors and reports UNDECIDED when one is missing.
type A struct {
	c    *core.Ctx
	rule string
	bad  bool
}

func rule(c *core.Ctx, id string) *A { return &A{c: c, rule: id} }

// fn resolves a function anchor.
func (a *A) fn(pkg, recv, name string) *ssa.Function {
	f := a.c.P.Func(pkg, recv, name)
	if f == nil {
		a.bad = true
		a.c.Und(a.rule, "anchor "+pkg+"."+recv+"."+name, "-", "anchored function not found (renamed or removed): rule cannot be decided")
	}
	return f
}

// field resolves a field anchor of a module type.
func (a *A) field(pkg, typ, path string) *types.Var {
	n := a.c.P.Named(pkg, typ)
	v := core.Field(n, path)
	if v == nil {
		a.bad = true
		a.c.Und(a.rule, "anchor "+pkg+"."+typ+"."+path, "-", "anchored field not found (renamed or removed): rule cannot be decided")
	}
	return v
}

// extField resolves a field of an external (kvproto …) type.
func (a *A) extField(pkgPath, typ, path string) *types.Var {
	n := a.c.P.ExtNamed(pkgPath, typ)
	v := core.Field(n, path)
	if v == nil {
		a.bad = true
		a.c.Und(a.rule, "anchor "+pkgPath+"."+typ+"."+path, "-", "anchored field not found: rule cannot be decided")
	}
	return v
}

func (a *A) ok(construct string, in ssa.Instruction, detail string) {
	a.c.OK(a.rule, construct, a.c.P.InstrPos(in), detail)
}
func (a *A) viol(construct string, in ssa.Instruction, detail string) {
	a.c.Bad(a.rule, construct, a.c.P.InstrPos(in), detail)
}
func (a *A) okAt(construct, pos, detail string)   { a.c.OK(a.rule, construct, pos, detail) }
func (a *A) violAt(construct, pos, detail string) { a.c.Bad(a.rule, construct, pos, detail) }
func (a *A) undAt(construct, pos, detail string)  { a.c.Und(a.rule, construct, pos, detail) }

func (a *A) check(cond bool, construct string, in ssa.Instruction, okDetail, badDetail string) bool {
	if cond {
		a.ok(construct, in, okDetail)
	} else {
		a.viol(construct, in, badDetail)
	}
	return cond
}

func (a *A) fnPos(f *ssa.Function) string { return a.c.P.Pos(f.Pos()) }

// witness renders a path.
func (a *A) w(steps []core.Step) string { return a.c.P.Witness(steps) }

// callsIn returns call instructions to callee within fn and its closures.
func callsIn(fn *ssa.Function, m func(*ssa.CallCommon) bool) []ssa.CallInstruction {
	var out []ssa.CallInstruction
	for _, f := range core.FuncsIn(fn) {
		out = append(out, core.FindCalls(f, m)...)
	}
	return out
}

// name of function for construct keys.
func fname(f *ssa.Function) string { return core.FuncName(f) }

// calleeName for construct keys.
func calleeName(c ssa.CallInstruction) string {
	cc := c.Common()
	if cc.IsInvoke() {
		return cc.Method.Name()
	}
	if f := cc.StaticCallee(); f != nil {
		return f.Name()
	}
	return "dyn"
}

// argOf returns argument i of a call, not counting the receiver for methods.
func argOf(c ssa.CallInstruction, i int) ssa.Value {
	cc := c.Common()
	args := cc.Args
	if !cc.IsInvoke() {
		if f := cc.StaticCallee(); f != nil && f.Signature.Recv() != nil {
			args = args[1:]
		} else if f == nil {
			// dynamic call through func value: args as is
		}
	}
	if i < len(args) {
		return args[i]
	}
	return nil
}

func isNil(v ssa.Value) bool {
	c, ok := v.(*ssa.Const)
	return ok && c.Value == nil
}

// storesToField lists stores in fn (and closures) to field f.
func storesToField(fn *ssa.Function, f *types.Var) []*ssa.Store {
	var out []*ssa.Store
	for _, g := range core.FuncsIn(fn) {
		core.Instrs(g, func(in ssa.Instruction) {
			if st, ok := in.(*ssa.Store); ok {
				if fa, ok := st.Addr.(*ssa.FieldAddr); ok && core.FieldOfAddr(fa) == f {
					out = append(out, st)
				}
			}
		})
	}
	return out
}

// ifsOn finds If instructions in fn whose condition matches atom a.
func ifsOn(fn *ssa.Function, a core.Pred) []*ssa.If {
	var out []*ssa.If
	core.Instrs(fn, func(in ssa.Instruction) {
		if i, ok := in.(*ssa.If); ok {
			v, _ := core.CondOf(i)
			if m, _ := a(v); m {
				out = append(out, i)
			}
		}
	})
	return out
}

// succOn returns the successor block of ifi on which atom a has truth t.
func succOn(ifi *ssa.If, a core.Pred, t bool) *ssa.BasicBlock {
	for k := 0; k < 2; k++ {
		m, tr := core.EdgeTruth(core.Edge{If: ifi, True: k == 0}, a)
		if m && tr == t {
			return ifi.Block().Succs[k]
		}
	}
	return nil
}

// reachFromBlock: path query starting at the first instruction of block b.
func reachFromBlock(fn *ssa.Function, b *ssa.BasicBlock, noPass func(ssa.Instruction) bool, noEdge func(core.Edge) bool, target func(ssa.Instruction) bool) (bool, []core.Step, ssa.Instruction) {
	q := &core.Q{Fn: fn, NoPass: noPass, NoEdge: noEdge}
	return q.ReachFromBlock(b, target)
}

// flowsToReturn: does value v flow (through error wrappers, conversions, φ, stores to a
// named result) into a return of its function.
func flowsToReturn(v ssa.Value) bool {
	seen := map[ssa.Value]bool{}
	var rec func(v ssa.Value) bool
	rec = func(v ssa.Value) bool {
		if seen[v] {
			return false
		}
		seen[v] = true
		refs := v.Referrers()
		if refs == nil {
			return false
		}
		for _, r := range *refs {
			switch y := r.(type) {
			case *ssa.Return:
				return true
			case *ssa.Phi:
				if rec(y) {
					return true
				}
			case *ssa.MakeInterface:
				if rec(y) {
					return true
				}
			case *ssa.ChangeType:
				if rec(y) {
					return true
				}
			case *ssa.ChangeInterface:
				if rec(y) {
					return true
				}
			case *ssa.Call:
				if c := y.Call.StaticCallee(); c != nil && c.Pkg != nil && strings.HasSuffix(c.Pkg.Pkg.Path(), "/errors") {
					if rec(y) {
						return true
					}
				}
			case *ssa.Store:
				if al, ok := y.Addr.(*ssa.Alloc); ok && y.Val == v {
					// named result or local that is later returned
					for _, rr := range *al.Referrers() {
						if ld, ok := rr.(*ssa.UnOp); ok && ld.Op == token.MUL {
							if rec(ld) {
								return true
							}
						}
					}
				}
			}
		}
		return false
	}
	return rec(v)
}

// loadsGlobal matches a load of package-level variable pkgSuffix.name.
func loadsGlobal(pkgSuffix, name string) core.VM {
	return func(v ssa.Value) bool {
		u, ok := core.Strip(v).(*ssa.UnOp)
		if !ok || u.Op != token.MUL {
			return false
		}
		g, ok := u.X.(*ssa.Global)
		return ok && g.Name() == name && strings.HasSuffix(g.Pkg.Pkg.Path(), pkgSuffix)
	}
}

// returnsOf lists the Return instructions of fn.
func returnsOf(fn *ssa.Function) []*ssa.Return {
	var out []*ssa.Return
	core.Instrs(fn, func(in ssa.Instruction) {
		if r, ok := in.(*ssa.Return); ok {
			out = append(out, r)
		}
	})
	return out
}

// writerKey builds a construct key for a field writer.
func writerKey(w core.Writer, f *types.Var) string {
	return fmt.Sprintf("%s writes %s (%s)", fname(w.Fn), f.Name(), w.Kind)
}

// inFuncs: is fn (or an enclosing parent) one of the allowed functions.
func inFuncs(fn *ssa.Function, allowed ...*ssa.Function) bool {
	for f := fn; f != nil; f = f.Parent() {
		for _, a := range allowed {
			if a != nil && f == a {
				return true
			}
		}
	}
	return false
}

// descHas: any root description of v contains sub.
func descHas(c *core.Ctx, v ssa.Value, sub string) bool {
	return core.HasSub(c.P.Prov().Desc(v), sub)
}

// descAll: every root description of v contains one of subs.
func descAll(c *core.Ctx, v ssa.Value, subs ...string) (bool, []string) {
	ds := c.P.Prov().Desc(v)
	for _, d := range ds {
		ok := false
		for _, s := range subs {
			if strings.Contains(d, s) {
				ok = true
			}
		}
		if !ok {
			return false, ds
		}
	}
	return len(ds) > 0, ds
}

// enclosing returns the outermost named function containing fn.
func enclosing(fn *ssa.Function) *ssa.Function {
	for fn.Parent() != nil {
		fn = fn.Parent()
	}
	return fn
}

// errTyped matches values of type error that are loads of captured/spilled variables or φ.
func isErrorType(t types.Type) bool {
	n, ok := t.(*types.Named)
	return ok && n.Obj().Pkg() == nil && n.Obj().Name() == "error"
}

const (
	tokEQL = token.EQL
	tokNEQ = token.NEQ
	tokLSS = token.LSS
	tokLEQ = token.LEQ
	tokGTR = token.GTR
	tokGEQ = token.GEQ
)

// isProbe: functions defined in the repository's test_probe.go files are white-box test
// hooks (exported *Probe types used only by the test suites); rules about production call
// sites skip them. Frozen exception, by file, with this reason.
func isProbe(c *core.Ctx, fn *ssa.Function) bool {
	f := enclosing(fn)
	pos := c.P.Fset.Position(f.Pos())
	return strings.HasSuffix(pos.Filename, "/test_probe.go") || strings.HasSuffix(pos.Filename, "/test_util.go")
}
