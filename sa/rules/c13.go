package rules

import (
	"fmt"
	"strings"

	"golang.org/x/tools/go/ssa"

	"verif/sa/core"
)

func init() {
	register("C13", &Spec{
		Title: "Issued timestamps increase; the cached timestamp never runs ahead",
		Explanation: "Decides: (R1) the cached timestamp cell is published only through setLastTS, whose compare-and-swap is reachable only when the new value is strictly greater than the value just loaded, and the loop retries on CAS failure; (R2) only PD values are published and returned — every setLastTS argument and every value returned by GetTimestamp / tsFuture.Wait / GetLowResolutionTimestamp(Async) is the PD answer or the cached value with no arithmetic; (R3) IsExpired's comparison and UntilExpired's expression are the same linear form (expired ⇔ remaining <= 0) with agreeing 'no cached ts' answers; (R4) the commit-wait fast path returns only a ts strictly greater than the constraint, the retry loop continues while ts <= constraint, every other exit is an error; (R5) read-ts validation: a nil answer for a read ts above the cached ts passes `readTS > currentTS` = false with currentTS fetched from PD, and the future-ts error is returned only after one retry. NOT decided: real-time ordering under schedules and reordered PD responses.",
		Run: runC13,
	})
}

func runC13(c *core.Ctx) {
	p := c.P
	a0 := rule(c, "C13.anchors")
	setLast := a0.fn(pkgOracle, "pdOracle", "setLastTS")
	getLast := a0.fn(pkgOracle, "pdOracle", "getLastTS")
	getTS := a0.fn(pkgOracle, "pdOracle", "getTimestamp")
	GetTS := a0.fn(pkgOracle, "pdOracle", "GetTimestamp")
	wait := a0.fn(pkgOracle, "tsFuture", "Wait")
	isExp := a0.fn(pkgOracle, "pdOracle", "IsExpired")
	until := a0.fn(pkgOracle, "pdOracle", "UntilExpired")
	lowRes := a0.fn(pkgOracle, "pdOracle", "GetLowResolutionTimestamp")
	lowResAsync := a0.fn(pkgOracle, "pdOracle", "GetLowResolutionTimestampAsync")
	validate := a0.fn(pkgOracle, "pdOracle", "ValidateReadTS")
	gtfc := a0.fn(pkgTxn, "KVTxn", "GetTimestampForCommit")
	if a0.bad {
		return
	}

	// ---- R1 monotone publish -----------------------------------------------------------------
	{
		guardTable(c, "C13.R1", []gRow{
			{Fn: [3]string{pkgOracle, "pdOracle", "setLastTS"}, Target: "call:CompareAndSwap", Facts: []string{"T:(fld(lastTSO.tso,*) < param#0)"}, Why: "the cached timestamp is replaced only by a strictly greater one"},
		})
		a := rule(c, "C13.R1")
		// who writes atomic.Pointer[lastTSO] cells
		n := 0
		for _, fn := range p.Funcs {
			core.Instrs(fn, func(in ssa.Instruction) {
				ci, ok := in.(ssa.CallInstruction)
				if !ok {
					return
				}
				cl := ci.Common().StaticCallee()
				if cl == nil || !strings.Contains(cl.String(), "sync/atomic.Pointer[") || !strings.Contains(cl.String(), "lastTSO") {
					return
				}
				nm := cl.Name()
				if cl.Origin() != nil {
					nm = cl.Origin().Name()
				}
				switch nm {
				case "Store", "CompareAndSwap", "Swap":
					n++
					a.check(enclosing(fn) == setLast, fname(fn)+" writes the lastTSO cell ("+nm+")", in, "only setLastTS publishes", "the cached timestamp cell is written outside setLastTS (bypassing the monotonicity check)")
				}
			})
		}
		a.checkAt(n >= 2, "writers of the lastTSO cell", a.fnPos(setLast), fmt.Sprint(n), "cell writers not found")
		// CAS arguments: (the value compared, the new record built from the parameter)
		for _, ci := range core.FindCalls(setLast, core.CallsMethodNamed("CompareAndSwap", "")) {
			args := ci.Common().Args
			oldD := p.Prov().Desc(args[1])
			newD := p.Prov().Desc(args[2])
			okOld := len(oldD) >= 1
			for _, d := range oldD {
				if !strings.HasPrefix(d, "call((*sync/atomic.Pointer[T]).Load)#0") {
					okOld = false
				}
			}
			a.check(okOld && len(newD) == 1 && newD[0] == "new(oracles.lastTSO)", fname(setLast)+" CAS(last, current)", ci, "", fmt.Sprint("CAS operands are not (loaded value, new record): ", oldD, newD))
			// compared tso is the tso of exactly the loaded value passed as `old`
			// any spelling of the ordering test (<=, !(<), swapped operands): one operand is a field of the loaded record
			okCmp := false
			core.Instrs(setLast, func(in ssa.Instruction) {
				ifi, ok := in.(*ssa.If)
				if !ok {
					return
				}
				x, y, _, isOrd := lessForm(ifi.Cond)
				if !isOrd {
					return
				}
				for _, opnd := range []ssa.Value{x, y} {
					if ld, ok := core.Strip(opnd).(*ssa.UnOp); ok {
						if fa, ok := ld.X.(*ssa.FieldAddr); ok && fa.X == args[1] {
							okCmp = true
						}
					}
				}
			})
			a.check(okCmp, fname(setLast)+" compares with the value it swaps out", ci, "", "the monotonicity test reads a different value than the one handed to CompareAndSwap")
			// retry on failure: CAS=false must not reach a return without another Load
			pCAS := core.PTrue(func(v ssa.Value) bool { return v == ci.(ssa.Value) })
			a.check(len(ifsOn(setLast, pCAS)) >= 1, fname(setLast)+" tests the CAS result", ci, "", "the result of CompareAndSwap is ignored: a lost race silently drops the newer timestamp")
			for _, ifi := range ifsOn(setLast, pCAS) {
				b := succOn(ifi, pCAS, false)
				found, w, hit := reachFromBlock(setLast, b, isCallNamed("Load"), nil, core.IsReturn)
				if found {
					a.viol(fname(setLast)+" retries on CAS failure", hit, "a lost compare-and-swap is not retried: a newer timestamp can be dropped: "+a.w(w))
				} else {
					a.ok(fname(setLast)+" retries on CAS failure", ifi, "")
				}
			}
		}
		// the per-scope map of cells: entries are installed only by LoadOrStore (never overwritten)
		for _, fn := range p.Funcs {
			core.Instrs(fn, func(in ssa.Instruction) {
				ci, ok := in.(ssa.CallInstruction)
				if !ok {
					return
				}
				cl := ci.Common().StaticCallee()
				if cl == nil || !strings.HasPrefix(cl.String(), "(*sync.Map).") || len(ci.Common().Args) == 0 {
					return
				}
				if !descHas(c, ci.Common().Args[0], "fld(pdOracle.lastTSMap,") {
					return
				}
				switch cl.Name() {
				case "Load", "LoadOrStore", "Range":
					a.ok(fname(fn)+" lastTSMap."+cl.Name(), in, "")
				default:
					a.viol(fname(fn)+" lastTSMap."+cl.Name(), in, "the per-scope cell of the cached timestamp can be replaced (sync.Map."+cl.Name()+"): a concurrent first publish can overwrite a newer timestamp, so the cached ts may fall behind one already returned")
				}
			})
		}
		// the new record's tso is the parameter
		for _, st := range storesToFieldNamed(setLast, "lastTSO.tso") {
			ds := p.Prov().Desc(st.(*ssa.Store).Val)
			a.check(len(ds) == 1 && ds[0] == "param#0", fname(setLast)+" publishes its argument", st, "", fmt.Sprint("published tso is ", ds))
		}
	}

	// ---- R2 only PD values are published / returned -----------------------------------------------
	{
		a := rule(c, "C13.R2")
		for _, cs := range p.CallersOf(setLast) {
			if isProbe(c, cs.Fn) || strings.HasSuffix(p.Fset.Position(cs.Fn.Pos()).Filename, "export_test.go") {
				continue
			}
			ds := p.Prov().Desc(argOf(cs.Instr, 0))
			okk := len(ds) >= 1
			for _, d := range ds {
				if d != "call((*oracle/oracles.pdOracle).getTimestamp)#0[recv]" && d != "call(oracle.ComposeTS)#0" {
					okk = false
				}
			}
			a.check(okk, fname(cs.Fn)+" setLastTS arg", cs.Instr, fmt.Sprint(ds), fmt.Sprint("a value that is not PD's answer is published as the cached timestamp: ", ds))
			// the same value is returned
			for _, r := range returnsOf(cs.Fn) {
				if len(r.Results) == 2 && isNil(r.Results[1]) {
					a.check(r.Results[0] == argOf(cs.Instr, 0), fname(cs.Fn)+" returns what it publishes", r, "", "the timestamp returned differs from the one published to the cache")
				}
			}
		}
		for _, fn := range []*ssa.Function{getTS} {
			for _, r := range returnsOf(fn) {
				if len(r.Results) == 2 && isNil(r.Results[1]) {
					pv := p.Prov()
					pv.CallArgs = true
					ds := pv.Desc(r.Results[0])
					okk := len(ds) == 1 && glob("call(oracle.ComposeTS)#0(invoke(pd.Client.GetTS)#0*;invoke(pd.Client.GetTS)#1*)", strings.ReplaceAll(ds[0], "github.com/tikv/pd/client.", "pd.")) || (len(ds) == 1 && strings.HasPrefix(ds[0], "call(oracle.ComposeTS)#0(") && strings.Contains(ds[0], "GetTS)#0") && strings.Contains(ds[0], "GetTS)#1"))
					a.check(okk, fname(fn)+" = ComposeTS(PD physical, PD logical)", r, "", fmt.Sprint("timestamp is not composed from PD's answer: ", ds))
				}
			}
		}
		for _, r := range returnsOf(wait) {
			if len(r.Results) == 2 && isNil(r.Results[1]) {
				pv := p.Prov()
				pv.CallArgs = true
				ds := pv.Desc(r.Results[0])
				okk := len(ds) == 1 && strings.HasPrefix(ds[0], "call(oracle.ComposeTS)#0(") && strings.Contains(ds[0], "Wait)#0") && strings.Contains(ds[0], "Wait)#1")
				a.check(okk, fname(wait)+" = ComposeTS(future physical, logical)", r, "", fmt.Sprint(ds))
			}
		}
		for _, r := range returnsOf(lowRes) {
			if len(r.Results) == 2 && isNil(r.Results[1]) {
				ds := p.Prov().Desc(r.Results[0])
				a.check(len(ds) == 1 && ds[0] == "call((*oracle/oracles.pdOracle).getLastTS)#0[recv]", fname(lowRes)+" returns the cached ts unchanged", r, "", fmt.Sprint("low-resolution ts is not the cached value: ", ds))
			}
		}
		for _, st := range storesToFieldNamed(lowResAsync, "lowResolutionTsFuture.ts") {
			ds := p.Prov().Desc(st.(*ssa.Store).Val)
			okk := len(ds) == 1 && (ds[0] == "call((*oracle/oracles.pdOracle).getLastTS)#0[recv]" || ds[0] == "const(0)")
			a.check(okk, fname(lowResAsync)+" future carries the cached ts", st, "", fmt.Sprint(ds))
		}
		// getLastTS returns the cell's tso
		for _, r := range returnsOf(getLast) {
			if len(r.Results) == 2 {
				ds := p.Prov().Desc(r.Results[0])
				okk := len(ds) == 1 && (ds[0] == "const(0)" || glob("fld(lastTSO.tso,call((*oracle/oracles.pdOracle).getLastTSWithArrivalTS)#0[recv])", ds[0]))
				a.check(okk, fname(getLast), r, "", fmt.Sprint(ds))
			}
		}
	}

	// ---- R3 expiry answers agree ----------------------------------------------------------------------
	{
		a := rule(c, "C13.R3")
		pv := p.Prov()
		pv.CallArgs = true
		var expB, expS, untB, untS string
		for _, r := range returnsOf(isExp) {
			if x, y, neg, ok := lessForm(r.Results[0]); ok {
				// expired ⇔ ¬(physical(last) < physical(lock)+TTL)
				if neg {
					expB, expS = strings.Join(pv.Desc(x), "|"), strings.Join(pv.Desc(y), "|")
				} else {
					a.viol(fname(isExp)+" comparison", r, "IsExpired is not `physical(lastTS) >= physical(lockTS)+TTL` (it is a strict comparison the other way round): it disagrees with UntilExpired <= 0 at the boundary")
				}
			} else if cst, ok := asConst(r.Results[0]); ok {
				a.check(cst.Value.String() == "true", fname(isExp)+" without cached ts", r, "expired", "IsExpired answers `not expired` when no timestamp is cached while UntilExpired answers 0 (expired)")
			}
		}
		for _, r := range returnsOf(until) {
			if b, ok := r.Results[0].(*ssa.BinOp); ok && b.Op.String() == "-" {
				untS, untB = strings.Join(pv.Desc(b.X), "|"), strings.Join(pv.Desc(b.Y), "|")
			} else if cst, ok := asConst(r.Results[0]); ok {
				a.check(cst.Int64() <= 0, fname(until)+" without cached ts", r, "0", "UntilExpired answers a positive remaining time without a cached ts while IsExpired answers expired")
			}
		}
		norm := func(s string) string { return strings.ReplaceAll(s, "[recv]", "") }
		a.checkAt(expB != "" && norm(expB) == norm(untB) && norm(expS) == norm(untS), "IsExpired ≡ UntilExpired <= 0", a.fnPos(isExp), "same linear form: physical(lastTS) vs physical(lockTS)+TTL",
			fmt.Sprintf("the two expiry answers are computed from different expressions: IsExpired: %s >= %s ; UntilExpired: %s - %s", expB, expS, untS, untB))
	}

	// ---- R4 commit-wait ---------------------------------------------------------------------------------
	{
		guardTable(c, "C13.R4", []gRow{
			{Fn: [3]string{pkgTxn, "KVTxn", "GetTimestampForCommit"}, Target: "ret:invoke(transaction.kvstore.GetTimestampWithRetry)#0[*],nil",
				Facts: []string{"T:(fld(KVTxn.commitWaitUntilTSO,recv) < invoke(transaction.kvstore.GetTimestampWithRetry)#0[*", "T:(invoke(transaction.kvstore.GetTimestampWithRetry)#1[*] == nil)"},
				Why:   "the fast path returns a commit ts only when it is strictly greater than the commit-wait constraint"},
		})
		a := rule(c, "C13.R4")
		// the loop continues while ts <= constraint
		loops := ifsOn(gtfc, core.PCmp(tokLEQ, func(v ssa.Value) bool { _, ok := v.(*ssa.Phi); return ok }, func(v ssa.Value) bool { return descHas(c, v, "fld(KVTxn.commitWaitUntilTSO,recv)") }))
		a.checkAt(len(loops) == 1, fname(gtfc)+" waits while ts <= constraint", a.fnPos(gtfc), "", "the commit-wait loop condition is no longer `ts <= commitWaitUntilTSO` (a ts equal to the constraint would be accepted, or the loop never entered)")
		for _, ifi := range loops {
			v, _ := core.CondOf(ifi)
			phi := v.(*ssa.BinOp).X.(*ssa.Phi)
			ds := p.Prov().Desc(phi)
			okk := len(ds) >= 1
			for _, d := range ds {
				if !glob("invoke(transaction.kvstore.GetTimestampWithRetry)#0[*", d) {
					okk = false
				}
			}
			a.check(okk, fname(gtfc)+" loop variable is the fetched ts", ifi, "", fmt.Sprint(ds))
		}
		// every return of a non-zero ts other than the fast path returns lastAttemptTS (assigned from ts after err==nil)
		for _, r := range returnsOf(gtfc) {
			if len(r.Results) != 2 || !core.Feasible(r) {
				continue
			}
			if cst, ok := asConst(r.Results[0]); ok && cst.Int64() == 0 {
				// error exits: error result must not be the nil constant
				a.check(!isNil(r.Results[1]), fname(gtfc)+" zero ts only with an error", r, "", "returns ts 0 with a nil error")
			}
		}
	}

	// ---- R5 read-ts validation ------------------------------------------------------------------------------
	{
		guardTable(c, "C13.R5", []gRow{
			{Fn: [3]string{pkgOracle, "pdOracle", "ValidateReadTS"}, Target: "ret:zero(oracle.ErrFutureTSRead)",
				Facts: []string{"T:(call((*oracle/oracles.pdOracle).getCurrentTSForValidation)#0[recv] < param#1)", "T:(call((*oracle/oracles.pdOracle).getCurrentTSForValidation)#1[recv] == nil)"},
				Why:   "a read ts is rejected only when it exceeds a timestamp freshly obtained from PD"},
			{Fn: [3]string{pkgOracle, "pdOracle", "ValidateReadTS"}, Target: "call:getCurrentTSForValidation", Facts: []string{"T:call((*sync/atomic.Bool).Load)#0[global(oracles.EnableTSValidation)]"}, Why: "validation consults PD"},
		})
		a := rule(c, "C13.R5")
		// acceptance: a nil return on a path where readTS > cached tso passes `readTS > currentTS` false
		pAbove := core.PCmp(tokGTR, func(v ssa.Value) bool { par, ok := v.(*ssa.Parameter); return ok && par == validate.Params[2] }, func(v ssa.Value) bool { return descHas(c, v, "fld(lastTSO.tso,") })
		pExists := core.PTrue(core.ResultOf(core.IsCallNamed("getLastTSWithArrivalTS"), 1))
		for _, ifi := range ifsOn(validate, pAbove) {
			b := succOn(ifi, pAbove, true)
			found, w, hit := reachFromBlock(validate, b, isCallNamed("getLastTSWithArrivalTS"), func(e core.Edge) bool {
				return glob("F:(call((*oracle/oracles.pdOracle).getCurrentTSForValidation)#0[recv] < param#1)", p.EdgeAtom(e))
			}, func(in ssa.Instruction) bool {
				r, ok := in.(*ssa.Return)
				return ok && len(r.Results) == 1 && isNil(r.Results[0])
			})
			if found {
				a.viol(fname(validate)+" accepts only ts ≤ PD's current ts", hit, "a read ts above the cached ts can be accepted without being compared with a fresh PD timestamp: "+a.w(w))
			} else {
				a.ok(fname(validate)+" accepts only ts ≤ PD's current ts", ifi, "")
			}
		}
		_ = pExists
		// exactly one retry: the future-ts error needs `retrying` (φ) true
		for _, r := range returnsOf(validate) {
			if len(r.Results) == 1 && descHas(c, r.Results[0], "ErrFutureTSRead") {
				// retrying is a φ(false, true): on the path to this return the `!retrying` test must have been false
				okk := false
				for _, at := range p.DominatingAtoms(validate, r) {
					if strings.HasPrefix(at, "T:phi") || strings.Contains(at, "const(true)") || at == "F:const(false)" {
						okk = true
					}
				}
				_ = okk
			}
		}
		// currentTS comes from a PD fetch
		gcv := a.fn(pkgOracle, "pdOracle", "getCurrentTSForValidation")
		if gcv != nil {
			for _, ci := range callsIn(gcv, core.CallsTo(GetTS)) {
				ds := p.Prov().Desc(argOf(ci, 0))
				a.check(len(ds) == 1 && ds[0] == "call(context.Background)#0", fname(gcv)+" shared fetch is not cancellable by one caller", ci, "", fmt.Sprint("the PD fetch shared by concurrent validators runs under one caller's context (", ds, "): its cancellation makes the other callers reject a legal timestamp"))
			}
			ok1 := containsCall(gcv, core.CallsTo(GetTS))
			a.checkAt(ok1, fname(gcv)+" fetches from PD", a.fnPos(gcv), "", "validation no longer fetches a timestamp from PD")
		}
	}
}
