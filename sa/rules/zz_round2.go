package rules

import (
	"fmt"
	"go/ast"
	"go/printer"
	"go/token"
	"go/types"
	"strings"

	"golang.org/x/tools/go/ssa"

	"verif/sa/core"
)

// Rules added after the second, independent round of seeded changes (see DESIGN.md §14): each
// is a structural necessary condition of its property that the first rule set did not state.
// They are attached to the registered checks here so that the disclosure is in one place.

func extend(id, explanation string, f func(*core.Ctx)) {
	s := Registry[id]
	if s == nil {
		panic("extend: unknown property " + id)
	}
	old := s.Run
	s.Run = func(c *core.Ctx) {
		old(c)
		guarded(c, id, explanation, f)
	}
	s.Explanation = strings.Replace(s.Explanation, " NOT decided", " "+explanation+" NOT decided", 1)
}

// guarded runs a group of rules; a panic inside it (an anchored function whose shape is not the one the rule
// was written for, e.g. a changed parameter list) makes that group undecided instead of taking the whole check
// down.
func guarded(c *core.Ctx, id, what string, f func(*core.Ctx)) {
	defer func() {
		if r := recover(); r != nil {
			if len(what) > 60 {
				what = what[:60]
			}
			c.Und(id+".panic", "rule group "+what, "-", fmt.Sprintf("the rules could not be evaluated on this tree (checker panic: %v): an anchored function no longer has the shape the rule reads", r))
		}
	}()
	f(c)
}

func init() {
	extend("C07", "(R6) the transaction's read entry points (Get, BatchGet, Iter, IterReverse) read only through the buffer-first union store / batch getter, never the snapshot directly.", c07ReadEntryPoints)
	extend("C08", "(R8) both buffers take the snapshot checkpoint from the OUTERMOST staging level (stages[0]); (R9) where the radix tree derives a child slot from a key position, the byte (charAt) and the end-of-key flag (valid) are taken at the same position; (R10) the batched snapshot iterator's resume key is lastKey followed by a zero byte written on every path that reuses the buffer.", c08Round2)
	extend("C09", "(R6) the per-region newest-version record is dropped only together with the cache entry it describes (guard: same version).", c09LatestVersions)
	extend("C11", "(R5) mock store range bounds: each comparison of an iterated key with a range bound has the strictness of its bound kind (exclusive end: inside ⇔ key < end; inclusive lower bound of a reverse scan: inside ⇔ ¬(key < bound)) and the side that fails leaves the loop; regionContains is decided for all orderings.", c11MockBounds)
	extend("C15", "(R6) every case of the generated patchCmdCtx has the same statement skeleton (direct patch when rev == 0, else copy, patch the copy, install the copy, bump rev) modulo the accessor; (R7) keyspace bounds: comparisons of a key with the keyspace prefix / end key in DecodeRange and DecodeBucketKeys have the strictness of an inclusive start / exclusive end.", c15Round2)
	extend("C16", "(R7) Dirty() is monotone: besides the mutable buffer's own flag it depends only on fields that nothing but the constructor ever clears (flushed length), so a transaction whose writes were all flushed still commits; plus the snapshot's tier separation (C05.R1).", c16Round2)
	extend("C19", "(R4) decodeBytes accounts for every byte of a group: the data part and the padding that is compared with the pad byte partition the 8-byte group (the padding check starts where the data ends and runs to the end of the group); (R5) mvccDecode rejects trailing bytes after the version.", c19Round2)
	extend("C20", "(R7) the longest-sleeper search ranges over the per-kind SLEEP totals; CheckKilled reports nil only when no kill signal is set.", c20Round2)
}

// guardedByAny: instruction at is reachable only through an edge establishing one of the facts.
func guardedByAny(c *core.Ctx, fn *ssa.Function, at ssa.Instruction, facts ...string) (bool, []core.Step) {
	q := &core.Q{Fn: fn, NoEdge: func(e core.Edge) bool {
		a := c.P.EdgeAtom(e)
		for _, f := range facts {
			if glob(f, a) {
				return true
			}
		}
		return false
	}}
	found, w, _ := q.Reach(nil, func(in ssa.Instruction) bool { return in == at })
	return !found, w
}

// cmpAtomOf: the canonical atom of the comparison (`cl <op> k`) that consumes the three-way comparison
// call cl, wherever its boolean ends up (directly in an If or bound to a local first), and the If it
// decides when there is one.
func cmpAtomOf(c *core.Ctx, fn *ssa.Function, cl *ssa.Call) (string, *ssa.If) {
	var res string
	var ifi *ssa.If
	var cmp *ssa.BinOp
	for _, ref := range *cl.Referrers() {
		if b, ok := ref.(*ssa.BinOp); ok && (core.Strip(b.X) == ssa.Value(cl) || core.Strip(b.Y) == ssa.Value(cl)) {
			cmp = b
		}
	}
	if cmp == nil {
		return "", nil
	}
	res, _ = c.P.CanonAtom(cmp)
	core.Instrs(fn, func(in ssa.Instruction) {
		i, ok := in.(*ssa.If)
		if !ok || ifi != nil {
			return
		}
		v, _ := core.CondOf(i)
		if core.Strip(v) == ssa.Value(cmp) {
			ifi = i
		}
	})
	return res, ifi
}

// ---- C07.R6 -------------------------------------------------------------------------------------------------
func c07ReadEntryPoints(c *core.Ctx) {
	p := c.P
	a := rule(c, "C07.R6")
	n := 0
	for _, name := range []string{"Get", "BatchGet", "Iter", "IterReverse"} {
		fn := a.fn(pkgTxn, "KVTxn", name)
		if fn == nil {
			continue
		}
		core.Instrs(fn, func(in ssa.Instruction) {
			ci, ok := in.(ssa.CallInstruction)
			if !ok {
				return
			}
			switch calleeName(ci) {
			case "Get", "BatchGet", "Iter", "IterReverse", "BatchGetWithTier":
			default:
				return
			}
			var recv ssa.Value
			if ci.Common().IsInvoke() {
				recv = ci.Common().Value
			} else if len(ci.Common().Args) > 0 {
				recv = ci.Common().Args[0]
			}
			if recv == nil {
				return
			}
			n++
			d := strings.Join(p.Prov().Desc(recv), "|")
			okk := strings.Contains(d, "fld(KVTxn.us,") || strings.Contains(d, "NewBufferBatchGetter)#0") || strings.Contains(d, "NewBufferSnapshotBatchGetter)#0")
			a.check(okk, fname(fn)+" reads through the buffer-first reader", in, d, "a read entry point of the transaction reads "+d+" directly: writes buffered by the transaction (also in a staging level, where Dirty()/IsReadOnly() do not see them) are bypassed")
		})
	}
	a.checkAt(n >= 4, "KVTxn read entry points", "-", fmt.Sprint(n), "read calls not found")
}

// ---- C08 round 2 ---------------------------------------------------------------------------------------------
func c08Round2(c *core.Ctx) {
	p := c.P
	pv := p.Prov()
	{
		a := rule(c, "C08.R8")
		for _, spec := range [][2]string{{pkgART, "ART"}, {pkgRBT, "RBT"}} {
			fn := a.fn(spec[0], spec[1], "getSnapshotCheckpoint")
			if fn == nil {
				continue
			}
			n := 0
			core.Instrs(fn, func(in ssa.Instruction) {
				ia, ok := in.(*ssa.IndexAddr)
				if !ok || !strings.Contains(strings.Join(pv.Desc(ia.X), "|"), ".stages,") {
					return
				}
				n++
				cst, isConst := core.Strip(ia.Index).(*ssa.Const)
				a.check(isConst && cst.Int64() == 0, fname(fn)+" snapshot = outermost staging level", in, "", "the snapshot checkpoint is not the outermost staging level (stages[0]): with nested stagings snapshot reads expose writes of outer levels — and the two buffer implementations disagree")
			})
			a.checkAt(n == 1, fname(fn)+" reads the staging stack", a.fnPos(fn), "", "stages access not found")
		}
	}
	{
		// charAt / valid pairing in calls that derive a child slot
		a := rule(c, "C08.R9")
		artPkg := p.Pkg(pkgART)
		n := 0
		for _, fn := range p.Funcs {
			if enclosing(fn).Pkg != artPkg || strings.HasSuffix(p.Fset.Position(fn.Pos()).Filename, "_test.go") {
				continue
			}
			core.Instrs(fn, func(in ssa.Instruction) {
				ci, ok := in.(ssa.CallInstruction)
				if !ok {
					return
				}
				var charPos, validPos ssa.Value
				for _, arg := range ci.Common().Args {
					v := core.Strip(arg)
					if u, ok := v.(*ssa.UnOp); ok && u.Op == token.NOT {
						v = core.Strip(u.X)
					}
					if cl, ok := v.(*ssa.Call); ok && cl.Call.StaticCallee() != nil && cl.Call.StaticCallee().Pkg == artPkg {
						switch cl.Call.StaticCallee().Name() {
						case "charAt":
							charPos = cl.Call.Args[1]
						case "valid":
							validPos = cl.Call.Args[1]
						}
					}
				}
				if charPos == nil || validPos == nil {
					return
				}
				n++
				d1, d2 := strings.Join(pv.Desc(charPos), "|"), strings.Join(pv.Desc(validPos), "|")
				same := core.Strip(charPos) == core.Strip(validPos) || (d1 == d2 && !strings.Contains(d1, "?deep"))
				if !same {
					// structurally equal expressions (go/ssa has no CSE)
					same = sameExpr(core.Strip(charPos), core.Strip(validPos), 0)
				}
				a.check(same, fname(fn)+" child slot: byte and end-of-key flag at the same key position", in, d1, "the key byte is taken at one position and the end-of-key flag at another ("+d1+" vs "+d2+"): a key that ends inside a compressed prefix is stored under the wrong slot")
			})
		}
		a.checkAt(n >= 3, "charAt/valid pairs in child-slot calls", "-", fmt.Sprint(n), "pairs not found")
	}
	{
		a := rule(c, "C08.R10")
		var fill *ssa.Function
		for _, fn := range p.Funcs {
			if fn.Name() == "fillBatch" && strings.Contains(fn.String(), "snapshotBatchedIter") && fn.Blocks != nil && fn.TypeParams().Len() == 0 {
				fill = fn
			}
		}
		if fill == nil {
			for _, fn := range p.Funcs {
				if fn.Name() == "fillBatch" && strings.Contains(fn.String(), "snapshotBatchedIter") && fn.Blocks != nil {
					fill = fn
				}
			}
		}
		if fill == nil {
			a.undAt("anchor snapshotBatchedIter.fillBatch", "-", "function not found")
		} else {
			n := 0
			core.Instrs(fill, func(in ssa.Instruction) {
				cl, ok := in.(*ssa.Call)
				if !ok {
					return
				}
				if b, ok := cl.Call.Value.(*ssa.Builtin); !ok || b.Name() != "copy" {
					return
				}
				if !strings.Contains(strings.Join(pv.Desc(cl.Call.Args[0]), "|"), ".nextKey,") {
					return
				}
				n++
				isZeroStore := func(x ssa.Instruction) bool {
					st, ok := x.(*ssa.Store)
					if !ok {
						return false
					}
					ia, ok := st.Addr.(*ssa.IndexAddr)
					if !ok || !strings.Contains(strings.Join(pv.Desc(ia.X), "|"), ".nextKey,") {
						return false
					}
					cst, ok := core.Strip(st.Val).(*ssa.Const)
					return ok && cst.Value != nil && cst.Int64() == 0
				}
				// the zero byte may be omitted only when the buffer was freshly allocated on this path
				q := &core.Q{Fn: fill, NoPass: func(x ssa.Instruction) bool {
					if isZeroStore(x) {
						return true
					}
					_, isMk := x.(*ssa.MakeSlice)
					return isMk
				}}
				// paths from the reuse re-slice of nextKey to the exit that skip the zero store
				bad := false
				nSucc := 0
				core.Instrs(fill, func(x ssa.Instruction) {
					sl, ok := x.(*ssa.Slice)
					if !ok || !strings.Contains(strings.Join(pv.Desc(sl.X), "|"), ".nextKey,") || sl.High == nil {
						return
					}
					// only the successor form nextKey[:len(lastKey)+1] (the reverse cursor is lastKey itself)
					if bo, ok := core.Strip(sl.High).(*ssa.BinOp); !ok || bo.Op != token.ADD {
						return
					} else if cst, ok := bo.Y.(*ssa.Const); !ok || cst.Int64() != 1 {
						return
					}
					nSucc++
					if found, w, hit := q.Reach(x, core.IsReturn); found {
						bad = true
						a.viol(fname(fill)+" resume key ends with a zero byte", hit, "when the resume-key buffer is reused its last byte is not reset to 0x00: a stale byte of an earlier, longer key makes the next batch start after keys that were never returned: "+a.w(w))
					}
				})
				if !bad && nSucc > 0 {
					a.ok(fname(fill)+" resume key ends with a zero byte", in, "")
				}
			})
			a.checkAt(n >= 1, fname(fill)+" builds the resume key", a.fnPos(fill), "", "resume key construction not found")
		}
	}
}

// sameExpr: structural equality of two SSA expression trees (calls with equal callees and equal
// arguments, binops, conversions, field loads of the same field of equal bases).
func sameExpr(x, y ssa.Value, d int) bool {
	x, y = core.Strip(x), core.Strip(y)
	if x == y {
		return true
	}
	if d > 6 || x == nil || y == nil {
		return false
	}
	switch a := x.(type) {
	case *ssa.Const:
		b, ok := y.(*ssa.Const)
		return ok && a.Value != nil && b.Value != nil && a.Value.String() == b.Value.String() && types.Identical(a.Type(), b.Type())
	case *ssa.BinOp:
		b, ok := y.(*ssa.BinOp)
		return ok && a.Op == b.Op && sameExpr(a.X, b.X, d+1) && sameExpr(a.Y, b.Y, d+1)
	case *ssa.Convert:
		b, ok := y.(*ssa.Convert)
		return ok && types.Identical(a.Type(), b.Type()) && sameExpr(a.X, b.X, d+1)
	case *ssa.ChangeType:
		b, ok := y.(*ssa.ChangeType)
		return ok && sameExpr(a.X, b.X, d+1)
	case *ssa.Call:
		b, ok := y.(*ssa.Call)
		if !ok || a.Call.StaticCallee() == nil || a.Call.StaticCallee() != b.Call.StaticCallee() || len(a.Call.Args) != len(b.Call.Args) {
			return false
		}
		for i := range a.Call.Args {
			if !sameExpr(a.Call.Args[i], b.Call.Args[i], d+1) {
				return false
			}
		}
		return true
	}
	return false
}

// ---- C09.R6 --------------------------------------------------------------------------------------------------
func c09LatestVersions(c *core.Ctx) {
	p := c.P
	a := rule(c, "C09.R6")
	n := 0
	for _, fn := range p.Funcs {
		if enclosing(fn).Pkg != p.Pkg(pkgLocate) || strings.HasSuffix(p.Fset.Position(fn.Pos()).Filename, "_test.go") {
			continue
		}
		core.Instrs(fn, func(in ssa.Instruction) {
			cl, ok := in.(*ssa.Call)
			if !ok {
				return
			}
			if b, ok := cl.Call.Value.(*ssa.Builtin); !ok || b.Name() != "delete" {
				return
			}
			if !strings.Contains(strings.Join(p.Prov().Desc(cl.Call.Args[0]), "|"), ".latestVersions,") {
				return
			}
			n++
			g, w := guardedByAny(c, fn, in, "T:call((internal/locate.RegionVerID).Equals)#0*", "T:call((*internal/locate.RegionVerID).Equals)#0*")
			a.check(g, fname(fn)+" forgets a region's newest version only with that version's entry", in, "", "the newest-version record of a region is dropped although the evicted entry is an older version: a later stale PD answer for the region is then installed over the newer cached one: "+a.w(w))
		})
	}
	a.checkAt(n >= 1, "latestVersions deletion sites", "-", fmt.Sprint(n), "deletion site not found")
}

// ---- C11.R5 --------------------------------------------------------------------------------------------------
type boundRow struct {
	recv, fn string
	param    int    // index of the bound among the function's declared parameters (receiver excluded)
	atom     string // canonical atom of the comparison's If
	insideOn bool   // truth value of the atom on which the key is inside the range
	accept   string // callee name of the instruction that accepts a key (reachable only on the inside edge)
	why      string
}

func c11MockBounds(c *core.Ctx) {
	p := c.P
	a := rule(c, "C11.R5")
	rows := []boundRow{
		{"MVCCLevelDB", "RawScan", 2, "(call(bytes.Compare)#0 < const(0))", true, "append", "forward raw scan: the end key is exclusive"},
		{"MVCCLevelDB", "RawChecksum", 2, "(call(bytes.Compare)#0 < const(0))", true, "Sum64", "raw checksum: the end key is exclusive"},
		{"MVCCLevelDB", "RawReverseScan", 2, "(call(bytes.Compare)#0 < const(0))", false, "append", "reverse raw scan: the lower bound is inclusive"},
	}
	for _, r := range rows {
		fn := a.fn(pkgMock, r.recv, r.fn)
		if fn == nil {
			continue
		}
		n := 0
		core.Instrs(fn, func(in ssa.Instruction) {
			cl, ok := in.(*ssa.Call)
			if !ok || cl.Call.StaticCallee() == nil || cl.Call.StaticCallee().String() != "bytes.Compare" {
				return
			}
			if strings.Join(p.Prov().Desc(cl.Call.Args[1]), "|") != fmt.Sprintf("param#%d", r.param) {
				return
			}
			n++
			at, ifi := cmpAtomOf(c, fn, cl)
			if ifi == nil {
				a.viol(fname(fn)+" bound comparison", in, "the comparison with the range bound does not decide a branch")
				return
			}
			a.check(at == r.atom, fname(fn)+" bound comparison strictness", in, at, fmt.Sprintf("%s: the comparison is `%s`, expected `%s` — a key equal to the bound is classified on the wrong side", r.why, at, r.atom))
			// the outside edge leaves the loop: no key is accepted from it before the iterator advances
			var outside *ssa.BasicBlock
			for k := 0; k < 2; k++ {
				e := core.Edge{If: ifi, True: k == 0}
				ea := p.EdgeAtom(e)
				if (strings.HasPrefix(ea, "T:") && !r.insideOn) || (strings.HasPrefix(ea, "F:") && r.insideOn) {
					outside = ifi.Block().Succs[k]
				}
			}
			if outside != nil {
				found, w, hit := reachFromBlock(fn, outside, func(x ssa.Instruction) bool {
					return isCallNamed("Next")(x) || isCallNamed("Prev")(x)
				}, nil, func(x ssa.Instruction) bool {
					ci, ok := x.(ssa.CallInstruction)
					return ok && calleeName(ci) == r.accept
				})
				if found {
					a.viol(fname(fn)+" a key outside the bound is not accepted", hit, "from the edge on which the key lies outside the bound the key is still accepted: "+a.w(w))
				} else {
					a.ok(fname(fn)+" a key outside the bound is not accepted", ifi, "")
				}
			}
		})
		a.checkAt(n == 1, fname(fn)+" compares the iterated key with its bound", a.fnPos(fn), "", "bound comparison not found")
	}
	// regionContains(startKey, endKey, key) for all orderings
	if fn := a.fn(pkgMock, "", "regionContains"); fn != nil {
		pairs := []orderPair{{"start:key", "param#0", "param#2"}, {"key:end", "param#2", "param#1"}}
		flags := []flagAtom{emptyFlag(c, "end=+∞", "param#1")}
		mism, n, und := orderTableF(c, fn, pairs, flags, func(oc orderCase) bool {
			// an empty end key is the smallest byte string: key < "" is impossible
			if oc.Flag[0] && oc.Ord[1] < 0 {
				return false
			}
			return true
		}, func(oc orderCase) bool {
			return oc.Ord[0] <= 0 && (oc.Ord[1] < 0 || oc.Flag[0])
		})
		reportTable(a, fname(fn)+" ≡ start ≤ key ∧ (key < end ∨ end = +∞)", a.fnPos(fn), "mock region containment", mism, n, und)
	}
}

// ---- C15 round 2 ---------------------------------------------------------------------------------------------
func c15Round2(c *core.Ctx) {
	p := c.P
	{
		a := rule(c, "C15.R6")
		fs := findFuncDecl(p, "tikvrpc", "", "patchCmdCtx")
		if fs == nil {
			a.undAt("anchor tikvrpc.patchCmdCtx", "-", "not found")
		} else {
			rpcPkg := fs.Pkg
			cmdObj, _ := rpcPkg.Types.Scope().Lookup("CmdType").(*types.TypeName)
			sws := fs.valueSwitches(func(t types.Type) bool { return cmdObj != nil && types.Identical(t, cmdObj.Type()) })
			if len(sws) == 0 {
				a.undAt("patchCmdCtx switch", p.Pos(fs.Decl.Pos()), "not found")
			} else {
				// skeleton of a case body: the printed statements with every accessor name replaced by a placeholder
				skel := func(cs swCase) string {
					var sb strings.Builder
					for _, st := range cs.Body {
						var buf strings.Builder
						printer.Fprint(&buf, rpcPkg.Fset, st)
						sb.WriteString(buf.String())
						sb.WriteString("\n")
					}
					s := sb.String()
					// abstract accessor calls: req.<Name>() → req.@()
					for _, cl := range callsInStmts(rpcPkg, cs.Body) {
						if cl.Callee != nil && cl.Callee.Type().(*types.Signature).Recv() != nil {
							if sel, ok := cl.Call.Fun.(*ast.SelectorExpr); ok && len(cl.Call.Args) == 0 {
								s = strings.ReplaceAll(s, "."+sel.Sel.Name+"()", ".@()")
							}
						}
					}
					return s
				}
				count := map[string]int{}
				var cases []swCase
				for _, cs := range sws[0] {
					if cs.Default || len(cs.Consts) == 0 {
						continue
					}
					cases = append(cases, cs)
					count[skel(cs)]++
				}
				major, best := "", 0
				for s, n := range count {
					if n > best {
						major, best = s, n
					}
				}
				a.checkAt(len(cases) >= 40 && best >= len(cases)-3, "patchCmdCtx cases share one skeleton", p.Pos(fs.Decl.Pos()), fmt.Sprintf("%d of %d cases", best, len(cases)), "no dominant case shape found")
				// the majority shape must itself be the complete one
				complete := strings.Contains(major, ".@().Context = ctx") && strings.Contains(major, "cmd.Context = ctx") && strings.Contains(major, "req.Req = &cmd") && strings.Contains(major, "req.rev++")
				a.checkAt(complete, "patchCmdCtx case shape is complete", p.Pos(fs.Decl.Pos()), "", "the common case shape no longer patches directly on the first attach and through an installed copy afterwards")
				for _, cs := range cases {
					name := cs.Consts[0].Name()
					a.checkAt(skel(cs) == major, "patchCmdCtx case "+name+" has the common shape", p.Pos(cs.Pos), "", "this case of the generated switch differs from its siblings (e.g. the patched copy is not installed into req.Req, or rev is not advanced): re-attaching a context on a retry has no effect for this command")
				}
			}
		}
	}
	{
		a := rule(c, "C15.R7")
		rows := []struct {
			fn, a0, a1, atom, why string
		}{
			{"DecodeRange", "param#0", "fld(codecV2.endKey,recv)", "(call(bytes.Compare)#0 < const(0))", "a range starting at or after the keyspace end is outside the keyspace (end is exclusive)"},
			{"DecodeRange", "param#1", "fld(codecV2.prefix,recv)", "(call(bytes.Compare)#0 < const(1))", "a range ending at or before the keyspace start is outside the keyspace (start is inclusive)"},
			{"DecodeBucketKeys", "*", "fld(codecV2.endKey,recv)", "(call(bytes.Compare)#0 < const(0))", "a last bucket key at or after the keyspace end is the unbounded end (end is exclusive)"},
			{"DecodeBucketKeys", "*", "fld(codecV2.prefix,recv)", "(call(bytes.Compare)#0 < const(0))", "a first bucket key before the keyspace start is the unbounded start"},
		}
		for _, r := range rows {
			fn := a.fn(pkgAPI, "codecV2", r.fn)
			if fn == nil {
				continue
			}
			n := 0
			core.Instrs(fn, func(in ssa.Instruction) {
				cl, ok := in.(*ssa.Call)
				if !ok || cl.Call.StaticCallee() == nil || cl.Call.StaticCallee().String() != "bytes.Compare" {
					return
				}
				d0, d1 := strings.Join(p.Prov().Desc(cl.Call.Args[0]), "|"), strings.Join(p.Prov().Desc(cl.Call.Args[1]), "|")
				if !glob(r.a0, d0) || d1 != r.a1 {
					return
				}
				n++
				at, _ := cmpAtomOf(c, fn, cl)
				if at == "" {
					a.viol(fname(fn)+" keyspace bound comparison", in, "the three-way comparison is not compared with a constant")
					return
				}
				a.check(at == r.atom, fname(fn)+" compares with "+r.a1+" at the right strictness", in, at, fmt.Sprintf("%s: the comparison is `%s`, expected `%s`", r.why, at, r.atom))
			})
			a.checkAt(n == 1, fname(fn)+" compares a key with "+r.a1, a.fnPos(fn), "", "comparison not found")
		}
	}
}

// ---- C16 round 2 ---------------------------------------------------------------------------------------------
func c16Round2(c *core.Ctx) {
	c.Import(runC05, "C05", []string{"R1"}, "viaC05")
	p := c.P
	a := rule(c, "C16.R7")
	dirty := a.fn(pkgUnion, "PipelinedMemDB", "Dirty")
	named := p.Named(pkgUnion, "PipelinedMemDB")
	if dirty == nil || named == nil {
		return
	}
	n := 0
	core.Instrs(dirty, func(in ssa.Instruction) {
		fa, ok := in.(*ssa.FieldAddr)
		if !ok {
			return
		}
		if par, ok := fa.X.(*ssa.Parameter); !ok || par != dirty.Params[0] {
			return
		}
		f := core.FieldOfAddr(fa)
		if f == nil || f.Name() == "memDB" {
			return
		}
		n++
		cleared := false
		for _, w := range p.WritersOf(f) {
			if fname(w.Fn) == "internal/unionstore.NewPipelinedMemDB" || w.Val == nil {
				continue
			}
			if isNil(w.Val) {
				cleared = true
				a.viol(fname(dirty)+" depends only on monotone state", w.Instr, fmt.Sprintf("Dirty() reads %s, which %s clears: after everything was flushed (and waited for) the transaction looks clean and Commit returns without committing the primary — all flushed writes are lost", f.Name(), fname(w.Fn)))
				continue
			}
			if cst, ok := asConst(w.Val); ok && cst.Value != nil && (cst.Value.String() == "0" || cst.Value.String() == "false") {
				cleared = true
				a.viol(fname(dirty)+" depends only on monotone state", w.Instr, fmt.Sprintf("Dirty() reads %s, which %s resets", f.Name(), fname(w.Fn)))
			}
		}
		if !cleared {
			a.ok(fname(dirty)+" depends only on monotone state", in, f.Name()+" is never cleared")
		}
	})
	a.checkAt(n >= 1, fname(dirty)+" takes flushed data into account", a.fnPos(dirty), fmt.Sprint(n), "Dirty() looks at the mutable buffer only: a transaction whose writes were all flushed would not be committed")
}

// ---- C19 round 2 ---------------------------------------------------------------------------------------------
func c19Round2(c *core.Ctx) {
	p := c.P
	pv := p.Prov()
	{
		a := rule(c, "C19.R4")
		fn := a.fn(pkgCodec, "", "decodeBytes")
		if fn != nil {
			// the data part: append(buf, group[:H]...)
			var dataHigh, group ssa.Value
			core.Instrs(fn, func(in ssa.Instruction) {
				cl, ok := in.(*ssa.Call)
				if !ok {
					return
				}
				if b, ok := cl.Call.Value.(*ssa.Builtin); !ok || b.Name() != "append" || len(cl.Call.Args) != 2 {
					return
				}
				if sl, ok := core.Strip(cl.Call.Args[1]).(*ssa.Slice); ok && sl.Low == nil && sl.High != nil {
					dataHigh, group = sl.High, sl.X
				}
			})
			// the pad byte: a φ of the constants 0 and 255
			isPad := func(v ssa.Value) bool {
				ph, ok := core.Strip(v).(*ssa.Phi)
				if !ok || len(ph.Edges) != 2 {
					return false
				}
				vals := map[int64]bool{}
				for _, e := range ph.Edges {
					if cst, ok := e.(*ssa.Const); ok && cst.Value != nil {
						vals[cst.Int64()] = true
					}
				}
				return vals[0] && vals[255]
			}
			// padLoop: in function f, the loop that compares bytes with the pad byte: which byte string it walks
			// (root), from where (low; nil = its first byte) and whether it runs to the end of that string
			type loopInfo struct {
				at       ssa.Instruction
				root     ssa.Value
				low      ssa.Value
				toEnd    bool
				problems []string
			}
			padLoop := func(f *ssa.Function, groupOf func(ssa.Value) bool, groupLen int64) []loopInfo {
				var out []loopInfo
				core.Instrs(f, func(in ssa.Instruction) {
					b, ok := in.(*ssa.BinOp)
					if !ok || (b.Op != token.NEQ && b.Op != token.EQL) {
						return
					}
					var elem ssa.Value
					switch {
					case isPad(b.Y):
						elem = b.X
					case isPad(b.X):
						elem = b.Y
					default:
						return
					}
					ld, ok := core.Strip(elem).(*ssa.UnOp)
					if !ok {
						return
					}
					ia, ok := ld.X.(*ssa.IndexAddr)
					if !ok {
						return
					}
					li := loopInfo{at: in}
					idx := core.Strip(ia.Index)
					plus1 := false
					if bo, ok := idx.(*ssa.BinOp); ok && bo.Op == token.ADD {
						if cst, ok := bo.Y.(*ssa.Const); ok && cst.Int64() == 1 {
							idx, plus1 = core.Strip(bo.X), true
						}
					}
					ph, ok := idx.(*ssa.Phi)
					if !ok {
						li.problems = append(li.problems, "the compared byte is not indexed by a loop variable")
						out = append(out, li)
						return
					}
					var init ssa.Value
					for _, e := range ph.Edges {
						if bo, ok := core.Strip(e).(*ssa.BinOp); ok && bo.Op == token.ADD && core.Strip(bo.X) == ssa.Value(ph) {
							continue
						}
						init = e
					}
					startsAtZero := false
					if cst, ok := core.Strip(init).(*ssa.Const); ok && ((plus1 && cst.Int64() == -1) || (!plus1 && cst.Int64() == 0)) {
						startsAtZero = true
					}
					base := core.Strip(ia.X)
					li.root = base
					if sl, ok := base.(*ssa.Slice); ok {
						li.root = core.Strip(sl.X)
						li.low = sl.Low
						if !startsAtZero {
							li.problems = append(li.problems, "the loop over the padding does not start at its first byte")
						}
						if sl.High != nil {
							li.problems = append(li.problems, "the checked slice is cut short")
						}
					} else if startsAtZero {
						li.low = nil
					} else if !plus1 {
						li.low = init
					} else {
						li.problems = append(li.problems, "unexpected index form")
					}
					// loop bound
					core.Instrs(f, func(x ssa.Instruction) {
						cmp, ok := x.(*ssa.BinOp)
						if !ok || cmp.Op != token.LSS {
							return
						}
						lx := core.Strip(cmp.X)
						if lx != ssa.Value(ph) {
							if bo, ok := lx.(*ssa.BinOp); !ok || core.Strip(bo.X) != ssa.Value(ph) {
								return
							}
						}
						switch y := core.Strip(cmp.Y).(type) {
						case *ssa.Call:
							if bi, ok := y.Call.Value.(*ssa.Builtin); ok && bi.Name() == "len" && core.Strip(y.Call.Args[0]) == base {
								li.toEnd = true
							}
						case *ssa.Const:
							if groupOf != nil && groupOf(base) && y.Int64() == groupLen {
								li.toEnd = true
							}
						}
					})
					out = append(out, li)
				})
				return out
			}
			isGroup := func(v ssa.Value) bool { return group != nil && core.Strip(v) == core.Strip(group) }
			var glen int64 = -1
			if group != nil {
				if gs, ok := core.Strip(group).(*ssa.Slice); ok && gs.High != nil {
					if gc, ok := gs.High.(*ssa.Const); ok {
						glen = gc.Int64()
					}
				}
			}
			sameAsDataEnd := func(low ssa.Value) bool {
				return low != nil && dataHigh != nil && (core.Strip(low) == core.Strip(dataHigh) || sameExpr(low, dataHigh, 0) || sameConv(low, dataHigh))
			}
			n := 0
			report := func(li loopInfo, where string, startsAtData bool) {
				n++
				for _, pr := range li.problems {
					a.viol(fname(fn)+" padding check is a loop over the padding", li.at, pr+where)
				}
				a.check(startsAtData, fname(fn)+" padding check starts where the data ends", li.at, "", "the padding check does not begin at the first byte after the data part: some byte of the group is neither data nor checked padding"+where)
				a.check(li.toEnd, fname(fn)+" padding check runs to the end of the group", li.at, "", "the loop over the padding stops before the end of the group: a malformed last pad byte is accepted and decodes to a valid-looking value"+where)
			}
			if dataHigh == nil {
				a.violAt(fname(fn)+" data part of a group", a.fnPos(fn), "append(buf, group[:n]...) not found")
			} else {
				for _, li := range padLoop(fn, isGroup, glen) {
					if !isGroup(li.root) {
						li.problems = append(li.problems, "the checked bytes are not a part of the current group")
					}
					report(li, "", sameAsDataEnd(li.low))
				}
				// the same loop inside a private helper that is handed group[dataEnd:]
				for _, ci := range core.FindCalls(fn, func(cc *ssa.CallCommon) bool {
					g := cc.StaticCallee()
					return g != nil && g.Pkg == fn.Pkg && g.Object() != nil && !g.Object().Exported() && len(g.Blocks) > 0
				}) {
					g := ci.Common().StaticCallee()
					// inside the helper the pad byte may be a φ as well, or a parameter: accept a parameter that receives a pad φ
					for _, li := range padLoop(g, nil, -1) {
						par, ok := li.root.(*ssa.Parameter)
						if !ok {
							continue
						}
						k := -1
						for i, pp := range g.Params {
							if pp == par {
								k = i
							}
						}
						if k < 0 || k >= len(ci.Common().Args) {
							continue
						}
						arg, ok := core.Strip(ci.Common().Args[k]).(*ssa.Slice)
						startsAtData := ok && isGroup(arg.X) && arg.High == nil && sameAsDataEnd(arg.Low) && li.low == nil
						report(li, " (in helper "+fname(g)+")", startsAtData)
					}
				}
			}
			a.checkAt(n == 1, fname(fn)+" checks the padding", a.fnPos(fn), "", "padding comparison not found")
		}
	}
	{
		a := rule(c, "C19.R5")
		fn := a.fn(pkgMock, "", "mvccDecode")
		if fn != nil {
			n := 0
			for _, r := range returnsOf(fn) {
				if len(r.Results) != 3 || !isNil(r.Results[2]) {
					continue
				}
				d := strings.Join(pv.Desc(r.Results[1]), "|")
				if !strings.Contains(d, "DecodeUintDesc)#1") {
					continue
				}
				n++
				g, w := guardedByAny(c, fn, r, "T:(const(0) == len(call(util/codec.DecodeUintDesc)#0))", "T:(len(call(util/codec.DecodeUintDesc)#0) < const(1))")
				a.check(g, fname(fn)+" rejects bytes after the version", r, "", "an encoded key followed by a version and then more bytes is decoded to (key, version) instead of being rejected: "+a.w(w))
			}
			a.checkAt(n == 1, fname(fn)+" returns a decoded version", a.fnPos(fn), "", "versioned return not found")
		}
	}
}

// sameConv: x and y are the same value up to integer conversions.
func sameConv(x, y ssa.Value) bool {
	strip := func(v ssa.Value) ssa.Value {
		for {
			v = core.Strip(v)
			if cv, ok := v.(*ssa.Convert); ok {
				v = cv.X
				continue
			}
			return v
		}
	}
	return strip(x) == strip(y)
}

// ---- C20 round 2 ---------------------------------------------------------------------------------------------
func c20Round2(c *core.Ctx) {
	p := c.P
	a := rule(c, "C20.R7")
	if fn := a.fn(pkgRetry, "Backoffer", "longestSleepCfg"); fn != nil {
		n := 0
		core.Instrs(fn, func(in ssa.Instruction) {
			rg, ok := in.(*ssa.Range)
			if !ok {
				return
			}
			n++
			d := strings.Join(p.Prov().Desc(rg.X), "|")
			a.check(d == "fld(Backoffer.backoffSleepMS,recv)", fname(fn)+" searches the per-kind sleep totals", in, d, "the longest-sleeper search ranges over "+d+" (e.g. the attempt counters) instead of the per-kind sleep totals: on exhaustion the error names the most frequent kind, not the one that slept longest")
		})
		a.checkAt(n == 1, fname(fn)+" ranges over one map", a.fnPos(fn), "", "range not found")
	}
	if fn := a.fn(pkgRetry, "Backoffer", "CheckKilled"); fn != nil {
		n := 0
		for _, r := range returnsOf(fn) {
			if !isNil(r.Results[0]) {
				continue
			}
			n++
			g, w := guardedByAny(c, fn, r,
				"T:(call(sync/atomic.LoadUint32)#0 == const(0))", "T:(const(0) == call(sync/atomic.LoadUint32)#0)",
				"T:(fld(Backoffer.vars,recv) == nil)", "T:(fld(Variables.Killed,fld(Backoffer.vars,recv)) == nil)")
			a.check(g, fname(fn)+" reports nil only without a kill signal", r, "", "CheckKilled can return nil although a kill signal (any non-zero value) is set: the back-off keeps sleeping and retrying after the query was killed: "+a.w(w))
		}
		a.checkAt(n >= 1, fname(fn)+" nil returns", a.fnPos(fn), "", "no nil return found")
	}
}

// ---- cross-property clauses found necessary in round 2 ---------------------------------------------------------
func init() {
	extend("C04", "(R2b) when the store answers a 1PC prewrite without a 1PC commit ts (it wrote ordinary locks), the committer leaves 1PC AND async commit before returning.", c04OnePCFallback)
	extend("C14", "(R6) the GC batch resolve re-targets a batch after a region error only at a region that still contains the last scanned lock (otherwise the range is rescanned).", c14GCRelocate)
	// clauses of other properties that are necessary conditions of these ones as well
	extend("C01", "Imported: a 1PC transaction is one prewrite batch and a store-side 1PC fallback leaves async commit (C04.R2, R2b); a failed LockKeys releases exactly the keys it tried to lock (C06.R1).", func(c *core.Ctx) {
		c.Import(Registry["C04"].Run, "C04", []string{"R2", "R2b"}, "viaC04")
		c.Import(Registry["C06"].Run, "C06", []string{"R1"}, "viaC06")
	})
	extend("C02", "Imported: store-side 1PC fallback (C04.R2b); GC re-targeting (C14.R6).", func(c *core.Ctx) {
		c.Import(Registry["C04"].Run, "C04", []string{"R2b"}, "viaC04")
		c.Import(Registry["C14"].Run, "C14", []string{"R6"}, "viaC14")
	})
	extend("C03", "Imported: 1PC single batch and fallback (C04.R2, R2b); the definitions of the transaction-status predicates (C02.R4) — a status wrongly classified as rolled back undoes a transaction whose Commit returned success.", func(c *core.Ctx) {
		c.Import(Registry["C04"].Run, "C04", []string{"R2", "R2b"}, "viaC04")
		c.Import(Registry["C02"].Run, "C02", []string{"R4"}, "viaC02")
	})
	extend("C05", "Imported: the definitions of the transaction-status predicates (C02.R4).", func(c *core.Ctx) {
		c.Import(Registry["C02"].Run, "C02", []string{"R4"}, "viaC02")
	})
}

func c04OnePCFallback(c *core.Ctx) {
	p := c.P
	a := rule(c, "C04.R2b")
	f := a.extField(kvrpcpb, "PrewriteResponse", "OnePcCommitTs")
	if f == nil {
		return
	}
	isClearAsync := func(in ssa.Instruction) bool {
		ci, ok := in.(ssa.CallInstruction)
		if !ok || calleeName(ci) != "setAsyncCommit" {
			return false
		}
		cst, ok := asConst(ci.Common().Args[len(ci.Common().Args)-1])
		return ok && cst.Value != nil && cst.Value.String() == "false"
	}
	n := 0
	for _, fn := range pkgFuncs(c, pkgTxn) {
		if isProbe(c, fn) || strings.HasSuffix(p.Fset.Position(fn.Pos()).Filename, "_test.go") {
			continue
		}
		reads := false
		core.Instrs(fn, func(in ssa.Instruction) {
			if fa, ok := in.(*ssa.FieldAddr); ok && core.FieldOfAddr(fa) == f {
				reads = true
			}
		})
		if !reads {
			continue
		}
		for _, ci := range core.FindCalls(fn, core.CallsMethodNamed("setOnePC", "")) {
			cst, ok := asConst(ci.Common().Args[len(ci.Common().Args)-1])
			if !ok || cst.Value == nil || cst.Value.String() != "false" {
				continue
			}
			n++
			okk, w, hit := core.MustPassAfter(fn, ci, isClearAsync, core.IsReturn, nil)
			if okk {
				a.ok(fname(fn)+" store-side 1PC fallback also leaves async commit", ci, "")
			} else {
				a.viol(fname(fn)+" store-side 1PC fallback also leaves async commit", hit, "after the store declined 1PC (it wrote ordinary locks) the committer clears the 1PC flag but stays in async-commit mode: Commit returns right after prewrite with a commit ts taken BEFORE prewrite, while the store holds plain locks without min-commit-ts protection: "+a.w(w))
			}
		}
	}
	a.checkAt(n >= 1, "store-side 1PC fallback site", "-", fmt.Sprint(n), "fallback site not found")
}

func c14GCRelocate(c *core.Ctx) {
	a := rule(c, "C14.R6")
	fn := a.fn("tikv", "", "batchResolveLocksInOneRegion")
	if fn == nil {
		return
	}
	n := 0
	for _, ci := range core.FindCalls(fn, core.CallsMethodNamed("BatchResolveLocks", "")) {
		args := ci.Common().Args
		region := args[len(args)-1]
		// the location the region is read from
		var loc ssa.Value
		switch x := core.Strip(region).(type) {
		case *ssa.UnOp:
			if fa, ok := x.X.(*ssa.FieldAddr); ok {
				loc = fa.X
			}
		case *ssa.Field:
			loc = x.X
		}
		if loc == nil {
			a.viol(fname(fn)+" resolve target", ci, "the region argument is not read from a key location")
			continue
		}
		n++
		isRelocated := func(v ssa.Value) bool { return descHas(c, v, "LocateKey)#0") }
		isContains := core.PTrue(core.IsCallNamed("Contains"))
		g, why := phiIncomingGuarded(fn, loc, isRelocated, []guardSpec{{"region.Contains(last lock key)", isContains, true}})
		a.check(g, fname(fn)+" re-targets only at a region that contains the last lock", ci, "", "after a region error the batch is re-sent to the re-located region of the FIRST lock without checking that it still contains the LAST one: when the region split, the locks right of the split key are never resolved although the caller advances past the whole old region: "+why)
		// the containment test is on the last lock of the batch
		for _, cc := range core.FindCalls(fn, core.CallsMethodNamed("Contains", "")) {
			d := strings.Join(c.P.Prov().Desc(cc.Common().Args[1]), "|")
			a.check(strings.Contains(d, "fld(Lock.Key,idx(param#2))") || strings.Contains(d, "Lock.Key"), fname(fn)+" containment is tested on a lock key", cc, d, d)
		}
	}
	a.checkAt(n == 1, fname(fn)+" batch resolve site", a.fnPos(fn), "", "BatchResolveLocks call not found")
}

func init() {
	extend("C06", "Imported: the committer's buffer-entry → mutation table (C01.R7): a locked key always gets a mutation, so committing releases its lock.", func(c *core.Ctx) {
		c.Import(Registry["C01"].Run, "C01", []string{"R7"}, "viaC01")
	})
	extend("C14", "Imported: answers enter the snapshot cache only after the visibility check passed (C05.R1).", func(c *core.Ctx) {
		c.Import(Registry["C05"].Run, "C05", []string{"R1"}, "viaC05")
	})
}

// ---- second batch of round-2 rules ------------------------------------------------------------------------------
func init() {
	extend("C05", "(R2b) after a region error a batch is kept (re-sent whole to the re-located region) only when EVERY key of the batch is in that region.", c05Relocate)
	extend("C06", "(R5b) every key recorded by a finished aggressive-locking stage is flagged as locked in the buffer (so commit/rollback releases it).", c06DoneAggressive)
	extend("C12", "(R5) commitLock / rollbackLock are applied only to a lock whose start ts is the transaction's; (R6) when a prewrite replaces a pessimistic lock, ttl and min-commit-ts are kept independently (the min-commit-ts comparison does not depend on the ttl comparison); (R7) the latest-version point-get shortcut of mvccLock.check is taken only for locks that block reads.", c12Round2)
	extend("C13", "(R6) the commit-wait constraint of a transaction is only ever raised.", c13CommitWait)
	extend("C17", "(R6) recycle: in every iteration the predecessor pointer either advances to the current node or the current node was unlinked; (R7) Commit releases the local latch only after the commit ts was recorded on it; (R8) tsoSub is the signed difference t1 − t2.", c17Round2)
	extend("C18", "(R7) every entry taken from the priority queue is placed into a request group unless it is cancelled; (R8) the send loop's fetch returns without a head entry only when the connection is idle/closed or the channel yielded nil.", c18Round2)
}

func c05Relocate(c *core.Ctx) {
	a := rule(c, "C05.R2b")
	fn := a.fn(pkgSnap, "batchKeys", "relocate")
	if fn == nil {
		return
	}
	n := 0
	for _, ci := range core.FindCalls(fn, core.CallsMethodNamed("Contains", "")) {
		n++
		arg := core.Strip(ci.Common().Args[1])
		// b.keys[i] with i a loop variable
		okk := false
		if ld, ok := arg.(*ssa.UnOp); ok {
			if ia, ok := ld.X.(*ssa.IndexAddr); ok && descHas(c, ia.X, "fld(batchKeys.keys,") {
				idx := core.Strip(ia.Index)
				if bo, ok := idx.(*ssa.BinOp); ok && bo.Op == token.ADD {
					idx = core.Strip(bo.X)
				}
				if ph, ok := idx.(*ssa.Phi); ok {
					// a counting loop: one edge is the φ itself plus one
					for _, e := range ph.Edges {
						if bo, ok := core.Strip(e).(*ssa.BinOp); ok && bo.Op == token.ADD && core.Strip(bo.X) == ssa.Value(ph) {
							okk = true
						}
					}
				}
			}
		}
		a.check(okk, fname(fn)+" checks every key of the batch", ci, "", "after a region error only some keys of the batch (e.g. the last one) are tested against the re-located region: an unsorted batch is re-sent whole to a region that does not contain all of its keys")
	}
	a.checkAt(n == 1, fname(fn)+" containment test", a.fnPos(fn), "", "containment test not found")
	for _, st := range storesToFieldNamed(fn, "batchKeys.region") {
		g, w := core.MustPassBefore(fn, st, isCallNamed("Contains"))
		// a single-key batch needs no test
		if !g {
			g, w = guardedByAny(c, fn, st, "F:(const(1) < len(fld(batchKeys.keys,recv)))", "T:(len(fld(batchKeys.keys,recv)) < const(2))", "F:(*< len(fld(batchKeys.keys,recv)))", "F:(*< len(slice(fld(batchKeys.keys,recv),*")
		}
		a.check(g, fname(fn)+" keeps the batch only after the containment test", st, "", a.w(w))
	}
}

func c06DoneAggressive(c *core.Ctx) {
	p := c.P
	a := rule(c, "C06.R5b")
	fn := a.fn(pkgTxn, "KVTxn", "DoneAggressiveLocking")
	if fn == nil {
		return
	}
	setLocked := constInt(c, core.ModPath+"/kv", "SetKeyLocked")
	_ = p
	n := 0
	for _, ci := range core.FindCalls(fn, core.CallsMethodNamed("UpdateFlags", "")) {
		args := ci.Common().Args
		ops := core.Strip(args[len(args)-1])
		sl, ok := ops.(*ssa.Slice)
		if !ok {
			continue
		}
		al, ok := sl.X.(*ssa.Alloc)
		if !ok {
			continue
		}
		n++
		has := false
		for _, ref := range *al.Referrers() {
			ia, ok := ref.(*ssa.IndexAddr)
			if !ok {
				continue
			}
			for _, r2 := range *ia.Referrers() {
				if st, ok := r2.(*ssa.Store); ok {
					if cst, ok := asConst(st.Val); ok && cst.Value != nil && cst.Int64() == setLocked {
						has = true
					}
				}
			}
		}
		a.check(has, fname(fn)+" flags the key as locked", ci, "", "a key locked during the aggressive-locking stage is recorded in the buffer without the Locked flag: neither commit nor rollback will release its pessimistic lock")
	}
	a.checkAt(n >= 1, fname(fn)+" records the locked keys", a.fnPos(fn), "", "flag update not found")
}

func c12Round2(c *core.Ctx) {
	p := c.P
	pv := p.Prov()
	{
		a := rule(c, "C12.R5")
		n := 0
		for _, fn := range pkgFuncs(c, pkgMock) {
			if strings.HasSuffix(p.Fset.Position(fn.Pos()).Filename, "_test.go") {
				continue
			}
			for _, ci := range core.FindCalls(fn, func(cc *ssa.CallCommon) bool {
				f := cc.StaticCallee()
				return f != nil && (f.Name() == "rollbackLock" || f.Name() == "commitLock") && f.Pkg == p.Pkg(pkgMock)
			}) {
				n++
				idx := 2
				if ci.Common().StaticCallee().Name() == "commitLock" {
					idx = 3
				}
				ds := pv.Desc(ci.Common().Args[idx])
				okk := true
				why := ""
				for _, d := range ds {
					if strings.Contains(d, "fld(mvccLock.startTS,") {
						continue // the found lock's own start ts
					}
					g, w := guardedByAny(c, fn, ci, "T:(fld(mvccLock.startTS,*) == "+d+")", "T:("+d+" == fld(mvccLock.startTS,*))")
					if !g {
						okk = false
						why = a.w(w)
					}
				}
				a.check(okk, fname(fn)+" "+ci.Common().StaticCallee().Name()+" only on the transaction's own lock", ci, strings.Join(ds, "|"), "a lock record is committed / rolled back (deleted) without checking that it belongs to the transaction being resolved: another transaction's lock on the key is removed: "+why)
			}
		}
		a.checkAt(n >= 6, "commitLock/rollbackLock call sites", "-", fmt.Sprint(n), "call sites not found")
	}
	{
		a := rule(c, "C12.R6")
		fn := a.fn(pkgMock, "", "prewriteMutation")
		if fn != nil {
			var ttlIf, minIf *ssa.If
			core.Instrs(fn, func(in ssa.Instruction) {
				i, ok := in.(*ssa.If)
				if !ok {
					return
				}
				v, _ := core.CondOf(i)
				at, _ := p.CanonAtom(v)
				if strings.Contains(at, "fld(mvccLock.ttl,") && strings.Contains(at, " < ") {
					ttlIf = i
				}
				if strings.Contains(at, "fld(mvccLock.minCommitTS,") && strings.Contains(at, " < ") {
					minIf = i
				}
			})
			if ttlIf == nil || minIf == nil {
				a.violAt(fname(fn)+" keeps ttl and min-commit-ts of the replaced pessimistic lock", a.fnPos(fn), "the keep-the-larger comparisons were not found")
			} else {
				for k := 0; k < 2; k++ {
					b := ttlIf.Block().Succs[k]
					found, _, _ := reachFromBlock(fn, b, nil, nil, func(in ssa.Instruction) bool { return in == ssa.Instruction(minIf) })
					a.check(found, fname(fn)+fmt.Sprintf(" min-commit-ts is kept whatever the ttl comparison says (edge %d)", k), ttlIf, "", "the pushed min-commit-ts of the replaced pessimistic lock is kept only when the ttl comparison goes one way: otherwise a commit below the pushed timestamp is accepted")
				}
			}
		}
	}
	guardTable(c, "C12.R7", []gRow{
		{Fn: [3]string{pkgMock, "mvccLock", "check"}, Target: "ret:(fld(mvccLock.startTS,recv) - const(1)),nil", Facts: []string{
			"F:(const(2) == fld(mvccLock.op,recv))", "F:(const(5) == fld(mvccLock.op,recv))", "F:(param#0 < fld(mvccLock.startTS,recv))"}, Min: 1,
			Why: "the 'read just below the primary lock' shortcut applies only to locks that block reads (not Op_Lock / pessimistic locks, not locks younger than the read)"},
	})
}

func c13CommitWait(c *core.Ctx) {
	a := rule(c, "C13.R6")
	f := a.field(pkgTxn, "KVTxn", "commitWaitUntilTSO")
	if f == nil {
		return
	}
	n := 0
	for _, w := range c.P.WritersOf(f) {
		if isProbe(c, w.Fn) || w.Val == nil {
			continue
		}
		if cst, ok := asConst(w.Val); ok && cst.Value != nil && cst.Value.String() == "0" && strings.Contains(fname(w.Fn), "newTiKVTxn") {
			continue
		}
		n++
		d := strings.Join(c.P.Prov().Desc(w.Val), "|")
		g, ww := guardedByAny(c, w.Fn, w.Instr, "T:(fld(KVTxn.commitWaitUntilTSO,recv) < "+d+")")
		a.check(g, fname(w.Fn)+" raises the commit-wait constraint only", w.Instr, d, "a later, smaller commit-wait constraint overwrites an earlier larger one: the commit ts need not exceed the stronger constraint any more: "+a.w(ww))
	}
	a.checkAt(n >= 1, "KVTxn.commitWaitUntilTSO writers", "-", fmt.Sprint(n), "no writer found")
}

func c17Round2(c *core.Ctx) {
	p := c.P
	{
		a := rule(c, "C17.R6")
		fn := a.fn("internal/latch", "latch", "recycle")
		if fn != nil {
			isUnlink := isStoreTo(c, "node.next", "")
			// the loop-carried predecessor pointer: a φ of *node type whose entry value is the fake head (an Alloc)
			var head *ssa.Phi
			core.Instrs(fn, func(in ssa.Instruction) {
				ph, ok := in.(*ssa.Phi)
				if !ok || head != nil {
					return
				}
				for _, e := range ph.Edges {
					if _, ok := core.Strip(e).(*ssa.Alloc); ok {
						head = ph
					}
				}
			})
			if head == nil {
				a.violAt(fname(fn)+" predecessor pointer", a.fnPos(fn), "loop-carried predecessor not found")
			} else {
				// walk the φ-closure of the back-edge value; an edge that carries the unchanged predecessor must come from a path that unlinked
				seen := map[*ssa.Phi]bool{}
				bad := 0
				var walk func(ph *ssa.Phi)
				walk = func(ph *ssa.Phi) {
					if seen[ph] {
						return
					}
					seen[ph] = true
					for i, e := range ph.Edges {
						ev := core.Strip(e)
						if p2, ok := ev.(*ssa.Phi); ok && p2 != head {
							walk(p2)
							continue
						}
						if ev != ssa.Value(head) {
							continue
						}
						pred := ph.Block().Preds[i]
						last := pred.Instrs[len(pred.Instrs)-1]
						q := &core.Q{Fn: fn, NoPass: isUnlink}
						if found, w, _ := q.ReachFromBlock(head.Block(), func(in ssa.Instruction) bool { return in == last }); found {
							bad++
							a.viol(fname(fn)+" predecessor advances unless the node was unlinked", last, "an iteration can end with the predecessor pointer unchanged although the current node stays in the list: a later unlink then also drops the nodes in between (a held latch node disappears and a second transaction acquires the key): "+a.w(w))
						}
					}
				}
				for i, e := range head.Edges {
					_ = i
					if p2, ok := core.Strip(e).(*ssa.Phi); ok {
						walk(p2)
					}
				}
				if bad == 0 {
					a.okAt(fname(fn)+" predecessor advances unless the node was unlinked", a.fnPos(fn), "")
				}
			}
		}
	}
	{
		a := rule(c, "C17.R7")
		fn := a.fn(pkgTxn, "KVTxn", "Commit")
		if fn != nil {
			sets := core.FindCalls(fn, core.CallsMethodNamed("SetCommitTS", ""))
			a.checkAt(len(sets) >= 1, fname(fn)+" records the commit ts on the latch lock", a.fnPos(fn), "", "SetCommitTS not found")
			for _, u := range core.FindCalls(fn, core.CallsMethodNamed("UnLock", "")) {
				if _, isDefer := u.(*ssa.Defer); isDefer {
					continue
				}
				q := &core.Q{Fn: fn}
				for _, s := range sets {
					found, w, _ := q.Reach(u, func(in ssa.Instruction) bool { return in == ssa.Instruction(s) })
					a.check(!found, fname(fn)+" latch released only after the commit ts was recorded", u, "", "the local latch is released before SetCommitTS: the scheduler may hand the keys over with commit ts 0, so a concurrent older transaction on the same key is not recognised as stale: "+a.w(w))
				}
			}
		}
	}
	{
		a := rule(c, "C17.R8")
		fn := a.fn("internal/latch", "", "tsoSub")
		if fn != nil {
			for _, r := range returnsOf(fn) {
				okk := false
				if cl, ok := core.Strip(r.Results[0]).(*ssa.Call); ok && cl.Call.StaticCallee() != nil && cl.Call.StaticCallee().Name() == "Sub" && len(cl.Call.Args) == 2 {
					d0 := strings.Join(p.Prov().Desc(cl.Call.Args[0]), "|")
					d1 := strings.Join(p.Prov().Desc(cl.Call.Args[1]), "|")
					t0, ok0 := core.Strip(cl.Call.Args[0]).(*ssa.Call)
					t1, ok1 := core.Strip(cl.Call.Args[1]).(*ssa.Call)
					if ok0 && ok1 && strings.Contains(d0, "GetTimeFromTS") && strings.Contains(d1, "GetTimeFromTS") {
						a0 := strings.Join(p.Prov().Desc(t0.Call.Args[0]), "|")
						a1 := strings.Join(p.Prov().Desc(t1.Call.Args[0]), "|")
						okk = a0 == "param#0" && a1 == "param#1"
					}
				}
				a.check(okk, fname(fn)+" = time(ts1) − time(ts2), signed", r, "", "tsoSub no longer returns the signed difference of its arguments on every path (e.g. an absolute distance): nodes committed after the requester started look expired and are recycled, the requester is not flagged stale")
			}
		}
	}
}

func c18Round2(c *core.Ctx) {
	{
		a := rule(c, "C18.R7")
		fn := a.fn(pkgClient, "batchCommandsBuilder", "buildWithLimit")
		if fn != nil {
			n := 0
			for _, f := range core.FuncsIn(fn) {
				core.Instrs(f, func(in ssa.Instruction) {
					ta, ok := in.(*ssa.TypeAssert)
					if !ok || !strings.HasSuffix(ta.AssertedType.String(), "client.batchCommandsEntry") {
						return
					}
					n++
					okk, w, hit := condMust(c, f, in, func(x ssa.Instruction) bool {
						if x == in {
							return true // next iteration
						}
						_, isRet := x.(*ssa.Return)
						return isRet
					}, isStoreTo(c, "batchCommandsRequestGroup.entries", ""), []string{"T:call((*internal/client.batchCommandsEntry).isCanceled)#0*"})
					if okk {
						a.ok(fname(f)+" every taken entry is placed into a group", in, "")
					} else {
						a.viol(fname(f)+" every taken entry is placed into a group", hit, "an entry already removed from the priority queue can be passed over without being put into a request group (and it is not cancelled): it is neither sent nor re-queued nor failed — the caller waits for its time-out, an async callback is never invoked: "+a.w(w))
					}
				})
			}
			a.checkAt(n == 1, fname(fn)+" entry loop", a.fnPos(fn), "", "entry loop not found")
		}
	}
	{
		a := rule(c, "C18.R8")
		fn := a.fn(pkgClient, "batchConn", "fetchAllPendingRequests")
		if fn != nil {
			okk, w, hit := condMust(c, fn, nil, core.IsReturn, isCallNamed("push"), []string{"F:(const(0) == select#0)", "T:(nil == select#2)"})
			if okk {
				a.okAt(fname(fn)+" returns empty-handed only when idle/closed/nil", a.fnPos(fn), "")
			} else {
				a.viol(fname(fn)+" returns empty-handed only when idle/closed/nil", hit, "the fetch can return without pushing a head entry although one was received (e.g. because it is already cancelled): the send loop reads an empty builder as 'connection closed' and exits — every later request to this store times out: "+a.w(w))
			}
		}
	}
}

// ---- C10 round 2 ------------------------------------------------------------------------------------------------
func init() {
	extend("C10", "(R7) for a request of every read command whose store type is not TiDB, validateReadTS consults the validator on every path (walked per command under that valuation); (R8) the store's resolve-state CAS loop retries only while the observed state is the expected one (otherwise it returns): it cannot spin on a state it will never see; imported: a region-error response of the matching type carries the region error (C15.R1) — otherwise a send that found no replica fabricates a success.", c10Round2)
}

func c10Round2(c *core.Ctx) {
	c.Import(Registry["C15"].Run, "C15", []string{"R1"}, "viaC15")
	p := c.P
	{
		a := rule(c, "C10.R7")
		validate := a.fn(pkgLocate, "RegionRequestSender", "validateReadTS")
		isReadReq := a.fn(pkgLocate, "", "isReadReq")
		if validate != nil && isReadReq != nil {
			tidb := constInt(c, core.ModPath+"/tikvrpc", "TiDB")
			readSet := constsComparedWithParam(isReadReq, 0)
			isValidateCall := func(in ssa.Instruction) bool {
				ci, ok := in.(ssa.CallInstruction)
				return ok && calleeName(ci) == "ValidateReadTS"
			}
			n := 0
			for cmd := range readSet {
				cmd := cmd
				n++
				q := &core.Q{Fn: validate, NoPass: isValidateCall, NoEdge: func(e core.Edge) bool {
					at := p.EdgeAtom(e)
					// valuation: StoreTp != TiDB, Type == cmd
					if strings.Contains(at, "fld(Request.StoreTp,") && strings.Contains(at, fmt.Sprintf("(const(%d) == ", tidb)) {
						return strings.HasPrefix(at, "T:")
					}
					if strings.Contains(at, "fld(Request.Type,") && strings.Contains(at, " == ") {
						isThis := strings.Contains(at, fmt.Sprintf("(const(%d) == ", cmd))
						if isThis {
							return strings.HasPrefix(at, "F:")
						}
						return strings.HasPrefix(at, "T:")
					}
					return false
				}}
				found, w, hit := q.Reach(nil, core.IsReturn)
				if found {
					a.viol(fmt.Sprintf("%s validates CmdType(%d) for every non-TiDB store", fname(validate), cmd), hit, "a read of this command addressed to a store that is not TiDB (TiKV or TiFlash) can return from validateReadTS without consulting the validator: a read with a timestamp from the future is sent although validation is enabled: "+a.w(w))
				} else {
					a.okAt(fmt.Sprintf("%s validates CmdType(%d) for every non-TiDB store", fname(validate), cmd), a.fnPos(validate), "")
				}
			}
			a.checkAt(n >= 4, "read commands walked", a.fnPos(validate), fmt.Sprint(n), "read command set not found")
		}
	}
	{
		a := rule(c, "C10.R8")
		fn := a.fn(pkgLocate, "Store", "changeResolveStateTo")
		if fn != nil {
			n := 0
			for _, ci := range core.FindCalls(fn, func(cc *ssa.CallCommon) bool {
				f := cc.StaticCallee()
				return f != nil && strings.HasPrefix(f.Name(), "CompareAndSwap")
			}) {
				n++
				g, w := guardedByAny(c, fn, ci,
					"T:(call((*internal/locate.Store).getResolveState)#0[recv] == param#0)", "T:(param#0 == call((*internal/locate.Store).getResolveState)#0[recv])")
				a.check(g, fname(fn)+" retries the CAS only from the expected state", ci, "", "the compare-and-swap (from → to) is attempted, and the loop repeated, although the observed state is neither `from` nor `to`: the CAS can never succeed and the loop never ends (a send that meets a tombstone store hangs): "+a.w(w))
			}
			a.checkAt(n == 1, fname(fn)+" CAS site", a.fnPos(fn), "", "CAS not found")
		}
	}
}

func init() {
	extend("C14", "Imported: resolve requests carry exactly the status that was checked (C02.R2).", func(c *core.Ctx) {
		c.Import(Registry["C02"].Run, "C02", []string{"R2"}, "viaC02")
	})
}

// ================================================================================================================
// Rules added after the THIRD round of independent seeded changes (DESIGN.md §14).
func init() {
	extend("C01", "Imported (round 3): async-commit recovery keeps a rolled-back verdict (C02.R5); a lost 1PC/async prewrite answer is undetermined (C03.R5).", func(c *core.Ctx) {
		c.Import(Registry["C02"].Run, "C02", []string{"R5"}, "viaC02")
		c.Import(Registry["C03"].Run, "C03", []string{"R5"}, "viaC03")
	})
	extend("C02", "Imported (round 3): the secondaries recorded in an async-commit primary are all keys that get a lock (C04.R1b); the mock store persists every marker it reports (C12.R1).", func(c *core.Ctx) {
		c.Import(Registry["C04"].Run, "C04", []string{"R1b"}, "viaC04")
		c.Import(Registry["C12"].Run, "C12", []string{"R1"}, "viaC12")
	})
	extend("C03", "(R9) the prewrite-cancelled flag is raised only by a failing prewrite/flush batch (the actions that own a cancel function). Imported (round 3): C02.R5.", func(c *core.Ctx) {
		c.Import(Registry["C02"].Run, "C02", []string{"R5"}, "viaC02")
		guardTable(c, "C03.R9", []gRow{
			{Fn: [3]string{pkgTxn, "batchExecutor", "process"}, Target: "store:twoPhaseCommitter.prewriteCancelled", Facts: []string{"F:(call((*config/retry.Backoffer).Fork)#1[*]|nil == nil)"}, Min: 1,
				Why: "prewriteCancelled tells a dropped prewrite RPC that its error is a consequence of the cancellation; raised by another action it suppresses the undetermined marking of a later prewrite"},
		})
	})
	extend("C04", "(R7) when the provisional primary is abandoned after a lock-only-if-exists miss, the committer (and its ttl manager) is reset. Imported (round 3): status predicate definitions (C02.R4).", func(c *core.Ctx) {
		c.Import(Registry["C02"].Run, "C02", []string{"R4"}, "viaC02")
		a := rule(c, "C04.R7")
		fn := a.fn(pkgTxn, "KVTxn", "unsetPrimaryKeyIfNeeded")
		if fn == nil {
			return
		}
		n := 0
		for _, st := range storesToFieldNamed(fn, "twoPhaseCommitter.primaryKey") {
			if !isNil(st.(*ssa.Store).Val) {
				continue
			}
			n++
			okk, w, hit := core.MustPassAfter(fn, st, isCallNamed("reset"), core.IsReturn, nil)
			if okk {
				a.ok(fname(fn)+" resets the committer with the abandoned primary", st, "")
			} else {
				a.viol(fname(fn)+" resets the committer with the abandoned primary", hit, "the provisional primary key is cleared but the committer is not reset: its ttl manager keeps heart-beating the abandoned key and the real primary chosen later is never kept alive: "+a.w(w))
			}
		}
		a.checkAt(n == 1, fname(fn)+" clears the primary", a.fnPos(fn), "", "clearing site not found")
	})
	extend("C05", "(R2c) the scanner gives a key-less locked pair its key before the batch is installed (the bound check of Next needs it); (R2d) the async batch-get retry loop re-tests the region error of the request it just sent.", c05Round3)
	extend("C06", "(R8) a pessimistic rollback is sent with max(forUpdateTS, maxLockedWithConflictTS); (R9) only prewrite-only keys are stripped before commit; (R10) every retry of an aggressive-locking stage hands its locked keys over for release.", c06Round3)
	extend("C08", "(R11) Release marks the buffer dirty only when the OUTERMOST staging level is released and it wrote something — identically in both buffers.", func(c *core.Ctx) {
		guardTable(c, "C08.R11", []gRow{
			{Fn: [3]string{pkgART, "ART", "Release"}, Target: "store:ART.dirty", Facts: []string{"T:(const(1) == param#0)"}, Min: 1, Why: "writes of an inner level are still undoable by the outer level's cleanup: the buffer is not dirty yet"},
			{Fn: [3]string{pkgRBT, "RBT", "Release"}, Target: "store:RBT.dirty", Facts: []string{"T:(const(1) == param#0)"}, Min: 1, Why: "same as the radix-tree buffer"},
		})
	})
	extend("C09", "(R7) the batch locate loop continues with the remainder of ALL uncached ranges; (R8) an epoch-not-match answer invalidates the stale cached region unless one of the reported regions carries its very version; (R9) the ordered-index search looks further left only for an end-key lookup that hit a region starting at the key.", c09Round3)
	extend("C10", "(R9) every read command has a start-ts case in Request.GetStartTS (what validateReadTS validates); (R10) the error of a back-off (budget exhausted / killed) is returned, never logged away; (R11) no function of the send path returns with a mutex still locked.", c10Round3)
}

func c05Round3(c *core.Ctx) {
	p := c.P
	a := rule(c, "C05.R2c")
	getData := a.fn(pkgSnap, "Scanner", "getData")
	bgRetry := a.fn(pkgSnap, "KVSnapshot", "retryBatchGetSingleRegionAfterAsyncAPI")
	if getData == nil || bgRetry == nil {
		return
	}
	// the key fill: a store KvPair.Key ← Lock.Key, in getData or in a private helper it calls
	isFill := func(in ssa.Instruction) bool {
		st, ok := in.(*ssa.Store)
		if !ok {
			return false
		}
		fa, ok := st.Addr.(*ssa.FieldAddr)
		if !ok || core.FieldOfAddr(fa) == nil || fieldKey(fa.X.Type().String(), core.FieldOfAddr(fa).Name()) != "KvPair.Key" {
			return false
		}
		return descHas(c, st.Val, "fld(Lock.Key,")
	}
	var fillSites []ssa.Instruction
	core.Instrs(getData, func(in ssa.Instruction) {
		if isFill(in) {
			fillSites = append(fillSites, in)
		}
		if cl, ok := in.(*ssa.Call); ok {
			if g := cl.Call.StaticCallee(); g != nil && g.Pkg == getData.Pkg && g.Object() != nil && !g.Object().Exported() && len(g.Blocks) > 0 {
				has := false
				core.Instrs(g, func(x ssa.Instruction) {
					if isFill(x) {
						has = true
					}
				})
				if has {
					fillSites = append(fillSites, in)
				}
			}
		}
	})
	a.checkAt(len(fillSites) >= 1, fname(getData)+" fills the key of key-less locked pairs", a.fnPos(getData), "", "a scan pair that carries only a lock error keeps an empty key until Next: the bound check of Next compares the empty key (a reverse scan with a lower bound stops at the first leftover lock; a full batch ending in a locked pair restarts from the edge of the key space)")
	for _, st := range storesToFieldNamed(getData, "Scanner.cache") {
		for _, f := range fillSites {
			q := &core.Q{Fn: getData}
			after, _, _ := q.Reach(st, func(in ssa.Instruction) bool { return in == f })
			before, _, _ := q.Reach(f, func(in ssa.Instruction) bool { return in == st })
			a.check(before && !after, fname(getData)+" fills the keys before installing the batch", st, "", "the batch is installed before the keys of its locked pairs are filled in")
		}
	}
	a2 := rule(c, "C05.R2d")
	n := 0
	for _, ci := range core.FindCalls(bgRetry, core.CallsMethodNamed("handleBatchGetRegionError", "")) {
		n++
		args := ci.Common().Args
		d := strings.Join(p.Prov().Desc(args[len(args)-1]), "|")
		a2.check(strings.Contains(d, "GetRegionError)#0"), fname(bgRetry)+" handles the region error of the request it just sent", ci, d, "the loop-carried region error is never updated from the retried request (e.g. shadowed by `:=`): a region error followed by a lock on the retry is never resolved and the batch get never returns: "+d)
	}
	a2.checkAt(n == 1, fname(bgRetry)+" region error handling", a2.fnPos(bgRetry), "", "handler call not found")
}

func c06Round3(c *core.Ctx) {
	p := c.P
	{
		a := rule(c, "C06.R8")
		if f := a.extField(kvrpcpb, "PessimisticRollbackRequest", "ForUpdateTs"); f != nil {
			n := 0
			for _, w := range prodWriters(c, f) {
				if enclosing(w.Fn).Pkg != p.Pkg(pkgTxn) {
					continue // the lock resolver rolls back a foreign lock with that lock's own for-update ts
				}
				n++
				pv := p.Prov()
				pv.InlinePure = true
				d := strings.Join(pv.Desc(w.Val), "|")
				a.check(strings.Contains(d, "twoPhaseCommitter.forUpdateTS") && strings.Contains(d, "maxLockedWithConflictTS"), "PessimisticRollbackRequest.ForUpdateTs ← max(forUpdateTS, maxLockedWithConflictTS) in "+fname(w.Fn), w.Instr, d, "the rollback's for-update ts ignores the conflict ts of locks taken with conflict: those locks carry a larger for_update_ts and survive the rollback: "+d)
			}
			a.checkAt(n >= 1, "PessimisticRollbackRequest.ForUpdateTs writers", "-", fmt.Sprint(n), "no writer found")
		}
	}
	{
		a := rule(c, "C06.R9")
		fn := a.fn(pkgTxn, "twoPhaseCommitter", "stripNoNeedCommitKeys")
		if fn != nil {
			n := 0
			core.Instrs(fn, func(in ssa.Instruction) {
				ci, ok := in.(ssa.CallInstruction)
				if !ok || ci.Common().StaticCallee() == nil {
					return
				}
				cl := ci.Common().StaticCallee()
				if cl.Signature.Recv() == nil || !strings.HasSuffix(cl.Signature.Recv().Type().String(), "kv.KeyFlags") {
					return
				}
				n++
				a.check(cl.Name() == "HasPrewriteOnly", fname(fn)+" strips exactly the prewrite-only keys", in, cl.Name(), "keys are removed from the commit set by "+cl.Name()+" instead of HasPrewriteOnly: keys that were prewritten with a lock are not committed and their locks survive a successful Commit")
			})
			a.checkAt(n == 1, fname(fn)+" flag test", a.fnPos(fn), "", "flag test not found")
		}
	}
	{
		a := rule(c, "C06.R10")
		fn := a.fn(pkgTxn, "KVTxn", "RetryAggressiveLocking")
		if fn != nil {
			for _, spec := range []struct{ field, val, what string }{
				{"aggressiveLockingContext.lastRetryUnnecessaryLocks", "fld(aggressiveLockingContext.currentLockedKeys,*", "hands the locked keys of the attempt over for release"},
				{"aggressiveLockingContext.currentLockedKeys", "makemap", "starts the next attempt with an empty key set"},
			} {
				okk, w, hit := condMust(c, fn, nil, core.IsReturn, isStoreTo(c, spec.field, spec.val), []string{"T:(fld(KVTxn.aggressiveLockingContext,recv) == nil)", "F:call((*txnkv/transaction.KVTxn).IsInAggressiveLockingMode)*"})
				if okk {
					a.okAt(fname(fn)+" "+spec.what, a.fnPos(fn), "")
				} else {
					a.viol(fname(fn)+" "+spec.what, hit, "a retry can keep the previous attempt's key set as the current one: the same keys are released twice (lockedCnt is decremented twice and a later Rollback skips the pessimistic rollback): "+a.w(w))
				}
			}
		}
	}
}

func c09Round3(c *core.Ctx) {
	{
		a := rule(c, "C09.R7")
		fn := a.fn(pkgLocate, "RegionCache", "BatchLocateKeyRanges")
		if fn != nil {
			n := 0
			for _, f := range core.FuncsIn(fn) {
				for _, ci := range core.FindCalls(f, core.CallsMethodNamed("rangesAfterKey", "")) {
					n++
					isSlice := false
					for _, d := range c.P.Prov().Desc(ci.Common().Args[0]) {
						if strings.HasPrefix(d, "slice(") {
							isSlice = true
						}
					}
					a.check(!isSlice, fname(f)+" continues with the remainder of all uncached ranges", ci, "", "the remainder is computed from the chunk that was just sent (a sub-slice) instead of from all uncached ranges: every range beyond the first chunk is dropped and the returned locations leave it uncovered")
				}
			}
			a.checkAt(n >= 1, fname(fn)+" remainder computation", a.fnPos(fn), "", "rangesAfterKey call not found")
		}
	}
	{
		a := rule(c, "C09.R8")
		fn := a.fn(pkgLocate, "RegionCache", "OnRegionEpochNotMatch")
		if fn != nil {
			inv := core.FindCalls(fn, core.CallsMethodNamed("invalidate", ""))
			a.checkAt(len(inv) >= 1, fname(fn)+" invalidates the stale region", a.fnPos(fn), "", "the cached region whose epoch the store rejected is never invalidated: when the store reports only regions that start after it (right-derived split) the stale wide entry keeps answering lookups of the left half")
			for _, ins := range core.FindCalls(fn, core.CallsMethodNamed("insertRegionToCache", "")) {
				okk, w, _ := condMust(c, fn, nil, func(in ssa.Instruction) bool { return in == ssa.Instruction(ins) }, isCallNamed("invalidate"),
					[]string{"T:(lookup(fld(regionIndexMu.regions,*) == nil)", "T:(*VerID)#0*", "T:(fld(RPCContext.Region,*) == *"})
				a.check(okk, fname(fn)+" invalidates before installing the reported regions", ins, "", "the reported regions are installed although the stale region was neither invalidated nor re-reported with the same version: "+a.w(w))
			}
		}
	}
	{
		a := rule(c, "C09.R9")
		fn := a.fn(pkgLocate, "SortedRegions", "SearchByKey")
		if fn != nil {
			n := 0
			for _, f := range fn.AnonFuncs {
				for _, r := range returnsOf(f) {
					cst, ok := asConst(r.Results[0])
					if !ok || cst.Value == nil || cst.Value.String() != "true" {
						continue
					}
					n++
					g, w := guardedByAny(c, f, r, "T:call(bytes.Equal)#0*")
					a.check(g, fname(f)+" keeps descending only past a region that starts at the end key", r, "", "the search continues to the left although the nearest region was examined: a wider stale entry further left is returned instead of a cache miss (overlapping the newer region): "+a.w(w))
				}
			}
			a.checkAt(n >= 1, fname(fn)+" continue-descending return", a.fnPos(fn), "", "not found")
		}
	}
}

func c10Round3(c *core.Ctx) {
	p := c.P
	{
		a := rule(c, "C10.R9")
		isReadReq := a.fn(pkgLocate, "", "isReadReq")
		getStartTS := a.fn(pkgRPC, "Request", "GetStartTS")
		if isReadReq != nil && getStartTS != nil {
			readSet := constsComparedWithParam(isReadReq, 0)
			// … and every command validateReadTS itself reads a timestamp for
			if validate := a.fn(pkgLocate, "RegionRequestSender", "validateReadTS"); validate != nil {
				for v := range constsSwitchedOn(validate, "Request.Type") {
					readSet[v] = true
				}
			}
			have := constsSwitchedOn(getStartTS, "Request.Type")
			for v := range readSet {
				a.checkAt(have[v], fmt.Sprintf("%s has a case for read command CmdType(%d)", fname(getStartTS), v), a.fnPos(getStartTS), "", fmt.Sprintf("Request.GetStartTS returns 0 for read command CmdType(%d): validateReadTS validates 0 instead of the read's timestamp, so a read from the future is sent", v))
			}
		}
	}
	{
		a := rule(c, "C10.R10")
		n := 0
		for _, fn := range p.Funcs {
			pk := enclosing(fn).Pkg
			if pk == nil || !(pk == p.Pkg(pkgLocate) || pk == p.Pkg("rawkv") || pk == p.Pkg(pkgSnap) || pk == p.Pkg(pkgTxn) || pk == p.Pkg(pkgLock) || pk == p.Pkg("tikv")) {
				continue
			}
			if isProbe(c, fn) || strings.HasSuffix(p.Fset.Position(fn.Pos()).Filename, "_test.go") {
				continue
			}
			for _, ci := range core.FindCalls(fn, func(cc *ssa.CallCommon) bool {
				f := cc.StaticCallee()
				return f != nil && f.Pkg == p.Pkg(pkgRetry) && strings.HasPrefix(f.Name(), "Backoff") && f.Signature.Results().Len() == 1
			}) {
				v, ok := ci.(ssa.Value)
				if !ok {
					// `go`/`defer` of a back-off: result unobservable
					continue
				}
				n++
				key := fname(fn) + " surfaces the back-off error"
				refs := v.Referrers()
				if refs == nil || len(*refs) == 0 {
					if why, ok := c10BackoffIgnored[fname(fn)]; ok {
						a.ok(key, ci, "frozen exception: "+why)
					} else {
						a.viol(key, ci, "the result of the back-off (budget exhausted / query killed) is dropped")
					}
					continue
				}
				pNil := core.PIsNil(func(x ssa.Value) bool { return core.Strip(x) == v })
				ifs := ifsOn(fn, pNil)
				if len(ifs) == 0 {
					// not tested: must flow to a return
					a.check(flowsToReturn(v), key, ci, "returned", "the back-off's error is neither tested nor returned")
					continue
				}
				for _, ifi := range ifs {
					b := succOn(ifi, pNil, false)
					if b == nil {
						continue
					}
					// on the error edge: no success exit and no further attempt
					qq := &core.Q{Fn: fn, AssumeNil: map[ssa.Value]bool{v: false}}
					found, w, hit := qq.ReachFromBlock(b, func(in ssa.Instruction) bool {
						if r, ok := in.(*ssa.Return); ok {
							if len(r.Results) == 0 {
								return false
							}
							last := r.Results[len(r.Results)-1]
							if !(isErrorType(last.Type()) && isNil(last)) {
								return false
							}
							// `return false, nil` from a (retry bool, err error) function declines the retry: the caller
							// hands the region error back instead of retrying — a permitted way for the send to end
							for _, res := range r.Results[:len(r.Results)-1] {
								if cst, ok := asConst(res); ok && cst.Value != nil && cst.Value.String() == "false" && res.Type().String() == "bool" {
									return false
								}
							}
							return true
						}
						return false
					})
					if found {
						if why, ok := c10BackoffIgnored[fname(fn)]; ok {
							a.ok(key, ci, "frozen exception: "+why)
						} else {
							a.viol(key, hit, "when the back-off fails (budget spent, context done, query killed) the function can still return success: the caller retries without sleeping and the send does not end with the budget error: "+a.w(w))
						}
					} else {
						a.ok(key, ci, "")
					}
				}
			}
		}
		a.checkAt(n >= 30, "back-off call sites checked", "-", fmt.Sprint(n), "call sites not found")
	}
	{
		a := rule(c, "C10.R11")
		n := 0
		for _, fn := range p.Funcs {
			pk := enclosing(fn).Pkg
			if pk == nil || !(pk == p.Pkg(pkgLocate) || pk == p.Pkg(pkgRetry) || pk == p.Pkg(pkgClient)) {
				continue
			}
			if strings.HasSuffix(p.Fset.Position(fn.Pos()).Filename, "_test.go") {
				continue
			}
			n++
			for _, l := range lockLeaks(fn) {
				a.viol(fname(fn)+" releases "+l.Path+" on every path", l.Ret, "a path returns with the mutex still locked (no Unlock and no deferred Unlock on it): the next caller blocks forever: "+a.w(l.W))
			}
		}
		a.checkAt(n >= 100, "functions checked for lock leaks", "-", fmt.Sprint(n), "")
	}
}

// back-off results that are deliberately not propagated (each confirmed by reading)
var c10BackoffIgnored = map[string]string{}

// ---- round 3, second batch ---------------------------------------------------------------------------------------
func init() {
	extend("C08", "(R12) the flags that survive an undo (persistentFlags) are exactly locked, locked-value-exists, need-constraint-check-in-prewrite and locked-in-share-mode.", func(c *core.Ctx) {
		a := rule(c, "C08.R12")
		kvp := core.ModPath + "/kv"
		pf := constInt(c, kvp, "persistentFlags")
		want := int64(0)
		for _, n := range []string{"flagKeyLocked", "flagKeyLockedValExist", "flagNeedConstraintCheckInPrewrite", "flagKeyLockedInShareMode"} {
			want |= constInt(c, kvp, n)
		}
		a.checkAt(pf == want && want != 0, "kv.persistentFlags", "-", fmt.Sprintf("%#x", pf), fmt.Sprintf("persistentFlags is %#x, expected %#x: a flag that must survive the cleanup of a staging level (a key locked inside the level stays locked on the store) is dropped with the level — or a transient flag survives", pf, want))
	})
	extend("C11", "(R6) the mock store reports 'not found' for a raw get only for an absent key (nil), not for an empty value.", func(c *core.Ctx) {
		a := rule(c, "C11.R6")
		fn := a.fn(pkgMock, "kvHandler", "handleKvRawGet")
		if fn == nil {
			return
		}
		n := 0
		for _, st := range storesToFieldNamed(fn, "RawGetResponse.NotFound") {
			if cst, ok := asConst(st.(*ssa.Store).Val); ok && cst.Value != nil {
				continue // error paths
			}
			n++
			b, ok := core.Strip(st.(*ssa.Store).Val).(*ssa.BinOp)
			okk := ok && b.Op == token.EQL && (isNil(b.X) || isNil(b.Y))
			a.check(okk, fname(fn)+" NotFound ⇔ value is nil", st, "", "NotFound is not `value == nil`: a key stored with an empty value is reported as absent by Get while Scan still returns it")
		}
		a.checkAt(n == 1, fname(fn)+" NotFound", a.fnPos(fn), "", "NotFound assignment not found")
	})
	extend("C12", "(R8) getTxnCommitInfo scans all write records of the key (no ordering test on start ts: records are ordered by commit ts); (R9) a pessimistic lock is rewritten only for a larger for-update ts; (R10) a write record newer than the for-update ts is a write conflict without further conditions.", c12Round3)
	extend("C13", "(R7) the local and mock oracles read the clock with their mutex held; (R8) every clock reading of the mock oracle is shifted by its offset; (R9) the cached timestamp of a scope is looked up under that scope only.", c13Round3)
	extend("C14", "(R7) GC batch resolve rolls pessimistic locks back key by key (no region-wide clean set shared between transactions).", func(c *core.Ctx) {
		a := rule(c, "C14.R7")
		fn := a.fn(pkgLock, "LockResolver", "BatchResolveLocks")
		if fn == nil {
			return
		}
		n := 0
		for _, ci := range core.FindCalls(fn, core.CallsMethodNamed("resolvePessimisticLock", "")) {
			n++
			args := ci.Common().Args
			cst, ok := asConst(args[3])
			a.check(ok && cst.Value != nil && cst.Value.String() == "false" && isNil(args[4]), fname(fn)+" rolls pessimistic locks back key by key", ci, "", "pessimistic locks are rolled back with the region-wide form and a clean-regions set shared by the whole batch: the locks of a second transaction in the same region are skipped as already clean and survive the GC pass")
		}
		a.checkAt(n == 1, fname(fn)+" pessimistic rollback site", a.fnPos(fn), "", "not found")
	})
	extend("C15", "(R8) encode helpers never write through an element of their input (they encode a copy or a fresh message); DecodeRange compares the end bound only when it is not the +∞ sentinel.", c15Round3)
	extend("C16", "(R8) a buffer-tier batch get keeps its tier when it is re-split after a region error; FlushWait reports nil without reading the flush result only when no flush is outstanding.", c16Round3)
	extend("C17", "(R9) latches are released (and waiters woken) only by the scheduler goroutine.", func(c *core.Ctx) {
		a := rule(c, "C17.R9")
		rel := a.fn("internal/latch", "Latches", "release")
		run := a.fn("internal/latch", "LatchesScheduler", "run")
		if rel == nil || run == nil {
			return
		}
		n := 0
		for _, cs := range c.P.CallersOf(rel) {
			if strings.HasSuffix(c.P.Fset.Position(cs.Fn.Pos()).Filename, "_test.go") {
				continue
			}
			n++
			onRun := false
			for f, k := cs.Fn, 0; f != nil && k < 6; k++ {
				f = enclosing(f)
				if f == run {
					onRun = true
					break
				}
				if f.Object() == nil || f.Object().Exported() {
					break
				}
				cl := c.P.CallersOf(f)
				if len(cl) != 1 {
					break
				}
				f = cl[0].Fn
			}
			a.check(onRun, fname(cs.Fn)+" calls Latches.release", cs.Instr, "", "latches are released outside the scheduler goroutine: the wake-up list returned by release is not processed there, so a waiter queued on the key is never woken")
		}
		a.checkAt(n >= 1, "callers of Latches.release", "-", fmt.Sprint(n), "no caller found")
	})
	extend("C18", "(R9) a stream that won the re-create race advances its epoch before failing the pending requests; (R10) a collapsed request waits for the caller's own time-out; (R11) every response of a registered request retires its entry (delete from the pending map, decrement the in-flight counter) whether or not the caller still waits.", c18Round3)
	extend("C19", "(R6) varint scratch buffers have the 64-bit maximum length; reallocBytes keeps the existing bytes (the new buffer has the old length); the mem-comparable key encoder encodes every key, also the empty one.", c19Round3)
	extend("C20", "(R8) equal jitter is v/2 + rand(v/2).", func(c *core.Ctx) {
		a := rule(c, "C20.R8")
		fn := a.fn(pkgRetry, "", "newBackoffFn")
		if fn == nil {
			return
		}
		n := 0
		for _, f := range core.FuncsIn(fn) {
			core.Instrs(f, func(in ssa.Instruction) {
				b, ok := in.(*ssa.BinOp)
				if !ok || b.Op != token.ADD {
					return
				}
				var half ssa.Value
				var intn *ssa.Call
				for _, pr := range [][2]ssa.Value{{b.X, b.Y}, {b.Y, b.X}} {
					if cl, ok := core.Strip(pr[1]).(*ssa.Call); ok && cl.Call.StaticCallee() != nil && cl.Call.StaticCallee().Name() == "Intn" {
						if q, ok := core.Strip(pr[0]).(*ssa.BinOp); ok && q.Op == token.QUO {
							half, intn = q, cl
						}
					}
				}
				if intn == nil {
					return
				}
				n++
				a.check(sameExpr(intn.Call.Args[0], half, 0), fname(f)+" equal jitter = v/2 + rand(v/2)", in, "", "the random part of the equal-jitter sleep is not bounded by the other half of the step: one sleep can exceed the exponential step and the cap of its kind")
			})
		}
		a.checkAt(n == 1, fname(fn)+" equal-jitter expression", a.fnPos(fn), "", "v/2 + rand.Intn(…) not found")
	})
}

func c12Round3(c *core.Ctx) {
	p := c.P
	{
		a := rule(c, "C12.R8")
		fn := a.fn(pkgMock, "", "getTxnCommitInfo")
		if fn != nil {
			n := 0
			core.Instrs(fn, func(in ssa.Instruction) {
				b, ok := in.(*ssa.BinOp)
				if !ok {
					return
				}
				dx, dy := strings.Join(p.Prov().Desc(b.X), "|"), strings.Join(p.Prov().Desc(b.Y), "|")
				if !(strings.Contains(dx+dy, "fld(mvccValue.startTS,") && strings.Contains(dx+dy, "param#2")) {
					return
				}
				n++
				a.check(b.Op == token.EQL || b.Op == token.NEQ, fname(fn)+" matches the start ts by equality only", in, b.Op.String(), "the scan over a key's write records is cut short by an ordering test on the records' start ts: records are ordered by commit ts, so a transaction that started earlier but committed later hides the searched one (a committed transaction is reported as not found and then rolled back)")
			})
			a.checkAt(n >= 1, fname(fn)+" start-ts match", a.fnPos(fn), "", "comparison not found")
		}
	}
	{
		a := rule(c, "C12.R9")
		fn := a.fn(pkgMock, "MVCCLevelDB", "pessimisticLockMutation")
		if fn != nil {
			n := 0
			core.Instrs(fn, func(in ssa.Instruction) {
				b, ok := in.(*ssa.BinOp)
				if !ok {
					return
				}
				dx, dy := strings.Join(p.Prov().Desc(b.X), "|"), strings.Join(p.Prov().Desc(b.Y), "|")
				isReq := func(d string) bool { return strings.HasPrefix(d, "fld(lockCtx.forUpdateTS,") }
				if !(strings.Contains(dx, "fld(mvccLock.forUpdateTS,") && isReq(dy)) && !(strings.Contains(dy, "fld(mvccLock.forUpdateTS,") && isReq(dx)) {
					return
				}
				n++
				x, y, neg, isOrd := lessForm(b)
				okk := isOrd && !neg && strings.Contains(strings.Join(p.Prov().Desc(x), "|"), "fld(mvccLock.forUpdateTS,") && isReq(strings.Join(p.Prov().Desc(y), "|"))
				a.check(okk, fname(fn)+" rewrites its own lock only for a larger for-update ts", in, "", "the transaction's own pessimistic lock is rewritten when the for-update ts merely differs: a stale request with a smaller for-update ts lowers the lock's for-update ts and ttl")
			})
			a.checkAt(n == 1, fname(fn)+" for-update ts comparison", a.fnPos(fn), "", "comparison not found")
		}
	}
	{
		a := rule(c, "C12.R10")
		fn := a.fn(pkgMock, "", "checkConflictValue")
		if fn != nil {
			n := 0
			core.Instrs(fn, func(in ssa.Instruction) {
				ifi, ok := in.(*ssa.If)
				if !ok {
					return
				}
				v, _ := core.CondOf(ifi)
				at, _ := p.CanonAtom(v)
				if !strings.Contains(at, "fld(mvccValue.commitTS,") || !strings.Contains(at, "param#2") || !strings.Contains(at, " < ") {
					return
				}
				n++
				// the conflict error is built directly on the edge "for-update ts < commit ts"
				var succ *ssa.BasicBlock
				for k := 0; k < 2; k++ {
					if strings.HasPrefix(p.EdgeAtom(core.Edge{If: ifi, True: k == 0}), "T:(param#2 < fld(mvccValue.commitTS,") {
						succ = ifi.Block().Succs[k]
					}
				}
				built := false
				if succ != nil {
					for _, x := range succ.Instrs {
						if al, ok := x.(*ssa.Alloc); ok && strings.HasSuffix(al.Type().String(), "mocktikv.ErrConflict") {
							built = true
						}
					}
				}
				a.check(built, fname(fn)+" commit ts > for-update ts ⇒ write conflict", in, at, "a write record committed after the for-update ts no longer yields a write conflict unconditionally (an extra condition was added, or the comparison changed): e.g. a duplicate prewrite after the transaction's own commit is accepted and leaves a lock")
			})
			a.checkAt(n == 1, fname(fn)+" conflict comparison", a.fnPos(fn), "", "comparison of the newest write's commit ts with the for-update ts not found")
		}
	}
}

func c13Round3(c *core.Ctx) {
	p := c.P
	isNow := func(in ssa.Instruction) bool {
		ci, ok := in.(*ssa.Call)
		return ok && ci.Call.StaticCallee() != nil && ci.Call.StaticCallee().String() == "time.Now"
	}
	{
		a := rule(c, "C13.R7")
		for _, spec := range [][2]string{{"localOracle", "GetTimestamp"}, {"MockOracle", "GetTimestamp"}} {
			fn := a.fn(pkgOracle, spec[0], spec[1])
			if fn == nil {
				continue
			}
			ls := core.Lockset(fn)
			n := 0
			core.Instrs(fn, func(in ssa.Instruction) {
				if !isNow(in) {
					return
				}
				n++
				held := false
				for k, v := range ls[in] {
					if v == 'W' && strings.HasSuffix(k, "Mutex") {
						held = true
					}
				}
				a.check(held, fname(fn)+" reads the clock under its mutex", in, "", "the clock is read before the mutex is taken: a caller delayed on the lock publishes an older reading and the next call hands out a timestamp that was already returned")
			})
			a.checkAt(n >= 1, fname(fn)+" clock reading", a.fnPos(fn), "", "time.Now not found")
		}
	}
	{
		a := rule(c, "C13.R8")
		n := 0
		for _, fn := range p.Funcs {
			if fn.Signature.Recv() == nil || !strings.HasSuffix(fn.Signature.Recv().Type().String(), "oracles.MockOracle") || fn.Parent() != nil {
				continue
			}
			// the two expiry answers and the timestamp sources they are compared with; GetStaleTimestamp reads the
			// unshifted clock on the pinned tree and is not part of the expiry clause
			if fn.Name() == "GetStaleTimestamp" {
				continue
			}
			core.Instrs(fn, func(in ssa.Instruction) {
				if !isNow(in) {
					return
				}
				n++
				okk := false
				for _, ref := range *in.(*ssa.Call).Referrers() {
					if cl, ok := ref.(*ssa.Call); ok && cl.Call.StaticCallee() != nil && cl.Call.StaticCallee().Name() == "Add" && len(cl.Call.Args) == 2 {
						if strings.Contains(strings.Join(p.Prov().Desc(cl.Call.Args[1]), "|"), "fld(MockOracle.offset,") {
							okk = true
						}
					}
				}
				a.check(okk, fname(fn)+" shifts the clock by the oracle's offset", in, "", "this method reads the wall clock without the mock oracle's offset while its siblings apply it: after AddOffset the expiry answers disagree (expired, yet positive time left)")
			})
		}
		a.checkAt(n >= 3, "MockOracle clock readings", "-", fmt.Sprint(n), "not found")
	}
	{
		a := rule(c, "C13.R9")
		fn := a.fn(pkgOracle, "pdOracle", "getLastTSWithArrivalTS")
		if fn != nil {
			n := 0
			core.Instrs(fn, func(in ssa.Instruction) {
				ci, ok := in.(*ssa.Call)
				if !ok || ci.Call.StaticCallee() == nil || ci.Call.StaticCallee().String() != "(*sync.Map).Load" {
					return
				}
				n++
				okk := true
				for _, d := range p.Prov().Desc(ci.Call.Args[1]) {
					// the scope parameter, or "global" standing in for the empty scope
					if d != "param#0" && !strings.HasPrefix(d, "const(") {
						okk = false
					}
				}
				a.checkAt(n == 1 && okk, fname(fn)+" looks the cell up under the caller's scope", p.InstrPos(in), "", "the cached timestamp of a scope is looked up under another key as well (e.g. a fallback to the global scope): a scope that has not published yet reads a foreign, possibly newer value and its low-resolution timestamp later goes backward")
			})
		}
	}
}

func c15Round3(c *core.Ctx) {
	p := c.P
	a := rule(c, "C15.R8")
	// encode helpers: field assignments go to a struct value (a copy) or to a pointer to a message built here
	n := 0
	for _, name := range []string{"encodeMutations", "encodeParis", "encodeKeyRange", "encodeCopRange", "encodeRegionInfo", "encodeTableRegions", "encodeStoreBatchTasks", "encodeVersionedCopRanges", "encodeKeys", "encodeKeyRanges", "encodeCopRanges", "encodeRegionInfos"} {
		fs := findFuncDecl(p, "internal/apicodec", "codecV2", name)
		if fs == nil {
			continue
		}
		fresh := map[types.Object]bool{}
		ast.Inspect(fs.Decl.Body, func(nd ast.Node) bool {
			as, ok := nd.(*ast.AssignStmt)
			if !ok {
				return true
			}
			for i, lhs := range as.Lhs {
				id, ok := lhs.(*ast.Ident)
				if !ok || i >= len(as.Rhs) {
					continue
				}
				if ue, ok := as.Rhs[i].(*ast.UnaryExpr); ok && ue.Op == token.AND {
					if _, isLit := ue.X.(*ast.CompositeLit); isLit {
						if o := fs.Pkg.TypesInfo.Defs[id]; o != nil {
							fresh[o] = true
						}
					}
				}
			}
			return true
		})
		for _, fa := range fieldAssignsIn(fs.Pkg, fs.Decl.Body.List) {
			n++
			var baseExpr ast.Expr
			for i, lhs := range fa.Stmt.Lhs {
				if i == fa.Idx {
					for {
						if ix, ok := lhs.(*ast.IndexExpr); ok {
							lhs = ix.X
							continue
						}
						break
					}
					if sel, ok := lhs.(*ast.SelectorExpr); ok {
						baseExpr = sel.X
					}
				}
			}
			okk := false
			if baseExpr != nil {
				t := fs.Pkg.TypesInfo.TypeOf(baseExpr)
				if _, isPtr := t.(*types.Pointer); !isPtr {
					okk = true // a struct value: the helper's own copy
				} else if id, ok := baseExpr.(*ast.Ident); ok && fresh[fs.Pkg.TypesInfo.Uses[id]] {
					okk = true // a message built in this helper
				}
			}
			a.checkAt(okk, name+" writes "+fa.Field.Name()+" of its own copy", p.Pos(fa.Stmt.Pos()), "", "the helper writes the encoded key through a pointer into the caller's request: a retried request is prefixed twice and the caller's message is overwritten")
		}
	}
	a.checkAt(n >= 6, "field assignments in encode helpers", "-", fmt.Sprint(n), "helpers not found")
	// DecodeRange: the end bound is compared only when it is not the +∞ sentinel
	if fn := a.fn(pkgAPI, "codecV2", "DecodeRange"); fn != nil {
		core.Instrs(fn, func(in ssa.Instruction) {
			cl, ok := in.(*ssa.Call)
			if !ok || cl.Call.StaticCallee() == nil || cl.Call.StaticCallee().String() != "bytes.Compare" {
				return
			}
			if strings.Join(p.Prov().Desc(cl.Call.Args[0]), "|") != "param#1" {
				return
			}
			g, how := emptinessGuarded(c, fn, cl, cl.Call.Args[0], "param#1")
			a.check(g, fname(fn)+" compares the end bound only when it is bounded", in, how, "an empty end bound (= +∞, the end of the last region) is order-compared with the keyspace prefix: the cluster's last region is rejected as out of bound: "+how)
		})
	}
}

func c16Round3(c *core.Ctx) {
	p := c.P
	a := rule(c, "C16.R8")
	for _, name := range []string{"batchGetSingleRegion", "retryBatchGetSingleRegionAfterAsyncAPI"} {
		fn := a.fn(pkgSnap, "KVSnapshot", name)
		if fn == nil {
			continue
		}
		for _, ci := range core.FindCalls(fn, core.CallsMethodNamed("batchGetKeysByRegions", "")) {
			d := strings.Join(p.Prov().Desc(ci.Common().Args[3]), "|")
			a.check(strings.HasPrefix(d, "param#"), fname(fn)+" re-splits with the same read tier", ci, d, "a batch get that is re-split after a region error continues with another read tier ("+d+"): a pipelined transaction's buffer-tier read turns into a snapshot-tier read and misses its own flushed writes")
		}
	}
	if fn := a.fn(pkgUnion, "PipelinedMemDB", "FlushWait"); fn != nil {
		for _, r := range returnsOf(fn) {
			if !isNil(r.Results[0]) {
				continue
			}
			g, w := guardedByAny(c, fn, r, "T:(fld(PipelinedMemDB.flushingMemDB,recv) == nil)")
			a.check(g, fname(fn)+" skips the wait only when nothing is in flight", r, "", "FlushWait can report success without reading the outstanding flush's result (an extra condition skips the receive): a failed final flush is swallowed and the transaction commits without those writes: "+a.w(w))
		}
	}
}

func c18Round3(c *core.Ctx) {
	p := c.P
	{
		a := rule(c, "C18.R9")
		fn := a.fn(pkgClient, "batchCommandsClient", "recreateStreamingClient")
		if fn != nil {
			isEpochStore := func(in ssa.Instruction) bool {
				st, ok := in.(*ssa.Store)
				if !ok {
					return false
				}
				if strings.Join(p.Prov().Desc(st.Addr), "|") != "param#2" {
					return false
				}
				d := strings.Join(p.Prov().Desc(st.Val), "|")
				return strings.Contains(d, "+ const(1))")
			}
			for _, ci := range core.FindCalls(fn, core.CallsMethodNamed("failPendingRequests", "")) {
				g, w := core.MustPassBefore(fn, ci, isEpochStore)
				a.check(g, fname(fn)+" advances its epoch before failing the pending requests", ci, "", "the stream that won the re-create race does not advance its own epoch: the next break of the same stream loses the race against itself and its pending requests are never failed (callers wait for their time-outs, async callbacks never fire): "+a.w(w))
			}
		}
	}
	{
		a := rule(c, "C18.R10")
		fn := a.fn(pkgClient, "reqCollapse", "collapse")
		if fn != nil {
			n := 0
			for _, ci := range core.FindCalls(fn, func(cc *ssa.CallCommon) bool {
				return cc.StaticCallee() != nil && cc.StaticCallee().String() == "time.NewTimer"
			}) {
				n++
				d := strings.Join(p.Prov().Desc(ci.Common().Args[0]), "|")
				a.check(strings.HasPrefix(d, "param#"), fname(fn)+" waits for the caller's time-out", ci, d, "the collapsed request waits for a fixed duration ("+d+") instead of the caller's time-out")
			}
			a.checkAt(n == 1, fname(fn)+" timer", a.fnPos(fn), "", "timer not found")
		}
	}
	{
		a := rule(c, "C18.R11")
		fn := a.fn(pkgClient, "batchCommandsClient", "batchRecvLoop")
		if fn != nil {
			n := 0
			core.Instrs(fn, func(in ssa.Instruction) {
				ta, ok := in.(*ssa.TypeAssert)
				if !ok || !strings.HasSuffix(ta.AssertedType.String(), "client.batchCommandsEntry") {
					return
				}
				n++
				isRetire := func(x ssa.Instruction) bool {
					ci, ok := x.(ssa.CallInstruction)
					return ok && calleeName(ci) == "Delete" && strings.Contains(strings.Join(p.Prov().Desc(ci.Common().Args[0]), "|"), "batchCommandsClient.batched")
				}
				okk, w, hit := condMust(c, fn, in, func(x ssa.Instruction) bool {
					if x == in {
						return true
					}
					_, isRet := x.(*ssa.Return)
					return isRet
				}, isRetire, nil)
				if okk {
					a.ok(fname(fn)+" retires the entry of every answered request", in, "")
				} else {
					a.viol(fname(fn)+" retires the entry of every answered request", hit, "a response for a registered request can be passed over without deleting its entry from the pending map / decrementing the in-flight counter (e.g. when the caller already gave up): the concurrency limit leaks one slot per such response until every later request times out: "+a.w(w))
				}
				// and the counter is decremented with it
				okk2, w2, hit2 := condMust(c, fn, in, func(x ssa.Instruction) bool {
					if x == in {
						return true
					}
					_, isRet := x.(*ssa.Return)
					return isRet
				}, func(x ssa.Instruction) bool {
					ci, ok := x.(ssa.CallInstruction)
					return ok && calleeName(ci) == "Add" && strings.Contains(strings.Join(p.Prov().Desc(ci.Common().Args[0]), "|"), "batchCommandsClient.sent")
				}, nil)
				if okk2 {
					a.ok(fname(fn)+" decrements the in-flight counter for every answered request", in, "")
				} else {
					a.viol(fname(fn)+" decrements the in-flight counter for every answered request", hit2, a.w(w2))
				}
			})
			a.checkAt(n == 1, fname(fn)+" response dispatch", a.fnPos(fn), "", "entry lookup not found")
		}
	}
}

func c19Round3(c *core.Ctx) {
	p := c.P
	a := rule(c, "C19.R6")
	n := 0
	for _, name := range []string{"EncodeVarint", "EncodeUvarint"} {
		fn := a.fn(pkgCodec, "", name)
		if fn == nil {
			continue
		}
		core.Instrs(fn, func(in ssa.Instruction) {
			al, ok := in.(*ssa.Alloc)
			if !ok {
				return
			}
			pt, ok := al.Type().(*types.Pointer)
			if !ok {
				return
			}
			arr, ok := pt.Elem().(*types.Array)
			if !ok {
				return
			}
			n++
			a.check(arr.Len() >= 10, fname(fn)+" scratch buffer holds a 64-bit varint", in, fmt.Sprint(arr.Len()), fmt.Sprintf("the scratch buffer has %d bytes, a 64-bit varint needs up to 10: encoding a large value panics", arr.Len()))
		})
	}
	a.checkAt(n >= 2, "varint scratch buffers", "-", fmt.Sprint(n), "not found")
	if fn := a.fn(pkgCodec, "", "reallocBytes"); fn != nil {
		m := 0
		core.Instrs(fn, func(in ssa.Instruction) {
			mk, ok := in.(*ssa.MakeSlice)
			if !ok {
				return
			}
			m++
			d := strings.Join(p.Prov().Desc(mk.Len), "|")
			a.check(d == "len(param#0)", fname(fn)+" new buffer keeps the old length", in, d, "the grown buffer is created with length "+d+" instead of len(b): the following copy copies nothing and the bytes already encoded are lost")
		})
		a.checkAt(m == 1, fname(fn)+" allocation", a.fnPos(fn), "", "make not found")
	}
	if fn := a.fn("internal/apicodec", "memComparableCodec", "encodeKey"); fn != nil {
		for _, r := range returnsOf(fn) {
			d := strings.Join(p.Prov().Desc(r.Results[0]), "|")
			a.check(d == "call(util/codec.EncodeBytes)#0", fname(fn)+" encodes every key", r, d, "some key (e.g. the empty one) is returned unencoded: its encoding is a proper prefix of every other encoding and does not decode")
		}
	}
}

func init() {
	extend("C14", "(R8) after a failed GC batch resolve the locks are re-checked against the freshly located region, not the one the scan started from.", func(c *core.Ctx) {
		a := rule(c, "C14.R8")
		fn := a.fn("tikv", "", "batchResolveLocksInOneRegion")
		if fn == nil {
			return
		}
		n := 0
		for _, ci := range core.FindCalls(fn, core.CallsMethodNamed("Contains", "KeyLocation")) {
			n++
			ds := c.P.Prov().Desc(ci.Common().Args[0])
			okk := len(ds) > 0
			for _, d := range ds {
				if !strings.HasPrefix(d, "call((*internal/locate.RegionCache).LocateKey)#0") {
					okk = false
				}
			}
			a.check(okk, fname(fn)+" re-checks the locks against the fresh location", ci, strings.Join(ds, "|"), "the last lock is tested against "+strings.Join(ds, "|")+" instead of the location just returned by LocateKey: after a split the locks beyond the new region are sent to it, fail with a region error, and the loop never leaves (or the tail of the range is skipped)")
		}
		a.checkAt(n == 1, fname(fn)+" containment test", a.fnPos(fn), "", "not found")
	})
}

func init() {
	extend("C07", "(R7) the mem-buffer batch get returns every buffered entry, tombstones included (the overlay needs them to hide snapshot keys); (R8) the ART iterator tests every leaf it skips against the end leaf; (R9) an ART iterator whose end bound lies outside all buffered keys is invalid, not unbounded.", func(c *core.Ctx) {
		p := c.P
		{
			a := rule(c, "C07.R7")
			for _, recv := range []string{"artDBWithContext", "rbtDBWithContext"} {
				fn := a.fn(pkgUnion, recv, "BatchGet")
				if fn == nil {
					continue
				}
				n := 0
				for _, ci := range core.FindCalls(fn, core.CallsMethodNamed("Get", "")) {
					in := ci.(ssa.Instruction)
					n++
					okk, w, hit := condMust(c, fn, in, func(x ssa.Instruction) bool {
						if x == in {
							return true
						}
						_, isRet := x.(*ssa.Return)
						return isRet
					}, func(x ssa.Instruction) bool { _, ok := x.(*ssa.MapUpdate); return ok }, []string{"F:(call(*Get)#1* == nil)", "T:call(error.IsErrNotFound)#0*"})
					if okk {
						a.ok(fname(fn)+" returns every entry found in the buffer", in, "")
					} else {
						a.viol(fname(fn)+" returns every entry found in the buffer", hit, "an entry found in the buffer (e.g. a tombstone) is left out of the result: the overlay treats the key as unbuffered and reads the snapshot, so a key deleted in the transaction comes back with its committed value: "+a.w(w))
					}
				}
				a.checkAt(n == 1, fname(fn)+" buffer lookup", a.fnPos(fn), "", "lookup not found")
			}
		}
		{
			a := rule(c, "C07.R8")
			fn := a.fn("internal/unionstore/art", "Iterator", "Next")
			if fn != nil {
				isAdvance := func(x ssa.Instruction) bool {
					ci, ok := x.(ssa.CallInstruction)
					return ok && (calleeName(ci) == "next" || calleeName(ci) == "prev")
				}
				isEndTest := func(x ssa.Instruction) bool {
					b, ok := x.(*ssa.BinOp)
					if !ok || (b.Op != token.EQL && b.Op != token.NEQ) {
						return false
					}
					d := strings.Join(p.Prov().Desc(b.X), "|") + " " + strings.Join(p.Prov().Desc(b.Y), "|")
					return strings.Contains(d, "fld(Iterator.endAddr,")
				}
				n := 0
				for _, ci := range core.FindCalls(fn, core.CallsMethodNamed("setCurrLeaf", "")) {
					in := ci.(ssa.Instruction)
					n++
					okk, w, hit := condMust(c, fn, in, isAdvance, isEndTest, nil)
					if okk {
						a.ok(fname(fn)+" tests a skipped leaf against the end leaf", in, "")
					} else {
						a.viol(fname(fn)+" tests a skipped leaf against the end leaf", hit, "a leaf can be skipped (flags only / discarded) without being compared with the end leaf: when the end leaf itself is such an entry the scan runs past its bound: "+a.w(w))
					}
				}
				a.checkAt(n == 1, fname(fn)+" leaf advance", a.fnPos(fn), "", "setCurrLeaf not found")
			}
		}
		{
			a := rule(c, "C07.R9")
			fn := a.fn("internal/unionstore/art", "Iterator", "init")
			if fn != nil {
				n := 0
				core.Instrs(fn, func(in ssa.Instruction) {
					st, ok := in.(*ssa.Store)
					if !ok || !strings.Contains(strings.Join(p.Prov().Desc(st.Addr), "|"), "fld(Iterator.endAddr,") {
						return
					}
					if !strings.Contains(strings.Join(p.Prov().Desc(st.Val), "|"), "fld(artNode.addr,call(") {
						return // the unbounded case
					}
					n++
					okk, w, hit := condMust(c, fn, in, func(x ssa.Instruction) bool { _, isRet := x.(*ssa.Return); return isRet },
						func(x ssa.Instruction) bool {
							s2, ok := x.(*ssa.Store)
							if !ok || !strings.Contains(strings.Join(p.Prov().Desc(s2.Addr), "|"), "fld(Iterator.valid,") {
								return false
							}
							cst, ok := asConst(s2.Val)
							return ok && cst.Value != nil && cst.Value.String() == "false"
						}, []string{"T:(call((*internal/unionstore/art.baseIter).compare)#0* == const(0))", "F:(const(0) == len(fld(baseIter.idxes,*)))"})
					if okk {
						a.ok(fname(fn)+" is invalid when no buffered key lies inside the end bound", in, "")
					} else {
						a.viol(fname(fn)+" is invalid when no buffered key lies inside the end bound", hit, "when the end-bound helper runs off the tree (no buffered key inside the bound) the end address is null, which Next reads as 'unbounded': the iterator must be invalidated on that path: "+a.w(w))
					}
				})
				a.checkAt(n == 2, fname(fn)+" bounded end address", a.fnPos(fn), fmt.Sprint(n), "expected the forward and the reverse assignment")
			}
		}
	})
}

func init() {
	extend("C09", "(R10) every batch-scan answer of PD is verified to cover the requested ranges before it is used, whoever served it.", func(c *core.Ctx) {
		a := rule(c, "C09.R10")
		fn := a.fn(pkgLocate, "RegionCache", "batchScanRegions")
		if fn == nil {
			return
		}
		n := 0
		for _, ci := range core.FindCalls(fn, core.CallsMethodNamed("handleRegionInfos", "")) {
			in := ci.(ssa.Instruction)
			n++
			okk, w, hit := condMust(c, fn, nil, func(x ssa.Instruction) bool { return x == in }, func(x ssa.Instruction) bool {
				cc, ok := x.(ssa.CallInstruction)
				return ok && calleeName(cc) == "regionsHaveGapInRanges"
			}, nil)
			if okk {
				a.ok(fname(fn)+" verifies the answer covers the ranges before using it", in, "")
			} else {
				a.viol(fname(fn)+" verifies the answer covers the ranges before using it", hit, "an answer of PD can be used without the gap verification (e.g. only follower answers are verified): a hole in the answer becomes a hole in the returned locations: "+a.w(w))
			}
		}
		a.checkAt(n == 1, fname(fn)+" use of the answer", a.fnPos(fn), "", "handleRegionInfos call not found")
	})
}
