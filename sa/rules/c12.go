package rules

import (
	"go/token"
	"fmt"
	"strings"

	"golang.org/x/tools/go/ssa"

	"verif/sa/core"
)

func init() {
	register("C12", &Spec{
		Title: "The mock TiKV implements Percolator MVCC",
		Explanation: "Decides structural cores of the statement's clauses: (R1) 'a rollback leaves a marker' / 'repeating a command changes nothing': every write batch that a store method (or a helper it hands the batch to) mutates is written to the DB on every path that does not report a failure; (R2) a lock record is deleted only by commitLock / rollbackLock / pessimisticRollbackKey, rollbackLock writes the rollback marker before deleting, commitLock puts the write record and deletes the lock in one batch, and the status check rolls a pessimistic primary back without a marker only when asked to resolve a pessimistic lock; (R3) every exported store method that touches the DB holds the store mutex; (R4) commit applies only to the transaction's own lock and only at a commit ts not below the lock's min commit ts; reads consult the lock before the first write record; both read implementations (point read, reverse-scan entry read) skip rollback and lock-only records; GC keeps the newest put at or below the safe point (the keep flag is cleared only by a put/delete record). NOT decided: agreement with a reference MVCC model over command sequences.",
		Run: runC12,
	})
}

func runC12(c *core.Ctx) {
	p := c.P
	sp := p.Pkg(pkgMock)
	a0 := rule(c, "C12.anchors")
	if sp == nil {
		a0.undAt("package mocktikv", "-", "package not loaded")
		return
	}
	isBatchPtr := func(v ssa.Value) bool { return strings.HasSuffix(v.Type().String(), "leveldb.Batch") }
	lockVer := "const(18446744073709551615)"

	// helpers that may mutate a batch handed to them
	mutators := map[*ssa.Function]bool{}
	for _, fn := range p.Funcs {
		if fn.Pkg != sp || fn.Parent() != nil {
			continue
		}
		for _, par := range fn.Params {
			if isBatchPtr(par) {
				mutators[fn] = true
			}
		}
	}

	// ---- R1 every mutated batch is persisted ------------------------------------------------------
	{
		a := rule(c, "C12.R1")
		nBatches := 0
		for _, fn := range p.Funcs {
			if fn.Pkg != sp || fn.Parent() != nil || fn.Signature.Recv() == nil || !strings.Contains(fn.Signature.Recv().Type().String(), "MVCCLevelDB") {
				continue
			}
			core.Instrs(fn, func(in ssa.Instruction) {
				al, ok := in.(*ssa.Alloc)
				if !ok || !strings.HasSuffix(al.Type().String(), "leveldb.Batch") {
					return
				}
				nBatches++
				usesBatch := func(cc *ssa.CallCommon) bool {
					for _, arg := range cc.Args {
						if arg == ssa.Value(al) {
							return true
						}
					}
					return false
				}
				isMut := func(x ssa.Instruction) bool {
					ci, ok := x.(*ssa.Call)
					if !ok || !usesBatch(&ci.Call) {
						return false
					}
					cl := ci.Call.StaticCallee()
					if cl == nil {
						return false
					}
					if strings.HasSuffix(cl.String(), "leveldb.Batch).Put") || strings.HasSuffix(cl.String(), "leveldb.Batch).Delete") {
						return true
					}
					return mutators[cl]
				}
				isWrite := func(x ssa.Instruction) bool {
					ci, ok := x.(*ssa.Call)
					if !ok || !usesBatch(&ci.Call) {
						return false
					}
					cl := ci.Call.StaticCallee()
					return cl != nil && strings.HasSuffix(cl.String(), "leveldb.DB).Write")
				}
				core.Instrs(fn, func(m ssa.Instruction) {
					if !isMut(m) {
						return
					}
					q := &core.Q{Fn: fn, NoPass: isWrite, NoEdge: func(e core.Edge) bool {
						// failure paths: an error value is known to be non-nil, or the all-or-nothing flag is set
						if mm, t := core.EdgeTruth(e, core.PIsNil(anyErr)); mm && !t {
							return true
						}
						// the method's own all-or-nothing flag: `if anyError { return errs }` — a local
						// boolean (φ) that is true on this path
						if orig, _ := core.CondOf(e.If); orig != nil {
							if _, isPhi := orig.(*ssa.Phi); isPhi && e.True {
								return true
							}
						}
						return false
					}}
					found, w, hit := q.Reach(m, func(x ssa.Instruction) bool {
						r, ok := x.(*ssa.Return)
						if !ok {
							return false
						}
						// a return that certainly reports a failure is not a "success without write"
						for _, res := range r.Results {
							if isErrorType(res.Type()) && certainlyNonNilError(res) {
								return false
							}
						}
						return true
					})
					key := fmt.Sprintf("%s batch mutated by %s", fname(fn), calleeName(m.(ssa.CallInstruction)))
					if found {
						a.viol(key, hit, "a write batch is mutated and the method can return without an error and without writing the batch: the effect (e.g. a rollback marker) is silently lost: "+a.w(w))
					} else {
						a.ok(key, m, "every non-failing path from the mutation to a return writes the batch")
					}
				})
			})
		}
		a.checkAt(nBatches >= 8, "write batches in MVCCLevelDB methods", "-", fmt.Sprint(nBatches), "batches not found")
	}

	// ---- R2 lock and marker move together ------------------------------------------------------------
	{
		a := rule(c, "C12.R2")
		allowed := map[string]bool{"internal/mockstore/mocktikv.commitLock": true, "internal/mockstore/mocktikv.rollbackLock": true, "internal/mockstore/mocktikv.pessimisticRollbackKey": true}
		n := 0
		for _, fn := range p.Funcs {
			if enclosing(fn).Pkg != sp {
				continue
			}
			core.Instrs(fn, func(in ssa.Instruction) {
				ci, ok := in.(*ssa.Call)
				if !ok || ci.Call.StaticCallee() == nil || !strings.HasSuffix(ci.Call.StaticCallee().String(), "leveldb.Batch).Delete") {
					return
				}
				pv := p.Prov()
				pv.CallArgs = true
				ds := strings.Join(pv.Desc(ci.Call.Args[1]), "|")
				if !strings.Contains(ds, "mvccEncode)#0(") || !strings.Contains(ds, lockVer) {
					return
				}
				n++
				a.check(allowed[fname(fn)], fname(fn)+" deletes a lock record", in, "", "a lock record is deleted outside commitLock / rollbackLock / pessimisticRollbackKey (no write record or rollback marker is left for the transaction)")
			})
		}
		a.checkAt(n >= 3, "lock deletions", "-", fmt.Sprint(n), "lock deletion sites not found")
		rl := a.fn(pkgMock, "", "rollbackLock")
		wr := a.fn(pkgMock, "", "writeRollback")
		cl := a.fn(pkgMock, "", "commitLock")
		if rl != nil && wr != nil {
			for _, d := range core.FindCalls(rl, core.CallsMethodNamed("Delete", "Batch")) {
				g, w := core.MustPassBefore(rl, d, core.InstrIs(core.CallsTo(wr)))
				a.check(g, fname(rl)+" marker before delete", d, "", "rollbackLock deletes the lock without writing the rollback marker: a late prewrite of the same transaction would be accepted: "+a.w(w))
				for _, wc := range core.FindCalls(rl, core.CallsTo(wr)) {
					g2, w2 := core.Guarded(rl, d, core.PIsNil(errVarOf(wc)), true)
					a.check(g2, fname(rl)+" marker written successfully", d, "", a.w(w2))
				}
			}
		}
		if cl != nil {
			for _, d := range core.FindCalls(cl, core.CallsMethodNamed("Delete", "Batch")) {
				g, w := core.MustPassBefore(cl, d, core.InstrIs(core.CallsMethodNamed("Put", "Batch")))
				a.check(g, fname(cl)+" write record before lock delete", d, "", "commitLock deletes the lock without putting the write record: "+a.w(w))
			}
		}
		guardTable(c, "C12.R2", []gRow{
			{Fn: [3]string{pkgMock, "MVCCLevelDB", "CheckTxnStatus"}, Target: "call:pessimisticRollbackKey", Facts: []string{"T:param#5", "T:(* == fld(mvccLock.op,*"}, Why: "a primary lock is removed without a rollback marker only when resolving a pessimistic lock whose primary is itself a pessimistic lock"},
			{Fn: [3]string{pkgMock, "MVCCLevelDB", "CheckTxnStatus"}, Target: "call:rollbackLock", Facts: []string{"T:(* < call(oracle.ExtractPhysical)#0)"}, Why: "the status check rolls a lock back only when it outlived its ttl on the caller's clock"},
		})
		// writeRollback writes a rollback-typed record at the start ts
		if wr != nil {
			okk := false
			for _, st := range storesToFieldNamed(wr, "mvccValue.valueType") {
				ds := p.Prov().Desc(st.(*ssa.Store).Val)
				if len(ds) == 1 && ds[0] == fmt.Sprintf("const(%d)", constInt(c, core.ModPath+"/"+pkgMock, "typeRollback")) {
					okk = true
				}
			}
			a.checkAt(okk, fname(wr)+" writes typeRollback", a.fnPos(wr), "", "the rollback marker is not of type rollback")
		}
	}

	// ---- R3 store mutex -------------------------------------------------------------------------------------
	{
		a := rule(c, "C12.R3")
		n := 0
		for _, fn := range p.Funcs {
			if fn.Pkg != sp || fn.Parent() != nil || fn.Signature.Recv() == nil || !strings.Contains(fn.Signature.Recv().Type().String(), "MVCCLevelDB") {
				continue
			}
			if !fn.Object().Exported() {
				continue
			}
			ls := core.Lockset(fn)
			core.Instrs(fn, func(in ssa.Instruction) {
				ci, ok := in.(*ssa.Call)
				if !ok || ci.Call.StaticCallee() == nil || ci.Call.StaticCallee().Name() != "getDB" {
					return
				}
				n++
				held := ls[in]
				if fn.Name() == "Close" {
					a.ok(fname(fn)+" getDB under mvcc.mu", in, "frozen exception: Close runs once at teardown, after all users are gone")
					return
				}
				a.check(held["recv.mu"] != 0, fname(fn)+" getDB under mvcc.mu", in, "", "the DB is accessed without holding the store mutex (held: "+fmt.Sprint(keysOf(held))+")")
			})
		}
		a.checkAt(n >= 20, "getDB sites in exported methods", "-", fmt.Sprint(n), "sites not found")
	}

	// ---- R4 guards --------------------------------------------------------------------------------------------
	{
		guardTable(c, "C12.R4", []gRow{
			{Fn: [3]string{pkgMock, "", "commitKey"}, Target: "call:commitLock", Facts: []string{"F:(param#4 < fld(mvccLock.minCommitTS,*", "T:(fld(mvccLock.startTS,*) == param#3)"}, Why: "commit applies to the transaction's own lock, at a commit ts not below the lock's min commit ts"},
		})
		a := rule(c, "C12.R4")
		// getValue: lock check precedes reading write records
		gv := a.fn(pkgMock, "", "getValue")
		if gv != nil {
			for _, ci := range core.FindCalls(gv, core.CallsMethodNamed("Decode", "valueDecoder")) {
				g, w := core.MustPassBefore(gv, ci, core.InstrIs(core.CallsMethodNamed("Decode", "lockDecoder")))
				a.check(g, fname(gv)+" lock consulted first", ci, "", "write records are read before the lock is looked at: "+a.w(w))
			}
			n := len(core.FindCalls(gv, core.CallsMethodNamed("check", "mvccLock")))
			a.checkAt(n == 1, fname(gv)+" checks the lock", a.fnPos(gv), "", "the read no longer checks the blocking lock")
		}
		// both read paths skip rollback and lock-only records
		tRb := constInt(c, core.ModPath+"/"+pkgMock, "typeRollback")
		tLk := constInt(c, core.ModPath+"/"+pkgMock, "typeLock")
		for _, spec := range [][3]string{{pkgMock, "", "getValue"}, {pkgMock, "mvccEntry", "Get"}} {
			fn := a.fn(spec[0], spec[1], spec[2])
			if fn == nil {
				continue
			}
			for _, r := range returnsOf(fn) {
				if len(r.Results) != 2 || !isNil(r.Results[1]) {
					continue
				}
				ds := p.Prov().Desc(r.Results[0])
				if len(ds) == 1 && (ds[0] == "nil" || strings.HasPrefix(ds[0], "zero(") || strings.HasPrefix(ds[0], "const(")) {
					continue // not found / deleted
				}
				need := map[int64]bool{tRb: false, tLk: false}
				for _, at := range p.DominatingAtoms(fn, r) {
					for k := range need {
						if strings.HasPrefix(at, "F:(") && strings.Contains(at, fmt.Sprintf("const(%d)", k)) && strings.Contains(at, "valueType") {
							need[k] = true
						}
					}
				}
				a.check(need[tRb] && need[tLk], fname(fn)+" returns only put records", r, "", "a read can return (or stop at) a rollback / lock-only record instead of skipping it: point reads, scans and reverse scans would disagree")
			}
		}
		// GC: the keep-latest flag is cleared only by a put/delete record
		gc := a.fn(pkgMock, "MVCCLevelDB", "GC")
		if gc != nil {
			tPut := constInt(c, core.ModPath+"/"+pkgMock, "typePut")
			tDel := constInt(c, core.ModPath+"/"+pkgMock, "typeDelete")
			found := false
			core.Instrs(gc, func(in ssa.Instruction) {
				phi, ok := in.(*ssa.Phi)
				if !ok || phi.Type().String() != "bool" {
					return
				}
				hasFalse, hasTrue := false, false
				for _, e := range phi.Edges {
					if cst, ok := e.(*ssa.Const); ok && cst.Value != nil {
						if cst.Value.String() == "false" {
							hasFalse = true
						} else {
							hasTrue = true
						}
					}
				}
				if !hasFalse || !hasTrue {
					return
				}
				found = true
				isVT := func(v ssa.Value) bool { return descHas(c, v, "mvccValue.valueType") }
				okk, why := rawGuardedByEither(gc, phi, func(v ssa.Value) bool {
					cst, ok := v.(*ssa.Const)
					return ok && cst.Value != nil && cst.Value.String() == "false"
				}, core.PCmp(tokEQL, isVT, core.IsIntConst(tPut)), true, core.PCmp(tokEQL, isVT, core.IsIntConst(tDel)), true)
				a.check(okk, fname(gc)+" keep-latest flag", in, "cleared only after a put/delete record", "GC's keep-the-latest-version flag is cleared by a record that is neither put nor delete (a rollback marker / lock record above the newest put makes GC delete that put): "+why)
			})
			a.checkAt(found, fname(gc)+" keeps the latest put", a.fnPos(gc), "", "the keep-latest logic was not found in GC")
			// locks at or below the safe point abort GC
			guardTable(c, "C12.R4", []gRow{
				{Fn: [3]string{pkgMock, "MVCCLevelDB", "GC"}, Target: "call:Write", Facts: []string{}, Min: 1, Why: "GC persists its deletions"},
			})
		}
	}
}

// certainlyNonNilError: the value is a freshly built error (errors.New/Errorf/…, a composite
// literal converted to error), possibly wrapped.
func certainlyNonNilError(v ssa.Value) bool {
	if u, ok := v.(*ssa.UnOp); ok {
		if r := core.ResolveLoad(u); r != nil {
			v = r
		}
	}
	switch x := v.(type) {
	case *ssa.UnOp:
		// a package-level sentinel error (var ErrX = errors.New(…)); trusted to be non-nil
		if g, ok := x.X.(*ssa.Global); ok && x.Op == token.MUL && strings.HasPrefix(g.Name(), "Err") {
			return true
		}
	case *ssa.MakeInterface:
		return true
	case *ssa.Call:
		if cl := x.Call.StaticCallee(); cl != nil && cl.Pkg != nil && strings.HasSuffix(cl.Pkg.Pkg.Path(), "errors") {
			switch cl.Name() {
			case "New", "Errorf":
				return true
			case "WithStack", "Trace", "Wrap", "Wrapf":
				return len(x.Call.Args) > 0 && certainlyNonNilError(x.Call.Args[0])
			}
		}
	}
	return false
}
