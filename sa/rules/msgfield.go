package rules

import (
	"fmt"
	"go/types"
	"strings"

	"golang.org/x/tools/go/ssa"

	"verif/sa/core"
)

// prodWriters: writers of a kvproto message field in production code that *constructs*
// requests: everything in the module except the API-v2 codec (which rewrites copies), the
// mock store, test probes and the tikvrpc plumbing.
func prodWriters(c *core.Ctx, f *types.Var) []core.Writer {
	var out []core.Writer
	for _, w := range c.P.WritersOf(f) {
		pk := enclosing(w.Fn).Pkg
		if pk == nil {
			continue
		}
		path := pk.Pkg.Path()
		if strings.Contains(path, "/internal/apicodec") || strings.Contains(path, "/internal/mockstore") || strings.HasSuffix(path, "/tikvrpc") || strings.Contains(path, "/testutils") {
			continue
		}
		if isProbe(c, w.Fn) {
			continue
		}
		out = append(out, w)
	}
	return out
}

// guardSpec: a writer must be edge-dominated by atom A having truth T.
type guardSpec struct {
	Name string
	A    core.Pred
	T    bool
}

// msgField checks every production writer of kvrpcpb.<msg>.<field>: each root of the stored
// value must equal one of allow (exact strings of the provenance grammar), and the write
// must be dominated by every guard. min = least number of writers expected.
func msgField(c *core.Ctx, ruleID, msg, field string, allow []string, guards []guardSpec, min int, why string) {
	a := rule(c, ruleID)
	f := a.extField(kvrpcpb, msg, field)
	if f == nil {
		return
	}
	ws := prodWriters(c, f)
	if len(ws) < min {
		a.undAt(msg+"."+field+" writers", "-", fmt.Sprintf("found %d production construction sites, expected at least %d: the request is built in a way the rule does not recognise", len(ws), min))
	}
	for _, w := range ws {
		key := fmt.Sprintf("%s sets %s.%s", fname(w.Fn), msg, field)
		if w.Val == nil {
			a.viol(key, w.Instr, "field address escapes ("+w.Kind+"); value not tracked")
			continue
		}
		ds := descInter(c, w.Fn, w.Val, 3)
		var bad []string
		for _, d := range ds {
			if !globAny(allow, d) {
				bad = append(bad, d)
			}
		}
		if len(bad) > 0 {
			a.viol(key, w.Instr, fmt.Sprintf("%s: value has root(s) %v outside the allowed set %v", why, bad, allow))
			continue
		}
		okAll := true
		for _, g := range guards {
			if ok, wit := core.Guarded(w.Fn, w.Instr, g.A, g.T); !ok {
				a.viol(key, w.Instr, fmt.Sprintf("%s: write not guarded by %s: %s", why, g.Name, a.w(wit)))
				okAll = false
				break
			}
		}
		if okAll {
			a.ok(key, w.Instr, fmt.Sprintf("roots %v", ds))
		}
	}
}

// phiIncomingGuarded: for a φ-merged value, every incoming alternative matching m must come
// from a predecessor that is dominated by all guards.
func phiIncomingGuarded(fn *ssa.Function, v ssa.Value, m core.VM, guards []guardSpec) (bool, string) {
	v = core.Strip(v)
	phi, ok := v.(*ssa.Phi)
	if !ok {
		if m(v) {
			return false, "value is unconditionally the raw alternative"
		}
		return true, ""
	}
	seen := map[*ssa.Phi]bool{}
	var rec func(phi *ssa.Phi) (bool, string)
	rec = func(phi *ssa.Phi) (bool, string) {
		if seen[phi] {
			return true, ""
		}
		seen[phi] = true
		for i, e := range phi.Edges {
			if !core.FeasibleEdgeInto(phi.Block(), i) {
				continue
			}
			ev := core.Strip(e)
			if p2, ok := ev.(*ssa.Phi); ok {
				if ok, why := rec(p2); !ok {
					return false, why
				}
				continue
			}
			if !m(ev) {
				continue
			}
			pred := phi.Block().Preds[i]
			last := pred.Instrs[len(pred.Instrs)-1]
			for _, g := range guards {
				// the edge pred->phi.Block may itself be the guard edge
				if ifi, isIf := last.(*ssa.If); isIf {
					k := 0
					if pred.Succs[1] == phi.Block() && pred.Succs[0] != phi.Block() {
						k = 1
					}
					if mm, t := core.EdgeTruth(core.Edge{If: ifi, True: k == 0}, g.A); mm && t == g.T {
						continue
					}
				}
				if ok, _ := core.Guarded(fn, last, g.A, g.T); !ok {
					return false, "alternative reaches the merge without guard " + g.Name
				}
			}
		}
		return true, ""
	}
	return rec(phi)
}
