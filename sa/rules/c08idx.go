package rules

import (
	"fmt"
	"go/token"
	"strings"

	"golang.org/x/tools/go/ssa"

	"verif/sa/core"
)

// C08.R7 index spaces in the radix tree. While descending, the tree code works with two index
// spaces over key bytes: ABSOLUTE positions in a full key (the search key, a leaf's GetKey()),
// and positions RELATIVE to the current node's depth (the node's compressed prefix,
// getKeyDepth(depth), key[depth:]). `depth` values are found by dataflow (what flows into the
// depth parameter of getKeyDepth / match / matchDeep, closed over φ, arithmetic on itself and
// call arguments/parameters inside the package). Rule: a RELATIVE byte string is indexed
// without a depth term, an ABSOLUTE one with it; a comparison of two key bytes pairs one of each
// (absolute of the search key vs relative of the node) or two of the same space.
// Not judged: a full key indexed without a syntactic depth term (loop cursors that were
// initialised from the depth are absolute positions too).
func c08IndexSpaces(c *core.Ctx) {
	p := c.P
	a := rule(c, "C08.R7")
	pv := p.Prov()
	getKeyDepth := a.fn(pkgART, "artLeaf", "getKeyDepth")
	matchDeep := a.fn(pkgART, "nodeBase", "matchDeep")
	match := a.fn(pkgART, "nodeBase", "match")
	if a.bad {
		return
	}
	artPkg := p.Pkg(pkgART)
	var fns []*ssa.Function
	for _, f := range p.Funcs {
		if enclosing(f).Pkg == artPkg && !strings.HasSuffix(p.Fset.Position(f.Pos()).Filename, "_test.go") {
			fns = append(fns, f)
		}
	}
	// depth values
	depth := map[ssa.Value]bool{}
	seed := func(fn *ssa.Function, idx int) {
		if fn != nil && idx < len(fn.Params) {
			depth[fn.Params[idx]] = true
		}
	}
	seed(getKeyDepth, 1)
	seed(match, 2)
	seed(matchDeep, 4)
	for changed := true; changed; {
		changed = false
		mark := func(v ssa.Value) {
			v = core.Strip(v)
			if v == nil || depth[v] {
				return
			}
			if _, isConst := v.(*ssa.Const); isConst {
				return
			}
			depth[v] = true
			changed = true
		}
		for _, fn := range fns {
			core.Instrs(fn, func(in ssa.Instruction) {
				switch x := in.(type) {
				case ssa.CallInstruction:
					cl := x.Common().StaticCallee()
					if cl == nil || cl.Pkg != artPkg {
						return
					}
					for i, arg := range x.Common().Args {
						if i < len(cl.Params) && depth[cl.Params[i]] {
							mark(arg)
						}
						if i < len(cl.Params) && depth[core.Strip(arg)] && cl.Params[i].Type().String() == "uint32" {
							mark(cl.Params[i])
						}
					}
				case *ssa.Phi:
					if depth[x] {
						for _, e := range x.Edges {
							// the loop-carried update depth += k stays a depth
							mark(e)
						}
					} else {
						for _, e := range x.Edges {
							if depth[core.Strip(e)] {
								mark(x)
								break
							}
						}
					}
				case *ssa.BinOp:
					// depth + k / depth - 1 feeding back into a depth value is handled through φ (marking the
					// BinOp); a BinOp is NOT a depth merely because an operand is
				case *ssa.Convert:
					if depth[core.Strip(x.X)] {
						mark(x)
					}
				}
			})
		}
	}
	hasDepthTerm := func(v ssa.Value) bool {
		var rec func(v ssa.Value, d int) bool
		rec = func(v ssa.Value, d int) bool {
			v = core.Strip(v)
			if depth[v] {
				return true
			}
			if d > 4 {
				return false
			}
			switch x := v.(type) {
			case *ssa.BinOp:
				if x.Op == token.ADD || x.Op == token.SUB {
					return rec(x.X, d+1) || rec(x.Y, d+1)
				}
			case *ssa.Convert:
				return rec(x.X, d+1)
			}
			return false
		}
		return rec(v, 0)
	}
	// space of a byte string: "rel", "abs" or "" (unclassified); mixed alternatives are reported
	spaceOf := func(v ssa.Value) (string, string) {
		rel, abs := 0, 0
		var alts []string
		var visit func(v ssa.Value, d int)
		seen := map[ssa.Value]bool{}
		visit = func(v ssa.Value, d int) {
			v = core.Strip(v)
			if v == nil || seen[v] || d > 6 {
				return
			}
			seen[v] = true
			switch x := v.(type) {
			case *ssa.Phi:
				for _, e := range x.Edges {
					visit(e, d+1)
				}
			case *ssa.Slice:
				// s[lo:hi]: slicing an absolute string at a depth makes it relative; slicing from 0 keeps the space
				if x.Low != nil && hasDepthTerm(x.Low) {
					inner := strings.Join(pv.Desc(x.X), "|")
					if strings.Contains(inner, "GetKey)#0") || strings.HasPrefix(inner, "param#") || strings.Contains(inner, "fld(artLeaf.") {
						rel++
						alts = append(alts, "rel:"+inner+"[depth:]")
						return
					}
				}
				if x.Low == nil {
					visit(x.X, d+1)
					return
				}
			case *ssa.Call:
				if cl := x.Call.StaticCallee(); cl != nil {
					switch cl {
					case getKeyDepth:
						rel++
						alts = append(alts, "rel:getKeyDepth(depth)")
						return
					}
					if cl.Name() == "GetKey" && cl.Pkg == artPkg {
						abs++
						alts = append(alts, "abs:GetKey()")
						return
					}
				}
			case *ssa.UnOp, *ssa.FieldAddr:
				ds := strings.Join(pv.Desc(v), "|")
				if strings.Contains(ds, "fld(nodeBase.prefix,") {
					rel++
					alts = append(alts, "rel:node.prefix")
					return
				}
			case *ssa.Parameter:
				if x.Type().String() == core.ModPath+"/internal/unionstore/art.artKey" || x.Type().String() == "[]byte" {
					if x.Name() != "" && enclosing(x.Parent()).Pkg == artPkg {
						// a key parameter of a tree-walking function is a full key unless callers pass a depth-slice; decide by callers
						relCallers, absCallers := 0, 0
						for _, cs := range p.CallersOf(x.Parent()) {
							idx := -1
							for i, par := range x.Parent().Params {
								if par == x {
									idx = i
								}
							}
							if idx < 0 || idx >= len(cs.Instr.Common().Args) {
								continue
							}
							if sl, ok := core.Strip(cs.Instr.Common().Args[idx]).(*ssa.Slice); ok && sl.Low != nil && hasDepthTerm(sl.Low) {
								relCallers++
							} else {
								absCallers++
							}
						}
						if relCallers > 0 && absCallers == 0 {
							rel++
							alts = append(alts, "rel:param "+x.Name())
						} else if relCallers == 0 {
							abs++
							alts = append(alts, "abs:param "+x.Name())
						}
					}
				}
			}
		}
		visit(v, 0)
		switch {
		case rel > 0 && abs > 0:
			return "mixed", strings.Join(alts, " | ")
		case rel > 0:
			return "rel", strings.Join(alts, " | ")
		case abs > 0:
			return "abs", strings.Join(alts, " | ")
		}
		return "", ""
	}
	n := 0
	for _, fn := range fns {
		// only functions that handle a depth value
		has := false
		core.Instrs(fn, func(in ssa.Instruction) {
			if v, ok := in.(ssa.Value); ok && depth[v] {
				has = true
			}
		})
		for _, par := range fn.Params {
			if depth[par] {
				has = true
			}
		}
		if !has {
			continue
		}
		core.Instrs(fn, func(in ssa.Instruction) {
			ia, ok := in.(*ssa.IndexAddr)
			if !ok {
				return
			}
			// byte strings only
			ts := ia.X.Type().Underlying().String()
			if ts != "[]byte" {
				return
			}
			sp, how := spaceOf(ia.X)
			if sp == "" {
				return
			}
			n++
			key := fmt.Sprintf("%s indexes a %s key string consistently", fname(fn), sp)
			if sp == "mixed" {
				a.viol(fname(fn)+" a byte string has one index space", in, "the indexed byte string is relative to the node's depth on one path and an absolute key on another, yet it is indexed by one expression: one of the two reads the wrong byte: "+how)
				return
			}
			dt := hasDepthTerm(ia.Index)
			switch {
			case sp == "rel" && dt:
				a.viol(key, in, "a depth-relative byte string ("+how+") is indexed with an absolute position (the index contains the depth): the compared byte is shifted by the node's depth")
			default:
				a.ok(key, in, how)
			}
		})
	}
	a.checkAt(n >= 3, "classified key-byte index sites in the radix tree", "-", fmt.Sprint(n), "fewer classified index sites than confirmed by hand")
}
