package rules

import (
	"fmt"
	"strings"

	"golang.org/x/tools/go/ssa"

	"verif/sa/core"
)

func init() {
	register("C08", &Spec{
		Title: "Both in-memory write buffers behave as one ordered map with nested undo",
		Explanation: "Decides: (R1) the three size limits are checked identically by the radix-tree and red-black-tree buffers (same guard set per error type, same constants); (R2) iterator invalidation: every accessor of the radix-tree iterator checks the write sequence number first, every mutating operation of the tree bumps it on all effective paths, and the check panics on mismatch unless explicitly disabled by the snapshot iterator; (R3) a value is overwritten in place only when it belongs to the current staging level (CanModify, and CanModify itself compares block then offset) and has the same length, in both buffers; (R4) undo keeps persistent flags: the node is deleted only when no persistent flag remains, in both buffers, with identical accounting; (R5) the staging operations perform the same value-log operations in both buffers and truncate after reverting; (R6) the red-black-tree iterator skips deleted nodes when positioned. NOT decided: observational equivalence with a reference model.",
		Run: runC08,
	})
}

var c08extra []func(*core.Ctx)

func runC08(c *core.Ctx) {
	for _, f := range c08extra {
		defer f(c)
	}
	p := c.P
	a0 := rule(c, "C08.anchors")
	artSet := a0.fn(pkgART, "ART", "Set")
	rbtSet := a0.fn(pkgRBT, "RBT", "Set")
	trySwap := a0.fn(pkgART, "ART", "trySwapValue")
	rbtSetValue := a0.fn(pkgRBT, "RBT", "setValue")
	artRevert := a0.fn(pkgART, "ART", "RevertVAddr")
	rbtRevert := a0.fn(pkgRBT, "RBT", "RevertVAddr")
	canModify := a0.fn(pkgArena, "MemdbVlog", "CanModify")
	checkSeq := a0.fn(pkgART, "Iterator", "checkSeqNo")
	if a0.bad {
		return
	}
	normSib := strings.NewReplacer("ART.", "T.", "RBT.", "T.", "art.", "", "rbt.", "", "internal/unionstore/art", "pkg", "internal/unionstore/rbt", "pkg", "artKey", "[]byte")

	// ---- R1 limits ---------------------------------------------------------------------------------
	{
		a := rule(c, "C08.R1")
		guardsOf := func(fn *ssa.Function, errType string) (string, ssa.Instruction) {
			for _, rc := range deepReturns(c, fn) {
				r := rc.Ret
				if len(r.Results) != 1 {
					continue
				}
				if !descHas(c, r.Results[0], errType) {
					continue
				}
				var ats []string
				for _, at := range p.DominatingAtoms(rc.Fn, r) {
					at = rc.Rename(at)
					// keep the atoms that belong to this limit (the two Set functions differ in unrelated
					// early exits, e.g. RBT returns before the buffer check for flag-only updates)
					rel := map[string][]string{"ErrKeyTooLarge": {"len(param#0)"}, "ErrEntryTooLarge": {"entrySizeLimit", "nil == param#1"}, "ErrTxnTooLarge": {"bufferSizeLimit"}}[errType]
					for _, k := range rel {
						if strings.Contains(at, k) {
							ats = append(ats, normSib.Replace(at))
							break
						}
					}
				}
				return strings.Join(ats, " ∧ "), r
			}
			return "", nil
		}
		for _, et := range []string{"ErrKeyTooLarge", "ErrEntryTooLarge", "ErrTxnTooLarge"} {
			ga, ra := guardsOf(artSet, et)
			gb, rb := guardsOf(rbtSet, et)
			if ra == nil || rb == nil {
				a.violAt("Set returns "+et, a.fnPos(artSet), fmt.Sprintf("one of the buffers no longer rejects with %s (ART: %v, RBT: %v)", et, ra != nil, rb != nil))
				continue
			}
			a.check(ga == gb, "ART.Set ≡ RBT.Set on "+et, ra, ga, fmt.Sprintf("the two buffers reject with %s under different conditions:\n  ART: %s\n  RBT: %s", et, ga, gb))
		}
		// documented limits: key length > MaxUint16
		for _, pk := range []string{pkgART, pkgRBT} {
			v := constInt(c, core.ModPath+"/"+pk, "MaxKeyLen")
			a.checkAt(v == 65535, pk+".MaxKeyLen", "-", "math.MaxUint16", fmt.Sprintf("MaxKeyLen is %d, documented limit is math.MaxUint16", v))
		}
		for _, fn := range []*ssa.Function{artSet, rbtSet} {
			for _, rc := range deepReturns(c, fn) {
				r := rc.Ret
				var atoms []string
				for _, at := range p.DominatingAtoms(rc.Fn, r) {
					atoms = append(atoms, rc.Rename(at))
				}
				if len(r.Results) == 1 && descHas(c, r.Results[0], "ErrKeyTooLarge") {
					okk := false
					for _, at := range atoms {
						if at == "F:(len(param#0) < const(65536))" {
							okk = true
						}
					}
					a.check(okk, fname(fn)+" key limit", r, "len(key) > MaxKeyLen", "oversized keys are not rejected exactly above MaxKeyLen (len(key) > 65535)")
				}
				if len(r.Results) == 1 && descHas(c, r.Results[0], "ErrEntryTooLarge") {
					ats := strings.Join(atoms, " ")
					a.check(strings.Contains(ats, "F:(nil == param#1)") && strings.Contains(ats, "entrySizeLimit,recv) < (len(param#0) + len(param#1)))"), fname(fn)+" entry limit", r, "", "entry size limit is not `value != nil && len(key)+len(value) > entrySizeLimit`: "+ats)
				}
				if len(r.Results) == 1 && descHas(c, r.Results[0], "ErrTxnTooLarge") {
					ats := strings.Join(atoms, " ")
					a.check(strings.Contains(ats, "bufferSizeLimit,recv) < call(") && strings.Contains(ats, ").Size)#0[recv])") || strings.Contains(ats, "bufferSizeLimit,recv) < fld(ART.size,recv))") || strings.Contains(ats, "bufferSizeLimit,recv) < fld(RBT.size,recv))"), fname(fn)+" buffer limit", r, "", "buffer size limit is not `Size() > bufferSizeLimit`: "+ats)
				}
			}
		}
	}

	// ---- R2 iterator invalidation -------------------------------------------------------------------------
	{
		a := rule(c, "C08.R2")
		for _, m := range []string{"Valid", "Key", "Flags", "Value", "Next"} {
			fn := a.fn(pkgART, "Iterator", m)
			if fn == nil {
				continue
			}
			// every field read of the iterator state is preceded by checkSeqNo
			calls := core.FindCalls(fn, core.CallsTo(checkSeq))
			a.checkAt(len(calls) >= 1, fname(fn)+" checks the sequence number", a.fnPos(fn), "", "the accessor no longer checks the write sequence number: an iterator used after a write returns stale data instead of failing loudly")
			if len(calls) == 0 {
				continue
			}
			core.Instrs(fn, func(in ssa.Instruction) {
				fa, ok := in.(*ssa.FieldAddr)
				if !ok {
					return
				}
				f := core.FieldOfAddr(fa)
				if f == nil || !(f.Name() == "currLeaf" || f.Name() == "currAddr" || f.Name() == "valid" || f.Name() == "inner") {
					return
				}
				if m == "Next" && f.Name() == "valid" {
					return // Next tests `valid` before doing anything; a stale invalid iterator stays invalid
				}
				g, w := core.MustPassBefore(fn, in, core.InstrIs(core.CallsTo(checkSeq)))
				a.check(g, fname(fn)+" reads "+f.Name()+" after checkSeqNo", in, "", "iterator state is read before the sequence check: "+a.w(w))
			})
		}
		// checkSeqNo panics on mismatch unless ignoreSeqNo
		okPanic := false
		core.Instrs(checkSeq, func(in ssa.Instruction) {
			isPanic := false
			if _, ok := in.(*ssa.Panic); ok {
				isPanic = true
			}
			if cl, ok := in.(*ssa.Call); ok && cl.Call.StaticCallee() != nil && cl.Call.StaticCallee().String() == "(*go.uber.org/zap.Logger).Panic" {
				isPanic = true
			}
			if isPanic {
				pn := in
				ats := strings.Join(p.DominatingAtoms(checkSeq, pn), " ")
				if strings.Contains(ats, "F:(fld(ART.WriteSeqNo,") && strings.Contains(ats, "F:fld(Iterator.ignoreSeqNo,recv)") {
					okPanic = true
				}
			}
		})
		a.checkAt(okPanic, fname(checkSeq)+" panics on mismatch", a.fnPos(checkSeq), "", "the sequence check no longer panics when seqNo != WriteSeqNo (and the check is not disabled)")
		fIgnore := core.Field(p.Named(pkgART, "Iterator"), "ignoreSeqNo")
		if fIgnore != nil {
			for _, w := range p.WritersOf(fIgnore) {
				okk := strings.Contains(p.Fset.Position(w.Fn.Pos()).Filename, "art_snapshot.go")
				a.check(okk, writerKey(w, fIgnore), w.Instr, "only the snapshot iterator disables the check", "the sequence check is disabled outside the snapshot iterator")
			}
		}
		// mutators bump WriteSeqNo
		fSeq := core.Field(p.Named(pkgART, "ART"), "WriteSeqNo")
		isBump := func(in ssa.Instruction) bool {
			st, ok := in.(*ssa.Store)
			if !ok {
				return false
			}
			fa, ok := st.Addr.(*ssa.FieldAddr)
			return ok && core.FieldOfAddr(fa) == fSeq
		}
		for _, spec := range []struct {
			m      string
			bypass []string
		}{
			{"Set", nil},
			{"RevertToCheckpoint", nil},
			{"Release", []string{"T:(const(0) == param#0)"}},
			{"Cleanup", []string{"T:(const(0) == param#0)", "T:(len(fld(ART.stages,recv)) < param#0)"}},
			{"Reset", nil},
		} {
			fn := a.fn(pkgART, "ART", spec.m)
			if fn == nil {
				continue
			}
			okk, w, hit := condMust(c, fn, nil, func(in ssa.Instruction) bool {
				r, ok := in.(*ssa.Return)
				if !ok {
					return false
				}
				for _, res := range r.Results {
					if isErrorType(res.Type()) && !isNil(res) {
						return false
					}
				}
				return true
			}, isBump, spec.bypass)
			if okk {
				a.ok(fname(fn)+" bumps WriteSeqNo", fn.Blocks[0].Instrs[0], "")
			} else {
				a.viol(fname(fn)+" bumps WriteSeqNo", hit, "a mutation of the tree can complete without invalidating open iterators: "+a.w(w))
			}
		}
		for _, w := range p.WritersOf(fSeq) {
			ds := p.Prov().Desc(w.Val)
			a.check(len(ds) == 1 && (ds[0] == "(fld(ART.WriteSeqNo,recv) + const(1))" || ds[0] == "const(0)"), writerKey(w, fSeq), w.Instr, "", fmt.Sprint("WriteSeqNo is not only incremented: ", ds))
		}
	}

	// ---- R3 in-place swap only inside the current stage ------------------------------------------------------
	{
		a := rule(c, "C08.R3")
		for _, fn := range []*ssa.Function{trySwap, rbtSetValue} {
			var copies []ssa.Instruction
			core.Instrs(fn, func(in ssa.Instruction) {
				if cl, ok := in.(*ssa.Call); ok {
					if b, ok := cl.Call.Value.(*ssa.Builtin); ok && b.Name() == "copy" {
						copies = append(copies, in)
					}
				}
			})
			a.checkAt(len(copies) == 1, fname(fn)+" in-place overwrite", a.fnPos(fn), "", "in-place overwrite not found")
			for _, cp := range copies {
				okk, w, _ := condMust(c, fn, nil, func(in ssa.Instruction) bool { return in == cp }, func(ssa.Instruction) bool { return false }, []string{
					"T:call((*internal/unionstore/arena.MemdbVlog[*]).CanModify)#0*",
					"T:(len(fld(*.stages,recv)) < const(1))",
				})
				a.check(okk, fname(fn)+" overwrite needs CanModify", cp, "", "a value that belongs to an outer staging level (or the committed part) can be overwritten in place: undo of the current level would not restore it: "+a.w(w))
				okLen := false
				for _, at := range p.DominatingAtoms(fn, cp) {
					if strings.HasPrefix(at, "T:(len(") && strings.Contains(at, " == len(") {
						okLen = true
					}
				}
				a.check(okLen, fname(fn)+" overwrite needs equal length", cp, "", "in-place overwrite without `len(old) == len(new)`")
			}
		}
		// CanModify(cp, addr) ≡ cp == nil ∨ addr.block > cp.block ∨ (addr.block == cp.block ∧ addr.off > cp.off),
		// decided for every ordering of (block, offset) — independent of how the comparisons are spelled
		mism, n, und := orderTable(c, canModify,
			[]orderPair{
				{"addr.idx:cp.blocks-1", "fld(MemdbArenaAddr.idx,*", "(fld(MemDBCheckpoint.blocks,param#0) - const(1))"},
				{"addr.off:cp.offsetInBlock", "fld(MemdbArenaAddr.off,*", "fld(MemDBCheckpoint.offsetInBlock,param#0)"},
			},
			[]flagAtom{{"cp==nil", core.PIsNil(func(v ssa.Value) bool { par, ok := v.(*ssa.Parameter); return ok && par == canModify.Params[1] })}},
			func(oc orderCase) bool { return oc.Flag[0] || oc.Ord[0] > 0 || (oc.Ord[0] == 0 && oc.Ord[1] > 0) })
		for _, m := range mism {
			a.violAt(fname(canModify)+" order table", a.fnPos(canModify), "CanModify must be `cp == nil || block > cp.block || (block == cp.block && off > cp.off)`: "+m+" — a value of an outer staging level would be overwritten in place (or a value of the current level needlessly copied)")
		}
		for _, u := range und {
			a.undAt(fname(canModify)+" order table", a.fnPos(canModify), u)
		}
		if len(mism) == 0 && len(und) == 0 {
			a.okAt(fname(canModify)+" order table", a.fnPos(canModify), fmt.Sprintf("%d orderings of (block, offset) × (cp nil?) evaluated", n))
		}
	}

	// ---- R4 undo keeps persistent flags ------------------------------------------------------------------------
	{
		a := rule(c, "C08.R4")
		for _, fn := range []*ssa.Function{artRevert, rbtRevert} {
			mds := core.FindCalls(fn, core.CallsMethodNamed("markDelete", ""))
			a.checkAt(len(mds) == 1, fname(fn)+" deletes the node", a.fnPos(fn), "", "markDelete not found")
			for _, md := range mds {
				okk := false
				for _, at := range p.DominatingAtoms(fn, md) {
					if strings.HasPrefix(at, "T:(") && strings.Contains(at, "AndPersistent)#0") && strings.Contains(at, "const(0)") {
						okk = true
					}
				}
				a.check(okk, fname(fn)+" node removed only without persistent flags", md, "", "undo removes a node although it still carries persistent flags (they would be lost)")
				okOld := false
				for _, at := range p.DominatingAtoms(fn, md) {
					if strings.HasPrefix(at, "T:call((internal/unionstore/arena.MemdbArenaAddr).IsNull)#0") {
						okOld = true
					}
				}
				a.check(okOld, fname(fn)+" node removed only when the old value is null", md, "", "undo removes a node that had an older value")
			}
			// flags written back are the persistent part
			for _, name := range []string{"setKeyFlags", "resetKeyFlags"} {
				for _, ci := range core.FindCalls(fn, core.CallsMethodNamed(name, "")) {
					ds := p.Prov().Desc(argOf(ci, 0))
					okk := len(ds) == 1 && strings.Contains(ds[0], "AndPersistent)#0")
					a.check(okk, fname(fn)+" keeps only persistent flags", ci, "", fmt.Sprint("flags written back by undo: ", ds))
				}
			}
		}
		sa, sb := normSib.Replace(skeletonCalls(artRevert)), normSib.Replace(skeletonCalls(rbtRevert))
		_ = sa
		_ = sb
		// accounting: both decrement count/len and size on removal
		for _, spec := range []struct {
			fn     *ssa.Function
			cnt    string
			sizeFl string
		}{{artRevert, "ART.len", "ART.size"}, {rbtRevert, "RBT.count", "RBT.size"}} {
			nc := len(storesToFieldNamed(spec.fn, spec.cnt))
			ns := len(storesToFieldNamed(spec.fn, spec.sizeFl))
			a.checkAt(nc == 1 && ns == 3, fname(spec.fn)+" length/size accounting", a.fnPos(spec.fn), "", fmt.Sprintf("undo accounting changed (count writes %d, size writes %d; expected 1 and 3)", nc, ns))
		}
	}

	// ---- R5 staging operations agree ---------------------------------------------------------------------------
	stagingSiblings(c, "C08.R5")

	// ---- R6 positioned iterators skip deleted nodes ----------------------------------------------------------
	{
		a := rule(c, "C08.R6")
		init := a.fn(pkgRBT, "RBTIterator", "init")
		if init != nil {
			okk, w, hit := condMust(c, init, nil, core.IsReturn, isCallNamed("Next"), []string{
				"F:call((*internal/unionstore/rbt.memdbNode).isDeleted)#0*",
				"T:call((*internal/unionstore/rbt.MemdbNodeAddr).isNull)#0*",
			})
			if okk {
				a.ok(fname(init)+" skips a deleted first node", init.Blocks[0].Instrs[0], "")
			} else {
				a.viol(fname(init)+" skips a deleted first node", hit, "a freshly positioned iterator can rest on a node that was removed by undo (it would yield a key with no value and no flags): "+a.w(w))
			}
		}
		nx := a.fn(pkgRBT, "RBTIterator", "Next")
		if nx != nil {
			n := len(core.FindCalls(nx, core.CallsMethodNamed("isDeleted", "")))
			a.checkAt(n >= 1, fname(nx)+" skips deleted nodes", a.fnPos(nx), "", "Next no longer skips deleted nodes")
		}
	}
}

func init() { c08extra = append(c08extra, c08IndexSpaces) }

func skeletonCalls(fn *ssa.Function) string {
	var parts []string
	core.Instrs(fn, func(in ssa.Instruction) {
		if ci, ok := in.(ssa.CallInstruction); ok {
			parts = append(parts, calleeName(ci))
		}
	})
	return strings.Join(parts, " ")
}
