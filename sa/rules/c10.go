package rules

import (
	"fmt"
	"strings"

	"golang.org/x/tools/go/ssa"

	"verif/sa/core"
)

func init() {
	register("C10", &Spec{
		Title: "A request send ends within its budget and never mislabels the read mode",
		Explanation: "Decides: (R1) every re-send inside one call carries the retry marker (conditional-must at the send); (R2) read-timestamp validation succeeds before the first send on both the sync and async paths and covers every read command; (R3) Context.ReplicaRead/StaleRead can be set to a possibly-true value only by the request constructors and by the replica selector under its read-only / stale-read flag, and replica-read requests are only built for read commands; (R4) the per-replica attempt counter is only ever incremented (the leader-hint reset in onUpdateLeader is reported as a known finding), incremented on every path that hands out an RPC context, and candidates are rejected once exhausted; (R6) the response handed back is the client's, or a generated region-error response — never fabricated. NOT decided: termination itself / numeric bounds on attempts; (R5 'no free retry') is decided only for the listed back-off sites.",
		Run: runC10,
	})
}

func runC10(c *core.Ctx) {
	// "an error once the back-off budget is spent": the budget test and the accounting of the
	// back-off object (config/retry/backoff.go is one of C10's anchors) are necessary conditions
	c.Import(runC20, "C20", []string{"R1", "R2", "R6"}, "viaC20")
	runC10own(c)
}

func runC10own(c *core.Ctx) {
	p := c.P
	a0 := rule(c, "C10.anchors")
	next := a0.fn(pkgLocate, "sendReqState", "next")
	send := a0.fn(pkgLocate, "sendReqState", "send")
	sendCtx := a0.fn(pkgLocate, "RegionRequestSender", "SendReqCtx")
	validate := a0.fn(pkgLocate, "RegionRequestSender", "validateReadTS")
	isReadReq := a0.fn(pkgLocate, "", "isReadReq")
	newSel := a0.fn(pkgLocate, "", "newReplicaSelector")
	buildCtx := a0.fn(pkgLocate, "baseReplicaSelector", "buildRPCContext")
	fAttempts := a0.field(pkgLocate, "replica", "attempts")
	fIsStale := a0.field(pkgLocate, "replicaSelector", "isStaleRead")
	fIsRO := a0.field(pkgLocate, "replicaSelector", "isReadOnlyReq")
	fReplicaRead := a0.extField(kvrpcpb, "Context", "ReplicaRead")
	fStaleRead := a0.extField(kvrpcpb, "Context", "StaleRead")
	newRR := a0.fn(pkgRPC, "", "NewReplicaReadRequest")
	if a0.bad {
		return
	}

	// ---- R1 retry marker ------------------------------------------------------------------
	{
		a := rule(c, "C10.R1")
		sends := core.FindCalls(next, core.CallsTo(send))
		if len(sends) == 0 {
			a.violAt(fname(next)+" send", a.fnPos(next), "no send() call found in the retry step")
		}
		isMark := isStoreTo(c, "Context.IsRetryRequest", "const(true)")
		for _, s := range sends {
			okk, w, _ := condMust(c, next, nil, func(in ssa.Instruction) bool { return in == s.(ssa.Instruction) }, isMark, []string{
				"T:(fld(struct.sendTimes,*) < const(1))",
				"T:fld(Context.IsRetryRequest,*",
			})
			a.check(okk, fname(next)+" retry marker before send", s, "a send with sendTimes>0 is always marked IsRetryRequest", "a re-send (sendTimes > 0) can go out without the retry marker: "+a.w(w))
		}
		// sendTimes: incremented right after send, never reset
		fST := core.Field(p.Named(pkgLocate, "sendReqState"), "vars.sendTimes")
		if fST == nil {
			a.undAt("anchor sendReqState.vars.sendTimes", "-", "field not found")
		} else {
			n := 0
			for _, w := range p.WritersOf(fST) {
				n++
				ds := p.Prov().Desc(w.Val)
				okk := len(ds) == 1 && glob("(fld(struct.sendTimes,*) + const(1))", ds[0])
				a.check(okk, writerKey(w, fST), w.Instr, "sendTimes only grows by one per send", fmt.Sprint("sendTimes written other than +1 in next(): ", ds))
			}
			a.checkAt(n >= 1, "writers of sendTimes", a.fnPos(next), "", "sendTimes is never incremented: re-sends cannot be recognised")
			for _, s := range sends {
				okk, w, hit := condMust(c, next, s, core.IsReturn, isStoreTo(c, "struct.sendTimes", ""), nil)
				if okk {
					a.ok(fname(next)+" counts every send", s, "")
				} else {
					a.viol(fname(next)+" counts every send", hit, "a send is not counted in sendTimes: "+a.w(w))
				}
			}
		}
	}

	// ---- R2 validate read ts before the first send ------------------------------------------
	{
		vfact := "T:(call((*internal/locate.RegionRequestSender).validateReadTS)#0[recv] == nil)"
		guardTable(c, "C10.R2", []gRow{
			{Fn: [3]string{pkgLocate, "RegionRequestSender", "SendReqCtx"}, Target: "call:next", Facts: []string{vfact}, Why: "no read is sent whose timestamp failed validation"},
			{Fn: [3]string{pkgLocate, "RegionRequestSender", "SendReqAsync"}, Target: "call:next", Facts: []string{vfact}, Why: "no read is sent (async path) whose timestamp failed validation"},
			{Fn: [3]string{pkgLocate, "RegionRequestSender", "SendReqAsync"}, Target: "call:initForAsyncRequest", Facts: []string{vfact}, Why: "async send state is set up only after validation"},
		})
		a := rule(c, "C10.R2")
		// the validator is consulted for every command of the read set
		readSet := constsComparedWithParam(isReadReq, 0)
		valSet := constsSwitchedOn(validate, "Request.Type")
		name := func(v int64) string { return fmt.Sprintf("CmdType(%d)", v) }
		for v := range readSet {
			a.checkAt(valSet[v], fname(validate)+" covers "+name(v), a.fnPos(validate), "", "read command "+name(v)+" (isReadReq) is not validated by validateReadTS")
		}
		a.checkAt(len(readSet) >= 4, "isReadReq command set", a.fnPos(isReadReq), fmt.Sprint(len(readSet), " commands"), "isReadReq's command set could not be read")
		// the validated value is the request's start ts and the result is returned
		for _, ci := range core.FindCalls(validate, core.CallsMethodNamed("ValidateReadTS", "")) {
			okk, ds := descAll(c, argOf(ci, 1), "GetStartTS")
			a.check(okk, fname(validate)+" validates GetStartTS()", ci, "", fmt.Sprint("validated value is not the request's start ts: ", ds))
			v, _ := ci.(ssa.Value)
			a.check(v != nil && flowsToReturn(v), fname(validate)+" returns the validator's verdict", ci, "", "the validator's error is dropped")
		}
		_ = sendCtx
	}

	// ---- R3 flag writers ----------------------------------------------------------------------
	{
		a := rule(c, "C10.R3")
		allowedCtor := map[string]bool{
			"tikvrpc.NewReplicaReadRequest":                            true,
			"(*tikvrpc.Request).SetReplicaReadType":                    true,
			"(*tikvrpc.Request).EnableStaleWithMixedReplicaRead":       true,
			"(*internal/locate.replicaSelector).nextForReplicaReadLeader": true,
			"(*internal/locate.replicaSelector).nextForReplicaReadMixed":  true,
		}
		roFact := "T:fld(replicaSelector.isReadOnlyReq,recv)"
		stFact := "T:fld(replicaSelector.isStaleRead,recv)"
		for _, f := range []struct {
			v    interface{ Name() string }
			name string
		}{{fReplicaRead, "ReplicaRead"}, {fStaleRead, "StaleRead"}} {
			_ = f
		}
		check := func(fieldName string, ws []core.Writer) {
			n := 0
			for _, w := range ws {
				pk := enclosing(w.Fn).Pkg
				if pk == nil || strings.Contains(pk.Pkg.Path(), "mockstore") || strings.Contains(pk.Pkg.Path(), "apicodec") || isProbe(c, w.Fn) {
					continue
				}
				if w.Val == nil {
					a.viol(writerKey2(w, fieldName), w.Instr, "address of the flag escapes")
					continue
				}
				ds := p.Prov().Desc(w.Val)
				mayTrue := false
				for _, d := range ds {
					if d != "const(false)" {
						mayTrue = true
					}
				}
				if !mayTrue {
					continue
				}
				n++
				key := writerKey2(w, fieldName)
				fn := fname(enclosing(w.Fn))
				if !allowedCtor[fn] {
					a.viol(key, w.Instr, "Context."+fieldName+" set to a possibly-true value outside the request constructors / replica selector: a write command could be flagged as a replica or stale read")
					continue
				}
				if !strings.Contains(fn, "replicaSelector") {
					a.ok(key, w.Instr, "request constructor / explicit setter")
					continue
				}
				// in the selector: guarded by isReadOnlyReq or isStaleRead, or the true alternative of the value is
				g1, _ := factHolds(c, w.Fn, w.Instr, roFact)
				g2, _ := factHolds(c, w.Fn, w.Instr, stFact)
				if g1 || g2 {
					a.ok(key, w.Instr, "guarded by the selector's read-only / stale-read flag")
					continue
				}
				// value of the form isReadOnlyReq && X: every non-false alternative guarded
				g3, why := phiIncomingGuarded(w.Fn, w.Val, func(v ssa.Value) bool {
					cst, ok := v.(*ssa.Const)
					return !(ok && cst.Value != nil && cst.Value.String() == "false")
				}, []guardSpec{{"isReadOnlyReq", core.PTrue(core.LoadsField(fIsRO)), true}})
				if _, isPhi := core.Strip(w.Val).(*ssa.Phi); isPhi && g3 {
					a.ok(key, w.Instr, "value is isReadOnlyReq && …")
				} else {
					a.viol(key, w.Instr, "the selector can flag a request as "+fieldName+" without its read-only/stale-read flag: a write command may be sent as a replica read ("+why+")")
				}
			}
			a.checkAt(n >= 2, "possibly-true writers of Context."+fieldName, "-", fmt.Sprint(n), "fewer flag writers than confirmed by hand: the rule no longer sees them")
		}
		check("ReplicaRead", p.WritersOf(fReplicaRead))
		check("StaleRead", p.WritersOf(fStaleRead))
		// selector flags: written once, from the request
		for _, w := range p.WritersOf(fIsRO) {
			ds := p.Prov().Desc(w.Val)
			okk := w.Fn == newSel && len(ds) == 1 && ds[0] == "call(internal/locate.isReadReq)#0"
			a.check(okk, writerKey(w, fIsRO), w.Instr, "", fmt.Sprint("isReadOnlyReq is not isReadReq(req.Type): ", ds))
			if cl, ok := w.Val.(*ssa.Call); ok {
				ad := p.Prov().Desc(cl.Call.Args[0])
				a.check(len(ad) == 1 && glob("fld(Request.Type,*)", ad[0]), fname(newSel)+" isReadReq(req.Type)", w.Instr, "", fmt.Sprint("isReadReq applied to ", ad))
			}
		}
		for _, w := range p.WritersOf(fIsStale) {
			ds := p.Prov().Desc(w.Val)
			okk := w.Fn == newSel && len(ds) == 1 && glob("fld(Context.StaleRead,*", ds[0])
			a.check(okk, writerKey(w, fIsStale), w.Instr, "", fmt.Sprint("isStaleRead is not req.StaleRead: ", ds))
		}
		// replica-read requests are built only for read commands
		readSet := constsComparedWithParam(isReadReq, 0)
		bufferBatchGet := constInt(c, core.ModPath+"/tikvrpc", "CmdBufferBatchGet")
		for _, cs := range p.CallersOf(newRR) {
			if isProbe(c, cs.Fn) {
				continue
			}
			cst, ok := asConst(argOf(cs.Instr, 0))
			key := fname(cs.Fn) + " NewReplicaReadRequest"
			if !ok {
				a.viol(key, cs.Instr, "command type is not a constant: cannot show it is a read command")
				continue
			}
			v := cst.Int64()
			a.check(readSet[v] || v == bufferBatchGet, key, cs.Instr, fmt.Sprintf("CmdType(%d) is a read command", v), fmt.Sprintf("replica-read request built for CmdType(%d), which is not a read command", v))
		}
		// isReadReq itself contains no transactional write command
		for _, wcmd := range []string{"CmdPrewrite", "CmdCommit", "CmdPessimisticLock", "CmdBatchRollback", "CmdCleanup", "CmdResolveLock", "CmdRawPut", "CmdRawDelete", "CmdFlush", "CmdPessimisticRollback", "CmdTxnHeartBeat", "CmdCheckTxnStatus"} {
			v := constInt(c, core.ModPath+"/tikvrpc", wcmd)
			a.checkAt(!readSet[v], "isReadReq excludes "+wcmd, a.fnPos(isReadReq), "", wcmd+" is classified as a read command: it could be sent as a replica/stale read")
		}
	}

	// ---- R4 bounded attempts -------------------------------------------------------------------
	{
		a := rule(c, "C10.R4")
		for _, w := range p.WritersOf(fAttempts) {
			ds := p.Prov().Desc(w.Val)
			key := writerKey(w, fAttempts)
			fn := fname(w.Fn)
			switch {
			case fn == "internal/locate.buildTiKVReplicas" && len(ds) == 1 && ds[0] == "const(0)":
				a.ok(key, w.Instr, "initial 0")
			case w.Fn == buildCtx && len(ds) == 1 && glob("(fld(replica.attempts,param#*) + const(1))", ds[0]):
				a.ok(key, w.Instr, "+1 when a context is handed out")
			case fn == "(*internal/locate.replica).onUpdateLeader":
				// The leader-hint reset ("one more chance") is NOT accepted: two stores that name each
				// other as leader re-qualify each other forever, and onNotLeader does not back off when a
				// hint is present (reproduced: findings/C10-notleader-pingpong). Reported; listed in
				// known_findings.json for exactly this construct.
				a.viol(key, w.Instr, fmt.Sprint("the attempt counter of a replica is reset (", ds, ") when a NotLeader hint names it: with hints that keep pointing at each other the send retries without bound and without back-off"))
			default:
				a.viol(key, w.Instr, fmt.Sprint("replica.attempts written other than init/+1: the number of sends per call is no longer bounded by the attempt limit: ", ds))
			}
		}
		// every return of a non-nil context passes the target's attempts++
		isInc := isStoreTo(c, "replica.attempts", "(fld(replica.attempts,param#1) + const(1))")
		for _, r := range returnsOf(buildCtx) {
			if len(r.Results) != 2 || isNil(r.Results[0]) {
				continue
			}
			g, w := core.MustPassBefore(buildCtx, r, isInc)
			a.check(g, fname(buildCtx)+" counts the attempt", r, "", "an RPC context is returned without counting the attempt on the target replica: "+a.w(w))
		}
		// candidates are rejected once exhausted
		rows := []gRow{}
		for _, fn := range [][3]string{{pkgLocate, "", "isLeaderCandidate"}, {pkgLocate, "ReplicaSelectMixedStrategy", "isCandidate"}} {
			rows = append(rows, gRow{Fn: fn, Target: "ret:const(true)", Facts: []string{"F:call((*internal/locate.replica).isExhausted)#0[*"}, Why: "an exhausted replica must not be selected again"})
		}
		// these functions return boolean expressions; check them structurally instead
		for _, fn := range [][3]string{{pkgLocate, "", "isLeaderCandidate"}, {pkgLocate, "ReplicaSelectMixedStrategy", "isCandidate"}} {
			f := a.fn(fn[0], fn[1], fn[2])
			if f == nil {
				continue
			}
			uses := core.FindCalls(f, core.CallsMethodNamed("isExhausted", ""))
			a.checkAt(len(uses) >= 1, fname(f)+" consults isExhausted", a.fnPos(f), "", "candidate test no longer consults isExhausted: a replica can be retried without bound")
			for _, u := range uses {
				// a true result requires isExhausted false: no return of a value that can be true on the isExhausted=true edge
				pEx := core.PTrue(func(v ssa.Value) bool { return v == u.(ssa.Value) })
				for _, ifi := range ifsOn(f, pEx) {
					b := succOn(ifi, pEx, true)
					found, w, hit := reachFromBlock(f, b, nil, nil, func(in ssa.Instruction) bool {
						r, ok := in.(*ssa.Return)
						if !ok {
							return false
						}
						for _, d := range p.Prov().Desc(r.Results[0]) {
							if d != "const(false)" {
								// φ may merge; be path sensitive: only a constant true/unknown counts
								if cst, ok := asConst(r.Results[0]); ok && cst.Value.String() == "false" {
									return false
								}
								if phi, ok := r.Results[0].(*ssa.Phi); ok {
									_ = phi
									return false
								}
								return true
							}
						}
						return false
					})
					if found {
						a.viol(fname(f)+" exhausted ⇒ not a candidate", hit, "an exhausted replica can still be reported as a candidate: "+a.w(w))
					} else {
						a.ok(fname(f)+" exhausted ⇒ not a candidate", ifi, "")
					}
				}
			}
		}
		// isExhausted: attempts >= maxAttempt
		ex := a.fn(pkgLocate, "replica", "isExhausted")
		if ex != nil {
			ifs := ifsOn(ex, core.PCmp(tokGEQ, core.LoadsField(fAttempts), func(v ssa.Value) bool { _, ok := v.(*ssa.Parameter); return ok }))
			a.checkAt(len(ifs) == 1, fname(ex)+" attempts >= maxAttempt", a.fnPos(ex), "", "exhaustion is no longer `attempts >= maxAttempt`")
		}
	}

	// ---- R6 no fabricated success ----------------------------------------------------------------
	{
		a := rule(c, "C10.R6")
		fResp := core.Field(p.Named(pkgLocate, "sendReqState"), "vars.resp")
		if fResp == nil {
			a.undAt("anchor sendReqState.vars.resp", "-", "field not found")
		} else {
			allowed := []string{
				"nil",
				"invoke(client.Client.SendRequest)#0[*",
				"call(tikvrpc.GenRegionErrorResp)#0",
				"fld(ResponseExt.Response,*", "*ResponseExt*", "param#*", "*(fld(*",
			}
			n := 0
			for _, w := range p.WritersOf(fResp) {
				n++
				ds := p.Prov().Desc(w.Val)
				var bad []string
				for _, d := range ds {
					if !globAny(allowed, d) {
						bad = append(bad, d)
					}
				}
				a.check(len(bad) == 0, writerKey(w, fResp), w.Instr, fmt.Sprint(ds), fmt.Sprint("the response handed to the caller has a root that is neither the client's response nor a generated region error: ", bad))
			}
			a.checkAt(n >= 3, "writers of vars.resp", "-", "", "response writers not found")
		}
	}
}

func writerKey2(w core.Writer, field string) string {
	return fmt.Sprintf("%s writes Context.%s", fname(w.Fn), field)
}

// constsComparedWithParam: integer constants that parameter #idx of fn is compared with
// (the case labels of `switch p { case A, B: … }`).
func constsComparedWithParam(fn *ssa.Function, idx int) map[int64]bool {
	out := map[int64]bool{}
	if fn == nil || idx >= len(fn.Params) {
		return out
	}
	par := fn.Params[idx]
	core.Instrs(fn, func(in ssa.Instruction) {
		b, ok := in.(*ssa.BinOp)
		if !ok || b.Op != tokEQL {
			return
		}
		var cst *ssa.Const
		if b.X == ssa.Value(par) {
			cst, _ = b.Y.(*ssa.Const)
		} else if b.Y == ssa.Value(par) {
			cst, _ = b.X.(*ssa.Const)
		}
		if cst != nil && cst.Value != nil {
			out[cst.Int64()] = true
		}
	})
	return out
}

// constsSwitchedOn: integer constants compared with a load of Type.field in fn.
func constsSwitchedOn(fn *ssa.Function, typeField string) map[int64]bool {
	out := map[int64]bool{}
	isLoad := func(v ssa.Value) bool {
		u, ok := core.Strip(v).(*ssa.UnOp)
		if !ok {
			return false
		}
		fa, ok := u.X.(*ssa.FieldAddr)
		if !ok {
			return false
		}
		f := core.FieldOfAddr(fa)
		return f != nil && fieldKey(fa.X.Type().String(), f.Name()) == typeField
	}
	core.Instrs(fn, func(in ssa.Instruction) {
		b, ok := in.(*ssa.BinOp)
		if !ok || b.Op != tokEQL {
			return
		}
		var cst *ssa.Const
		if isLoad(b.X) {
			cst, _ = b.Y.(*ssa.Const)
		} else if isLoad(b.Y) {
			cst, _ = b.X.(*ssa.Const)
		}
		if cst != nil && cst.Value != nil {
			out[cst.Int64()] = true
		}
	})
	return out
}
