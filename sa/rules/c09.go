package rules

import (
	"fmt"
	"strings"

	"golang.org/x/tools/go/ssa"

	"verif/sa/core"
)

func init() {
	register("C09", &Spec{
		Title: "Region lookups contain their keys, cover ranges, do not regress",
		Explanation: "Decides: (R1) the ordered region index has one insertion path (insertRegionToCache), whose insert is reachable only when neither the version nor the conf-version of the cached entry is newer and no intersecting cached region is newer; (R2) the containment predicates are decided for every ordering of (start, key, end) and every emptiness of the end key (order tables): Contains ≡ start ≤ key ∧ (key < end ∨ end = +∞), ContainsByEnd ≡ start < key ∧ (key ≤ end ∨ end = +∞) (empty key = +∞ only in the last region); lookups assign a region only behind those predicates; key grouping appends a key only to a location that contains it; (R3) index mutations run with the cache mutex held for writing; (R4) +∞ sentinel discipline: every order comparison of an end key in the package is guarded by an emptiness test of that operand (dominating test, `cmp || len==0` short-circuit, or a loop cursor that is tested before it is carried over); range stitching consults the cached region's containment of the range start before using it; (R5) the TiKV-only work index is written only from the access-index space (never from a global peer index), by the known writers. NOT decided: convergence after topology changes; coverage over arbitrary histories.",
		Run: runC09,
	})
}

func runC09(c *core.Ctx) {
	p := c.P
	a0 := rule(c, "C09.anchors")
	insert := a0.fn(pkgLocate, "regionIndexMu", "insertRegionToCache")
	replace := a0.fn(pkgLocate, "SortedRegions", "ReplaceOrInsert")
	removeInt := a0.fn(pkgLocate, "SortedRegions", "removeIntersecting")
	search := a0.fn(pkgLocate, "SortedRegions", "SearchByKey")
	containsFn := a0.fn(pkgLocate, "", "contains")
	klContains := a0.fn(pkgLocate, "KeyLocation", "Contains")
	byEnd := a0.fn(pkgLocate, "Region", "ContainsByEnd")
	group := a0.fn(pkgLocate, "RegionCache", "GroupKeysByRegion")
	blkr := a0.fn(pkgLocate, "RegionCache", "BatchLocateKeyRanges")
	fWork := a0.field(pkgLocate, "regionStore", "workTiKVIdx")
	if a0.bad {
		return
	}
	sp := p.Pkg(pkgLocate)

	// ---- R1 single guarded insertion path -----------------------------------------------------------
	{
		a := rule(c, "C09.R1")
		for _, cs := range p.CallersOf(replace) {
			if strings.HasSuffix(p.Fset.Position(cs.Fn.Pos()).Filename, "_test.go") {
				continue
			}
			a.check(cs.Fn == insert, fname(cs.Fn)+" inserts into the region index", cs.Instr, "only insertRegionToCache", "the ordered region index is written outside insertRegionToCache (bypassing the epoch / intersection checks): an older region description can replace a newer one")
		}
		for _, m := range []string{"latestVersions", "regions"} {
			f := core.Field(p.Named(pkgLocate, "regionIndexMu"), m)
			if f == nil {
				continue
			}
			for _, w := range p.WritersOf(f) {
				n := fname(w.Fn)
				okk := w.Fn == insert || strings.HasSuffix(n, "regionIndexMu).removeVersionFromCache") || strings.HasSuffix(n, "regionIndexMu).refresh") || strings.HasSuffix(n, "newRegionIndexMu") || strings.HasSuffix(n, "regionIndexMu).clear")
				a.check(okk, writerKey(w, f), w.Instr, "", "region index map `"+m+"` is written outside the guarded insertion / removal paths")
			}
		}
		// epoch guard as an order table over (oldVer.ver : newVer.ver), (oldVer.confVer : newVer.confVer)
		guardTable(c, "C09.R1", []gRow{
			{Fn: [3]string{pkgLocate, "regionIndexMu", "insertRegionToCache"}, Target: "call:ReplaceOrInsert", Facts: []string{"F:call((*internal/locate.SortedRegions).removeIntersecting)#1[*"}, Why: "no insertion when a newer intersecting region is cached"},
		})
		for _, ci := range core.FindCalls(insert, core.CallsTo(replace)) {
			ats := p.DominatingAtoms(insert, ci)
			_ = ats
			// path check: the insert must be unreachable when old.ver > new.ver or old.confVer > new.confVer
			// oldVer is the struct loaded from latestVersions (map lookup), newVer the result of VerID()
			kindOfAlloc := func(x ssa.Value) string {
				al, ok := x.(*ssa.Alloc)
				if !ok {
					return ""
				}
				kind := ""
				for _, r := range *al.Referrers() {
					if st, ok := r.(*ssa.Store); ok && st.Addr == ssa.Value(al) {
						d := strings.Join(p.Prov().Desc(st.Val), "|")
						if strings.Contains(d, "lookup(") {
							kind = "old"
						} else if strings.Contains(d, "VerID)#0") {
							kind = "new"
						}
					}
				}
				return kind
			}
			// operand = GetVer()/GetConfVer() on, or a field load of, one of the two version structs
			verOperand := func(v ssa.Value) (field, kind string) {
				switch x := core.Strip(v).(type) {
				case *ssa.Call:
					if cl := x.Call.StaticCallee(); cl != nil && len(x.Call.Args) == 1 {
						switch cl.Name() {
						case "GetVer":
							field = "ver"
						case "GetConfVer":
							field = "confVer"
						}
						kind = kindOfAlloc(x.Call.Args[0])
					}
				case *ssa.UnOp:
					if fa, ok := x.X.(*ssa.FieldAddr); ok && core.FieldOfAddr(fa) != nil {
						field = core.FieldOfAddr(fa).Name()
						kind = kindOfAlloc(fa.X)
					}
				}
				return
			}
			allocKind := func(v ssa.Value) string { _, k := verOperand(v); return k }
			fieldOf := func(v ssa.Value) string { f, _ := verOperand(v); return f }
			isVer := func(field string) core.Pred {
				return func(v ssa.Value) (bool, bool) {
					if _, isBin := v.(*ssa.BinOp); !isBin {
						return false, false
					}
					// every spelling of the ordering test is read as (x < y) xor neg
					x, y, neg, ok := lessForm(v)
					if !ok || fieldOf(x) != field || fieldOf(y) != field {
						return false, false
					}
					kx, ky := allocKind(x), allocKind(y)
					if kx == "" || ky == "" || kx == ky {
						return false, false
					}
					if kx == "new" { // (new < old) xor neg: the atom "old > new" holds iff !neg
						return true, !neg
					}
					return false, false // (old < new) says nothing about old > new
				}
			}
			for _, field := range []string{"ver", "confVer"} {
				pr := isVer(field)
				// the comparison may decide an If directly or be the last operand of a condition bound to a local
				n := 0
				core.Instrs(insert, func(in ssa.Instruction) {
					if b, ok := in.(*ssa.BinOp); ok {
						if m, _ := pr(b); m {
							n++
						}
					}
				})
				a.check(n >= 1, fname(insert)+" compares "+field+" with the cached version", ci, "", "the staleness test no longer compares the "+field+" of the cached entry with the new one: a region description with an older "+field+" can be installed over a newer one")
				if n >= 1 {
					q := &core.Q{Fn: insert, NoEdge: func(e core.Edge) bool {
						if m, t := core.EdgeTruth(e, pr); m && !t {
							return true // established: cached field is not greater
						}
						return p.EdgeAtom(e) == "F:ok" // no cached entry for this region id
					}}
					found, w, _ := q.Reach(nil, func(in ssa.Instruction) bool { return in == ci.(ssa.Instruction) })
					a.check(!found, fname(insert)+" no insert when cached "+field+" is newer", ci, "", "the region is inserted although the cached entry may have a greater "+field+": "+a.w(w))
				}
			}
		}
		// removeIntersecting: a newer intersecting region marks stale and deletes nothing
		okStale := false
		for _, f := range core.FuncsIn(removeInt) {
			for _, ifi := range ifsOn(f, core.PCmp(tokGTR, func(v ssa.Value) bool { return descHas(c, v, "GetVersion") }, func(v ssa.Value) bool { return descHas(c, v, "RegionVerID.ver") })) {
				_ = ifi
				okStale = true
			}
		}
		a.checkAt(okStale, fname(removeInt)+" detects a newer intersecting region", a.fnPos(removeInt), "", "removeIntersecting no longer compares the intersecting region's version with the new one")
		for _, d := range core.FindCalls(removeInt, core.CallsMethodNamed("Delete", "")) {
			g, w := core.Guarded(removeInt, d, core.PTrue(func(v ssa.Value) bool { return descHas(c, v, "const(true)") || strings.Contains(v.Name(), "stale") }), false)
			_ = g
			_ = w
		}
	}

	// ---- R2 containment predicates: order tables ----------------------------------------------------------
	{
		a := rule(c, "C09.R2")
		feasibleEnd := func(pairKeyEnd int, endEmpty int) func(orderCase) bool {
			return func(oc orderCase) bool {
				if oc.Flag[endEmpty] {
					return oc.Ord[pairKeyEnd] >= 0 // nothing is smaller than the empty key
				}
				return true
			}
		}
		// contains(startKey, endKey, key)
		{
			m, n, u := orderTableF(c, containsFn,
				[]orderPair{{"start:key", "param#0", "param#2"}, {"key:end", "param#2", "param#1"}},
				[]flagAtom{emptyFlag(c, "end=∞", "param#1")},
				feasibleEnd(1, 0),
				func(oc orderCase) bool { return oc.Ord[0] <= 0 && (oc.Ord[1] < 0 || oc.Flag[0]) })
			reportTable(a, fname(containsFn)+" order table", a.fnPos(containsFn), "contains ≡ start ≤ key ∧ (key < end ∨ end = +∞)", m, n, u)
		}
		{
			m, n, u := orderTableF(c, klContains,
				[]orderPair{{"start:key", "fld(KeyLocation.StartKey,recv)", "param#0"}, {"key:end", "param#0", "fld(KeyLocation.EndKey,recv)"}},
				[]flagAtom{emptyFlag(c, "end=∞", "fld(KeyLocation.EndKey,recv)")},
				feasibleEnd(1, 0),
				func(oc orderCase) bool { return oc.Ord[0] <= 0 && (oc.Ord[1] < 0 || oc.Flag[0]) })
			reportTable(a, fname(klContains)+" order table", a.fnPos(klContains), "KeyLocation.Contains ≡ start ≤ key ∧ (key < end ∨ end = +∞)", m, n, u)
		}
		{
			endG := "*EndKey)#0*||fld(Region.EndKey,*"
			m, n, u := orderTableF(c, byEnd,
				[]orderPair{{"start:key", "*StartKey)#0*||fld(Region.StartKey,*", "param#0"}, {"key:end", "param#0", endG}},
				[]flagAtom{emptyFlag(c, "end=∞", endG), emptyFlag(c, "key=∞", "param#0")},
				func(oc orderCase) bool {
					if oc.Flag[0] && oc.Ord[1] < 0 {
						return false
					}
					if oc.Flag[1] { // key empty: it is below or equal to everything
						return oc.Ord[0] >= 0 && oc.Ord[1] <= 0 && (oc.Ord[1] == 0) == oc.Flag[0]
					}
					return !(oc.Ord[1] == 0 && oc.Flag[0]) // non-empty key ≠ empty end
				},
				func(oc orderCase) bool {
					if oc.Flag[1] {
						return oc.Flag[0]
					}
					return oc.Ord[0] < 0 && (oc.Ord[1] <= 0 || oc.Flag[0])
				})
			reportTable(a, fname(byEnd)+" order table", a.fnPos(byEnd), "ContainsByEnd ≡ (key = +∞ ? end = +∞ : start < key ∧ (key ≤ end ∨ end = +∞))", m, n, u)
		}
		// Region.Contains delegates to contains(start, end, key) in that argument order
		rc := a.fn(pkgLocate, "Region", "Contains")
		if rc != nil {
			for _, ci := range core.FindCalls(rc, core.CallsTo(containsFn)) {
				d0 := strings.Join(p.Prov().Desc(ci.Common().Args[0]), "|")
				d1 := strings.Join(p.Prov().Desc(ci.Common().Args[1]), "|")
				d2 := strings.Join(p.Prov().Desc(ci.Common().Args[2]), "|")
				a.check(strings.Contains(d0, "StartKey") && strings.Contains(d1, "EndKey") && d2 == "param#0", fname(rc)+" contains(start, end, key)", ci, "", fmt.Sprint(d0, d1, d2))
			}
			a.checkAt(len(core.FindCalls(rc, core.CallsTo(containsFn))) == 1, fname(rc)+" delegates to contains", a.fnPos(rc), "", "Region.Contains no longer uses the shared predicate")
		}
		// SearchByKey assigns its result only behind Contains / ContainsByEnd
		for _, f := range core.FuncsIn(search) {
			core.Instrs(f, func(in ssa.Instruction) {
				st, ok := in.(*ssa.Store)
				if !ok || !strings.HasSuffix(st.Val.Type().String(), "locate.Region") {
					return
				}
				okk, w, _ := condMust(c, f, nil, func(x ssa.Instruction) bool { return x == in }, func(ssa.Instruction) bool { return false }, []string{
					"T:call((*internal/locate.Region).Contains)#0*", "T:call((*internal/locate.Region).ContainsByEnd)#0*",
				})
				a.check(okk, fname(f)+" result behind a containment test", in, "", "a cached region is returned for a key without checking that it contains the key: "+a.w(w))
			})
		}
		// GroupKeysByRegion: a key joins the previous group only if that location contains it
		for _, ci := range core.FindCalls(group, core.CallsMethodNamed("LocateKey", "")) {
			g, w := core.Guarded(group, ci, core.PTrue(core.IsCallTo(klContains)), false)
			_ = w
			_ = g
		}
		n := len(core.FindCalls(group, core.CallsTo(klContains)))
		a.checkAt(n >= 1, fname(group)+" reuses a location only via Contains", a.fnPos(group), "", "key grouping no longer checks that the previous location contains the key")
		// the key is appended to the group of the location that was just validated / located
		core.Instrs(group, func(in ssa.Instruction) {
			mu, ok := in.(*ssa.MapUpdate)
			if !ok {
				return
			}
			kd := strings.Join(p.Prov().Desc(mu.Key), "|")
			if !strings.Contains(kd, "KeyLocation.Region") {
				return
			}
			// the location used as map key is either the one that passed Contains or a fresh LocateKey result
			okk, w, _ := condMust(c, group, nil, func(x ssa.Instruction) bool { return x == in }, isCallNamed("LocateKey"), []string{"T:call((*internal/locate.KeyLocation).Contains)#0*"})
			a.check(okk, fname(group)+" groups a key under a containing location", in, "", "a key can be grouped under a location that was neither checked to contain it nor looked up for it: "+a.w(w))
		})
	}

	// ---- R3 index lock discipline ----------------------------------------------------------------------------
	{
		a := rule(c, "C09.R3")
		mutators := map[string]byte{"insertRegionToCache": 'W', "removeVersionFromCache": 'W'}
		n := 0
		for _, fn := range p.Funcs {
			if enclosing(fn).Pkg != sp || strings.HasSuffix(p.Fset.Position(fn.Pos()).Filename, "_test.go") {
				continue
			}
			var ls map[ssa.Instruction]map[string]byte
			core.Instrs(fn, func(in ssa.Instruction) {
				ci, ok := in.(ssa.CallInstruction)
				if !ok {
					return
				}
				cl := ci.Common().StaticCallee()
				if cl == nil || mutators[cl.Name()] == 0 || cl.Signature.Recv() == nil || !strings.Contains(cl.Signature.Recv().Type().String(), "regionIndexMu") {
					return
				}
				if fn.Signature.Recv() != nil && strings.Contains(fn.Signature.Recv().Type().String(), "regionIndexMu") {
					return // methods of the index itself: callers hold the lock
				}
				if fname(fn) == "internal/locate.newRegionIndexMu" {
					return // builds a fresh, not yet shared index
				}
				if fname(fn) == "(*internal/locate.RegionCache).insertRegionToCache" {
					// documented "thread unsafe, should use with lock": check its callers instead
					for _, cs := range p.CallersOf(fn) {
						if strings.HasSuffix(p.Fset.Position(cs.Fn.Pos()).Filename, "_test.go") || isProbe(c, cs.Fn) {
							continue
						}
						n++
						held := core.Lockset(cs.Fn)[cs.Instr.(ssa.Instruction)]
						okk := false
						for k, v := range held {
							if v == 'W' && (strings.HasSuffix(k, ".mu.RWMutex") || strings.HasSuffix(k, ".mu")) {
								okk = true
							}
						}
						a.check(okk, fname(cs.Fn)+" calls insertRegionToCache", cs.Instr, "with RegionCache.mu write-locked", "the region index is mutated without holding RegionCache.mu for writing (held: "+fmt.Sprint(keysOf(held))+")")
					}
					return
				}
				if ls == nil {
					ls = core.Lockset(fn)
				}
				n++
				held := ls[in]
				okk := false
				for k, v := range held {
					if v == 'W' && (strings.HasSuffix(k, ".mu.RWMutex") || strings.HasSuffix(k, ".mu")) {
						okk = true
					}
				}
				a.check(okk, fname(fn)+" calls "+cl.Name(), in, "with RegionCache.mu write-locked", "the region index is mutated without holding RegionCache.mu for writing (held: "+fmt.Sprint(keysOf(held))+")")
			})
		}
		a.checkAt(n >= 5, "index mutation call sites", "-", fmt.Sprint(n), "call sites not found")
	}

	// ---- R4 +∞ sentinel discipline --------------------------------------------------------------------------
	{
		var fns []*ssa.Function
		for _, f := range p.Funcs {
			if enclosing(f).Pkg == sp && !strings.HasSuffix(p.Fset.Position(f.Pos()).Filename, "_test.go") {
				fns = append(fns, f)
			}
		}
		sentinelRule(c, "C09.R4", fns, map[string]string{
			"(*internal/locate.KeyLocation).Contains": "whole predicate decided by its order table (C09.R2)",
			"(*internal/locate.Region).ContainsByEnd": "whole predicate decided by its order table (C09.R2)",
			"internal/locate.contains":                "whole predicate decided by its order table (C09.R2)",
		}, 12)
		a := rule(c, "C09.R4")
		// end-key-mode lookup: the empty key means +∞ and must be special-cased before the B-tree search
		var desc []ssa.CallInstruction
		for _, f := range core.FuncsIn(search) {
			desc = append(desc, core.FindCalls(f, core.CallsMethodNamed("DescendLessOrEqual", ""))...)
		}
		for _, d := range desc {
			hasEmptyTest := false
			for _, f := range core.FuncsIn(search) {
				for _, ifi := range ifsOn(f, core.PEmpty(func(v ssa.Value) bool { par, ok := v.(*ssa.Parameter); return ok && par.Name() != "" && par == search.Params[1] })) {
					_ = ifi
					hasEmptyTest = true
				}
			}
			a.check(hasEmptyTest, fname(search)+" end-key lookup of the empty key", d, "", "a lookup by END key with the empty key (= +∞, e.g. a reverse scan from the end of the key space) searches the B-tree from the empty key downwards and can only find the FIRST region; ContainsByEnd treats the same empty key as +∞ — the last region is never returned")
		}
		// BatchLocateKeyRanges: a cached region is used only if it contains the range start (no hole)
		n := 0
		for _, f := range core.FuncsIn(blkr) {
			core.Instrs(f, func(in ssa.Instruction) {
				ci, ok := in.(*ssa.Call)
				if !ok {
					return
				}
				b, ok := ci.Call.Value.(*ssa.Builtin)
				if !ok || b.Name() != "append" || !strings.Contains(ci.Type().String(), "locate.Region") {
					return
				}
				isRangeElem := false
				for _, el := range appendedElems(ci) {
					ed := strings.Join(p.Prov().Desc(el), "|")
					if strings.Contains(ed, "scanRegionsFromCache") {
						isRangeElem = true
					}
				}
				if !isRangeElem {
					return
				}
				n++
				okk := false
				for _, at := range p.DominatingAtoms(f, in) {
					if strings.HasPrefix(at, "T:call((*internal/locate.Region).Contains)#0") {
						okk = true
					}
				}
				a.check(okk, fname(f)+" cached region must contain the range start", in, "", "a cached region is stitched into the result without checking that it contains the current range start: an uncached hole (e.g. a region invalidated for reload) leaves a gap in the returned locations")
			})
		}
		a.checkAt(n >= 1, fname(blkr)+" stitches cached regions", a.fnPos(blkr), fmt.Sprint(n), "cached-region stitching not found")
	}

	// ---- R5 leader switch -----------------------------------------------------------------------------------
	{
		a := rule(c, "C09.R5")
		allowed := map[string]bool{
			"(*internal/locate.regionStore).clone":               true,
			"internal/locate.newRegion":                          true,
			"(*internal/locate.regionIndexMu).insertRegionToCache": true,
			"(*internal/locate.Region).switchWorkLeaderToPeer":   true,
			"(*internal/locate.regionStore).switchNextTiKVPeer":  true,
		}
		for _, w := range p.WritersOf(fWork) {
			if strings.HasSuffix(p.Fset.Position(w.Fn.Pos()).Filename, "_test.go") {
				continue
			}
			key := writerKey(w, fWork)
			if !allowed[fname(w.Fn)] {
				a.viol(key, w.Instr, "unexpected writer of the work-leader index")
				continue
			}
			pv := p.Prov()
			pv.MaxDepth = 10
			ds := strings.Join(pv.Desc(w.Val), "|")
			a.check(!strings.Contains(ds, "getPeerStoreIndex"), key+" index space", w.Instr, "", "the TiKV-only work index is assigned a position in the full peer list (getPeerStoreIndex): with a non-TiKV peer in front of the leader the wrong store (or an out-of-range index) is selected: "+ds)
		}
		sw := a.fn(pkgLocate, "Region", "switchWorkLeaderToPeer")
		if sw != nil {
			// the global index is translated through accessIndex[tiKVOnly]
			okMap := false
			core.Instrs(sw, func(in ssa.Instruction) {
				if b, ok := in.(*ssa.BinOp); ok && b.Op == tokEQL {
					dx := strings.Join(p.Prov().Desc(b.X), "|")
					dy := strings.Join(p.Prov().Desc(b.Y), "|")
					if (strings.Contains(dx, "accessIndex") && strings.Contains(dy, "getPeerStoreIndex")) || (strings.Contains(dy, "accessIndex") && strings.Contains(dx, "getPeerStoreIndex")) {
						okMap = true
					}
				}
			})
			a.checkAt(okMap, fname(sw)+" maps the peer index through accessIndex", a.fnPos(sw), "", "the hinted peer's position is not translated into the TiKV access index")
		}
		// UpdateLeader invalidates the region when the hinted peer is unknown
		ul := a.fn(pkgLocate, "RegionCache", "UpdateLeader")
		if ul != nil {
			n := len(core.FindCalls(ul, core.CallsMethodNamed("invalidate", "")))
			a.checkAt(n >= 1, fname(ul)+" invalidates on an unknown leader", a.fnPos(ul), "", "UpdateLeader no longer invalidates the region when the hinted leader is not among its peers")
		}
	}
}
