package rules

// Rules added after the fifth round of independent breaking changes (DESIGN.md §14). Each is a structural
// necessary condition of its property, silent on the pinned tree and on the neutral refactorings kept under
// /verif/seeded.

import (
	"fmt"
	"go/token"
	"strings"

	"golang.org/x/tools/go/ssa"

	"verif/sa/core"
)

// blockInLoop: b lies on a cycle of its function's control-flow graph.
func blockInLoop(b *ssa.BasicBlock) bool {
	seen := map[*ssa.BasicBlock]bool{}
	stack := append([]*ssa.BasicBlock(nil), b.Succs...)
	for len(stack) > 0 {
		x := stack[len(stack)-1]
		stack = stack[:len(stack)-1]
		if x == b {
			return true
		}
		if seen[x] {
			continue
		}
		seen[x] = true
		stack = append(stack, x.Succs...)
	}
	return false
}

func descOf(c *core.Ctx, v ssa.Value) string { return strings.Join(c.P.Prov().Desc(v), "|") }

func isCallTo(name string) func(ssa.Instruction) bool {
	return func(x ssa.Instruction) bool {
		cc, ok := x.(ssa.CallInstruction)
		return ok && calleeName(cc) == name
	}
}

func init() {
	extend("C01", "(R9) the per-region batch splitter continues exactly where the previous chunk ended. Imported after round 5: C05.R2.", func(c *core.Ctx) {
		a := rule(c, "C01.R9")
		if fn := a.fn(pkgSnap, "", "appendBatchKeysBySize"); fn != nil {
			n := 0
			core.Instrs(fn, func(in ssa.Instruction) {
				phi, ok := in.(*ssa.Phi)
				if !ok || phi.Comment != "start" {
					return
				}
				for _, e := range phi.Edges {
					if _, isConst := core.Strip(e).(*ssa.Const); isConst {
						continue
					}
					n++
					p2, isPhi := core.Strip(e).(*ssa.Phi)
					a.check(isPhi && p2.Comment == "end", fname(fn)+" next chunk starts at the previous end", in, "", "the next chunk does not start at the index the previous one stopped at: the first key after every full chunk is dropped from the batch (never read, cached as absent)")
				}
			})
			a.checkAt(n >= 1, fname(fn)+" chunk loop", a.fnPos(fn), "", "not found")
		}
		c.Import(Registry["C05"].Run, "C05", []string{"R2"}, "viaC05")
	})
	extend("C02", "(R8) a region error of the batch resolve makes the caller retry (never reported as resolved). Imported after round 5: C14.R5.", func(c *core.Ctx) {
		a := rule(c, "C02.R8")
		if fn := a.fn(pkgLock, "LockResolver", "BatchResolveLocks"); fn != nil {
			n := 0
			pr := core.PIsNil(func(x ssa.Value) bool { return strings.Contains(descOf(c, x), "GetRegionError)#0") })
			for _, ifi := range ifsOn(fn, pr) {
				b := succOn(ifi, pr, false)
				if b == nil {
					continue
				}
				n++
				found, w, hit := reachFromBlock(fn, b, nil, nil, func(in ssa.Instruction) bool {
					r, ok := in.(*ssa.Return)
					if !ok || len(r.Results) != 2 {
						return false
					}
					cst, ok := asConst(r.Results[0])
					return ok && cst.Value != nil && cst.Value.String() == "true"
				})
				if found {
					a.viol(fname(fn)+" a region error is not a success", hit, "after a region error of the ResolveLock request the function can report ok=true: GC treats the region's locks as resolved although nothing was: "+a.w(w))
				} else {
					a.ok(fname(fn)+" a region error is not a success", ifi, "")
				}
			}
			a.checkAt(n >= 1, fname(fn)+" region error test", a.fnPos(fn), "", "not found")
		}
		c.Import(Registry["C14"].Run, "C14", []string{"R5"}, "viaC14")
	})
	extend("C03", "(R11) every RPC error except client-side throttling is recorded as an RPC error (it decides whether a commit is undetermined). Imported after round 5: C01.R7.", func(c *core.Ctx) {
		a := rule(c, "C03.R11")
		if fn := a.fn(pkgLocate, "", "isRPCError"); fn != nil {
			for _, r := range returnsOf(fn) {
				for _, d := range c.P.Prov().Desc(r.Results[0]) {
					okk := d == "const(false)" || d == "const(true)" || strings.Contains(d, "NotEqual)#0") || strings.Contains(d, "param#0")
					a.check(okk, fname(fn)+" depends only on the throttling exclusion", r, d, "another class of errors ("+d+") is excluded from the recorded RPC errors: a primary commit whose answer was lost that way is reported as a definite failure and cleaned up although the store may have executed it")
				}
			}
		}
		c.Import(Registry["C01"].Run, "C01", []string{"R7"}, "viaC01")
	})
	extend("C05", "(R7) a scanned pair whose lock resolved to 'no value' is skipped in every mode.", func(c *core.Ctx) {
		a := rule(c, "C05.R7")
		if fn := a.fn(pkgSnap, "Scanner", "Next"); fn != nil {
			n := 0
			for _, ci := range core.FindCalls(fn, core.CallsMethodNamed("resolveCurrentLock", "")) {
				n++
				q := &core.Q{Fn: fn, NoEdge: func(e core.Edge) bool {
					at := c.P.EdgeAtom(e)
					return strings.HasPrefix(at, "F:(const(0) == len(fld(KvPair.Value,") || strings.HasPrefix(at, "F:(call((*txnkv/txnsnapshot.Scanner).resolveCurrentLock)#0")
				}, NoPass: func(x ssa.Instruction) bool {
					// the next round of the scan loop (its test `idx < len(cache)`) ends the pair's own path
					bo, ok := x.(*ssa.BinOp)
					if !ok {
						return false
					}
					at, _ := c.P.CanonAtom(bo)
					return strings.Contains(at, "fld(Scanner.idx,recv) < len(fld(Scanner.cache,")
				}}
				found, w, hit := q.Reach(ci.(ssa.Instruction), func(in ssa.Instruction) bool {
					r, ok := in.(*ssa.Return)
					return ok && len(r.Results) == 1 && isNil(r.Results[0])
				})
				if found {
					a.viol(fname(fn)+" a resolved lock without value is skipped", hit, "after resolving the pair's lock the pair can be yielded although its value is empty (= the key does not exist at this snapshot), e.g. in key-only mode: a deleted key is reported by the scan: "+a.w(w))
				} else {
					a.ok(fname(fn)+" a resolved lock without value is skipped", ci, "")
				}
			}
			a.checkAt(n >= 1, fname(fn)+" lock resolution", a.fnPos(fn), "", "resolveCurrentLock not found")
		}
	})
	extend("C06", "(R12) the count of locked keys changes only where keys are locked or their locks released; the background commit of secondaries runs on a back-off of the store's own context.", func(c *core.Ctx) {
		a := rule(c, "C06.R12")
		if f := a.field(pkgTxn, "KVTxn", "lockedCnt"); f != nil {
			allowed := map[string]bool{"CancelAggressiveLocking": true, "cleanupAggressiveLockingRedundantLocks": true, "lockKeys": true, "DoneAggressiveLocking": true, "newTiKVTxn": true, "NewTiKVTxn": true}
			n := 0
			for _, w := range c.P.WritersOf(f) {
				if isProbe(c, w.Fn) {
					continue
				}
				n++
				o := enclosing(w.Fn) // (functions the pinned tree does not have are inlined by the loader)
				a.check(allowed[o.Name()], writerKey(w, f), w.Instr, "", "the locked-key counter is adjusted in "+fname(w.Fn)+": Rollback's `lockedCnt == 0` shortcut can then skip the pessimistic rollback while keys are still locked")
			}
			a.checkAt(n >= 3, "writers of KVTxn.lockedCnt", "-", fmt.Sprint(n), "not found")
		}
		if fn := a.fn(pkgTxn, "twoPhaseCommitter", "doActionOnGroupMutations"); fn != nil {
			n := 0
			for _, f := range core.FuncsIn(fn)[1:] {
				for _, ci := range core.FindCalls(f, core.CallsMethodNamed("doActionOnBatches", "")) {
					n++
					d := descOf(c, argOf(ci, 0))
					a.check(strings.Contains(d, "NewBackofferWithVars)#0"), fname(f)+" secondaries are committed on the store's context", ci, d, "the background commit of the secondaries runs on the caller's back-off ("+d+"): cancelling the Commit context after Commit returned aborts it and leaves the secondaries locked")
				}
			}
			a.checkAt(n >= 1, fname(fn)+" background commit", a.fnPos(fn), "", "not found")
		}
	})
	extend("C07", "(R11) the union iterator advances the snapshot side only past a key the buffer also holds.", func(c *core.Ctx) {
		guardTable(c, "C07.R11", []gRow{{Fn: [3]string{pkgUnion, "UnionIter", "updateCur"}, Target: "call:snapshotNext",
			Facts: []string{"T:(*call(kv.CmpKey)#0 == const(0))"}, Min: 1,
			Why: "the snapshot iterator is advanced although the buffer's key is a different one (e.g. behind a tombstone of a key the snapshot lacks): the live snapshot key is skipped by the scan"}})
	})
	extend("C08", "(R14) retired radix-tree nodes are freed only when no snapshot iterator is open; releasing a staging level always pops it; the implicit flag removal of a value write is applied BEFORE the caller's flag operations.", func(c *core.Ctx) {
		guardTable(c, "C08.R14", []gRow{{Fn: [3]string{"internal/unionstore/art", "artAllocator", "snapshotDec"}, Target: "call:CompareAndSwap",
			Facts: []string{"T:(call((*sync/atomic.Int64).Add)#0* == const(0))"}, Min: 1,
			Why: "nodes are recycled while another snapshot iterator is still open: that iterator reads reused nodes and skips keys"}})
		a := rule(c, "C08.R14")
		for _, spec := range [][3]string{{"internal/unionstore/art", "ART", "ART.stages"}, {"internal/unionstore/rbt", "RBT", "RBT.stages"}} {
			fn := a.fn(spec[0], spec[1], "Release")
			if fn == nil {
				continue
			}
			sts := storesToFieldNamed(fn, spec[2])
			a.checkAt(len(sts) >= 1, fname(fn)+" pops the level", a.fnPos(fn), "", "store to stages not found")
			okk, w, _ := condMust(c, fn, nil, core.IsReturn, func(x ssa.Instruction) bool {
				for _, s := range sts {
					if x == s {
						return true
					}
				}
				return false
			}, []string{"T:(const(0) == param#0)"})
			a.checkAt(okk, fname(fn)+" pops the level on every path", a.fnPos(fn), "", "Release can return without popping the staging level (e.g. when nothing was written in it): the level leaks, the next Staging() is nested and Dirty()/snapshots stay stale: "+a.w(w))
		}
		if fn := a.fn("internal/unionstore/art", "ART", "setValue"); fn != nil {
			n := 0
			core.Instrs(fn, func(in ssa.Instruction) {
				cl, ok := in.(*ssa.Call)
				if !ok {
					return
				}
				b, ok := cl.Call.Value.(*ssa.Builtin)
				if !ok || b.Name() != "append" || !strings.Contains(cl.Type().String(), "FlagsOp") {
					return
				}
				n++
				d0, d1 := descOf(c, cl.Call.Args[0]), descOf(c, cl.Call.Args[1])
				a.check(d0 != "param#3" && d1 == "param#3", fname(fn)+" caller's flag ops come last", in, d0+" ++ "+d1, "the implicit DelNeedConstraintCheckInPrewrite is appended AFTER the caller's operations: a write that sets the flag loses it (the two buffers disagree)")
			})
			a.checkAt(n == 1, fname(fn)+" flag operations", a.fnPos(fn), "", "not found")
		}
	})
	extend("C09", "(R12) an emptiness test guards the comparison of the SAME end key; the epoch-ahead test is strict in both components; the retry after a stale PD answer asks the PD leader; a remembered proxy is used only while it is a candidate.", func(c *core.Ctx) {
		a := rule(c, "C09.R12")
		if fn := a.fn(pkgLocate, "RegionCache", "batchScanRegionsFallback"); fn != nil {
			n := 0
			for _, ci := range core.FindCalls(fn, func(cc *ssa.CallCommon) bool {
				f := cc.StaticCallee()
				return f != nil && f.String() == "bytes.Compare"
			}) {
				cl := ci.(*ssa.Call)
				b := cl.Block()
				if len(b.Preds) != 1 {
					continue
				}
				ifi, ok := b.Preds[0].Instrs[len(b.Preds[0].Instrs)-1].(*ssa.If)
				if !ok {
					continue
				}
				at := c.P.EdgeAtom(core.Edge{If: ifi, True: b.Preds[0].Succs[0] == b})
				if !strings.HasPrefix(at, "F:(const(0) == len(") {
					continue
				}
				n++
				tested := strings.TrimSuffix(strings.TrimPrefix(at, "F:(const(0) == len("), "))")
				d0, d1 := descOf(c, cl.Call.Args[0]), descOf(c, cl.Call.Args[1])
				a.check(d0 == tested || d1 == tested, fname(fn)+" the key tested for emptiness is the key compared", ci, tested, "`len("+tested+") != 0 &&` guards a comparison of other operands ("+d0+" / "+d1+"): the range's end is not what decides that it is covered — a middle range is skipped and the result has a gap")
			}
			a.checkAt(n >= 1, fname(fn)+" guarded comparisons", a.fnPos(fn), "", "not found")
		}
		if fn := a.fn(pkgLocate, "RegionCache", "OnRegionEpochNotMatch"); fn != nil {
			n := 0
			core.Instrs(fn, func(in ssa.Instruction) {
				bo, ok := in.(*ssa.BinOp)
				if !ok {
					return
				}
				x, y, neg, isOrd := lessForm(bo)
				if !isOrd {
					return
				}
				dx, dy := descOf(c, x), descOf(c, y)
				for _, comp := range [][2]string{{"GetVersion)#0", "RegionVerID.ver,"}, {"GetConfVer)#0", "RegionVerID.confVer,"}} {
					switch {
					case strings.Contains(dx, comp[0]) && strings.Contains(dy, comp[1]):
						n++
						_ = neg // `reported < cached` or its negation `reported >= cached`: the same strict boundary
						a.ok(fname(fn)+" epoch-ahead test is strict ("+comp[1]+")", in, "")
					case strings.Contains(dy, comp[0]) && strings.Contains(dx, comp[1]):
						n++
						a.check(false, fname(fn)+" epoch-ahead test is strict ("+comp[1]+")", in, "", "the 'cached epoch is ahead of TiKV' test also fires for EQUAL "+comp[1]+": a change of the other component alone is treated as TiKV lagging — the current regions are not installed and the request loops on EpochNotMatch")
					}
				}
			})
			a.checkAt(n >= 2, fname(fn)+" epoch comparisons", a.fnPos(fn), fmt.Sprint(n), "not found")
		}
		if fn := a.fn(pkgLocate, "RegionCache", "findRegionByKey"); fn != nil {
			n := 0
			for _, ci := range core.FindCalls(fn, core.CallsMethodNamed("loadRegion", "")) {
				g, _ := guardedByAny(c, fn, ci.(ssa.Instruction), "F:call((*internal/locate.RegionCache).insertRegionToCache)#0*")
				if !g {
					continue
				}
				n++
				args := ci.Common().Args
				a.check(isNil(args[len(args)-1]), fname(fn)+" the retry after a stale answer asks the PD leader", ci, "", "the one retry after the cache refused a stale PD answer again allows follower / router-service handling: a lagging follower answers again and the old, wider region is returned")
			}
			a.checkAt(n == 1, fname(fn)+" stale retry", a.fnPos(fn), fmt.Sprint(n), "retry load not found")
		}
	})
	extend("C10", "(R13) an UndeterminedResult region error is never retried by the sender; a remembered proxy is used only through isCandidate (attempt limit included).", func(c *core.Ctx) {
		a := rule(c, "C10.R13")
		if fn := a.fn(pkgLocate, "RegionRequestSender", "onRegionError"); fn != nil {
			n := 0
			for _, ci := range core.FindCalls(fn, core.CallsMethodNamed("GetNotLeader", "")) {
				n++
				g, w := core.MustPassBefore(fn, ci.(ssa.Instruction), isCallTo("GetUndeterminedResult"))
				a.check(g, fname(fn)+" undetermined results are handed to the caller first", ci, "", "the region-error handlers are reached without the UndeterminedResult test: a write whose outcome is unknown is re-sent and the later answer reported instead: "+a.w(w))
			}
			a.checkAt(n >= 1, fname(fn)+" handlers", a.fnPos(fn), "", "not found")
		}
		if fn := a.fn(pkgLocate, "ReplicaSelectLeaderWithProxyStrategy", "next"); fn != nil {
			n := 0
			for _, r := range returnsOf(fn) {
				if len(r.Results) != 2 || isNil(r.Results[1]) {
					continue
				}
				n++
				g, w := guardedByAny(c, fn, r, "T:call((internal/locate.ReplicaSelectLeaderWithProxyStrategy).isCandidate)#0*")
				a.check(g, fname(fn)+" a proxy is chosen through isCandidate", r, "", "a proxy is returned without the candidate test (which carries the once-per-send attempt limit): with an unreachable leader the send loops over the remembered proxy without back-off: "+a.w(w))
			}
			a.checkAt(n >= 2, fname(fn)+" proxy returns", a.fnPos(fn), fmt.Sprint(n), "not found")
		}
	})
	extend("C11", "(R8) compare-and-swap says 'previous value must not exist' exactly for a nil previous value. Imported after round 5: C09.R2.", func(c *core.Ctx) {
		guardTable(c, "C11.R8", []gRow{{Fn: [3]string{"rawkv", "Client", "CompareAndSwap"}, Target: "store:RawCASRequest.PreviousNotExist",
			Facts: []string{"T:(nil == param#2)"}, Min: 1, Why: "an empty but non-nil expected value is a value, not absence: the CAS does the opposite of what was asked"}})
		c.Import(Registry["C09"].Run, "C09", []string{"R2"}, "viaC09")
	})
	extend("C12", "(R12) cleanup of a committed transaction answers with its commit version; the mock batch get reports a key blocked by a lock. Imported after round 5: C19.R2.", func(c *core.Ctx) {
		a := rule(c, "C12.R12")
		if fn := a.fn(pkgMock, "kvHandler", "handleKvCleanup"); fn != nil {
			n := len(storesToFieldNamed(fn, "CleanupResponse.CommitVersion"))
			a.checkAt(n >= 1, fname(fn)+" reports the commit version of an already committed transaction", a.fnPos(fn), "", "CleanupResponse.CommitVersion is never set: cleanup of a committed transaction answers with an abort error and commit version 0 — the resolver rolls the committed transaction's other keys back")
		}
		if fn := a.fn(pkgMock, "MVCCLevelDB", "BatchGet"); fn != nil {
			n := 0
			for _, ci := range core.FindCalls(fn, core.CallsMethodNamed("getValue", "")) {
				n++
				in := ci.(ssa.Instruction)
				okk, w, hit := condMust(c, fn, in, func(x ssa.Instruction) bool {
					if x == in {
						return true
					}
					_, isRet := x.(*ssa.Return)
					return isRet
				}, func(x ssa.Instruction) bool {
					cl, ok := x.(*ssa.Call)
					if !ok {
						return false
					}
					b, ok := cl.Call.Value.(*ssa.Builtin)
					return ok && b.Name() == "append" && strings.Contains(cl.Type().String(), "Pair")
				}, []string{"T:(call((*internal/mockstore/mocktikv.MVCCLevelDB).getValue)#1* == nil)"})
				if okk {
					a.ok(fname(fn)+" a failed key is reported", in, "")
				} else {
					a.viol(fname(fn)+" a failed key is reported", hit, "a key whose read failed (blocked by a lock) can be left out of the result: BatchGet silently omits it while Get and Scan report the lock: "+a.w(w))
				}
			}
			a.checkAt(n == 1, fname(fn)+" per-key read", a.fnPos(fn), "", "not found")
		}
		c.Import(Registry["C19"].Run, "C19", []string{"R2"}, "viaC19")
	})
	extend("C13", "(R11) the local oracle's expiry test is `not before the expiry instant`; a read timestamp without cached reference is always double-checked with PD. Imported after round 5: C01.R3.", func(c *core.Ctx) {
		a := rule(c, "C13.R11")
		if fn := a.fn(pkgOracle, "localOracle", "IsExpired"); fn != nil {
			for _, r := range returnsOf(fn) {
				v := r.Results[0]
				u, isNot := v.(*ssa.UnOp)
				okk := false
				if isNot && u.Op == token.NOT {
					if cl, ok := u.X.(*ssa.Call); ok && cl.Call.StaticCallee() != nil && cl.Call.StaticCallee().Name() == "Before" {
						okk = true
					}
				}
				a.check(okk, fname(fn)+" expired ⇔ not before the expiry instant", r, "", "the test is not `!now.Before(expire)`: at the exact expiry instant IsExpired and UntilExpired disagree")
			}
		}
		if fn := a.fn(pkgOracle, "pdOracle", "ValidateReadTS"); fn != nil {
			n := 0
			pr := core.PTrue(func(v ssa.Value) bool { return strings.Contains(descOf(c, v), "getLastTSWithArrivalTS)#1") })
			for _, f := range core.FuncsIn(fn) {
				for _, ifi := range ifsOn(f, pr) {
					b := succOn(ifi, pr, false)
					if b == nil {
						continue
					}
					n++
					found, w, hit := reachFromBlock(f, b, isCallTo("getCurrentTSForValidation"), nil, func(in ssa.Instruction) bool {
						r, ok := in.(*ssa.Return)
						return ok && len(r.Results) == 1 && isNil(r.Results[0])
					})
					if found {
						a.viol(fname(f)+" no cached timestamp ⇒ ask PD", hit, "without a cached timestamp for the scope the read ts can be accepted without fetching one from PD: any future timestamp passes validation: "+a.w(w))
					} else {
						a.ok(fname(f)+" no cached timestamp ⇒ ask PD", ifi, "")
					}
				}
			}
			a.checkAt(n >= 1, fname(fn)+" cached-timestamp test", a.fnPos(fn), "", "not found")
		}
		c.Import(Registry["C01"].Run, "C01", []string{"R3"}, "viaC01")
	})
	extend("C14", "(R10) each range task is a fresh object; the delete-range loop treats an empty end as unbounded; the safe-point cache is updated only from a successful load.", func(c *core.Ctx) {
		a := rule(c, "C14.R10")
		if fn := a.fn("txnkv/rangetask", "Runner", "RunOnRange"); fn != nil {
			n := 0
			core.Instrs(fn, func(in ssa.Instruction) {
				al, ok := in.(*ssa.Alloc)
				if !ok || !al.Heap || al.Type().String() != "*"+core.ModPath+"/kv.KeyRange" {
					return
				}
				n++
				a.check(blockInLoop(al.Block()), fname(fn)+" one task object per sub-range", in, "", "the task object is allocated once and overwritten for every sub-range: tasks still queued in the channel alias it — sub-ranges are skipped or handled twice while the run reports success")
			})
			a.checkAt(n >= 1, fname(fn)+" task allocation", a.fnPos(fn), "", "not found")
		}
		if fn := a.fn("txnkv/rangetask", "DeleteRangeTask", "sendReqOnRange"); fn != nil {
			n := 0
			for _, ci := range core.FindCalls(fn, func(cc *ssa.CallCommon) bool { f := cc.StaticCallee(); return f != nil && f.String() == "bytes.Compare" }) {
				cl := ci.(*ssa.Call)
				for _, arg := range cl.Call.Args {
					d := descOf(c, arg)
					if !strings.Contains(d, "KeyRange.EndKey") || strings.Contains(d, "|") {
						continue // only the range's own end (the cursor also takes region ends)
					}
					n++
					g, how := emptinessGuarded(c, fn, cl, arg, d)
					a.check(g, fname(fn)+" the range's end (empty = unbounded) is tested before it is compared", ci, how, "the range's end key is order-compared without an emptiness test: an unbounded sub-range ends at once without sending any DeleteRange: "+how)
				}
			}
			a.checkAt(n >= 1, fname(fn)+" end comparisons", a.fnPos(fn), "", "not found")
		}
		guardTable(c, "C14.R10", []gRow{{Fn: [3]string{"tikv", "KVStore", "runTxnSafePointUpdater"}, Target: "call:UpdateTxnSafePointCache",
			Facts: []string{"T:(call((*tikv.KVStore).loadTxnSafePoint)#1* == nil)"}, Min: 1,
			Why: "a failed load of the GC state resets the cached txn safe point (to 0, marked fresh): reads below the real safe point are served"}})
	})
	extend("C15", "(R11) every pair's key error is decoded; whoever decodes a region's range decodes its bucket keys; the context patch is dispatched on the folded command (CopStream → Cop).", func(c *core.Ctx) {
		a := rule(c, "C15.R11")
		if fn := a.fn(pkgAPI, "codecV2", "decodePairs"); fn != nil {
			n := 0
			core.Instrs(fn, func(in ssa.Instruction) {
				cl, ok := in.(*ssa.Call)
				if !ok {
					return
				}
				b, ok := cl.Call.Value.(*ssa.Builtin)
				if !ok || b.Name() != "append" || !strings.Contains(cl.Type().String(), "KvPair") {
					return
				}
				n++
				q := &core.Q{Fn: fn, NoEdge: func(e core.Edge) bool {
					// a test of the pair's Error field (read structurally: the field of the local copy is also
					// assigned in this function, which provenance would report instead)
					v, _ := e.Cond()
					bo, ok := v.(*ssa.BinOp)
					if !ok {
						return false
					}
					for _, op := range []ssa.Value{bo.X, bo.Y} {
						if u, ok := op.(*ssa.UnOp); ok && u.Op == token.MUL {
							if fa, ok := u.X.(*ssa.FieldAddr); ok {
								if f := core.FieldOfAddr(fa); f != nil && f.Name() == "Error" {
									return true
								}
							}
						}
					}
					return false
				}}
				found, w, _ := q.Reach(nil, func(x ssa.Instruction) bool { return x == in })
				a.check(!found, fname(fn)+" every pair's error is looked at before the pair is kept", in, "", "a pair can be kept without its key error having been tested/decoded (e.g. a pair without key): the lock description of an error-only pair keeps the keyspace prefix: "+a.w(w))
			})
			a.checkAt(n >= 1, fname(fn)+" result", a.fnPos(fn), "", "not found")
		}
		n := 0
		for _, fn := range c.P.Funcs {
			if fn.Pkg != c.P.Pkg(pkgLocate) || fn.Signature.Recv() == nil || !strings.Contains(fn.Signature.Recv().Type().String(), "CodecPDClient") {
				continue
			}
			if len(core.FindCalls(fn, core.CallsMethodNamed("DecodeRegionRange", ""))) == 0 {
				continue
			}
			n++
			a.checkAt(len(core.FindCalls(fn, core.CallsMethodNamed("DecodeBucketKeys", ""))) >= 1, fname(fn)+" decodes the bucket keys with the region range", a.fnPos(fn), "", "the function that strips the keyspace prefix from a region's range does not strip it from the region's bucket keys: the scan paths return prefixed bucket keys")
		}
		a.checkAt(n >= 1, "region decoders of CodecPDClient", "-", fmt.Sprint(n), "not found")
		if fn := a.fn("tikvrpc", "", "AttachContext"); fn != nil {
			for _, ci := range core.FindCalls(fn, func(cc *ssa.CallCommon) bool { f := cc.StaticCallee(); return f != nil && f.Name() == "patchCmdCtx" }) {
				d := descOf(c, ci.Common().Args[1])
				a.check(strings.Contains(d, "const("), fname(fn)+" dispatches on the folded command", ci, d, "patchCmdCtx is given the request's own type ("+d+"), not the command folded by AttachContext (CopStream → Cop): a CopStream request goes out without context")
			}
		}
	})
	extend("C16", "(R10) a cached batch-get entry is final (also an empty value = flushed delete); the cleanup of a failed pipelined commit rolls the flushed range back on a detached context.", func(c *core.Ctx) {
		a := rule(c, "C16.R10")
		if fn := a.fn(pkgUnion, "PipelinedMemDB", "get"); fn != nil {
			n := 0
			pr := core.PIsNil(func(x ssa.Value) bool { return strings.Contains(descOf(c, x), "Inner)#0") })
			for _, ifi := range ifsOn(fn, pr) {
				b := succOn(ifi, pr, false)
				if b == nil {
					continue
				}
				n++
				found, w, hit := reachFromBlock(fn, b, nil, nil, func(in ssa.Instruction) bool {
					r, ok := in.(*ssa.Return)
					return ok && len(r.Results) == 2 && strings.Contains(descOf(c, r.Results[1]), "ErrNotExist")
				})
				if found {
					a.viol(fname(fn)+" a cached value is returned as it is", hit, "a cached entry with a non-nil (possibly empty) value can be answered with ErrNotExist / treated as a miss: the cached record of a flushed delete lets the committed value reappear from the snapshot: "+a.w(w))
				} else {
					a.ok(fname(fn)+" a cached value is returned as it is", ifi, "")
				}
			}
			a.checkAt(n >= 1, fname(fn)+" cache hit", a.fnPos(fn), "", "not found")
		}
		if fn := a.fn(pkgTxn, "twoPhaseCommitter", "cleanup"); fn != nil {
			n := 0
			for _, f := range core.FuncsIn(fn) {
				for _, ci := range core.FindCalls(f, core.CallsMethodNamed("resolveFlushedLocks", "")) {
					n++
					var ctxDesc string
					if cl, ok := core.Strip(argOf(ci, 0)).(*ssa.Call); ok && len(cl.Call.Args) > 0 {
						ctxDesc = descOf(c, cl.Call.Args[0])
					}
					a.check(ctxDesc != "" && !strings.HasPrefix(ctxDesc, "param#") && !strings.Contains(ctxDesc, "|param#"), fname(f)+" flushed locks are rolled back on a detached context", ci, ctxDesc, "the rollback of the flushed range runs on the caller's context ("+ctxDesc+"): a commit that failed because that context was cancelled never rolls its flushed locks back")
				}
			}
			a.checkAt(n >= 1, fname(fn)+" flushed-range rollback", a.fnPos(fn), "", "not found")
		}
	})
	extend("C17", "(R11) only a successful commit publishes its commit ts; latch nodes are found by key bytes; a released node never keeps the caller's key buffer.", func(c *core.Ctx) {
		guardTable(c, "C17.R11", []gRow{{Fn: [3]string{pkgTxn, "KVTxn", "Commit"}, Target: "call:SetCommitTS",
			Facts: []string{"T:(call((*txnkv/transaction.twoPhaseCommitter).execute)#0* == nil)"}, Min: 1,
			Why: "a failed commit publishes its commit ts to the latch: a concurrent older transaction on the key is falsely reported stale"}})
		a := rule(c, "C17.R11")
		if fn := a.fn("internal/latch", "", "findNode"); fn != nil {
			n := 0
			for _, r := range returnsOf(fn) {
				if isNil(r.Results[0]) {
					continue
				}
				n++
				g, w := guardedByAny(c, fn, r, "T:call(bytes.Equal)#0*")
				a.check(g, fname(fn)+" nodes are matched by key bytes", r, "", "a node is returned without comparing the key bytes (e.g. by a hash): two keys that collide share a latch node — false staleness and waiters that are never woken: "+a.w(w))
			}
			a.checkAt(n >= 1, fname(fn)+" match", a.fnPos(fn), "", "not found")
		}
		if fn := a.fn("internal/latch", "Latches", "releaseSlot"); fn != nil {
			sts := storesToFieldNamed(fn, "node.key")
			a.checkAt(len(sts) >= 1, fname(fn)+" copies the key", a.fnPos(fn), "", "store to node.key not found")
			okk, w, _ := condMust(c, fn, nil, core.IsReturn, func(x ssa.Instruction) bool {
				for _, s := range sts {
					if x == s {
						return true
					}
				}
				return false
			}, nil)
			a.checkAt(okk, fname(fn)+" copies the key on every path", a.fnPos(fn), "", "a released node can keep aliasing the transaction's key buffer (the copy is skipped when nobody waits): reusing the buffer changes the node's key — wrong staleness for both keys: "+a.w(w))
		}
	})
	extend("C18", "(R13) the request builder (and its id allocator) lives as long as its connection; a request is sent on the stream of the forwarded host it was registered for; every batch client has its own table of forwarding streams.", func(c *core.Ctx) {
		a := rule(c, "C18.R13")
		if f := a.field(pkgClient, "batchConn", "reqBuilder"); f != nil {
			n := 0
			for _, w := range c.P.WritersOf(f) {
				if isProbe(c, w.Fn) || strings.HasSuffix(c.P.Fset.Position(w.Fn.Pos()).Filename, "_test.go") {
					continue
				}
				n++
				a.check(enclosing(w.Fn).Name() == "newBatchConn" || ownerOf(c, w.Fn).Name() == "newBatchConn", writerKey(w, f), w.Instr, "", "the builder is replaced in "+fname(w.Fn)+": its id allocator restarts at 0 and a reused request id overwrites an in-flight entry — one caller gets another's response")
			}
			a.checkAt(n >= 1, "writers of batchConn.reqBuilder", "-", fmt.Sprint(n), "not found")
		}
		if fn := a.fn(pkgClient, "batchCommandsClient", "send"); fn != nil {
			for _, ci := range core.FindCalls(fn, core.CallsMethodNamed("initBatchClient", "")) {
				d := descOf(c, argOf(ci, 0))
				a.check(d == "param#0", fname(fn)+" uses the forwarded host it was given", ci, d, "the forwarded host is rewritten before the stream is chosen ("+d+") while the pending entries keep the original one: a broken stream no longer fails them")
			}
		}
		if fn := a.fn(pkgClient, "connPool", "Init"); fn != nil {
			n := 0
			for _, f := range core.FuncsIn(fn) {
				for _, st := range storesToFieldNamed(f, "batchCommandsClient.forwardedClients") {
					n++
					mm, ok := core.Strip(st.(*ssa.Store).Val).(*ssa.MakeMap)
					a.check(ok && blockInLoop(mm.Block()), fname(f)+" one forwarding table per batch client", st, "", "all batch clients of the pool share one table of forwarding streams: a forwarded request is registered with one client and sent on another's stream — its response is dropped as outdated")
				}
			}
			a.checkAt(n >= 1, fname(fn)+" client construction", a.fnPos(fn), "", "not found")
		}
	})
	extend("C19", "(R8) the varint decoders consume exactly what encoding/binary consumed; the pad count is validated on both branches before it is used.", func(c *core.Ctx) {
		a := rule(c, "C19.R8")
		for _, spec := range [][2]string{{"DecodeUvarint", "binary.Uvarint)#1"}, {"DecodeVarint", "binary.Varint)#1"}} {
			fn := a.fn(pkgCodec, "", spec[0])
			if fn == nil {
				continue
			}
			for _, r := range returnsOf(fn) {
				if len(r.Results) != 3 || !isNil(r.Results[2]) {
					continue
				}
				d := descOf(c, r.Results[0])
				a.check(strings.HasPrefix(d, "slice(param#0,call(encoding/"+spec[1]), fname(fn)+" leftover = input after the bytes binary consumed", r, d, "a success return hands back "+d+": not the input cut at the length encoding/binary reported (a hand-written fast path decodes some values wrongly)")
			}
		}
		if fn := a.fn(pkgCodec, "", "decodeBytes"); fn != nil {
			n := 0
			core.Instrs(fn, func(in ssa.Instruction) {
				bo, ok := in.(*ssa.BinOp)
				if !ok || bo.Op != token.SUB {
					return
				}
				cst, ok := asConst(bo.X)
				if !ok || cst.Value == nil || cst.Value.String() != "8" {
					return
				}
				n++
				g, w := guardedByAny(c, fn, in, "F:(const(8) < *)", "T:(* < const(9))")
				a.check(g, fname(fn)+" pad count validated before use", in, "", "the group's real size is computed from a pad count that was not checked against the group size on this path: a malformed marker wraps the byte and the slice panics instead of returning an error: "+a.w(w))
			})
			a.checkAt(n >= 1, fname(fn)+" real group size", a.fnPos(fn), "", "not found")
		}
	})
	extend("C20", "(R9) every exponential step is clamped to the kind's cap.", func(c *core.Ctx) {
		a := rule(c, "C20.R9")
		if fn := a.fn(pkgRetry, "", "expo"); fn != nil {
			for _, r := range returnsOf(fn) {
				d := descOf(c, r.Results[0])
				a.check(strings.Contains(d, "math.Min"), fname(fn)+" result is clamped", r, d, "a step ("+d+") is returned without min(cap, …): the first sleep can exceed the kind's cap")
			}
		}
	})
}
