package rules

import (
	"fmt"
	"go/token"
	"strings"

	"golang.org/x/tools/go/ssa"

	"verif/sa/core"
)

func init() {
	register("C16", &Spec{
		Title: "A pipelined transaction reads its flushed writes; each mutation is flushed once",
		Explanation: "Decides: (R1) read order: the flushing buffer is consulted only after the mutable buffer said not-found, the cache/store tier only after both, every hit is returned; batch get sends to the store exactly the keys both buffers missed; (R2) generations: one writer (+1 in Flush), the flush goroutine receives that value and the swapped-out buffer, is preceded by a receive of the previous flush's result unless nothing is in flight, always reports into errCh; every flush action / Flush request carries the generation it was started with (also on a re-split after a region error); (R3) the batch-get cache is dropped before anything else in every Flush that can proceed, and is written only by BatchGet; (R4) flush errors fail the transaction: a non-nil result of the previous flush is returned by Flush/FlushWait, execute() commits only after both succeeded and a non-empty range was recorded; (R5) flushed range: start/end are extended by comparing with the buffer's first/last key under an emptiness test and copied from them, resolve runs on [start, successor(end)), range walking observes the +∞ sentinel; (R6) outcome: flushed locks are committed only after the primary commit succeeded, with the transaction's commit ts (0 for rollback) and start ts, rollback waits for the in-flight flush first; the flush callback's op table equals the committer's. NOT decided: exactly-one-flush over schedules, store outcomes.",
		Run: runC16,
	})
}

func runC16(c *core.Ctx) {
	p := c.P
	pv := p.Prov()
	a0 := rule(c, "C16.anchors")
	get := a0.fn(pkgUnion, "PipelinedMemDB", "get")
	getFlags := a0.fn(pkgUnion, "PipelinedMemDB", "GetFlags")
	batchGet := a0.fn(pkgUnion, "PipelinedMemDB", "BatchGet")
	flush := a0.fn(pkgUnion, "PipelinedMemDB", "Flush")
	flushWait := a0.fn(pkgUnion, "PipelinedMemDB", "FlushWait")
	initP := a0.fn(pkgTxn, "KVTxn", "InitPipelinedMemDB")
	execute := a0.fn(pkgTxn, "twoPhaseCommitter", "execute")
	commitFlushed := a0.fn(pkgTxn, "twoPhaseCommitter", "commitFlushedMutations")
	resolveFlushed := a0.fn(pkgTxn, "twoPhaseCommitter", "resolveFlushedLocks")
	buildHandler := a0.fn(pkgTxn, "twoPhaseCommitter", "buildPipelinedResolveHandler")
	flushMut := a0.fn(pkgTxn, "twoPhaseCommitter", "pipelinedFlushMutations")
	flushBatch := a0.fn(pkgTxn, "actionPipelinedFlush", "handleSingleBatch")
	rollback := a0.fn(pkgTxn, "KVTxn", "Rollback")
	fGen := a0.field(pkgUnion, "PipelinedMemDB", "generation")
	fCache := a0.field(pkgUnion, "PipelinedMemDB", "batchGetCache")
	if a0.bad {
		return
	}
	descSet := func(v ssa.Value) string {
		ds := pv.Desc(v)
		sortStrs(ds)
		return strings.Join(ds, "|")
	}
	isMutableGet := func(in ssa.Instruction) bool {
		ci, ok := in.(ssa.CallInstruction)
		return ok && calleeName(ci) == "GetLocal" && descSet(ci.Common().Args[0]) == "fld(PipelinedMemDB.memDB,recv)"
	}
	isFlushingGet := func(in ssa.Instruction) bool {
		ci, ok := in.(ssa.CallInstruction)
		return ok && calleeName(ci) == "GetLocal" && descSet(ci.Common().Args[0]) == "fld(PipelinedMemDB.flushingMemDB,recv)"
	}
	isRemote := func(in ssa.Instruction) bool {
		ci, ok := in.(*ssa.Call)
		return ok && ci.Call.StaticCallee() == nil && !ci.Call.IsInvoke() && descSet(ci.Call.Value) == "fld(PipelinedMemDB.bufferBatchGetter,recv)"
	}
	isCacheLookup := func(in ssa.Instruction) bool {
		l, ok := in.(*ssa.Lookup)
		return ok && descSet(l.X) == "fld(PipelinedMemDB.batchGetCache,recv)"
	}
	find := func(fn *ssa.Function, m func(ssa.Instruction) bool) []ssa.Instruction {
		var out []ssa.Instruction
		core.Instrs(fn, func(in ssa.Instruction) {
			if m(in) {
				out = append(out, in)
			}
		})
		return out
	}
	notFoundEdge := func(e core.Edge) bool { return strings.HasPrefix(p.EdgeAtom(e), "T:call(error.IsErrNotFound)#0") }

	// ---- R1 read order --------------------------------------------------------------------------------------
	{
		a := rule(c, "C16.R1")
		mg, fg, rm, cl := find(get, isMutableGet), find(get, isFlushingGet), find(get, isRemote), find(get, isCacheLookup)
		a.checkAt(len(mg) == 1 && len(fg) == 1 && len(rm) == 1 && len(cl) == 1, fname(get)+" four tiers", a.fnPos(get), "", fmt.Sprintf("expected one read of each tier (mutable, flushing, cache, store), found %d/%d/%d/%d", len(mg), len(fg), len(rm), len(cl)))
		if len(mg) == 1 && len(fg) == 1 && len(rm) == 1 && len(cl) == 1 {
			// later tiers only after the earlier ones, and only over a not-found edge
			for _, later := range []struct {
				in   ssa.Instruction
				name string
			}{{fg[0], "flushing buffer"}, {cl[0], "batch-get cache"}, {rm[0], "store buffer tier"}} {
				g, w := core.MustPassBefore(get, later.in, isMutableGet)
				a.check(g, fname(get)+" "+later.name+" read after the mutable buffer", later.in, "", "a lower tier is read without asking the mutable buffer first: an older value can shadow the latest write: "+a.w(w))
				q := &core.Q{Fn: get, NoEdge: notFoundEdge}
				found, w2, _ := q.Reach(mg[0], func(in ssa.Instruction) bool { return in == later.in })
				a.check(!found, fname(get)+" "+later.name+" read only when the mutable buffer has no entry", later.in, "", "a lower tier is read although the mutable buffer answered (or failed): "+a.w(w2))
			}
			for _, later := range []struct {
				in   ssa.Instruction
				name string
			}{{cl[0], "batch-get cache"}, {rm[0], "store buffer tier"}} {
				// through the flushing buffer unless there is none
				q := &core.Q{Fn: get, NoPass: isFlushingGet, NoEdge: func(e core.Edge) bool {
					return p.EdgeAtom(e) == "T:(fld(PipelinedMemDB.flushingMemDB,recv) == nil)"
				}}
				found, w, _ := q.Reach(nil, func(in ssa.Instruction) bool { return in == later.in })
				a.check(!found, fname(get)+" "+later.name+" read after the flushing buffer", later.in, "", "the store tier/cache is read while a buffer is being flushed without asking that buffer: its writes are not yet (all) in the store: "+a.w(w))
				q2 := &core.Q{Fn: get, NoEdge: notFoundEdge}
				found2, w2, _ := q2.Reach(fg[0], func(in ssa.Instruction) bool { return in == later.in })
				a.check(!found2, fname(get)+" "+later.name+" read only when the flushing buffer has no entry", later.in, "", a.w(w2))
			}
			g, w := core.MustPassBefore(get, rm[0], isCacheLookup)
			_ = g
			_ = w
			// a hit is returned
			for _, r := range returnsOf(get) {
				if !isNil(r.Results[1]) {
					continue
				}
				d := descSet(r.Results[0])
				switch {
				case strings.Contains(d, "GetLocal)#0[fld(PipelinedMemDB.memDB,recv)]"):
					g, w := p.GuardedByAtom(get, r, "T:(call(*GetLocal)#1[fld(PipelinedMemDB.memDB,recv)] == nil)")
					a.check(g, fname(get)+" returns the mutable buffer's value on a hit", r, "", a.w(w))
				case strings.Contains(d, "GetLocal)#0[fld(PipelinedMemDB.flushingMemDB,recv)]"):
					g, w := p.GuardedByAtom(get, r, "T:(call(*GetLocal)#1[fld(PipelinedMemDB.flushingMemDB,recv)] == nil)")
					a.check(g, fname(get)+" returns the flushing buffer's value on a hit", r, "", a.w(w))
				case strings.Contains(d, "batchGetCache") || strings.Contains(d, "ValueEntry.Value"):
					a.ok(fname(get)+" returns the cached/store value", r, d)
				default:
					a.viol(fname(get)+" success value", r, "a value of unknown origin is returned: "+d)
				}
			}
			// an error other than not-found of the mutable buffer is returned, not swallowed
			for _, in := range []ssa.Instruction{mg[0], fg[0]} {
				q := &core.Q{Fn: get, NoEdge: func(e core.Edge) bool {
					at := p.EdgeAtom(e)
					return strings.HasPrefix(at, "T:call(error.IsErrNotFound)#0") || strings.HasPrefix(at, "T:(call(") && strings.Contains(at, "GetLocal)#1[") && strings.HasSuffix(at, "== nil)")
				}}
				found, w, hit := q.Reach(in, func(x ssa.Instruction) bool {
					if x == in {
						return false
					}
					return isFlushingGet(x) || isRemote(x) || isCacheLookup(x)
				})
				if found {
					a.viol(fname(get)+" buffer errors are surfaced", hit, "a buffer error other than not-found falls through to the next tier: "+a.w(w))
				} else {
					a.ok(fname(get)+" buffer errors are surfaced", in, "")
				}
			}
		}
		// GetFlags: flushing consulted only on not-found of the mutable buffer
		for _, in := range find(getFlags, func(in ssa.Instruction) bool {
			ci, ok := in.(ssa.CallInstruction)
			return ok && calleeName(ci) == "GetFlags" && descSet(ci.Common().Args[0]) == "fld(PipelinedMemDB.flushingMemDB,recv)"
		}) {
			g, w := p.GuardedByAtom(getFlags, in, "T:call(error.IsErrNotFound)#0")
			a.check(g, fname(getFlags)+" flushing flags only when the mutable buffer has no entry", in, "", a.w(w))
			g2, w2 := core.MustPassBefore(getFlags, in, func(x ssa.Instruction) bool {
				ci, ok := x.(ssa.CallInstruction)
				return ok && calleeName(ci) == "GetFlags" && descSet(ci.Common().Args[0]) == "fld(PipelinedMemDB.memDB,recv)"
			})
			a.check(g2, fname(getFlags)+" mutable flags first", in, "", a.w(w2))
		}
		// BatchGet: local tiers through GetLocal, store asked for exactly the missed keys
		{
			gl := core.FindCalls(batchGet, core.CallsMethodNamed("GetLocal", ""))
			a.checkAt(len(gl) == 1, fname(batchGet)+" reads both buffers per key", a.fnPos(batchGet), "", "local read not found")
			for _, in := range find(batchGet, isRemote) {
				d := descSet(in.(*ssa.Call).Call.Args[1])
				a.check(strings.HasPrefix(d, "append(") || strings.Contains(d, "makeslice"), fname(batchGet)+" asks the store for the missed keys", in, d, "the store is not asked for the keys the buffers missed: "+d)
			}
			// keys are added to the store list only on not-found; other errors return
			core.Instrs(batchGet, func(in ssa.Instruction) {
				cl, ok := in.(*ssa.Call)
				if !ok {
					return
				}
				if b, ok := cl.Call.Value.(*ssa.Builtin); !ok || b.Name() != "append" || cl.Type().String() != "[][]byte" {
					return
				}
				g, w := p.GuardedByAtom(batchGet, in, "T:call(error.IsErrNotFound)#0")
				a.check(g, fname(batchGet)+" only missed keys go to the store", in, "", a.w(w))
			})
			for _, st := range find(batchGet, func(in ssa.Instruction) bool {
				mu, ok := in.(*ssa.MapUpdate)
				return ok && mu.Map.Type().String() == "map[string]"+core.ModPath+"/kv.ValueEntry"
			}) {
				mu := st.(*ssa.MapUpdate)
				d := descSet(mu.Value)
				_ = d
			}
		}
	}

	// ---- R2 generations / one in flight ----------------------------------------------------------------------------
	{
		a := rule(c, "C16.R2")
		for _, w := range p.WritersOf(fGen) {
			switch {
			case ownerOf(c, w.Fn) == flush:
				d := descSet(w.Val)
				a.check(d == "(fld(PipelinedMemDB.generation,recv) + const(1))", fname(flush)+" generation += 1", w.Instr, d, "the generation is not advanced by exactly one per flush: "+d)
			case fname(w.Fn) == "internal/unionstore.NewPipelinedMemDB":
				a.ok("generation starts at 0", w.Instr, "")
			default:
				a.viol("PipelinedMemDB.generation writer "+fname(w.Fn), w.Instr, "the flush generation is written outside Flush")
			}
		}
		var goes []*ssa.Go
		core.Instrs(flush, func(in ssa.Instruction) {
			if g, ok := in.(*ssa.Go); ok {
				goes = append(goes, g)
			}
		})
		a.checkAt(len(goes) == 1, fname(flush)+" starts one flush goroutine", a.fnPos(flush), "", fmt.Sprintf("found %d", len(goes)))
		isRecvErrCh := func(in ssa.Instruction) bool {
			u, ok := in.(*ssa.UnOp)
			return ok && u.Op == token.ARROW && descSet(u.X) == "fld(PipelinedMemDB.errCh,recv)"
		}
		for _, g := range goes {
			okk, w, _ := condMust(c, flush, nil, func(in ssa.Instruction) bool { return in == ssa.Instruction(g) }, isRecvErrCh, []string{"T:(fld(PipelinedMemDB.flushingMemDB,recv) == nil)"})
			a.check(okk, fname(flush)+" waits for the previous flush before starting the next", g, "", "a flush is started while the previous one may still be running: two flushes in flight / generations overlap: "+a.w(w))
			for _, pre := range []struct {
				m    func(ssa.Instruction) bool
				name string
			}{
				{isStoreTo(c, "PipelinedMemDB.generation", ""), "generation advanced"},
				{isStoreTo(c, "PipelinedMemDB.flushingMemDB", "fld(PipelinedMemDB.memDB,recv)"), "mutable buffer becomes the flushing buffer"},
				{isStoreTo(c, "PipelinedMemDB.memDB", "*NewMemDB*"), "fresh mutable buffer installed"},
			} {
				ok2, w2 := core.MustPassBefore(flush, g, pre.m)
				a.check(ok2, fname(flush)+" "+pre.name+" before the flush starts", g, "", a.w(w2))
			}
			// swap order: flushing = memDB happens before memDB = new
			for _, st := range find(flush, isStoreTo(c, "PipelinedMemDB.memDB", "*NewMemDB*")) {
				ok3, w3 := core.MustPassBefore(flush, st, isStoreTo(c, "PipelinedMemDB.flushingMemDB", "fld(PipelinedMemDB.memDB,recv)"))
				a.check(ok3, fname(flush)+" the old buffer is kept as flushing before it is replaced", st, "", "the mutable buffer is replaced before it was made the flushing buffer: its mutations are never flushed: "+a.w(w3))
			}
			// the goroutine's generation argument is the advanced generation
			args := g.Call.Args
			if len(args) >= 1 {
				d := descSet(args[len(args)-1])
				a.check(d == "fld(PipelinedMemDB.generation,recv)" || d == "(fld(PipelinedMemDB.generation,recv) + const(1))", fname(flush)+" the flush gets the new generation", g, d, "the flush goroutine does not receive the advanced generation: "+d)
			}
			cl, _ := g.Call.Value.(*ssa.MakeClosure)
			if cl == nil {
				a.undAt(fname(flush)+" flush goroutine body", p.InstrPos(g), "goroutine is not a closure")
				continue
			}
			body := cl.Fn.(*ssa.Function)
			var ff []*ssa.Call
			core.Instrs(body, func(in ssa.Instruction) {
				if ci, ok := in.(*ssa.Call); ok && ci.Call.StaticCallee() == nil && !ci.Call.IsInvoke() && strings.Contains(descSet(ci.Call.Value), "PipelinedMemDB.flushFunc") {
					ff = append(ff, ci)
				}
			})
			a.checkAt(len(ff) == 1, fname(body)+" calls the flush function once", a.fnPos(body), "", fmt.Sprintf("found %d", len(ff)))
			for _, f := range ff {
				d0, d1 := descSet(f.Call.Args[0]), descSet(f.Call.Args[1])
				a.check(d0 == "param#0", fname(body)+" passes its generation", f, d0, "the flush function gets a generation other than the one this flush was started with: "+d0)
				a.check(strings.Contains(d1, "PipelinedMemDB.flushingMemDB"), fname(body)+" flushes the flushing buffer", f, d1, "the flush function is given a buffer other than the swapped-out one: "+d1)
				okk, w, hit := core.MustPassAfter(body, f, func(in ssa.Instruction) bool {
					s, ok := in.(*ssa.Send)
					return ok && strings.Contains(descSet(s.Chan), "PipelinedMemDB.errCh")
				}, core.IsReturn, nil)
				if okk {
					a.ok(fname(body)+" always reports the flush result", f, "")
				} else {
					a.viol(fname(body)+" always reports the flush result", hit, "the flush goroutine can finish without sending its result: the next Flush/FlushWait blocks forever or misses the error: "+a.w(w))
				}
			}
			core.Instrs(body, func(in ssa.Instruction) {
				if s, ok := in.(*ssa.Send); ok {
					d := descSet(s.X)
					a.check(strings.HasPrefix(d, "dyncall(") && strings.Contains(d, "flushFunc"), fname(body)+" reports the flush function's error", in, d, "the value sent to errCh is not the flush function's result: "+d)
				}
			})
		}
		// the generation travels unchanged into every Flush request
		n := 0
		for _, fn := range pkgFuncs(c, pkgTxn) {
			if isProbe(c, fn) || strings.HasSuffix(p.Fset.Position(fn.Pos()).Filename, "_test.go") {
				continue
			}
			core.Instrs(fn, func(in ssa.Instruction) {
				mi, ok := in.(*ssa.MakeInterface)
				if !ok || !strings.HasSuffix(mi.X.Type().String(), "transaction.actionPipelinedFlush") {
					return
				}
				n++
				d := descSet(mi.X)
				okk := false
				switch {
				case fn == flushMut:
					okk = strings.Contains(d, "param#2") || descHas(c, mi.X, "param#2")
				default:
					okk = strings.Contains(d, "fld(actionPipelinedFlush.generation,")
				}
				// a struct value: look at the stores into its alloc
				if !okk {
					if u, ok := mi.X.(*ssa.UnOp); ok {
						if al, ok := u.X.(*ssa.Alloc); ok {
							for _, ref := range *al.Referrers() {
								if fa, ok := ref.(*ssa.FieldAddr); ok {
									for _, r2 := range *fa.Referrers() {
										if st, ok := r2.(*ssa.Store); ok {
											ds := descSet(st.Val)
											if (fn == flushMut && ds == "param#2") || strings.Contains(ds, "fld(actionPipelinedFlush.generation,") {
												okk = true
											}
										}
									}
								}
							}
						}
					}
				}
				a.check(okk, fname(fn)+" flush action keeps the generation", in, d, "a flush action is created without the generation of the flush it belongs to (e.g. on a re-split after a region error): the store sees generation 0 / a stale generation: "+d)
			})
		}
		a.checkAt(n >= 2, "flush action construction sites", "-", fmt.Sprint(n), "construction sites not found")
		for _, ci := range core.FindCalls(flushBatch, core.CallsMethodNamed("buildPipelinedFlushRequest", "")) {
			d := descSet(ci.Common().Args[2])
			a.check(strings.HasPrefix(d, "fld(actionPipelinedFlush.generation,"), fname(flushBatch)+" request generation = action generation", ci, d, d)
		}
		a2 := rule(c, "C16.R2")
		if f := a2.extField(kvrpcpb, "FlushRequest", "Generation"); f != nil {
			for _, w := range prodWriters(c, f) {
				d := descSet(w.Val)
				a2.check(d == "param#1", "FlushRequest.Generation ← the builder's generation argument", w.Instr, d, d)
			}
		}
		for _, cs := range p.CallersOf(initP) {
			_ = cs
		}
		// the flush callback forwards its generation
		for _, an := range core.FuncsIn(initP) {
			for _, ci := range core.FindCalls(an, core.CallsMethodNamed("pipelinedFlushMutations", "")) {
				d := descSet(ci.Common().Args[3])
				a.check(d == "param#0", fname(an)+" flushes with the generation it was called with", ci, d, d)
			}
		}
	}

	// ---- R3 cache reset --------------------------------------------------------------------------------------------------
	{
		a := rule(c, "C16.R3")
		okk, w, hit := condMust(c, flush, nil, func(in ssa.Instruction) bool {
			if _, ok := in.(*ssa.Return); ok {
				return true
			}
			if ci, ok := in.(ssa.CallInstruction); ok {
				n := calleeName(ci)
				return n == "IsStaging" || n == "needFlush"
			}
			return false
		}, isStoreTo(c, "PipelinedMemDB.batchGetCache", "nil"), []string{"T:(fld(PipelinedMemDB.flushFunc,recv) == nil)"})
		if okk {
			a.okAt(fname(flush)+" drops the batch-get cache first", a.fnPos(flush), "")
		} else {
			a.viol(fname(flush)+" drops the batch-get cache first", hit, "Flush can proceed (or decide not to flush) without dropping the batch-get cache: entries cached from the local buffers shadow later writes: "+a.w(w))
		}
		for _, wr := range p.WritersOf(fCache) {
			switch {
			case wr.Fn == flush && isNil(wr.Val), wr.Fn == batchGet:
				a.ok("batchGetCache writer "+fname(wr.Fn), wr.Instr, "")
			case fname(wr.Fn) == "internal/unionstore.NewPipelinedMemDB":
			default:
				a.viol("batchGetCache writer "+fname(wr.Fn), wr.Instr, "the batch-get cache is replaced outside Flush/BatchGet")
			}
		}
		for _, fn := range pkgFuncs(c, pkgUnion) {
			core.Instrs(fn, func(in ssa.Instruction) {
				if mu, ok := in.(*ssa.MapUpdate); ok && strings.Contains(descSet(mu.Map), "PipelinedMemDB.batchGetCache") {
					a.check(fn == batchGet, "batchGetCache entry written by "+fname(fn), in, "", "cache entries are written outside BatchGet")
				}
			})
		}
	}

	// ---- R4 flush errors fail the transaction --------------------------------------------------------------------------------
	{
		a := rule(c, "C16.R4")
		recvAtomNil := "T:(<-(fld(PipelinedMemDB.errCh,recv)) == nil)"
		for _, st := range find(flush, isStoreTo(c, "PipelinedMemDB.flushingMemDB", "fld(PipelinedMemDB.memDB,recv)")) {
			q := &core.Q{Fn: flush, NoEdge: func(e core.Edge) bool { return p.EdgeAtom(e) == recvAtomNil }}
			for _, rc := range find(flush, func(in ssa.Instruction) bool {
				u, ok := in.(*ssa.UnOp)
				return ok && u.Op == token.ARROW
			}) {
				found, w, _ := q.Reach(rc, func(in ssa.Instruction) bool { return in == st })
				a.check(!found, fname(flush)+" a failed previous flush stops the next one", st, "", "the next flush starts although the previous one reported an error: its writes are lost silently: "+a.w(w))
			}
		}
		for _, r := range returnsOf(flush) {
			if g, _ := p.GuardedByAtom(flush, r, "F:(<-(fld(PipelinedMemDB.errCh,recv)) == nil)"); g {
				d := descSet(r.Results[1])
				a.check(strings.Contains(d, "handleAlreadyExistErr)#0") || strings.Contains(d, "<-("), fname(flush)+" returns the previous flush's error", r, d, "the error of the previous flush is not returned: "+d)
			}
		}
		nfw := 0
		for _, r := range returnsOf(flushWait) {
			if g, _ := p.GuardedByAtom(flushWait, r, "F:(fld(PipelinedMemDB.flushingMemDB,recv) == nil)"); g {
				nfw++
				ds := pv.Desc(r.Results[0])
				okk := len(ds) > 0
				for _, d := range ds {
					if !strings.Contains(d, "handleAlreadyExistErr)#0") && !strings.HasPrefix(d, "<-(fld(PipelinedMemDB.errCh,recv))") {
						okk = false
					}
				}
				a.check(okk, fname(flushWait)+" returns the in-flight flush's result", r, strings.Join(ds, "|"), "FlushWait does not return the result received from the flush: "+strings.Join(ds, "|"))
			}
		}
		a.checkAt(nfw >= 1, fname(flushWait)+" waits when a flush is in flight", a.fnPos(flushWait), "", "wait path not found")
		// handleAlreadyExistErr never turns an error into nil
		if h := p.Func(pkgUnion, "PipelinedMemDB", "handleAlreadyExistErr"); h != nil {
			for _, r := range returnsOf(h) {
				a.check(!isNil(r.Results[0]), fname(h)+" keeps the error", r, "", "a flush error is converted to success")
			}
		}
		guardTable(c, "C16.R4", []gRow{
			{Fn: [3]string{pkgTxn, "twoPhaseCommitter", "execute"}, Target: "call:commitFlushedMutations", Facts: []string{
				"T:(invoke(unionstore.MemBuffer.Flush)#1[*] == nil)", "T:(invoke(unionstore.MemBuffer.FlushWait)#0[*] == nil)",
				"F:(const(0) == len(fld(struct.pipelinedStart,*)))", "F:(const(0) == len(fld(struct.pipelinedEnd,*)))"}, Min: 1,
				Why: "commit only after the final flush was started and finished without error, with a recorded range"},
		})
		for _, ci := range core.FindCalls(execute, core.CallsMethodNamed("Flush", "")) {
			d := descSet(ci.Common().Args[0])
			a.check(d == "const(true)", fname(execute)+" forces the final flush", ci, d, "the final flush before commit is not forced: a small remainder of the buffer is never flushed")
			_ = d
		}
		for _, ci := range core.FindCalls(execute, core.CallsMethodNamed("FlushWait", "")) {
			g, w := core.MustPassBefore(execute, ci, isCallNamed("Flush"))
			a.check(g, fname(execute)+" final flush before waiting", ci, "", a.w(w))
		}
		// flush callback: a failed flush closes the ttl manager (the txn cannot commit later)
	}

	// ---- R5 flushed range ------------------------------------------------------------------------------------------------------
	{
		a := rule(c, "C16.R5")
		var cb *ssa.Function
		for _, an := range core.FuncsIn(initP) {
			if len(core.FindCalls(an, core.CallsMethodNamed("pipelinedFlushMutations", ""))) > 0 {
				cb = an
			}
		}
		if cb == nil {
			a.undAt(fname(initP)+" flush callback", a.fnPos(initP), "flush callback not found")
		} else {
			for _, spec := range []struct {
				field, iter, okAtom, name string
			}{
				{"struct.pipelinedStart", "IterWithFlags)#0", "F:(call(bytes.Compare)#0 < const(1))", "smallest flushed key"},
				{"struct.pipelinedEnd", "IterReverseWithFlags)#0", "T:(call(bytes.Compare)#0 < const(0))", "largest flushed key"},
			} {
				// the comparison of the recorded bound with this flush's bound, in any spelling: (x < y) xor neg
				type cmpForm struct {
					cl           *ssa.Call
					field, other ssa.Value
				}
				var cmps []cmpForm
				// extends(v): v is the test; second result = truth of "the new key extends the range" when v is true
				extends := func(v ssa.Value) (bool, bool) {
					x, y, neg, ok, _ := bytesLess(v)
					if !ok {
						return false, false
					}
					fx, fy := strings.Contains(descSet(x), spec.field+","), strings.Contains(descSet(y), spec.field+",")
					if fx == fy {
						return false, false
					}
					// start: extends ⇔ other < field; end: extends ⇔ field < other
					wantFieldRight := spec.field == "struct.pipelinedStart"
					if fy == wantFieldRight {
						return true, !neg
					}
					return false, false // the converse comparison (≤) does not decide "extends"
				}
				core.Instrs(cb, func(in ssa.Instruction) {
					if cl, ok := in.(*ssa.Call); ok && cl.Call.StaticCallee() != nil && cl.Call.StaticCallee().String() == "bytes.Compare" {
						f0, f1 := strings.Contains(descSet(cl.Call.Args[0]), spec.field+","), strings.Contains(descSet(cl.Call.Args[1]), spec.field+",")
						switch {
						case f0 && !f1:
							cmps = append(cmps, cmpForm{cl, cl.Call.Args[0], cl.Call.Args[1]})
						case f1 && !f0:
							cmps = append(cmps, cmpForm{cl, cl.Call.Args[1], cl.Call.Args[0]})
						}
					}
				})
				a.checkAt(len(cmps) == 1, fname(cb)+" compares "+spec.field+" with the buffer's bound", a.fnPos(cb), "", fmt.Sprintf("found %d comparisons", len(cmps)))
				for _, cf := range cmps {
					cl := cf.cl
					d := descSet(cf.other)
					a.check(strings.Contains(d, spec.iter) && strings.Contains(d, "Key)#0"), fname(cb)+" "+spec.field+" compared with the "+spec.name+" of this flush", cl, d, "the recorded range bound is compared with the wrong key: the range may not cover every flushed key: "+d)
					g, how := emptinessGuarded(c, cb, cl, cf.field, descSet(cf.field))
					a.check(g, fname(cb)+" "+spec.field+" emptiness tested before comparing", cl, how, "unset bound compared: "+how)
				}
				sts := storesToFieldNamed(cb, spec.field)
				a.checkAt(len(sts) == 1, fname(cb)+" updates "+spec.field, a.fnPos(cb), "", "update not found")
				for _, st := range sts {
					// reachable only when unset or the comparison says the new key extends the range
					q := &core.Q{Fn: cb, NoEdge: func(e core.Edge) bool {
						if m, t := core.EdgeTruth(e, extends); m && t {
							return true
						}
						at := p.EdgeAtom(e)
						return strings.HasPrefix(at, "T:(const(0) == len(fld("+spec.field+",") || strings.HasPrefix(at, "T:(len(fld("+spec.field+",") && strings.HasSuffix(at, "< const(1))")
					}}
					found, w, _ := q.Reach(nil, func(in ssa.Instruction) bool { return in == st })
					a.check(!found, fname(cb)+" "+spec.field+" only extended", st, "", "the recorded range bound can be replaced by a key that does not extend the range: "+a.w(w))
				}
				// copy source
				n := 0
				core.Instrs(cb, func(in ssa.Instruction) {
					cl, ok := in.(*ssa.Call)
					if !ok {
						return
					}
					if b, ok := cl.Call.Value.(*ssa.Builtin); !ok || b.Name() != "copy" {
						return
					}
					if !strings.Contains(descSet(cl.Call.Args[0]), spec.field+",") {
						return
					}
					n++
					d := descSet(cl.Call.Args[1])
					a.check(strings.Contains(d, spec.iter) && strings.Contains(d, "Key)#0"), fname(cb)+" "+spec.field+" copied from the "+spec.name, cl, d, "the bound is copied from the wrong key: "+d)
				})
				a.checkAt(n == 1, fname(cb)+" copies "+spec.field, a.fnPos(cb), "", "copy not found")
			}
			// the bounds are recorded before anything is flushed
			for _, ci := range core.FindCalls(cb, core.CallsMethodNamed("pipelinedFlushMutations", "")) {
				for _, f := range []string{"struct.pipelinedStart", "struct.pipelinedEnd"} {
					q := &core.Q{Fn: cb, NoPass: func(in ssa.Instruction) bool {
						cl, ok := in.(*ssa.Call)
						return ok && cl.Call.StaticCallee() != nil && cl.Call.StaticCallee().String() == "bytes.Compare" && (strings.Contains(descSet(cl.Call.Args[0]), f+",") || strings.Contains(descSet(cl.Call.Args[1]), f+","))
					}, NoEdge: func(e core.Edge) bool {
						at := p.EdgeAtom(e)
						return strings.HasPrefix(at, "T:(const(0) == len(fld("+f+",")
					}}
					found, w, _ := q.Reach(nil, func(in ssa.Instruction) bool { return in == ssa.Instruction(ci) })
					a.check(!found, fname(cb)+" "+f+" considered before flushing", ci, "", "mutations are flushed without first extending the recorded range: "+a.w(w))
				}
			}
		}
		// resolve range = [start, successor(end))
		n := 0
		for _, fn := range core.FuncsIn(resolveFlushed) {
			for _, ci := range core.FindCalls(fn, core.CallsMethodNamed("RunOnRange", "")) {
				n++
				ds, de := descSet(ci.Common().Args[2]), descSet(ci.Common().Args[3])
				a.check(ds == "param#1", fname(fn)+" range starts at the smallest flushed key", ci, ds, ds)
				a.check(de == "call(kv.NextKey)#0", fname(fn)+" range end is exclusive: successor of the largest flushed key", ci, de, "the largest flushed key is passed as the EXCLUSIVE end of the range task: the lock on that key (on a region border: a whole region) is never resolved: "+de)
				if cl, ok := core.Strip(ci.Common().Args[3]).(*ssa.Call); ok {
					dn := descSet(cl.Call.Args[0])
					a.check(dn == "param#2", fname(fn)+" successor of the end parameter", ci, dn, dn)
				}
			}
		}
		a.checkAt(n == 1, fname(resolveFlushed)+" runs the range task", a.fnPos(resolveFlushed), "", "RunOnRange not found")
		for _, fn := range []*ssa.Function{commitFlushed, rollback} {
			for _, ci := range core.FindCalls(fn, core.CallsMethodNamed("resolveFlushedLocks", "")) {
				ds, de := descSet(ci.Common().Args[2]), descSet(ci.Common().Args[3])
				a.check(strings.Contains(ds, "struct.pipelinedStart") && strings.Contains(de, "struct.pipelinedEnd"), fname(fn)+" resolves [pipelinedStart, pipelinedEnd]", ci, "", "start/end swapped or foreign: "+ds+" / "+de)
			}
		}
		var fns []*ssa.Function
		fns = append(fns, core.FuncsIn(buildHandler)...)
		sentinelRule(c, "C16.R5", fns, map[string]string{
			"(*txnkv/transaction.twoPhaseCommitter).buildPipelinedResolveHandler$1#fld(KeyRange.EndKey,new(kv.KeyRange))": "the task range's end is successor(largest flushed key) (checked above: RunOnRange end = kv.NextKey(end)) or an inner task boundary, never the empty +∞ sentinel",
		}, 1)
		// handler cursor
		for _, fn := range core.FuncsIn(buildHandler) {
			for _, ci := range core.FindCalls(fn, core.CallsMethodNamed("LocateKey", "")) {
				d := descSet(ci.Common().Args[2])
				a.check(strings.Contains(d, "fld(KeyRange.StartKey,") && strings.Contains(d, "fld(KeyLocation.EndKey,"), fname(fn)+" walks the range region by region", ci, d, "the resolve handler's cursor is not (range start | end of the region just resolved): "+d)
			}
		}
	}

	// ---- R6 outcome -------------------------------------------------------------------------------------------------------------
	{
		a := rule(c, "C16.R6")
		guardTable(c, "C16.R6", []gRow{
			{Fn: [3]string{pkgTxn, "twoPhaseCommitter", "commitFlushedMutations"}, Target: "call:resolveFlushedLocks", Facts: []string{"T:(call((*txnkv/transaction.twoPhaseCommitter).commitMutations)#0[recv] == nil)"}, Min: 1,
				Why: "secondaries are committed only after the primary commit succeeded"},
		})
		for _, ci := range core.FindCalls(commitFlushed, core.CallsMethodNamed("resolveFlushedLocks", "")) {
			d := descSet(ci.Common().Args[4])
			a.check(d == "const(true)", fname(commitFlushed)+" resolves to commit", ci, d, d)
			g, w := core.MustPassBefore(commitFlushed, ci, isCallNamed("commitMutations"))
			a.check(g, fname(commitFlushed)+" primary first", ci, "", a.w(w))
		}
		for _, ci := range core.FindCalls(commitFlushed, core.CallsMethodNamed("Push", "")) {
			d0, d1 := descSet(ci.Common().Args[1]), descSet(ci.Common().Args[2])
			a.check(strings.Contains(d0, "struct.primaryOp") && d1 == "fld(twoPhaseCommitter.primaryKey,recv)", fname(commitFlushed)+" commits the primary key with its op", ci, "", d0+" / "+d1)
		}
		for _, ci := range core.FindCalls(rollback, core.CallsMethodNamed("resolveFlushedLocks", "")) {
			d := descSet(ci.Common().Args[4])
			a.check(d == "const(false)", fname(rollback)+" resolves to rollback", ci, d, d)
			g, w := core.MustPassBefore(rollback, ci, isCallNamed("FlushWait"))
			a.check(g, fname(rollback)+" waits for the in-flight flush before rolling back", ci, "", "locks written by a flush still in flight would be missed: "+a.w(w))
		}
		// ResolveLockRequest of the handler
		for _, fn := range core.FuncsIn(buildHandler) {
			for _, st := range storesToFieldNamed(fn, "ResolveLockRequest.StartVersion") {
				d := descSet(st.(*ssa.Store).Val)
				a.check(strings.HasPrefix(d, "fld(twoPhaseCommitter.startTS,"), fname(fn)+" resolves this transaction", st, d, d)
			}
			for _, st := range storesToFieldNamed(fn, "ResolveLockRequest.CommitVersion") {
				ds := descInter(c, fn, st.(*ssa.Store).Val, 1)
				okk := len(ds) > 0
				for _, d := range ds {
					if d != "const(0)" && !strings.Contains(d, "twoPhaseCommitter.commitTS") && d != "call(sync/atomic.LoadUint64)#0" {
						okk = false
					}
				}
				a.check(okk, fname(fn)+" commit version is 0 or the commit ts", st, strings.Join(ds, "|"), "flushed locks are resolved with a version other than 0 / the transaction's commit ts: "+strings.Join(ds, "|"))
			}
		}
		// commitVersion = commitTS only when committing
		core.Instrs(buildHandler, func(in ssa.Instruction) {
			if ci, ok := in.(ssa.CallInstruction); ok && calleeName(ci) == "LoadUint64" && strings.Contains(descSet(ci.Common().Args[0]), "twoPhaseCommitter.commitTS") {
				g, w := p.GuardedByAtom(buildHandler, in, "T:param#0")
				a.check(g, fname(buildHandler)+" commit ts used only when committing", in, "", a.w(w))
			}
		})
		pipelinedOpTable(c, "C16.R6", initP)
	}
}

// pipelinedOpTable: the flush callback's decision "buffer entry → op / skip", walked for every
// valuation of its atoms and compared with the committer's table (no filter, optimistic).
func pipelinedOpTable(c *core.Ctx, ruleID string, initP *ssa.Function) {
	a := rule(c, ruleID)
	var cb *ssa.Function
	for _, an := range core.FuncsIn(initP) {
		if len(core.FindCalls(an, core.CallsMethodNamed("pipelinedFlushMutations", ""))) > 0 {
			cb = an
		}
	}
	if cb == nil {
		return
	}
	opPut := constInt(c, kvrpcpb, "Op_Put")
	opDel := constInt(c, kvrpcpb, "Op_Del")
	opLock := constInt(c, kvrpcpb, "Op_Lock")
	opInsert := constInt(c, kvrpcpb, "Op_Insert")
	opCNE := constInt(c, kvrpcpb, "Op_CheckNotExists")
	names := map[int64]string{-1: "skip", opPut: "Put", opDel: "Del", opLock: "Lock", opInsert: "Insert", opCNE: "CheckNotExists"}
	type atom struct {
		name string
		p    core.Pred
	}
	atoms := []atom{
		{"hasValue", core.PTrue(core.IsCallNamed("HasValue"))},
		{"len(value)>0", core.PCmp(tokGTR, core.IsLenOf(core.IsCallNamed("Value")), core.IsIntConst(0))},
		{"locked", core.PTrue(core.IsCallNamed("HasLocked"))},
		{"presumeNotExists", core.PTrue(core.IsCallNamed("HasPresumeKeyNotExists"))},
		{"newlyInserted", core.PTrue(core.IsCallNamed("HasNewlyInserted"))},
	}
	starts := core.FindCalls(cb, core.CallsMethodNamed("HasValue", ""))
	if len(starts) != 1 {
		a.violAt(fname(cb)+" loop body", a.fnPos(cb), fmt.Sprintf("expected one HasValue() test per buffer entry, found %d", len(starts)))
		return
	}
	isPush := core.InstrIs(core.CallsMethodNamed("Push", "memBufferMutations"))
	isNext := core.InstrIs(core.CallsMethodNamed("Next", ""))
	expected := func(v []bool) int64 {
		hasValue, lenPos, locked, presume, newly := v[0], v[1], v[2], v[3], v[4]
		lockOrSkip := func() int64 {
			if locked {
				return opLock
			}
			return -1
		}
		switch {
		case !hasValue:
			return lockOrSkip()
		case lenPos && presume:
			return opInsert
		case lenPos:
			return opPut
		case presume:
			return opCNE
		case newly:
			return lockOrSkip()
		}
		return opDel
	}
	bad, checked := 0, 0
	for m := 0; m < 1<<len(atoms); m++ {
		v := make([]bool, len(atoms))
		for i := range atoms {
			v[i] = m&(1<<i) != 0
		}
		if !v[0] && v[1] {
			continue
		}
		checked++
		q := &core.Q{Fn: cb, NoEdge: func(e core.Edge) bool {
			for i, at := range atoms {
				if mm, t := core.EdgeTruth(e, at.p); mm && t != v[i] {
					return true
				}
			}
			return false
		}}
		found, _, hit := q.Reach(starts[0], func(in ssa.Instruction) bool { return isPush(in) || isNext(in) })
		got := int64(-1)
		if !found {
			got = -99
		} else if isPush(hit) {
			opv := core.Strip(core.PhiAlong(argOf(hit.(ssa.CallInstruction), 0), q.LastBlocks))
			if cst, ok := opv.(*ssa.Const); ok {
				got = cst.Int64()
			} else {
				got = -98
			}
		}
		if want := expected(v); got != want {
			bad++
			if bad <= 4 {
				desc := ""
				for i, at := range atoms {
					desc += fmt.Sprintf("%s=%v ", at.name, v[i])
				}
				a.viol(fname(cb)+" decision table", starts[0], fmt.Sprintf("for a buffer entry with %s the flush does `%s`, expected `%s` (same table as the two-phase committer)", desc, names[got], names[want]))
			}
		}
	}
	if bad == 0 {
		a.ok(fname(cb)+" decision table", starts[0], fmt.Sprintf("%d flag valuations walked", checked))
	}
}
