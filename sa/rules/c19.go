package rules

import (
	"fmt"
	"go/constant"
	"go/token"
	"strings"

	"golang.org/x/tools/go/ssa"

	"verif/sa/core"
)

func init() {
	register("C19", &Spec{
		Title: "Memory-comparable encodings",
		Explanation: "Decides: (R1) every decoder's nil-error return hands back a strict suffix of its input (it consumes at least one byte); (R2) encoder/decoder pairs are structurally symmetric: same width and byte order, the sign-mask XOR with one constant on both sides, complement on both sides of the descending forms, and the comparable-varint single-byte range / tag constants agree between encoder and decoder (integer comparisons normalised, so `x <= 247` ≡ `x < 248`); (R3) malformed input is rejected, not panicked on: every constant or length-checked slice/index of the input in a decoder is dominated by a length test that covers it. NOT decided: order preservation and round-trip equality (value-level).",
		Run: runC19,
	})
}

func runC19(c *core.Ctx) {
	p := c.P
	sp := p.Pkg(pkgCodec)
	a0 := rule(c, "C19.anchors")
	if sp == nil {
		a0.undAt("package util/codec", "-", "package not loaded")
		return
	}
	var decoders []*ssa.Function
	for _, fn := range p.Funcs {
		if fn.Pkg == sp && fn.Parent() == nil && (strings.HasPrefix(fn.Name(), "Decode") || fn.Name() == "decodeBytes") && fn.Signature.Results().Len() == 3 {
			decoders = append(decoders, fn)
		}
	}
	a0.checkAt(len(decoders) >= 10, "decoders of util/codec", "-", fmt.Sprint(len(decoders)), "fewer decoders found than confirmed by hand")

	// ---- R1 decoders consume -----------------------------------------------------------------------
	{
		a := rule(c, "C19.R1")
		for _, fn := range decoders {
			n := 0
			for _, r := range returnsOf(fn) {
				if len(r.Results) != 3 || !isNil(r.Results[2]) {
					continue
				}
				n++
				ds := p.Prov().Desc(r.Results[0])
				okk := len(ds) >= 1
				for _, d := range ds {
					switch {
					case d == "call(util/codec.decodeBytes)#0":
					case strings.HasPrefix(d, "slice("):
						// slice(X,lo,hi): lo must be present and not const(0)
						inner := strings.TrimSuffix(strings.TrimPrefix(d, "slice("), ")")
						parts := splitTop(inner)
						if len(parts) < 3 || parts[1] == "" || parts[1] == "const(0)" {
							okk = false
						}
					default:
						okk = false
					}
				}
				a.check(okk, fname(fn)+" leftover is a strict suffix", r, fmt.Sprint(ds), fmt.Sprint("a successful decode returns its whole input (or something that is not a suffix of it) as the unconsumed rest: ", ds))
			}
			if n == 0 {
				// pure wrapper: returns another decoder's results unchanged
				wraps := false
				for _, r := range returnsOf(fn) {
					if len(r.Results) == 3 {
						if ex, ok := r.Results[0].(*ssa.Extract); ok && ex.Index == 0 {
							if cl, ok := ex.Tuple.(*ssa.Call); ok && cl.Call.StaticCallee() != nil && cl.Call.StaticCallee().Pkg == sp {
								wraps = true
							}
						}
					}
				}
				a.checkAt(wraps, fname(fn)+" has a success return", a.fnPos(fn), "wrapper of another decoder", "no nil-error return found")
			}
		}
	}

	// ---- R2 structural symmetry ------------------------------------------------------------------------
	{
		a := rule(c, "C19.R2")
		pv := p.Prov()
		pv.CallArgs = true
		pv.MaxDepth = 9
		// value written by an encoder through binary.BigEndian.PutUint64
		putArg := func(fn *ssa.Function) string {
			out := ""
			core.Instrs(fn, func(in ssa.Instruction) {
				ci, ok := in.(*ssa.Call)
				if !ok || ci.Call.StaticCallee() == nil {
					return
				}
				if strings.HasSuffix(ci.Call.StaticCallee().String(), "binary.bigEndian).PutUint64") {
					out = strings.Join(pv.Desc(ci.Call.Args[2]), "|")
				} else if strings.Contains(ci.Call.StaticCallee().String(), "littleEndian") {
					out = "littleEndian"
				}
			})
			return out
		}
		// value returned by a decoder
		retVal := func(fn *ssa.Function) string {
			out := ""
			for _, r := range returnsOf(fn) {
				if len(r.Results) == 3 && isNil(r.Results[2]) {
					out = strings.Join(pv.Desc(r.Results[1]), "|")
				}
			}
			return out
		}
		const be = "call((encoding/binary.bigEndian).Uint64)#0[global(binary.BigEndian)](slice(param#0,,const(8)))"
		type pair struct{ enc, dec, wantEnc, wantDec string }
		pairs := []pair{
			{"EncodeInt", "DecodeInt", "call(util/codec.EncodeIntToCmpUint)#0(param#1)", "call(util/codec.DecodeCmpUintToInt)#0(" + be + ")"},
			{"EncodeIntDesc", "DecodeIntDesc", "^(call(util/codec.EncodeIntToCmpUint)#0(param#1))", "call(util/codec.DecodeCmpUintToInt)#0(^(" + be + "))"},
			{"EncodeUint", "DecodeUint", "param#1", be},
			{"EncodeUintDesc", "DecodeUintDesc", "^(param#1)", "^(" + be + ")"},
		}
		norm := func(s string) string { return strings.ReplaceAll(s, "[*(global(binary.BigEndian))]", "[global(binary.BigEndian)]") }
		for _, pr := range pairs {
			ef := a.fn(pkgCodec, "", pr.enc)
			df := a.fn(pkgCodec, "", pr.dec)
			if ef == nil || df == nil {
				continue
			}
			ge, gd := norm(putArg(ef)), norm(retVal(df))
			a.checkAt(ge == pr.wantEnc, pr.enc+" writes", a.fnPos(ef), ge, fmt.Sprintf("%s writes `%s` big-endian, expected `%s`: it no longer mirrors %s", pr.enc, ge, pr.wantEnc, pr.dec))
			a.checkAt(gd == pr.wantDec, pr.dec+" reads", a.fnPos(df), gd, fmt.Sprintf("%s returns `%s`, expected `%s`: it no longer mirrors %s", pr.dec, gd, pr.wantDec, pr.enc))
		}
		// sign mask: one constant, XOR on both sides
		e := a.fn(pkgCodec, "", "EncodeIntToCmpUint")
		d := a.fn(pkgCodec, "", "DecodeCmpUintToInt")
		if e != nil && d != nil {
			ed := strings.Join(pv.Desc(returnsOf(e)[0].Results[0]), "|")
			dd := strings.Join(pv.Desc(returnsOf(d)[0].Results[0]), "|")
			want := "(param#0 ^ const(9223372036854775808))"
			a.checkAt(ed == want && dd == want, "sign-mask XOR on both sides", a.fnPos(e), "", fmt.Sprintf("EncodeIntToCmpUint = %s, DecodeCmpUintToInt = %s; both must be v ^ 0x8000000000000000", ed, dd))
		}
		// bytes codec constants: group size 8, marker 0xFF, pad 0
		gs := constInt(c, core.ModPath+"/"+pkgCodec, "encGroupSize")
		eb := a.fn(pkgCodec, "", "EncodeBytes")
		db := a.fn(pkgCodec, "", "decodeBytes")
		if eb != nil && db != nil {
			// decoder: group = b[:gs+1], advance b[gs+1:], guard len(b) < gs+1
			var his, los []int64
			core.Instrs(db, func(in ssa.Instruction) {
				sl, ok := in.(*ssa.Slice)
				if !ok {
					return
				}
				if sl.High != nil {
					if cst, ok := sl.High.(*ssa.Const); ok {
						his = append(his, cst.Int64())
					}
				}
				if sl.Low != nil {
					if cst, ok := sl.Low.(*ssa.Const); ok {
						los = append(los, cst.Int64())
					}
				}
			})
			a.checkAt(containsInt(his, gs+1) && containsInt(los, gs+1), fname(db)+" group stride", a.fnPos(db), "", fmt.Sprintf("decoder does not read and advance by groups of %d+1 bytes (highs %v, lows %v)", gs, his, los))
			// encoder: marker = encMarker - padCount ; decoder: padCount = encMarker - marker
			encOK, decOK := false, false
			core.Instrs(eb, func(in ssa.Instruction) {
				if b, ok := in.(*ssa.BinOp); ok && b.Op == token.SUB {
					if cst, ok := b.X.(*ssa.Const); ok && cst.Int64() == 255 {
						encOK = true
					}
				}
			})
			core.Instrs(db, func(in ssa.Instruction) {
				if b, ok := in.(*ssa.BinOp); ok && b.Op == token.SUB {
					if cst, ok := b.X.(*ssa.Const); ok && cst.Int64() == 255 {
						decOK = true
					}
				}
			})
			a.checkAt(encOK && decOK, "marker = 0xFF - padCount on both sides", a.fnPos(eb), "", "the group marker is not computed as 0xFF − pad count by both EncodeBytes and decodeBytes")
			// padCount > groupSize rejected; padding bytes verified
			n1 := len(ifsOn(db, core.PCmp(tokGTR, core.AnyV, core.IsIntConst(gs))))
			a.checkAt(n1 >= 1, fname(db)+" rejects padCount > group size", a.fnPos(db), "", "an invalid marker (pad count above the group size) is not rejected")
			n2 := 0
			core.Instrs(db, func(in ssa.Instruction) {
				if b, ok := in.(*ssa.BinOp); ok && (b.Op == token.NEQ || b.Op == token.EQL) && (strings.Contains(b.X.Type().String(), "uint8") || b.X.Type().String() == "byte") {
					n2++
				}
			})
			a.checkAt(n2 >= 1, fname(db)+" verifies padding bytes", a.fnPos(db), "", "padding bytes are not verified: two different encodings would decode to the same value")
		}
		// comparable varint: tag constants and single-byte range agree
		nte := constInt(c, core.ModPath+"/"+pkgCodec, "negativeTagEnd")
		pts := constInt(c, core.ModPath+"/"+pkgCodec, "positiveTagStart")
		type want struct {
			fn   string
			lt   []int64 // required atoms "x < K" (either polarity) on a byte/first-byte value
			desc string
		}
		for _, w := range []want{
			{"DecodeComparableVarint", []int64{nte, pts + 1}, "single-byte range [negativeTagEnd, positiveTagStart]"},
			{"DecodeComparableUvarint", []int64{nte, pts + 1}, "single-byte range [negativeTagEnd, positiveTagStart]"},
			{"EncodeComparableUvarint", []int64{pts - nte + 1}, "single-byte values 0..positiveTagStart-negativeTagEnd"},
		} {
			fn := a.fn(pkgCodec, "", w.fn)
			if fn == nil {
				continue
			}
			have := map[int64]bool{}
			core.Instrs(fn, func(in ssa.Instruction) {
				ifi, ok := in.(*ssa.If)
				if !ok {
					return
				}
				v, _ := core.CondOf(ifi)
				if k, ok := normLess(v); ok {
					have[k] = true
				}
			})
			for _, k := range w.lt {
				a.checkAt(have[k], fmt.Sprintf("%s boundary %d", w.fn, k), a.fnPos(fn), w.desc, fmt.Sprintf("%s no longer tests the boundary `x < %d` (%s): encoder and decoder disagree on a boundary value", w.fn, k, w.desc))
			}
		}
		// decoder: the single-byte form `first - negativeTagEnd` is returned exactly for
		// negativeTagEnd <= first <= positiveTagStart
		for _, name := range []string{"DecodeComparableVarint", "DecodeComparableUvarint"} {
			fn := p.Func(pkgCodec, "", name)
			if fn == nil {
				continue
			}
			okk := false
			for _, r := range returnsOf(fn) {
				if len(r.Results) == 3 && isNil(r.Results[2]) {
					if b, ok := core.Strip(r.Results[1]).(*ssa.BinOp); ok && b.Op == token.SUB {
						if cst, ok := b.Y.(*ssa.Const); ok && cst.Int64() == nte {
							okk = true
							lo, hi := false, false
							for _, at := range p.DominatingAtoms(fn, r) {
								if glob(fmt.Sprintf("F:(* < const(%d))", nte), at) {
									lo = true
								}
								if glob(fmt.Sprintf("T:(* < const(%d))", pts+1), at) {
									hi = true
								}
							}
							a.check(lo && hi, name+" single-byte range", r, "", fmt.Sprintf("the single-byte form is not decoded exactly for %d <= first <= %d (the encoder writes one byte for 0..%d): a boundary value decodes differently than it was encoded", nte, pts, pts-nte))
						}
					}
				}
			}
			a.checkAt(okk, name+" single byte = first - negativeTagEnd", a.fnPos(fn), "", "single-byte decoding is not `first - negativeTagEnd`")
		}
	}

	// ---- R3 input slices are covered by a length test ----------------------------------------------------
	{
		a := rule(c, "C19.R3")
		total := 0
		for _, fn := range decoders {
			if len(fn.Params) == 0 {
				continue
			}
			isInput := func(v ssa.Value) bool {
				// the input parameter or a value derived from it by re-slicing (φ included)
				seen := map[ssa.Value]bool{}
				var rec func(x ssa.Value) bool
				rec = func(x ssa.Value) bool {
					if seen[x] {
						return false
					}
					seen[x] = true
					switch y := x.(type) {
					case *ssa.Parameter:
						return y == fn.Params[0]
					case *ssa.Phi:
						for _, e := range y.Edges {
							if rec(e) {
								return true
							}
						}
					case *ssa.Slice:
						return rec(y.X)
					}
					return false
				}
				return rec(v)
			}
			core.Instrs(fn, func(in ssa.Instruction) {
				var base ssa.Value
				var need int64 = -1
				var needV ssa.Value
				switch x := in.(type) {
				case *ssa.Slice:
					base = x.X
					if x.High != nil {
						if cst, ok := x.High.(*ssa.Const); ok {
							need = cst.Int64()
						} else {
							needV = x.High
						}
					} else if x.Low != nil {
						if cst, ok := x.Low.(*ssa.Const); ok {
							need = cst.Int64()
						} else {
							needV = x.Low
						}
					} else {
						return
					}
				case *ssa.IndexAddr:
					base = x.X
					if cst, ok := x.Index.(*ssa.Const); ok {
						need = cst.Int64() + 1
					} else {
						return // range loops over a checked sub-slice
					}
				default:
					return
				}
				if !isInput(base) || !isByteSlice(base) {
					return
				}
				total++
				key := fmt.Sprintf("%s %s", fname(fn), strings.TrimSpace(in.String()))
				if needV != nil {
					// dynamic bound: need a dominating ¬(len(base) < needV) or a value produced by a stdlib decoder
					g := false
					for _, at := range p.DominatingAtoms(fn, in) {
						if strings.HasPrefix(at, "F:(len(") && strings.Contains(at, " < ") {
							g = true
						}
						if strings.HasPrefix(at, "F:(call(encoding/binary.") && strings.HasSuffix(at, " < const(1))") {
							g = true
						}
					}
					a.check(g, key, in, "dynamic bound covered by a length test", "the input is sliced by a computed length without a dominating `len(b) < n` rejection: malformed input panics")
					return
				}
				if need <= 0 {
					return
				}
				covered := false
				for _, at := range p.DominatingAtoms(fn, in) {
					// F:(len(X) < const(K)) with K >= need ; F:(const(0) == len(X)) gives len >= 1
					if strings.HasPrefix(at, "F:(len(") {
						if i := strings.LastIndex(at, " < const("); i > 0 {
							var k int64
							fmt.Sscanf(at[i+len(" < const("):], "%d", &k)
							if k >= need {
								covered = true
							}
						}
					}
					if strings.HasPrefix(at, "F:(const(0) == len(") && need <= 1 {
						covered = true
					}
				}
				// slices of an already length-checked prefix (group := groupBytes[:8]) are covered by the prefix
				if sl, ok := base.(*ssa.Slice); ok && sl.High != nil {
					if cst, ok := sl.High.(*ssa.Const); ok && cst.Int64() >= need {
						covered = true
					}
				}
				a.check(covered, key, in, fmt.Sprintf("needs len >= %d: covered", need), fmt.Sprintf("the decoder reads %d byte(s) of its input without a dominating length test that rejects shorter input (truncated input panics instead of returning an error)", need))
			})
		}
		a.checkAt(total >= 8, "input slice/index sites in decoders", "-", fmt.Sprint(total), "sites not found")
	}
}

func containsInt(a []int64, v int64) bool {
	for _, x := range a {
		if x == v {
			return true
		}
	}
	return false
}

func isByteSlice(v ssa.Value) bool {
	return v.Type().String() == "[]byte" || v.Type().String() == "[]uint8"
}

// normLess normalises an integer comparison with a constant to the form `x < K` and returns K
// (x <= K ≡ x < K+1, x >= K ≡ ¬(x < K), x > K ≡ ¬(x < K+1); polarity is dropped).
func normLess(v ssa.Value) (int64, bool) {
	b, ok := v.(*ssa.BinOp)
	if !ok {
		return 0, false
	}
	cst, ok := b.Y.(*ssa.Const)
	flip := false
	if !ok {
		cst, ok = b.X.(*ssa.Const)
		flip = true
	}
	if !ok || cst.Value == nil || cst.Value.Kind() != constant.Int {
		return 0, false
	}
	k, _ := constant.Int64Val(constant.ToInt(cst.Value))
	op := b.Op
	if flip {
		op = map[token.Token]token.Token{token.LSS: token.GTR, token.GTR: token.LSS, token.LEQ: token.GEQ, token.GEQ: token.LEQ}[op]
	}
	switch op {
	case token.LSS, token.GEQ:
		return k, true
	case token.LEQ, token.GTR:
		return k + 1, true
	}
	return 0, false
}

// splitTop splits s at top-level commas.
func splitTop(s string) []string {
	var out []string
	depth, start := 0, 0
	for i, r := range s {
		switch r {
		case '(', '[':
			depth++
		case ')', ']':
			depth--
		case ',':
			if depth == 0 {
				out = append(out, s[start:i])
				start = i + 1
			}
		}
	}
	return append(out, s[start:])
}
