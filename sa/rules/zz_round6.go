package rules

// Rules added after the sixth round of independent breaking changes (DESIGN.md §14). Each is a structural
// necessary condition of its property, silent on the pinned tree and on the neutral refactorings kept under
// /verif/seeded.

import (
	"fmt"
	"go/token"
	"strings"

	"golang.org/x/tools/go/ssa"

	"verif/sa/core"
)

func init() {
	extend("C03", "(R12) the undetermined state of the commit is read after the commit was attempted; every failed send is classified as an RPC error before anything else decides about it.", func(c *core.Ctx) {
		a := rule(c, "C03.R12")
		if fn := a.fn(pkgTxn, "twoPhaseCommitter", "commitTxn"); fn != nil {
			n := 0
			for _, ci := range core.FindCalls(fn, core.CallsMethodNamed("getUndeterminedErr", "")) {
				n++
				g, w := core.MustPassBefore(fn, ci.(ssa.Instruction), isCallTo("commitMutations"))
				a.check(g, fname(fn)+" reads the undetermined state after the commit attempt", ci, "", "the undetermined-error state is sampled before commitMutations ran: a primary commit whose answer was lost is reported as a definite failure: "+a.w(w))
			}
			a.checkAt(n >= 1, fname(fn)+" undetermined state", a.fnPos(fn), "", "not found")
		}
		if fn := a.fn(pkgLocate, "sendReqState", "send"); fn != nil {
			n := 0
			for _, ci := range core.FindCalls(fn, func(cc *ssa.CallCommon) bool { f := cc.StaticCallee(); return f != nil && f.Name() == "isRPCError" }) {
				n++
				// reached on every path from its argument's definition (the failed send) to a return
				errv := core.Strip(ci.Common().Args[0])
				pNil := core.PIsNil(func(x ssa.Value) bool { return core.Strip(x) == errv })
				for _, ifi := range ifsOn(fn, pNil) {
					b := succOn(ifi, pNil, false)
					if b == nil {
						continue
					}
					found, w, hit := reachFromBlock(fn, b, func(x ssa.Instruction) bool { return x == ci.(ssa.Instruction) }, nil, core.IsReturn)
					if found {
						a.viol(fname(fn)+" a failed send is classified before anything else", hit, "a failed send can end without being recorded as an RPC error (e.g. when the caller's context is cancelled at the same time): a commit the store executed is then reported as a definite failure: "+a.w(w))
					} else {
						a.ok(fname(fn)+" a failed send is classified before anything else", ifi, "")
					}
				}
			}
			a.checkAt(n >= 1, fname(fn)+" RPC error classification", a.fnPos(fn), "", "not found")
		}
	})
	extend("C01", "(R10) the start-ts floor of the min commit ts applies only when the for-update floor does not. Imported after round 6: C05.R3, C04.R1b.", func(c *core.Ctx) {
		a := rule(c, "C01.R10")
		if fn := a.fn(pkgTxn, "twoPhaseCommitter", "buildPrewriteRequest"); fn != nil {
			n := 0
			core.Instrs(fn, func(in ssa.Instruction) {
				bo, ok := in.(*ssa.BinOp)
				if !ok || bo.Op != token.ADD || descOf(c, bo) != "(fld(twoPhaseCommitter.startTS,recv) + const(1))" {
					return
				}
				n++
				g, w := guardedByAny(c, fn, in, "F:(const(0) < fld(twoPhaseCommitter.forUpdateTS,recv))", "T:(fld(twoPhaseCommitter.forUpdateTS,recv) < const(1))", "T:(fld(twoPhaseCommitter.forUpdateTS,recv) < call(*get)#0*)", "F:(call(*get)#0* < (fld(twoPhaseCommitter.forUpdateTS,recv) + const(1)))", "T:(const(0) == fld(twoPhaseCommitter.forUpdateTS,recv))")
				a.check(g, fname(fn)+" start-ts floor only behind the for-update floor", in, "", "min commit ts = start ts + 1 is chosen without the for-update ts having been compared first: a pessimistic transaction can prewrite with min commit ts ≤ its for-update ts: "+a.w(w))
			})
			a.checkAt(n >= 1, fname(fn)+" start-ts floor", a.fnPos(fn), "", "not found")
		}
		c.Import(Registry["C05"].Run, "C05", []string{"R3"}, "viaC05")
		c.Import(Registry["C04"].Run, "C04", []string{"R1b"}, "viaC04")
	})
	extend("C04", "(R8) the recovery of an async-commit transaction starts from the primary lock's min commit ts.", func(c *core.Ctx) {
		a := rule(c, "C04.R8")
		if fn := a.fn(pkgLock, "LockResolver", "checkAllSecondaries"); fn != nil {
			n := 0
			for _, st := range storesToFieldNamed(fn, "asyncResolveData.commitTs") {
				n++
				d := descOf(c, st.(*ssa.Store).Val)
				a.check(strings.Contains(d, "MinCommitTs"), fname(fn)+" seeds the commit ts with the primary's min commit ts", st, d, "the derived commit ts is seeded with "+d)
			}
			a.checkAt(n >= 1, fname(fn)+" seeds the commit ts with the primary's min commit ts", a.fnPos(fn), "", "the recovery data no longer starts from the primary lock's min_commit_ts: the derived commit ts can fall below it (and a transaction without secondaries is rolled back)")
		}
	})
	extend("C05", "(R8) the reverse scan's resume bound is exclusive only of keys strictly below it.", func(c *core.Ctx) {
		a := rule(c, "C05.R8")
		if fn := a.fn(pkgSnap, "Scanner", "Next"); fn != nil {
			n := 0
			for _, ci := range core.FindCalls(fn, func(cc *ssa.CallCommon) bool { f := cc.StaticCallee(); return f != nil && f.Name() == "CmpKey" }) {
				cl, ok := ci.(*ssa.Call)
				if !ok || !(strings.Contains(descOf(c, cl.Call.Args[1]), "Scanner.nextStartKey") || strings.Contains(descOf(c, cl.Call.Args[0]), "Scanner.nextStartKey")) {
					continue
				}
				n++
				at, _ := cmpAtomOf(c, fn, cl)
				strict := strings.HasSuffix(at, "< const(0))") // CmpKey(cur, bound) < 0
				if strings.Contains(descOf(c, cl.Call.Args[0]), "Scanner.nextStartKey") {
					strict = strings.HasSuffix(at, "< const(1))") // CmpKey(bound, cur) > 0, canonically ¬(cmp < 1)
				}
				a.check(strict, fname(fn)+" reverse resume bound is strict", ci, at, "the reverse scan drops a key EQUAL to its resume bound ("+at+"): IterReverse loses the key that equals the lower bound")
			}
			_ = n // (the comparison may be spelled without CmpKey: then this rule has nothing to say)
		}
	})
	extend("C06", "(R13) a lock kept from the previous attempt is forgotten only after the retry's for-update ts was accepted; the clean-up of a failed commit runs on the store's context; a pessimistic rollback that met a region error is sent again.", func(c *core.Ctx) {
		a := rule(c, "C06.R13")
		if fn := a.fn(pkgTxn, "KVTxn", "filterAggressiveLockedKeys"); fn != nil {
			n := 0
			core.Instrs(fn, func(in ssa.Instruction) {
				cl, ok := in.(*ssa.Call)
				if !ok {
					return
				}
				b, ok := cl.Call.Value.(*ssa.Builtin)
				if !ok || b.Name() != "delete" || !strings.Contains(descOf(c, cl.Call.Args[0]), "lastRetryUnnecessaryLocks") {
					return
				}
				n++
				g, w := guardedByAny(c, fn, in, "F:(fld(LockCtx.ForUpdateTS,*) < *LockedWithConflictTS*")
				a.check(g, fname(fn)+" forgets a kept lock only after the for-update ts check", in, "", "the key is removed from the locks kept from the last attempt before the retry's for-update ts is validated: when that check fails the held lock is forgotten and never rolled back: "+a.w(w))
			})
			a.checkAt(n >= 1, fname(fn)+" kept-lock removal", a.fnPos(fn), "", "not found")
		}
		if fn := a.fn(pkgTxn, "twoPhaseCommitter", "cleanup"); fn != nil {
			n := 0
			for _, f := range core.FuncsIn(fn) {
				for _, ci := range core.FindCalls(f, func(cc *ssa.CallCommon) bool { g := cc.StaticCallee(); return g != nil && g.String() == "context.WithValue" }) {
					n++
					d := descOf(c, ci.Common().Args[0])
					a.check(strings.Contains(d, "Ctx)#0"), fname(f)+" cleans up on the store's context", ci, d, "the background clean-up derives its context from the caller's ("+d+"): a commit refused while the caller's context is cancelled leaves every prewritten lock")
				}
			}
			a.checkAt(n >= 1, fname(fn)+" clean-up context", a.fnPos(fn), "", "not found")
		}
		if fn := a.fn(pkgTxn, "actionPessimisticRollback", "handleSingleBatch"); fn != nil {
			n := 0
			pr := core.PIsNil(func(x ssa.Value) bool { return strings.Contains(descOf(c, x), "GetRegionError)#0") })
			for _, ifi := range ifsOn(fn, pr) {
				b := succOn(ifi, pr, false)
				if b == nil {
					continue
				}
				n++
				// a return that hands back a non-nil error of a call made on this path is fine
				found, w, hit := reachFromBlock(fn, b, isCallTo("pessimisticRollbackMutations"), func(e core.Edge) bool {
					at := c.P.EdgeAtom(e)
					return strings.HasPrefix(at, "F:(call(") && strings.HasSuffix(at, "== nil)")
				}, core.IsReturn)
				if found {
					a.viol(fname(fn)+" a region error re-dispatches the rollback", hit, "after a region error the handler can return success without sending the rollback again: the pessimistic locks of the batch stay: "+a.w(w))
				} else {
					a.ok(fname(fn)+" a region error re-dispatches the rollback", ifi, "")
				}
			}
			a.checkAt(n >= 1, fname(fn)+" region error", a.fnPos(fn), "", "not found")
		}
	})
	extend("C07", "(R12) a buffer miss always reads the snapshot; deletes write the tombstone.", func(c *core.Ctx) {
		a := rule(c, "C07.R12")
		if fn := a.fn(pkgUnion, "KVUnionStore", "Get"); fn != nil {
			n := 0
			for _, r := range returnsOf(fn) {
				if len(r.Results) != 2 || !strings.Contains(descOf(c, r.Results[1]), "ErrNotExist") {
					continue
				}
				n++
				g, w, _ := condMust(c, fn, nil, func(x ssa.Instruction) bool { return x == ssa.Instruction(r) }, func(x ssa.Instruction) bool {
					cc, ok := x.(ssa.CallInstruction)
					return ok && cc.Common().IsInvoke() && cc.Common().Method.Name() == "Get" && strings.Contains(descOf(c, cc.Common().Value), "KVUnionStore.snapshot")
				}, []string{"F:call(error.IsErrNotFound)#0*"}) // (found in the buffer: a tombstone)
				a.check(g, fname(fn)+" 'not exist' only after the snapshot was read", r, "", "Get answers 'not exist' without reading the snapshot (e.g. for a key that only carries a flag): a flags-only buffer entry hides a snapshot key from Get while Iter shows it: "+a.w(w))
			}
			_ = n
		}
		for _, spec := range [][2]string{{"artDBWithContext", "Delete"}, {"artDBWithContext", "DeleteWithFlags"}, {"rbtDBWithContext", "Delete"}, {"rbtDBWithContext", "DeleteWithFlags"}} {
			fn := a.fn(pkgUnion, spec[0], spec[1])
			if fn == nil {
				continue
			}
			n := 0
			for _, ci := range core.FindCalls(fn, core.CallsMethodNamed("set", "")) {
				n++
				d := descOf(c, argOf(ci, 1))
				a.check(strings.Contains(d, "Tombstone"), fname(fn)+" writes the tombstone", ci, d, "the delete writes "+d+" instead of the tombstone: it becomes a flags-only update and the deleted key stays visible")
			}
			a.checkAt(n == 1, fname(fn)+" write", a.fnPos(fn), "", "set call not found")
		}
	})
	extend("C08", "(R15) the flag operations that say the key's existence is settled clear the pending constraint check.", func(c *core.Ctx) {
		a := rule(c, "C08.R15")
		if fn := a.fn("kv", "", "ApplyFlagsOps"); fn != nil {
			need := constInt(c, core.ModPath+"/kv", "flagNeedConstraintCheckInPrewrite")
			n := 0
			core.Instrs(fn, func(in ssa.Instruction) {
				bo, ok := in.(*ssa.BinOp)
				if !ok || bo.Op != token.AND_NOT && bo.Op != token.AND {
					return
				}
				for _, op := range []ssa.Value{bo.X, bo.Y} {
					if cst, ok := asConst(op); ok && cst.Value != nil {
						v := cst.Uint64()
						if (bo.Op == token.AND_NOT && int64(v) == need) || (bo.Op == token.AND && uint16(v) == ^uint16(need)) {
							n++
						}
					}
				}
			})
			a.checkAt(n >= 3, fname(fn)+" clears the pending constraint check", a.fnPos(fn), fmt.Sprint(n), fmt.Sprintf("only %d of the three operations that settle the key's existence (locked-value-exists, locked-value-not-exists, delete of the flag) clear NeedConstraintCheckInPrewrite: the stale persistent flag survives", n))
		}
	})
	extend("C09", "(R13) the caller decides whether leaderless regions are dropped from a batch scan; a work index inherited from the old region is reduced modulo the NEW region's store count.", func(c *core.Ctx) {
		a := rule(c, "C09.R13")
		if fn := a.fn(pkgLocate, "RegionCache", "batchScanRegions"); fn != nil {
			for _, ci := range core.FindCalls(fn, core.CallsMethodNamed("handleRegionInfos", "")) {
				d := descOf(c, argOf(ci, 2))
				a.check(strings.Contains(d, "needRegionHasLeaderPeer"), fname(fn)+" passes the caller's leader requirement", ci, d, "regions without a leader are always dropped ("+d+"): the result of BatchLocateKeyRanges has a gap where a region is leaderless")
			}
		}
		if fn := a.fn(pkgLocate, "regionIndexMu", "insertRegionToCache"); fn != nil {
			n := 0
			core.Instrs(fn, func(in ssa.Instruction) {
				bo, ok := in.(*ssa.BinOp)
				if !ok || bo.Op != token.REM {
					return
				}
				cl, ok := core.Strip(bo.Y).(*ssa.Call)
				if !ok || cl.Call.StaticCallee() == nil || cl.Call.StaticCallee().Name() != "accessStoreNum" {
					return
				}
				n++
				d := descOf(c, cl.Call.Args[0])
				a.check(strings.Contains(d, "param#0"), fname(fn)+" reduces the inherited index by the new region's store count", in, d, "the inherited work index is reduced modulo the OLD region's store count ("+d+"): after a peer was removed the index is out of range for the new region")
			})
			a.checkAt(n >= 1, fname(fn)+" index inheritance", a.fnPos(fn), "", "not found")
		}
	})
	extend("C10", "(R14) the leader switch re-reads the region's store set on every retry; a flashback error is retried on the leader only when the failed target was not the leader.", func(c *core.Ctx) {
		a := rule(c, "C10.R14")
		if fn := a.fn(pkgLocate, "Region", "switchWorkLeaderToPeer"); fn != nil {
			n := 0
			for _, ci := range core.FindCalls(fn, core.CallsMethodNamed("getStore", "")) {
				n++
				a.check(blockInLoop(ci.(ssa.Instruction).Block()), fname(fn)+" re-reads the store set when the swap is lost", ci, "", "the region's store set is read once, outside the retry loop: a compare-and-swap lost to a concurrent change spins forever")
			}
			a.checkAt(n >= 1, fname(fn)+" store set", a.fnPos(fn), "", "not found")
		}
		guardTable(c, "C10.R14", []gRow{{Fn: [3]string{pkgLocate, "replicaSelector", "onFlashbackInProgress"}, Target: "ret:const(true)",
			Facts: []string{"F:(*GetLeaderPeerID)#0*"}, Min: 1, Why: "the leader itself reported FlashbackInProgress: retrying it at once (without back-off) repeats the failure"}})
	})
	extend("C11", "(R9) a flushed raw batch starts with fresh key, value and ttl lists; a raw scan keeps the caller's key-only choice for every region.", func(c *core.Ctx) {
		a := rule(c, "C11.R9")
		if fn := a.fn("internal/kvrpc", "", "AppendBatches"); fn != nil {
			// the block that appends a Batch re-creates the three accumulators
			best := 0
			for _, b := range fn.Blocks {
				isFlush := false
				mk := 0
				for _, in := range b.Instrs {
					if cl, ok := in.(*ssa.Call); ok {
						if bi, ok := cl.Call.Value.(*ssa.Builtin); ok && bi.Name() == "append" && strings.Contains(cl.Type().String(), "Batch") {
							isFlush = true
						}
					}
					if _, ok := in.(*ssa.MakeSlice); ok {
						mk++
					}
					if sl, ok := in.(*ssa.Slice); ok && isFreshArraySlice(sl) && !strings.Contains(sl.Type().String(), "Batch") {
						mk++
					}
				}
				if isFlush && blockInLoop(b) && mk > best {
					best = mk
				}
			}
			a.checkAt(best >= 3, fname(fn)+" a flush resets keys, values and ttls", a.fnPos(fn), fmt.Sprint(best), fmt.Sprintf("the flush inside the loop re-creates %d of the three accumulators: a later batch carries the earlier batches' entries (misaligned TTL lists)", best))
		}
		if fn := a.fn("rawkv", "Client", "Scan"); fn != nil {
			n := 0
			for _, st := range storesToFieldNamed(fn, "RawScanRequest.KeyOnly") {
				n++
				d := descOf(c, st.(*ssa.Store).Val)
				a.check(strings.HasPrefix(d, "fld(rawOptions.KeyOnly,") && !strings.Contains(d, "|"), fname(fn)+" key-only is the caller's choice for every region", st, d, "the per-region request's KeyOnly is "+d+": a key-only scan fetches values in later regions")
			}
			a.checkAt(n >= 1, fname(fn)+" request", a.fnPos(fn), "", "not found")
		}
	})
	extend("C12", "(R13) the mock scan treats an empty region end as unbounded; GC deletes only records at or below the safe point.", func(c *core.Ctx) {
		a := rule(c, "C12.R13")
		if fn := a.fn(pkgMock, "kvHandler", "handleKvScan"); fn != nil {
			n := 0
			for _, ci := range core.FindCalls(fn, func(cc *ssa.CallCommon) bool { f := cc.StaticCallee(); return f != nil && f.String() == "bytes.Compare" }) {
				cl := ci.(*ssa.Call)
				for _, arg := range cl.Call.Args {
					d := descOf(c, arg)
					if !strings.Contains(d, ".endKey,") {
						continue
					}
					n++
					g, w := guardedByAny(c, fn, cl, "F:(const(0) == len(*Raw)#0*", "F:(len(*Raw)#0*) < const(1))", "F:(const(0) == len(fld(Session.endKey,*")
					a.check(g, fname(fn)+" the region's end (empty = unbounded) is tested before it is compared", ci, "", "the region's end key is order-compared without an emptiness test: in the last region a scan with an end key returns keys beyond it: "+a.w(w))
				}
			}
			a.checkAt(n >= 1, fname(fn)+" end comparisons", a.fnPos(fn), "", "not found")
		}
		guardTable(c, "C12.R13", []gRow{{Fn: [3]string{pkgMock, "MVCCLevelDB", "GC"}, Target: "call:Delete",
			Facts: []string{"F:(param#2 < fld(mvccValue.commitTS,*"}, Min: 2, Why: "GC removes a record above the safe point (e.g. a rollback marker): a late prewrite of the rolled-back transaction is accepted"}})
	})
	extend("C13", "(R12) every commit timestamp returned without error was compared with the commit-wait constraint.", func(c *core.Ctx) {
		a := rule(c, "C13.R12")
		if fn := a.fn(pkgTxn, "KVTxn", "GetTimestampForCommit"); fn != nil {
			n := 0
			for _, r := range returnsOf(fn) {
				if len(r.Results) != 2 {
					continue
				}
				ex, ok := core.Strip(r.Results[0]).(*ssa.Extract)
				if !ok || !strings.Contains(descOf(c, ex), "GetTimestampWithRetry)#0") {
					continue // (values that went through the loop's variables are covered by C13.R4/R10)
				}
				d := descOf(c, ex)
				n++
				g, w := guardedByAny(c, fn, r, "T:(fld(KVTxn.commitWaitUntilTSO,recv) < *GetTimestampWithRetry)#0*", "F:(*GetTimestampWithRetry)#0* < (fld(KVTxn.commitWaitUntilTSO,recv) + const(1)))", "F:(*GetTimestampWithRetry)#1* == nil)")
				a.check(g, fname(fn)+" a returned commit ts was compared with the constraint", r, d, "a timestamp fetched from PD is returned as commit ts without having been compared with commitWaitUntilTSO (e.g. a fast path): it can be at or below the constraint: "+a.w(w))
			}
			a.checkAt(n >= 1, fname(fn)+" success returns", a.fnPos(fn), "", "not found")
		}
	})
	extend("C14", "(R11) the batch resolve skips a lock only when its transaction's status is already decided; the delete-range cursor advances only past a region that was handled; the GC scan stops on the cursor, not on the region.", func(c *core.Ctx) {
		a := rule(c, "C14.R11")
		if fn := a.fn(pkgLock, "LockResolver", "BatchResolveLocks"); fn != nil {
			var infoMap ssa.Value
			core.Instrs(fn, func(in ssa.Instruction) {
				if mu, ok := in.(*ssa.MapUpdate); ok && strings.HasPrefix(mu.Map.Type().String(), "map[uint64]uint64") {
					infoMap = mu.Map
				}
			})
			n := 0
			core.Instrs(fn, func(in ssa.Instruction) {
				lk, ok := in.(*ssa.Lookup)
				if !ok || !lk.CommaOk || !strings.HasPrefix(lk.X.Type().String(), "map[uint64]") {
					return
				}
				n++
				// a pure "seen" set (map[...]struct{}) is not the table of decided statuses
				a.check(lk.X == infoMap || !strings.HasSuffix(lk.X.Type().String(), "struct{}"), fname(fn)+" 'already handled' means 'status decided'", in, lk.X.Type().String(), "locks are skipped by a table other than the decided statuses: a transaction's further pessimistic locks in the batch are never rolled back although GC succeeds")
			})
			_ = n
		}
		if fn := a.fn("txnkv/rangetask", "DeleteRangeTask", "sendReqOnRange"); fn != nil {
			n := 0
			core.Instrs(fn, func(in ssa.Instruction) {
				phi, ok := in.(*ssa.Phi)
				if !ok || phi.Comment != "startKey" {
					return
				}
				for i, e := range phi.Edges {
					if core.Strip(e) == ssa.Value(phi) || !strings.Contains(descOf(c, e), "KeyLocation.EndKey") {
						continue
					}
					n++
					pred := phi.Block().Preds[i]
					last := pred.Instrs[len(pred.Instrs)-1]
					g, w := guardedByAny(c, fn, last, "T:(call((*tikvrpc.Response).GetRegionError)#0* == nil)")
					a.check(g, fname(fn)+" the cursor advances only past a handled region", last, "", "the cursor moves to the region's end also on the retry path after a region error: that region's keys are never deleted while the task reports success: "+a.w(w))
				}
			})
			_ = n // (a renamed cursor variable is not found: then this rule has nothing to say)
		}
		if fn := a.fn("tikv", "", "ResolveLocksForRange"); fn != nil {
			n := 0
			core.Instrs(fn, func(in ssa.Instruction) {
				cl, ok := in.(*ssa.Call)
				if !ok {
					return
				}
				b, ok := cl.Call.Value.(*ssa.Builtin)
				if !ok || b.Name() != "len" {
					return
				}
				d := descOf(c, cl.Call.Args[0])
				if !strings.Contains(d, "KeyLocation.EndKey") {
					return
				}
				// a length test that decides the end of the whole scan
				for _, ref := range *cl.Referrers() {
					if bo, ok := ref.(*ssa.BinOp); ok && (bo.Op == token.EQL || bo.Op == token.NEQ) {
						n++
						a.check(strings.Contains(d, "Lock.Key"), fname(fn)+" the scan ends on an empty CURSOR", ref, d, "the scan stops when the region's end is empty instead of when the cursor is: in the last region it stops after the first full page of locks")
					}
				}
			})
			a.checkAt(n >= 1, fname(fn)+" end test", a.fnPos(fn), "", "not found")
		}
	})
	extend("C15", "(R12) the region-error response of a streaming coprocessor request has the streaming type; the sync send path decodes every response the codec encoded the request for.", func(c *core.Ctx) {
		a := rule(c, "C15.R12")
		if fs := findFuncDecl(c.P, "tikvrpc", "", "GenRegionErrorResp"); fs != nil {
			found := false
			for _, lit := range compositeLitsIn(fs.Pkg, fs.Decl.Body.List) {
				if strings.HasSuffix(typeName(lit.Type), "CopStreamResponse") {
					found = true
				}
			}
			a.checkAt(found, "GenRegionErrorResp builds a CopStreamResponse for CmdCopStream", c.P.Pos(fs.Decl.Pos()), "", "no CopStreamResponse is built: a streaming coprocessor request gets a plain coprocessor.Response as its region-error response and the consumer's type assertion panics")
		}
		if fn := a.fn(pkgClient, "RPCClient", "SendRequest"); fn != nil {
			n := 0
			for _, r := range returnsOf(fn) {
				if len(r.Results) != 2 || isNil(r.Results[0]) {
					continue
				}
				d := descOf(c, r.Results[0])
				if !strings.Contains(d, "sendRequest)#0") || strings.Contains(d, "DecodeResponse") {
					continue
				}
				n++
				g, w := guardedByAny(c, fn, r, "T:(fld(RPCClient.option,recv) == nil)", "T:(fld(option.codec,*) == nil)", "T:(nil == fld(RPCClient.option,recv))")
				a.check(g, fname(fn)+" an undecoded response is returned only without a codec", r, d, "a response is returned without DecodeResponse although the request was encoded (e.g. a fast path for region errors): region keys reach the caller prefixed and memcomparable-encoded: "+a.w(w))
			}
			_ = n
		}
	})
	extend("C16", "(R11) a failed previous flush clears the in-flight marker; unreleased stages refuse every flush; the resolve cursor moves only after the region was resolved.", func(c *core.Ctx) {
		a := rule(c, "C16.R11")
		if fn := a.fn(pkgUnion, "PipelinedMemDB", "Flush"); fn != nil {
			var recv ssa.Instruction
			core.Instrs(fn, func(in ssa.Instruction) {
				if u, ok := in.(*ssa.UnOp); ok && u.Op == token.ARROW && strings.Contains(descOf(c, u.X), "PipelinedMemDB.errCh") {
					recv = in
				}
			})
			if recv != nil {
				okk, w, _ := condMust(c, fn, recv, func(x ssa.Instruction) bool {
					r, ok := x.(*ssa.Return)
					return ok && len(r.Results) == 2 && !isNil(r.Results[1])
				}, func(x ssa.Instruction) bool {
					st, ok := x.(*ssa.Store)
					return ok && strings.Contains(descOf(c, st.Addr), "PipelinedMemDB.flushingMemDB") && isNil(st.Val)
				}, nil)
				a.check(okk, fname(fn)+" a failed flush clears the in-flight marker", recv, "", "the error of the previous flush is returned with the in-flight buffer still set: a later FlushWait (Rollback calls it first) blocks forever and the flushed locks are never cleaned up: "+a.w(w))
			}
			n := 0
			core.Instrs(fn, func(in ssa.Instruction) {
				if g, ok := in.(*ssa.Go); ok {
					n++
					ok2, w2 := core.MustPassBefore(fn, g, isCallTo("IsStaging"))
					a.check(ok2, fname(fn)+" unreleased stages refuse every flush", g, "", "a (forced) flush can start without the staging check: staged writes are handed to the flush and Cleanup can no longer revert them: "+a.w(w2))
				}
			})
			a.checkAt(n >= 1, fname(fn)+" flush start", a.fnPos(fn), "", "not found")
		}
		if fn := a.fn(pkgTxn, "twoPhaseCommitter", "buildPipelinedResolveHandler"); fn != nil {
			n := 0
			for _, f := range core.FuncsIn(fn)[1:] {
				core.Instrs(f, func(in ssa.Instruction) {
					phi, ok := in.(*ssa.Phi)
					if !ok || phi.Comment != "start" {
						return
					}
					for i, e := range phi.Edges {
						if core.Strip(e) == ssa.Value(phi) || !strings.Contains(descOf(c, e), "KeyLocation.EndKey") {
							continue
						}
						if _, isPhi := core.Strip(e).(*ssa.Phi); isPhi {
							continue
						}
						n++
						pred := phi.Block().Preds[i]
						last := pred.Instrs[len(pred.Instrs)-1]
						g, w := guardedByAny(c, f, last, "T:(*GetRegionError)#0* == nil)")
						a.check(g, fname(f)+" the cursor moves only past a resolved region", last, "", "the cursor advances to the region's end on a path that did not see the region's request succeed (e.g. it is moved before the request is sent): a retry after a region error skips that region and its flushed locks stay: "+a.w(w))
					}
				})
			}
			a.checkAt(n >= 1, fname(fn)+" cursor", a.fnPos(fn), "", "not found")
		}
	})
	extend("C17", "(R12) the hand-over compares the key's newest commit ts with the WAITER's start ts; keys are ordered by bytes alone.", func(c *core.Ctx) {
		a := rule(c, "C17.R12")
		if fn := a.fn("internal/latch", "Latches", "releaseSlot"); fn != nil {
			n := 0
			core.Instrs(fn, func(in ssa.Instruction) {
				bo, ok := in.(*ssa.BinOp)
				if !ok {
					return
				}
				x, y, _, isOrd := lessForm(bo)
				if !isOrd {
					return
				}
				dx, dy := descOf(c, x), descOf(c, y)
				var other string
				switch {
				case strings.Contains(dx, "node.maxCommitTS") && strings.Contains(dy, "Lock.startTS"):
					other = dy
				case strings.Contains(dy, "node.maxCommitTS") && strings.Contains(dx, "Lock.startTS"):
					other = dx
				default:
					return
				}
				n++
				a.check(!strings.HasPrefix(other, "fld(Lock.startTS,param#"), fname(fn)+" staleness of the waiter", in, other, "the key's newest commit ts is compared with the RELEASING lock's start ts ("+other+"): a waiter that started after that commit is reported stale")
			})
			a.checkAt(n >= 1, fname(fn)+" staleness test", a.fnPos(fn), "", "not found")
		}
		if fn := a.fn("internal/latch", "bytesSlice", "Less"); fn != nil {
			for _, r := range returnsOf(fn) {
				d := descOf(c, r.Results[0])
				a.check(d == "(call(bytes.Compare)#0 < const(0))", fname(fn)+" is the byte order", r, d, "the key order is "+d+", not a strict total order by bytes: two transactions can acquire the same keys in opposite orders and deadlock")
			}
		}
	})
	extend("C18", "(R14) the shared RPC of collapsed requests does not depend on one caller's context; an async request is always watched for its context's end.", func(c *core.Ctx) {
		a := rule(c, "C18.R14")
		if fn := a.fn(pkgClient, "reqCollapse", "collapse"); fn != nil {
			n := 0
			for _, f := range core.FuncsIn(fn) {
				for _, ci := range core.FindCalls(f, core.CallsMethodNamed("SendRequest", "")) {
					n++
					d := descOf(c, argOf(ci, 0))
					a.check(d == "call(context.Background)#0", fname(f)+" the shared request runs on a background context", ci, d, "the shared ResolveLock RPC runs on the first caller's context ("+d+"): when that caller cancels, every other collapsed caller fails with its cancellation")
				}
			}
			a.checkAt(n >= 1, fname(fn)+" shared request", a.fnPos(fn), "", "not found")
		}
		if fn := a.fn(pkgClient, "RPCClient", "SendRequestAsync"); fn != nil {
			n := 0
			core.Instrs(fn, func(in ssa.Instruction) {
				sel, ok := in.(*ssa.Select)
				if !ok {
					return
				}
				for _, st := range sel.States {
					if st.Dir == 1 && strings.Contains(descOf(c, st.Chan), "batchCommandsCh") {
						n++
						g, w := core.MustPassBefore(fn, in, func(x ssa.Instruction) bool {
							cc, ok := x.(ssa.CallInstruction)
							return ok && cc.Common().StaticCallee() != nil && cc.Common().StaticCallee().String() == "context.AfterFunc"
						})
						a.check(g, fname(fn)+" the context watcher is registered before the request is queued", in, "", "the request can be queued without the context watcher (e.g. for contexts without deadline): cancelling such a context never completes the call: "+a.w(w))
					}
				}
			})
			a.checkAt(n >= 1, fname(fn)+" submission", a.fnPos(fn), "", "not found")
		}
	})
	extend("C19", "(R9) the word-wise byte inversion continues byte-wise where the words ended; a malformed version suffix is an error.", func(c *core.Ctx) {
		a := rule(c, "C19.R9")
		if fn := a.fn(pkgCodec, "", "fastReverseBytes"); fn != nil {
			n := 0
			core.Instrs(fn, func(in ssa.Instruction) {
				phi, ok := in.(*ssa.Phi)
				if !ok || phi.Comment != "i" {
					return
				}
				for _, e := range phi.Edges {
					if bo, ok := core.Strip(e).(*ssa.BinOp); ok && bo.Op == token.MUL {
						n++
					}
				}
			})
			a.checkAt(n >= 1, fname(fn)+" tail starts at w*wordSize", a.fnPos(fn), fmt.Sprint(n), "the byte-wise tail loop does not start at the first byte behind the inverted words: bytes are inverted twice or not at all (descending encodings of 8+ bytes decode wrongly)")
		}
		if fn := a.fn(pkgMock, "", "mvccDecode"); fn != nil {
			n := 0
			for _, ci := range core.FindCalls(fn, func(cc *ssa.CallCommon) bool { f := cc.StaticCallee(); return f != nil && f.Name() == "DecodeUintDesc" }) {
				var errv ssa.Value
				if v, ok := ci.(ssa.Value); ok && v.Referrers() != nil {
					for _, r := range *v.Referrers() {
						if ex, ok := r.(*ssa.Extract); ok && ex.Index == 2 {
							errv = ex
						}
					}
				}
				if errv == nil {
					continue
				}
				pNil := core.PIsNil(func(x ssa.Value) bool { return core.Strip(x) == errv })
				for _, ifi := range ifsOn(fn, pNil) {
					b := succOn(ifi, pNil, false)
					if b == nil {
						continue
					}
					n++
					found, w, hit := reachFromBlock(fn, b, nil, nil, func(in ssa.Instruction) bool {
						r, ok := in.(*ssa.Return)
						return ok && len(r.Results) == 3 && isNil(r.Results[2])
					})
					if found {
						a.viol(fname(fn)+" a malformed version is an error", hit, "a key whose version suffix does not decode is returned as (key, 0, nil): a truncated key is taken for a meta key: "+a.w(w))
					} else {
						a.ok(fname(fn)+" a malformed version is an error", ifi, "")
					}
				}
			}
			a.checkAt(n >= 1, fname(fn)+" version decode", a.fnPos(fn), "", "not found")
		}
	})
	extend("C20", "(R10) a clone keeps its parent link (it is merged back like the original).", func(c *core.Ctx) {
		a := rule(c, "C20.R10")
		if fn := a.fn(pkgRetry, "Backoffer", "Clone"); fn != nil {
			n := 0
			for _, st := range storesToFieldNamed(fn, "Backoffer.parent") {
				n++
				d := descOf(c, st.(*ssa.Store).Val)
				a.check(d == "fld(Backoffer.parent,recv)", fname(fn)+" copies the parent link", st, d, "the clone's parent is "+d)
			}
			a.checkAt(n >= 1, fname(fn)+" copies the parent link", a.fnPos(fn), "", "the clone loses its parent link: UpdateUsingForked of a cloned fork silently drops all its sleep time and errors")
		}
	})
}

func init() {
	extend("C02", "Imported after round 6: C01.R7, C12.R5.", func(c *core.Ctx) {
		c.Import(Registry["C01"].Run, "C01", []string{"R7"}, "viaC01")
		c.Import(Registry["C12"].Run, "C12", []string{"R5"}, "viaC12")
	})
	extend("C04", "Imported after round 6: C15.R1 (the catalogue tables agree per command).", func(c *core.Ctx) {
		c.Import(Registry["C15"].Run, "C15", []string{"R1"}, "viaC15")
	})
	extend("C05", "Imported after round 6: C02.R2.", func(c *core.Ctx) {
		c.Import(Registry["C02"].Run, "C02", []string{"R2"}, "viaC02")
	})
	extend("C07", "Imported after round 6: C08.R9.", func(c *core.Ctx) {
		c.Import(Registry["C08"].Run, "C08", []string{"R9"}, "viaC08")
	})
	extend("C08", "Imported after round 6: C07.R8.", func(c *core.Ctx) {
		c.Import(Registry["C07"].Run, "C07", []string{"R8"}, "viaC07")
	})
	extend("C09", "Imported after round 6: C15.R5 (every key handed to PD is encoded).", func(c *core.Ctx) {
		c.Import(Registry["C15"].Run, "C15", []string{"R5"}, "viaC15")
	})
}

func init() {
	extend("C03", "Imported after round 6: C02.R2, C02.R3 (a lock is removed only when its transaction is finished or, for async commit, expired).", func(c *core.Ctx) {
		c.Import(Registry["C02"].Run, "C02", []string{"R2", "R3"}, "viaC02")
	})
}
