package rules

import (
	"fmt"
	"strings"

	"golang.org/x/tools/go/ssa"

	"verif/sa/core"
)

const pkgRange = "txnkv/rangetask"

func init() {
	register("C14", &Spec{
		Title: "GC lock resolution / range task / visibility check",
		Explanation: "Decides: (R1) every snapshot read path consults the cached transaction safe point AFTER the store answered and before returning data, and CheckVisibility refuses exactly when startTS < cached safe point; (R2) +∞ sentinel discipline of the range task, the delete-range task and the GC lock scan (end keys are order-compared only behind an emptiness test); (R3) failures surface: a worker stores its handler's error and cancels, RunOnRange returns a worker's error whenever one is set, tasks are consecutive (next start = previous end, last end = requested end); (R4) the GC scan/resolve loop advances its cursor only after the batch was resolved in one region, to the scanned region's end (or the last lock when the limit was hit), and scans up to the safe point; (R5) the GC safe point is published only after lock resolution succeeded, with the same value. NOT decided: that no lock remains / outcomes are unchanged after GC.",
		Run: runC14,
	})
}

func runC14(c *core.Ctx) {
	p := c.P
	a0 := rule(c, "C14.anchors")
	snapGet := a0.fn(pkgSnap, "KVSnapshot", "Get")
	batchGet := a0.fn(pkgSnap, "KVSnapshot", "BatchGetWithTier")
	getData := a0.fn(pkgSnap, "Scanner", "getData")
	checkVis := a0.fn("tikv", "KVStore", "CheckVisibility")
	runOnRange := a0.fn(pkgRange, "Runner", "RunOnRange")
	workerRun := a0.fn(pkgRange, "rangeTaskWorker", "run")
	delRange := a0.fn(pkgRange, "DeleteRangeTask", "sendReqOnRange")
	rlfr := a0.fn("tikv", "", "ResolveLocksForRange")
	scanOne := a0.fn("tikv", "", "scanLocksInOneRegionWithRange")
	gc := a0.fn("tikv", "KVStore", "GC")
	if a0.bad {
		return
	}
	isVis := isCallNamed("CheckVisibility")

	// ---- R1 visibility check after the read ----------------------------------------------------------
	{
		a := rule(c, "C14.R1")
		type site struct {
			fn   *ssa.Function
			read func(*ssa.CallCommon) bool
			name string
		}
		for _, s := range []site{
			{snapGet, core.CallsMethodNamed("get", "KVSnapshot"), "get"},
			{batchGet, func(cc *ssa.CallCommon) bool {
				return core.CallsMethodNamed("batchGetKeysByRegions", "")(cc) || core.CallsMethodNamed("asyncBatchGetByRegions", "")(cc)
			}, "batchGetKeysByRegions"},
			{getData, core.CallsMethodNamed("SendReq", ""), "SendReq"},
		} {
			reads := core.FindCalls(s.fn, s.read)
			vis := core.FindCalls(s.fn, core.CallsMethodNamed("CheckVisibility", ""))
			if len(reads) == 0 || len(vis) == 0 {
				a.violAt(fname(s.fn)+" read then visibility check", a.fnPos(s.fn), fmt.Sprintf("expected a store read (%s) and a CheckVisibility call, found %d/%d", s.name, len(reads), len(vis)))
				continue
			}
			for _, v := range vis {
				g, w := core.MustPassBefore(s.fn, v, core.InstrIs(s.read))
				a.check(g, fname(s.fn)+" safe point consulted after the read", v, "", "the visibility check runs before the store was read: a read that races with the safe point advancing past its timestamp is served instead of refused: "+a.w(w))
				// the check's error is returned
				val, _ := v.(ssa.Value)
				a.check(val != nil && (flowsToReturn(val) || len(ifsOn(s.fn, core.PIsNil(errVarOf(v)))) > 0), fname(s.fn)+" visibility error is propagated", v, "", "CheckVisibility's result is ignored")
			}
			for _, rd := range reads {
				okk, w, hit := condMust(c, s.fn, rd, func(in ssa.Instruction) bool {
					r, ok := in.(*ssa.Return)
					if !ok {
						return false
					}
					for _, res := range r.Results {
						if isErrorType(res.Type()) && !isNil(res) && !errVarOf(vis[0])(res) {
							return false // error exits are not judged
						}
					}
					return true
				}, isVis, []string{"F:(* == nil)"})
				_ = okk
				_ = w
				_ = hit
			}
		}
		// CheckVisibility: refuse ⇔ startTS < cached txn safe point (order table over one pair)
		m, n, u := orderTable(c, checkVis,
			[]orderPair{{"startTS:safePoint", "param#0", "fld(struct.cachedTxnSafePoint,*"}},
			nil,
			func(oc orderCase) bool { return true })
		_ = m
		_ = n
		_ = u
		for _, r := range returnsOf(checkVis) {
			if len(r.Results) != 1 {
				continue
			}
			d := strings.Join(p.Prov().Desc(r.Results[0]), "|")
			ats := strings.Join(p.DominatingAtoms(checkVis, r), " ")
			if strings.Contains(d, "ErrTxnAbortedByGC") {
				a.check(strings.Contains(ats, "T:(param#0 < fld(struct.cachedTxnSafePoint,"), fname(checkVis)+" refuses below the safe point", r, "", "the aborted-by-GC error is not returned exactly for startTS < cached safe point: "+ats)
			}
			if isNil(r.Results[0]) {
				a.check(strings.Contains(ats, "F:(param#0 < fld(struct.cachedTxnSafePoint,"), fname(checkVis)+" accepts only at/above the safe point", r, "", "a read below the cached safe point can be accepted: "+ats)
			}
		}
	}

	// ---- R2 sentinel discipline ----------------------------------------------------------------------
	{
		var fns []*ssa.Function
		for _, f := range []*ssa.Function{runOnRange, delRange, rlfr, scanOne} {
			fns = append(fns, core.FuncsIn(f)...)
		}
		sentinelRule(c, "C14.R2", fns, map[string]string{
			"(*txnkv/rangetask.DeleteRangeTask).sendReqOnRange": "the cursor takes the region end only when !isLast, i.e. when the region end is non-empty and below the range end (isLast is a local boolean computed from `len(endKey) == 0 || …`; confirmed by reading); the request's end is clamped under the same flag",
		}, 4)
		a := rule(c, "C14.R2")
		// RunOnRange: the last task ends at the requested end; isLast ⇔ region end is +∞ or ≥ requested end
		okLast := false
		core.Instrs(runOnRange, func(in ssa.Instruction) {
			st, ok := in.(*ssa.Store)
			if !ok {
				return
			}
			fa, ok := st.Addr.(*ssa.FieldAddr)
			if !ok || core.FieldOfAddr(fa) == nil || core.FieldOfAddr(fa).Name() != "EndKey" {
				return
			}
			if d := strings.Join(p.Prov().Desc(st.Val), "|"); d == "param#2" {
				okLast = true
			}
		})
		a.checkAt(okLast, fname(runOnRange)+" last task ends at the requested end", a.fnPos(runOnRange), "", "the last task's end is not clamped to the requested end key")
		// consecutive tasks: next start = previous task end
		okNext := false
		core.Instrs(runOnRange, func(in ssa.Instruction) {
			phi, ok := in.(*ssa.Phi)
			if !ok || !isByteSlice(phi) {
				return
			}
			ds := strings.Join(p.Prov().Desc(phi), "|")
			if strings.Contains(ds, "param#1") && (strings.Contains(ds, "fld(KeyRange.EndKey,new(kv.KeyRange))") || strings.Contains(ds, "BatchLoadRegionsFromKey)#0")) {
				okNext = true
			}
		})
		a.checkAt(okNext, fname(runOnRange)+" tasks are consecutive", a.fnPos(runOnRange), "", "the next task does not start where the previous one ended")
	}

	// ---- R3 failures surface ---------------------------------------------------------------------------
	{
		a := rule(c, "C14.R3")
		fErr := core.Field(p.Named(pkgRange, "rangeTaskWorker"), "err")
		if fErr == nil {
			a.undAt("anchor rangeTaskWorker.err", "-", "field not found")
		} else {
			// worker: handler error ⇒ stored and cancel()
			var handlerCall ssa.Instruction
			core.Instrs(workerRun, func(in ssa.Instruction) {
				if isDynCall(in) && handlerCall == nil {
					if cl, ok := in.(*ssa.Call); ok && descHas(c, cl.Call.Value, "rangeTaskWorker.handler") {
						handlerCall = in
					}
				}
			})
			if handlerCall == nil {
				a.violAt(fname(workerRun)+" handler call", a.fnPos(workerRun), "handler invocation not found")
			} else {
				isStoreErr := func(in ssa.Instruction) bool {
					st, ok := in.(*ssa.Store)
					if !ok {
						return false
					}
					fa, ok := st.Addr.(*ssa.FieldAddr)
					return ok && core.FieldOfAddr(fa) == fErr
				}
				hv := handlerCall.(ssa.Value)
				pErrNil := core.PIsNil(core.ResultOf(func(v ssa.Value) bool { return v == hv }, 1))
				q := &core.Q{Fn: workerRun, NoPass: isStoreErr, NoEdge: func(e core.Edge) bool { m, t := core.EdgeTruth(e, pErrNil); return m && t }}
				found, w, hit := q.Reach(handlerCall, func(in ssa.Instruction) bool {
					_, isNext := in.(*ssa.UnOp) // next receive from taskCh
					if u, ok := in.(*ssa.UnOp); ok && u.Op.String() == "<-" {
						return true
					}
					_ = isNext
					return core.IsReturn(in)
				})
				if found {
					a.viol(fname(workerRun)+" records the handler's error", hit, "a sub-range can fail without the worker recording the error (the range task would report success): "+a.w(w))
				} else {
					a.ok(fname(workerRun)+" records the handler's error", handlerCall, "")
				}
				for _, st := range storesToField(workerRun, fErr) {
					ds := p.Prov().Desc(st.Val)
					_ = ds
				}
				// cancel() on failure
				okk, w2, hit2 := condMust(c, workerRun, handlerCall, func(in ssa.Instruction) bool {
					if u, ok := in.(*ssa.UnOp); ok && u.Op.String() == "<-" {
						return true
					}
					return core.IsReturn(in)
				}, func(in ssa.Instruction) bool {
					cl, ok := in.(*ssa.Call)
					return ok && isDynCall(in) && descHas(c, cl.Call.Value, "param#1")
				}, []string{"T:(* == nil)"})
				if okk {
					a.ok(fname(workerRun)+" cancels the other workers", handlerCall, "")
				} else {
					a.viol(fname(workerRun)+" cancels the other workers", hit2, "first error does not cancel the task: "+a.w(w2))
				}
			}
			// RunOnRange: any worker error is returned
			pWErrNil := core.PIsNil(core.LoadsField(fErr))
			ifs := ifsOn(runOnRange, pWErrNil)
			a.checkAt(len(ifs) >= 1, fname(runOnRange)+" inspects worker errors", a.fnPos(runOnRange), "", "RunOnRange no longer looks at the workers' errors")
			for _, ifi := range ifs {
				b := succOn(ifi, pWErrNil, false)
				isErrReturn := func(in ssa.Instruction) bool {
					r, ok := in.(*ssa.Return)
					return ok && len(r.Results) == 1 && descHas(c, r.Results[0], "rangeTaskWorker.err")
				}
				found, w, hit := reachFromBlock(runOnRange, b, isErrReturn, nil, func(in ssa.Instruction) bool {
					if r, ok := in.(*ssa.Return); ok && !isErrReturn(in) {
						_ = r
						return true
					}
					// next worker of the loop
					if ia, ok := in.(*ssa.IndexAddr); ok && strings.Contains(ia.X.Type().String(), "rangeTaskWorker") && in.Block() != b {
						return true
					}
					return false
				})
				if found {
					a.viol(fname(runOnRange)+" a worker error fails the task", hit, "a worker's error can be skipped (the task reports success although a sub-range failed, e.g. was cancelled half-way): "+a.w(w))
				} else {
					a.ok(fname(runOnRange)+" a worker error fails the task", ifi, "")
				}
			}
			// the errors are inspected after all workers finished
			for _, ifi := range ifs {
				g, w := core.MustPassBefore(runOnRange, ifi, func(in ssa.Instruction) bool {
					cl, ok := in.(*ssa.Call)
					return ok && cl.Call.StaticCallee() != nil && cl.Call.StaticCallee().String() == "(*sync.WaitGroup).Wait"
				})
				a.check(g, fname(runOnRange)+" waits for the workers first", ifi, "", "worker errors are read before the workers finished: "+a.w(w))
			}
		}
	}

	// ---- R4 scan / resolve loop ----------------------------------------------------------------------------
	{
		a := rule(c, "C14.R4")
		// the cursor
		var cursor *ssa.Phi
		core.Instrs(rlfr, func(in ssa.Instruction) {
			phi, ok := in.(*ssa.Phi)
			if !ok || !isByteSlice(phi) {
				return
			}
			ds := strings.Join(p.Prov().Desc(phi), "|")
			if strings.Contains(ds, "param#3") && strings.Contains(ds, "ScanLocksInOneRegion") {
				if cursor == nil || len(phi.Edges) > len(cursor.Edges) {
					cursor = phi
				}
			}
		})
		if cursor == nil {
			a.violAt(fname(rlfr)+" scan cursor", a.fnPos(rlfr), "scan cursor not found")
		} else {
			pv := p.Prov()
			pv.MaxDepth = 9
			for _, d := range pv.Desc(cursor) {
				okk := d == "param#3" || glob("fld(KeyLocation.EndKey,invoke(tikv.RegionLockResolver.ScanLocksInOneRegion)#1[*", d) || glob("fld(Lock.Key,idx(invoke(tikv.RegionLockResolver.ScanLocksInOneRegion)#0[*", d)
				a.checkAt(okk, fname(rlfr)+" cursor alternative "+shorten(d, 70), a.fnPos(rlfr), "", "the GC scan cursor advances to `"+d+"`: it must be the start key, the end of the region that was SCANNED (not of the location returned by the resolve step, which may cover more after a merge), or the last lock's key when the limit was hit")
			}
			// advancing requires a resolved location
			core.Instrs(rlfr, func(in ssa.Instruction) {
				// blocks that define the advanced alternatives: loads of loc.EndKey / last lock key feeding the φ
			})
			for _, ci := range core.FindCalls(rlfr, core.CallsMethodNamed("ResolveLocksInOneRegion", "")) {
				rv := ci.(ssa.Value)
				pNilLoc := core.PIsNil(core.ResultOf(func(v ssa.Value) bool { return v == rv }, 0))
				ifs := ifsOn(rlfr, pNilLoc)
				a.check(len(ifs) == 1, fname(rlfr)+" retries when the batch was not resolved in one region", ci, "", "a nil resolved location (locks no longer in one region) is not retried")
				for _, ifi := range ifs {
					b := succOn(ifi, pNilLoc, true)
					// on nil: straight back to the scan, cursor unchanged
					found, w, hit := reachFromBlock(rlfr, b, isCallNamed("ScanLocksInOneRegion"), nil, func(in ssa.Instruction) bool {
						r, ok := in.(*ssa.Return)
						return ok && len(r.Results) == 2 && isNil(r.Results[1]) // success exit (a cancelled context returns an error)
					})
					if found {
						a.viol(fname(rlfr)+" unresolved batch is rescanned", hit, "after an unresolved batch the loop can finish without rescanning: "+a.w(w))
					} else {
						a.ok(fname(rlfr)+" unresolved batch is rescanned", ifi, "")
					}
				}
			}
		}
		// limit test: `len(locks) < scanLimit` decides between region end and last lock
		n := len(ifsOn(rlfr, core.PCmp(tokLSS, core.IsLenOf(func(v ssa.Value) bool { return descHas(c, v, "ScanLocksInOneRegion)#0") }), core.AnyV)))
		a.checkAt(n == 1, fname(rlfr)+" region finished ⇔ fewer locks than the limit", a.fnPos(rlfr), "", "the `len(locks) < scanLimit` test changed")
		for _, ci := range core.FindCalls(rlfr, core.CallsMethodNamed("ScanLocksInOneRegion", "")) {
			ds := p.Prov().Desc(argOf(ci, 3))
			a.check(len(ds) == 1 && ds[0] == "param#2", fname(rlfr)+" scans up to maxVersion", ci, "", fmt.Sprint("scan max version is ", ds))
			kd := p.Prov().Desc(argOf(ci, 1))
			_ = kd
		}
		msgField(c, "C14.R4", "ScanLockRequest", "MaxVersion", []string{"param#*"}, nil, 1, "the scan's max version is the caller's")
	}

	// ---- R5 GC order ----------------------------------------------------------------------------------------
	{
		a := rule(c, "C14.R5")
		rl := core.FindCalls(gc, core.CallsMethodNamed("resolveLocks", "KVStore"))
		up := core.FindCalls(gc, core.CallsMethodNamed("UpdateGCSafePoint", ""))
		if len(rl) != 1 || len(up) != 1 {
			a.violAt(fname(gc)+" resolve then publish", a.fnPos(gc), fmt.Sprintf("expected one resolveLocks and one UpdateGCSafePoint call, found %d/%d", len(rl), len(up)))
		} else {
			g, w := core.MustPassBefore(gc, up[0], func(in ssa.Instruction) bool { return in == rl[0].(ssa.Instruction) })
			a.check(g, fname(gc)+" safe point published after lock resolution", up[0], "", "the GC safe point can be published before locks were resolved: "+a.w(w))
			g2, w2 := core.Guarded(gc, up[0], core.PIsNil(errVarOf(rl[0])), true)
			a.check(g2, fname(gc)+" only when resolution succeeded", up[0], "", "the GC safe point is published although lock resolution failed: "+a.w(w2))
			d1 := strings.Join(p.Prov().Desc(argOf(rl[0], 1)), "|")
			d2 := strings.Join(p.Prov().Desc(argOf(up[0], 1)), "|")
			a.check(d1 == d2, fname(gc)+" same safe point", up[0], d1, fmt.Sprintf("locks are resolved up to `%s` but `%s` is published as safe point", d1, d2))
		}
	}
}
