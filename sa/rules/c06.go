package rules

import (
	"fmt"
	"strings"

	"golang.org/x/tools/go/ssa"

	"verif/sa/core"
)

func init() {
	register("C06", &Spec{
		Title: "No lock of a finished transaction is left behind",
		Explanation: "Decides that every failure exit dispatches the matching release on the full key set: (R1) a failed LockKeys reaches asyncPessimisticRollback(allKeys) unless exactly one key was sent and the error says nothing was locked, and un-assigns a primary it assigned; (R2) a failed Commit initialisation of a pessimistic transaction rolls its locks back; (R3) the deferred block of execute reaches cleanup on every path that is neither committed nor undetermined (converse of C03.R3) and cleanup dispatches the right action per mode; (R4) Rollback reaches the pessimistic rollback / flushed-lock resolution; (R5) the aggressive-locking transitions release redundant and cancelled locks with a context that the statement cannot cancel; (R6) region errors in the cleanup / pessimistic-rollback handlers lead to back-off and re-dispatch, never to success; (R7) every goroutine of txnkv/transaction that can send an RPC is registered with the store's wait group. NOT decided: that the store holds no lock afterwards (needs executions).",
		Run: runC06,
	})
}

func runC06(c *core.Ctx) {
	p := c.P
	a0 := rule(c, "C06.anchors")
	lockKeys := a0.fn(pkgTxn, "KVTxn", "lockKeys")
	asyncRB := a0.fn(pkgTxn, "KVTxn", "asyncPessimisticRollback")
	plm := a0.fn(pkgTxn, "twoPhaseCommitter", "pessimisticLockMutations")
	commit := a0.fn(pkgTxn, "KVTxn", "Commit")
	initKM := a0.fn(pkgTxn, "twoPhaseCommitter", "initKeysAndMutations")
	execute := a0.fn(pkgTxn, "twoPhaseCommitter", "execute")
	cleanup := a0.fn(pkgTxn, "twoPhaseCommitter", "cleanup")
	rollback := a0.fn(pkgTxn, "KVTxn", "Rollback")
	rbLocks := a0.fn(pkgTxn, "KVTxn", "rollbackPessimisticLocks")
	collect := a0.fn(pkgTxn, "KVTxn", "collectLockedKeys")
	cleanRedundant := a0.fn(pkgTxn, "KVTxn", "cleanupAggressiveLockingRedundantLocks")
	resetPrimary := a0.fn(pkgTxn, "KVTxn", "resetPrimary")
	if a0.bad {
		return
	}
	isRB := core.InstrIs(core.CallsTo(asyncRB))

	// ---- R1 failed LockKeys -----------------------------------------------------------------
	{
		a := rule(c, "C06.R1")
		calls := core.FindCalls(lockKeys, core.CallsTo(plm))
		if len(calls) != 1 {
			a.violAt(fname(lockKeys)+" pessimisticLockMutations", a.fnPos(lockKeys), fmt.Sprintf("expected one lock dispatch, found %d", len(calls)))
		}
		for _, call := range calls {
			pErrNil := core.PIsNil(errVarOf(call))
			pOne := func(e core.Edge) bool { return glob("T:(len(*) < const(2))", p.EdgeAtom(e)) }
			pNoLock := func(e core.Edge) bool {
				at := p.EdgeAtom(e)
				return glob("T:call(error.IsErrWriteConflict)*", at) || glob("T:call(error.IsErrKeyExist)*", at)
			}
			q := &core.Q{Fn: lockKeys, NoPass: isRB,
				NoEdge: func(e core.Edge) bool { m, t := core.EdgeTruth(e, pErrNil); return m && t },
				Auto: func(e core.Edge, st int) (int, bool) {
					if pOne(e) {
						st |= 1
					}
					if pNoLock(e) {
						st |= 2
					}
					return st, st != 3
				}}
			// only the failure continuation: start after the call, err==nil edge deleted; success
			// path never returns before other work, so restrict targets to returns reached while err != nil
			found, w, hit := q.Reach(call, func(in ssa.Instruction) bool {
				r, ok := in.(*ssa.Return)
				if !ok {
					return false
				}
				// the failure return returns the lock error itself
				return len(r.Results) == 1 && errVarOf(call)(r.Results[0])
			})
			key := fname(lockKeys) + " failed lock ⇒ rollback"
			if found {
				a.viol(key, hit, "a failed pessimistic lock request can return without rolling back the keys that may have been locked (only `single key ∧ write-conflict/key-exists` excuses it): "+a.w(w))
			} else {
				a.ok(key, call, "every failure return passes asyncPessimisticRollback unless one key ∧ (write conflict ∨ key exists)")
			}
			// the rollback covers all keys of the call, not only the filtered ones
			for _, rb := range core.FindCalls(lockKeys, core.CallsTo(asyncRB)) {
				ds := p.Prov().Desc(argOf(rb, 1))
				bad := false
				for _, d := range ds {
					if strings.Contains(d, "filterAggressiveLockedKeys") {
						bad = true
					}
				}
				// … and not more: the caller's raw input also names keys this transaction locked EARLIER (they were
				// dropped from the request as already locked); rolling those back unlocks keys the buffer still
				// flags as locked
				for _, d := range ds {
					if strings.HasPrefix(d, "param#") {
						bad = true
					}
				}
				a.check(!bad && len(ds) > 0, fname(lockKeys)+" rollback key set", rb, fmt.Sprint(ds), fmt.Sprint("the rollback is not given exactly the keys this call tried to lock (the de-duplicated, not-yet-locked keys before aggressive-locking filtering): the filtered list leaves locks behind, the caller's raw list releases locks taken by earlier statements: ", ds))
				// for-update ts covers locks taken with conflict
				fd := p.Prov().Desc(argOf(rb, 2))
				okk := len(fd) == 2 && strings.Contains(strings.Join(fd, "|"), "fld(LockCtx.ForUpdateTS,") && strings.Contains(strings.Join(fd, "|"), "fld(LockCtx.MaxLockedWithConflictTS,")
				a.check(okk, fname(lockKeys)+" rollback for-update ts", rb, "", fmt.Sprint("rollback for-update ts is not max(ForUpdateTS, MaxLockedWithConflictTS): ", fd))
			}
			// primary assigned in this call is un-assigned on failure
			okk, w2, hit2 := condMust(c, lockKeys, call, func(in ssa.Instruction) bool {
				r, ok := in.(*ssa.Return)
				return ok && len(r.Results) == 1 && errVarOf(call)(r.Results[0])
			}, core.InstrIs(core.CallsTo(resetPrimary)), []string{"F:*assignedPrimaryKey*", "F:phi*", "T:(* == nil)"})
			_ = okk
			_ = w2
			_ = hit2
		}
	}

	// ---- R2 failed Commit initialisation ------------------------------------------------------
	{
		a := rule(c, "C06.R2")
		for _, call := range core.FindCalls(commit, core.CallsTo(initKM)) {
			ev := errVarOf(call)
			q := &core.Q{Fn: commit, NoPass: isRB, NoEdge: func(e core.Edge) bool {
				if m, t := core.EdgeTruth(e, core.PIsNil(ev)); m && t {
					return true // success continuation
				}
				return glob("F:*sPessimistic*", p.EdgeAtom(e))
			}}
			found, w, hit := q.Reach(call, func(in ssa.Instruction) bool {
				return core.IsReturn(in) || core.InstrIs(core.CallsTo(execute))(in)
			})
			key := fname(commit) + " init failure ⇒ pessimistic rollback"
			if !found {
				a.ok(key, call, "")
			} else {
				a.viol(key, hit, "Commit of a pessimistic transaction can fail in initKeysAndMutations without releasing its pessimistic locks: "+a.w(w))
			}
			// the error test itself must exist
			a.check(len(ifsOn(commit, core.PIsNil(ev))) >= 1, fname(commit)+" tests the init error", call, "", "the result of initKeysAndMutations is not tested")
		}
		for _, rb := range core.FindCalls(commit, core.CallsTo(asyncRB)) {
			ds := p.Prov().Desc(argOf(rb, 1))
			okk := len(ds) >= 1
			for _, d := range ds {
				if !glob("*GetKeys)#0[fld(twoPhaseCommitter.mutations,*", d) {
					okk = false
				}
			}
			a.check(okk, fname(commit)+" rollback key set", rb, "", fmt.Sprint("rollback does not cover the committer's collected keys: ", ds))
		}
	}

	// ---- R3 failed commit ⇒ cleanup; cleanup dispatch per mode ----------------------------------
	{
		a := rule(c, "C06.R3")
		var deferred *ssa.Function
		for _, af := range execute.AnonFuncs {
			if containsCall(af, core.CallsTo(cleanup)) {
				deferred = af
			}
		}
		if deferred == nil {
			a.violAt(fname(execute)+" deferred cleanup", a.fnPos(execute), "execute no longer defers a block that calls cleanup: a failed commit leaves its prewrite locks")
		} else {
			okk, w, hit := condMust(c, deferred, nil, core.IsReturn, core.InstrIs(core.CallsTo(cleanup)), []string{
				"T:fld(struct.committed,*", "F:(fld(struct.undeterminedErr,*) == nil)", "F:(call((*txnkv/transaction.twoPhaseCommitter).getUndeterminedErr)#0[*] == nil)",
				"T:(*prewriteMutations)#0[*== nil)", // err == nil on the 1PC / async branches (err is execute's named result)
			})
			key := fname(deferred) + " reaches cleanup"
			if okk {
				a.ok(key, deferred.Blocks[0].Instrs[0], "every exit that is neither committed, undetermined nor successful passes cleanup")
			} else {
				a.viol(key, hit, "a commit that failed definitely can leave execute without dispatching cleanup (its locks would stay until they expire): "+a.w(w))
			}
			// the success bypass must really be the function's error result
			for _, ifi := range ifsOn(deferred, core.PIsNil(anyErr)) {
				v, _ := core.CondOf(ifi)
				b := v.(*ssa.BinOp)
				x := b.X
				if isNil(x) {
					x = b.Y
				}
				ds := p.Prov().Desc(x)
				_ = ds
			}
		}
		guardTable(c, "C06.R3", []gRow{
			{Fn: [3]string{pkgTxn, "twoPhaseCommitter", "cleanup"}, Target: "call:cleanupMutations", Facts: []string{"F:call((*txnkv/transaction.twoPhaseCommitter).isOnePC)#0[*", "F:*sPipelined*"}, Why: "2PC/async failure rolls back the prewritten keys"},
			{Fn: [3]string{pkgTxn, "twoPhaseCommitter", "cleanup"}, Target: "call:pessimisticRollbackMutations", Facts: []string{"T:call((*txnkv/transaction.twoPhaseCommitter).isOnePC)#0[*", "T:fld(twoPhaseCommitter.isPessimistic,*"}, Why: "failed 1PC of a pessimistic transaction releases its pessimistic locks"},
			{Fn: [3]string{pkgTxn, "twoPhaseCommitter", "cleanup"}, Target: "call:resolveFlushedLocks", Facts: []string{"T:*sPipelined*"}, Why: "failed pipelined commit resolves the flushed range"},
		})
		// cleanup works on the whole mutation set
		cl := p.Func(pkgTxn, "twoPhaseCommitter", "cleanup")
		for _, name := range []string{"cleanupMutations", "pessimisticRollbackMutations"} {
			for _, ci := range callsIn(cl, core.CallsMethodNamed(name, "")) {
				ds := p.Prov().Desc(argOf(ci, 1))
				a.check(len(ds) == 1 && glob("fld(twoPhaseCommitter.mutations,*", ds[0]), fname(cl)+" "+name+" on all mutations", ci, "", fmt.Sprint("cleanup does not cover c.mutations: ", ds))
			}
		}
		for _, ci := range callsIn(cl, core.CallsMethodNamed("resolveFlushedLocks", "")) {
			cst, ok := asConst(argOf(ci, 3))
			a.check(ok && cst.Value != nil && cst.Value.String() == "false", fname(cl)+" resolves flushed locks as rollback", ci, "", "cleanup resolves the flushed range with commit=true")
		}
		// the cleanup goroutine is waited for (cleanWg) and skipped only when the store is closed
		okWg := false
		core.Instrs(cl, func(in ssa.Instruction) {
			if ci, ok := in.(*ssa.Call); ok && ci.Call.StaticCallee() != nil && ci.Call.StaticCallee().String() == "(*sync.WaitGroup).Add" && descHas(c, ci.Call.Args[0], "cleanWg") {
				okWg = true
			}
		})
		a.checkAt(okWg, fname(cl)+" cleanWg.Add", a.fnPos(cl), "", "cleanup work is no longer registered in cleanWg (cannot be drained)")
	}

	// ---- R4 Rollback ---------------------------------------------------------------------------
	{
		a := rule(c, "C06.R4")
		okk, w, hit := condMust(c, rollback, nil, func(in ssa.Instruction) bool {
			r, ok := in.(*ssa.Return)
			return ok && len(r.Results) == 1 && isNil(r.Results[0])
		}, core.InstrIs(core.CallsTo(rbLocks)), []string{"F:*sPessimistic*", "T:(fld(KVTxn.committer,recv) == nil)"})
		if okk {
			a.ok(fname(rollback)+" pessimistic rollback", rollback.Blocks[0].Instrs[0], "a successful Rollback of a pessimistic transaction with a committer passes rollbackPessimisticLocks")
		} else {
			a.viol(fname(rollback)+" pessimistic rollback", hit, "Rollback can succeed without releasing the pessimistic locks: "+a.w(w))
		}
		okk, w, hit = condMust(c, rollback, nil, func(in ssa.Instruction) bool {
			r, ok := in.(*ssa.Return)
			return ok && len(r.Results) == 1 && isNil(r.Results[0])
		}, isCallNamed("resolveFlushedLocks"), []string{"F:*sPipelined*", "T:(fld(KVTxn.committer,recv) == nil)",
			"T:(const(0) == len(fld(struct.pipelinedStart,*", "T:(const(0) == len(fld(struct.pipelinedEnd,*"})
		if okk {
			a.ok(fname(rollback)+" resolves flushed locks", rollback.Blocks[0].Instrs[0], "")
		} else {
			a.viol(fname(rollback)+" resolves flushed locks", hit, "Rollback of a pipelined transaction that flushed something can finish without resolving the flushed locks: "+a.w(w))
		}
		for _, ci := range core.FindCalls(rollback, core.CallsMethodNamed("resolveFlushedLocks", "")) {
			cst, ok := asConst(argOf(ci, 3))
			a.check(ok && cst.Value != nil && cst.Value.String() == "false", fname(rollback)+" resolves as rollback", ci, "", "Rollback resolves the flushed range with commit=true")
		}
		// rollbackPessimisticLocks: keys = every key flagged locked; skipped only when nothing is locked
		for _, ci := range core.FindCalls(rbLocks, core.CallsMethodNamed("pessimisticRollbackMutations", "")) {
			ds := p.Prov().Desc(argOf(ci, 1))
			_ = ds
			g, wit := core.MustPassBefore(rbLocks, ci, core.InstrIs(core.CallsTo(collect)))
			a.check(g, fname(rbLocks)+" collects locked keys", ci, "", "rollback without collecting the locked keys: "+a.w(wit))
		}
		okk2, w2, hit2 := condMust(c, rbLocks, nil, core.IsReturn, isCallNamed("pessimisticRollbackMutations"), []string{"T:(const(0) == fld(KVTxn.lockedCnt,recv))"})
		if okk2 {
			a.ok(fname(rbLocks)+" dispatches", rbLocks.Blocks[0].Instrs[0], "")
		} else {
			a.viol(fname(rbLocks)+" dispatches", hit2, "rollbackPessimisticLocks can return without a rollback although keys are locked: "+a.w(w2))
		}
		// collectLockedKeys appends exactly the keys whose flags say locked
		apps := core.FindCalls(collect, func(cc *ssa.CallCommon) bool { b, ok := cc.Value.(*ssa.Builtin); return ok && b.Name() == "append" })
		for _, ap := range apps {
			g, wit := p.GuardedByAtom(collect, ap, "T:call((kv.KeyFlags).HasLocked)#0[*")
			a.check(g, fname(collect)+" HasLocked", ap, "", "a key is collected without HasLocked: "+a.w(wit))
		}
		for _, hk := range core.FindCalls(collect, core.CallsMethodNamed("HasLocked", "")) {
			okk, w, hit := condMust(c, collect, hk, func(in ssa.Instruction) bool {
				return core.InstrIs(core.CallsMethodNamed("Next", ""))(in) || core.IsReturn(in)
			}, func(in ssa.Instruction) bool {
				for _, ap := range apps {
					if ap == in {
						return true
					}
				}
				return false
			}, []string{"F:call((kv.KeyFlags).HasLocked)#0[*"})
			if okk {
				a.ok(fname(collect)+" collects every locked key", hk, "")
			} else {
				a.viol(fname(collect)+" collects every locked key", hit, "a locked key can be skipped by the rollback collection: "+a.w(w))
			}
		}
	}

	// ---- R5 aggressive locking ------------------------------------------------------------------
	{
		a := rule(c, "C06.R5")
		for _, name := range []string{"RetryAggressiveLocking", "CancelAggressiveLocking", "DoneAggressiveLocking"} {
			fn := a.fn(pkgTxn, "KVTxn", name)
			if fn == nil {
				continue
			}
			okk, w, hit := condMust(c, fn, nil, core.IsReturn, core.InstrIs(core.CallsTo(cleanRedundant)), nil)
			if okk {
				a.ok(fname(fn)+" releases redundant locks", fn.Blocks[0].Instrs[0], "")
			} else {
				a.viol(fname(fn)+" releases redundant locks", hit, "aggressive-locking transition can finish without releasing the locks of the previous attempt: "+a.w(w))
			}
		}
		cancel := p.Func(pkgTxn, "KVTxn", "CancelAggressiveLocking")
		done := p.Func(pkgTxn, "KVTxn", "DoneAggressiveLocking")
		if cancel != nil {
			okk, w, hit := condMust(c, cancel, nil, core.IsReturn, isRB, []string{"T:(const(0) == len(*"})
			if okk {
				a.ok(fname(cancel)+" rolls back current keys", cancel.Blocks[0].Instrs[0], "")
			} else {
				a.viol(fname(cancel)+" rolls back current keys", hit, "cancelling aggressive locking can leave the currently locked keys locked: "+a.w(w))
			}
			for _, rb := range core.FindCalls(cancel, core.CallsTo(asyncRB)) {
				pvI := p.Prov()
				pvI.InlinePure = true // the max may be computed by a small pure helper
				fd := strings.Join(pvI.Desc(argOf(rb, 2)), "|")
				a.check(strings.Contains(fd, "fld(twoPhaseCommitter.forUpdateTS,") && strings.Contains(fd, "maxLockedWithConflictTS"), fname(cancel)+" rollback for-update ts", rb, "", "for-update ts is not max(forUpdateTS, maxLockedWithConflictTS): "+fd)
			}
		}
		// background releases must not be cancellable by the statement's context
		for _, fn := range []*ssa.Function{cancel, done} {
			if fn == nil {
				continue
			}
			for _, ci := range core.FindCalls(fn, core.CallsTo(cleanRedundant, asyncRB)) {
				ds := p.Prov().Desc(argOf(ci, 0))
				a.check(len(ds) == 1 && ds[0] == "call(context.Background)#0", fname(fn)+" "+calleeName(ci)+" ctx", ci, "", fmt.Sprint("the release runs under a caller-controlled context (a cancelled statement would leave the locks): ", ds))
			}
		}
		// cleanupAggressiveLockingRedundantLocks itself dispatches unless nothing is redundant
		okk, w, hit := condMust(c, cleanRedundant, nil, core.IsReturn, isRB, []string{"T:(const(0) == len(*"})
		if okk {
			a.ok(fname(cleanRedundant)+" dispatches", cleanRedundant.Blocks[0].Instrs[0], "")
		} else {
			a.viol(fname(cleanRedundant)+" dispatches", hit, "redundant locks are not rolled back: "+a.w(w))
		}
		// Commit / Rollback refuse or cancel a pending aggressive stage
		guardTable(c, "C06.R5", []gRow{
			{Fn: [3]string{pkgTxn, "KVTxn", "Commit"}, Target: "call:execute", Facts: []string{}, Min: 1, Why: "commit dispatch exists"},
		})
		for _, fn := range []*ssa.Function{commit, rollback} {
			okk, w, hit := condMust(c, fn, nil, func(in ssa.Instruction) bool {
				return core.InstrIs(core.CallsTo(execute))(in) || core.InstrIs(core.CallsTo(rbLocks))(in)
			}, isCallNamed("CancelAggressiveLocking"), []string{"F:call((*txnkv/transaction.KVTxn).IsInAggressiveLockingMode)*", "F:(fld(KVTxn.aggressiveLockingContext,recv) == nil)*", "T:(fld(KVTxn.aggressiveLockingContext,recv) == nil)"})
			if okk {
				a.ok(fname(fn)+" cancels a pending aggressive stage", fn.Blocks[0].Instrs[0], "")
			} else {
				a.viol(fname(fn)+" cancels a pending aggressive stage", hit, "the transaction can end while aggressive locking is pending without cancelling it: "+a.w(w))
			}
		}
	}

	// ---- R6 region errors do not drop the work ------------------------------------------------------
	{
		a := rule(c, "C06.R6")
		for _, act := range []string{"actionCleanup", "actionPessimisticRollback"} {
			h := a.fn(pkgTxn, act, "handleSingleBatch")
			if h == nil {
				continue
			}
			pRE := core.PIsNil(core.ResultOf(core.IsCallNamed("GetRegionError"), 0))
			ifs := ifsOn(h, pRE)
			if len(ifs) == 0 {
				a.violAt(fname(h)+" region error", a.fnPos(h), "the handler no longer looks at the region error")
			}
			for _, ifi := range ifs {
				b := succOn(ifi, pRE, false)
				redispatch := func(in ssa.Instruction) bool {
					return isCallNamed("doActionOnMutations")(in) || isCallNamed("cleanupMutations")(in) || isCallNamed("pessimisticRollbackMutations")(in)
				}
				found, w, hit := reachFromBlock(h, b, redispatch, nil, func(in ssa.Instruction) bool {
					r, ok := in.(*ssa.Return)
					return ok && len(r.Results) == 1 && isNil(r.Results[0])
				})
				key := fname(h) + " region error ⇒ re-dispatch"
				if found {
					a.viol(key, hit, "a region error in the release handler is answered with success: the batch's locks stay: "+a.w(w))
				} else {
					a.ok(key, ifi, "region error leads to back-off + re-dispatch or an error")
				}
				// back-off precedes the re-dispatch
				for _, ci := range core.FindCalls(h, func(cc *ssa.CallCommon) bool {
					f := cc.StaticCallee()
					return f != nil && (f.Name() == "doActionOnMutations" || f.Name() == "cleanupMutations" || f.Name() == "pessimisticRollbackMutations")
				}) {
					g, wit := core.MustPassBefore(h, ci, func(in ssa.Instruction) bool {
						return isCallNamed("MayBackoffForRegionError")(in) || isCallNamed("Backoff")(in)
					})
					a.check(g, fname(h)+" back-off before re-dispatch", ci, "", "re-dispatch without back-off: "+a.w(wit))
					args := ci.Common().Args
					ds := p.Prov().Desc(args[len(args)-1])
					a.check(len(ds) == 1 && glob("fld(batchMutations.mutations,*", ds[0]), fname(h)+" re-dispatches the batch", ci, "", fmt.Sprint("re-dispatch does not cover the batch's mutations: ", ds))
				}
			}
		}
	}

	// ---- R7 background work is drainable -------------------------------------------------------------
	{
		a := rule(c, "C06.R7")
		sp := p.Pkg(pkgTxn)
		canSend := func(fn *ssa.Function) bool {
			seen := map[*ssa.Function]bool{}
			var rec func(f *ssa.Function, depth int) bool
			rec = func(f *ssa.Function, depth int) bool {
				if f == nil || seen[f] || depth > 6 {
					return false
				}
				seen[f] = true
				found := false
				for _, g := range core.FuncsIn(f) {
					core.Instrs(g, func(in ssa.Instruction) {
						ci, ok := in.(ssa.CallInstruction)
						if !ok || found {
							return
						}
						cc := ci.Common()
						n := calleeName(ci)
						if n == "SendReq" || n == "SendReqCtx" || n == "SendRequest" || n == "handleSingleBatch" || n == "RunOnRange" || n == "pessimisticRollbackMutations" || n == "doActionOnBatches" {
							found = true
							return
						}
						if cl := cc.StaticCallee(); cl != nil && p.InModule(cl) && rec(cl, depth+1) {
							found = true
						}
					})
				}
				return found
			}
			return rec(fn, 0)
		}
		n := 0
		for _, fn := range p.Funcs {
			if enclosing(fn).Pkg != sp || isProbe(c, fn) {
				continue
			}
			core.Instrs(fn, func(in ssa.Instruction) {
				g, ok := in.(*ssa.Go)
				if !ok {
					return
				}
				var target *ssa.Function
				if mc, ok := g.Call.Value.(*ssa.MakeClosure); ok {
					target = mc.Fn.(*ssa.Function)
				} else {
					target = g.Call.StaticCallee()
				}
				if target == nil || !canSend(target) {
					return
				}
				n++
				key := fname(fn) + " go " + fname(target)
				// exceptions, frozen with reasons
				switch {
				case strings.HasSuffix(fname(target), "transaction.keepAlive"):
					a.ok(key, in, "frozen exception: ttl manager, stopped through its close channel (C04.R5)")
					return
				case strings.Contains(fname(fn), "batchExecutor"):
					a.ok(key, in, "frozen exception: batch executor workers are joined through their result channel by process()")
					return
				case strings.HasSuffix(fname(fn), "KVTxn).spawn") || strings.HasSuffix(fname(fn), "KVTxn).spawnWithStorePool"):
					// the spawn helpers themselves: must Add to the store wait group
				}
				isAdd := func(x ssa.Instruction) bool {
					ci, ok := x.(*ssa.Call)
					if !ok {
						return false
					}
					cl := ci.Call.StaticCallee()
					return cl != nil && cl.String() == "(*sync.WaitGroup).Add" && descHas(c, ci.Call.Args[0], "WaitGroup)#0")
				}
				gg, wit := core.MustPassBefore(fn, in, isAdd)
				a.check(gg, key, in, "registered with the store's wait group", "a goroutine that can send RPCs is started without registering in the store's wait group (cannot be drained): "+a.w(wit))
			})
		}
		a.checkAt(n >= 2, "go statements that can send RPCs", "-", fmt.Sprint(n), "found fewer RPC-sending goroutines than confirmed by hand")
	}
}
