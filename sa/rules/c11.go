package rules

import (
	"fmt"
	"go/types"
	"strings"

	"golang.org/x/tools/go/ssa"

	"verif/sa/core"
)

const pkgRaw = "rawkv"

func init() {
	register("C11", &Spec{
		Title: "Raw KV operations behave as one ordered map regardless of region layout",
		Explanation: "Decides: (R1) range cursors: every order comparison of a region/user end key in the raw client is guarded by an emptiness test (+∞ sentinel), the scan/checksum/delete-range loops stop only for a legitimate reason (limit reached, requested end reached, last region), and the delete range is clamped to the region end under the guard; (R2) limit accounting: each scan request asks for limit − len(keys), the limit is validated first; (R3) batch get returns values positionally aligned with the *input* keys; (R4) batches: a flushed batch never shares its backing arrays with the next one, region errors re-split exactly the failed batch after a back-off; NOT decided: equivalence with a single ordered map over region-layout changes.",
		Run: runC11,
	})
}

func runC11(c *core.Ctx) {
	p := c.P
	a0 := rule(c, "C11.anchors")
	scan := a0.fn(pkgRaw, "Client", "Scan")
	rscan := a0.fn(pkgRaw, "Client", "ReverseScan")
	checksum := a0.fn(pkgRaw, "Client", "Checksum")
	delRange := a0.fn(pkgRaw, "Client", "DeleteRange")
	sendDel := a0.fn(pkgRaw, "Client", "sendDeleteRangeReq")
	batchGet := a0.fn(pkgRaw, "Client", "BatchGet")
	doBatchReq := a0.fn(pkgRaw, "Client", "doBatchReq")
	doBatchPut := a0.fn(pkgRaw, "Client", "doBatchPut")
	appendB := a0.fn("internal/kvrpc", "", "AppendBatches")
	appendKB := a0.fn("internal/kvrpc", "", "AppendKeyBatches")
	if a0.bad {
		return
	}
	sp := p.Pkg(pkgRaw)

	// ---- R1 range cursors ------------------------------------------------------------------------------
	{
		var fns []*ssa.Function
		for _, f := range p.Funcs {
			if enclosing(f).Pkg == sp && !strings.HasSuffix(p.Fset.Position(f.Pos()).Filename, "_test.go") {
				fns = append(fns, f)
			}
		}
		sentinelRule(c, "C11.R1", fns, nil, 3)
		a := rule(c, "C11.R1")
		// loops stop only for a legitimate reason
		for _, spec := range []struct {
			fn    *ssa.Function
			send  string
			legit []string
		}{
			{scan, "sendReq", []string{
				"T:(const(0) == len(fld(KeyLocation.EndKey,*", "T:(len(fld(KeyLocation.EndKey,*) < const(1))", // last region
				"F:(len(*) < param#3)", // limit reached
				"F:(call(bytes.Compare)#0 < const(0))", // requested end reached
			}},
			{rscan, "sendReq", []string{
				"T:(const(0) == len(fld(KeyLocation.StartKey,*", "T:(len(fld(KeyLocation.StartKey,*) < const(1))",
				"F:(len(*) < param#3)",
				"F:(call(bytes.Compare)#0 < const(0))", "F:(const(0) < call(bytes.Compare)#0)", "T:(call(bytes.Compare)#0 < const(1))",
			}},
			{checksum, "sendReq", []string{
				"T:(const(0) == len(fld(KeyLocation.EndKey,*", "T:(len(fld(KeyLocation.EndKey,*) < const(1))",
				"F:(call(bytes.Compare)#0 < const(0))",
			}},
			{delRange, "sendDeleteRangeReq", []string{
				"T:(const(0) == len(call((*rawkv.Client).sendDeleteRangeReq)#1*", "T:(len(call((*rawkv.Client).sendDeleteRangeReq)#1*) < const(1))",
				"F:(call(bytes.Compare)#0 < const(0))", "F:(call(bytes.Equal)*", "T:call(bytes.Equal)*",
			}},
		} {
			for _, sc := range core.FindCalls(spec.fn, core.CallsMethodNamed(spec.send, "")) {
				okk, w, hit := condMust(c, spec.fn, sc, func(in ssa.Instruction) bool {
					r, ok := in.(*ssa.Return)
					if !ok {
						return false
					}
					// success exits: the error result may be nil
					for _, res := range r.Results {
						if isErrorType(res.Type()) && certainlyNonNilError(res) {
							return false
						}
					}
					return true
				}, isCallNamed(spec.send), append([]string{"F:(call((*rawkv.Client).send*)#2[recv] == nil)",
					// any outcome of comparing the cursor with the requested end (the three-way result against 0, whatever the spelling)
					"*:(call(bytes.Compare)#0 < const(0))", "*:(const(0) < call(bytes.Compare)#0)", "*:(call(bytes.Compare)#0 < const(1))", "*:(const(-1) < call(bytes.Compare)#0)",
					"*:(const(0) == call(bytes.Compare)#0)", "*:(call(bytes.Compare)#0 == const(0))"}, spec.legit...))
				if okk {
					a.ok(fname(spec.fn)+" loop stops only at the end of the range / limit / last region", sc, "")
				} else {
					a.viol(fname(spec.fn)+" loop stops only at the end of the range / limit / last region", hit, "the region loop can stop although the requested range is not exhausted (e.g. on an empty region): the rest of the range is skipped: "+a.w(w))
				}
			}
		}
		// delete range: the request end is the region end only when the region ends before the requested end
		for _, st := range storesToFieldNamed(sendDel, "RawDeleteRangeRequest.EndKey") {
			ds := strings.Join(p.Prov().Desc(st.(*ssa.Store).Val), "|")
			a.check(strings.Contains(ds, "param#2") && strings.Contains(ds, "KeyLocation.EndKey"), fname(sendDel)+" end = min(region end, requested end)", st, ds, "the per-region delete range end is not chosen between the region end and the requested end: "+ds)
			g, why := phiIncomingGuarded(sendDel, st.(*ssa.Store).Val, func(v ssa.Value) bool { return descHas(c, v, "KeyLocation.EndKey") }, []guardSpec{
				{"len(loc.EndKey) > 0", core.PEmpty(func(v ssa.Value) bool { return descHas(c, v, "KeyLocation.EndKey") }), false},
			})
			if !g {
				// the choice may be made by a private helper that returns one of its parameters: then the guard is
				// on the helper's return of the parameter that receives the region end
				if cl, ok := core.Strip(st.(*ssa.Store).Val).(*ssa.Call); ok && cl.Call.StaticCallee() != nil && len(cl.Call.StaticCallee().Blocks) > 0 {
					h := cl.Call.StaticCallee()
					for k, arg := range cl.Call.Args {
						if !descHas(c, arg, "KeyLocation.EndKey") || k >= len(h.Params) {
							continue
						}
						par := h.Params[k]
						all, n := true, 0
						for _, r := range returnsOf(h) {
							if core.Strip(r.Results[0]) != ssa.Value(par) {
								continue
							}
							n++
							if okk, _ := core.Guarded(h, r, core.PEmpty(func(v ssa.Value) bool { return core.Strip(v) == ssa.Value(par) }), false); !okk {
								all = false
							}
						}
						if n > 0 && all {
							g = true
						}
					}
				}
			}
			a.check(g, fname(sendDel)+" region end used only when it is not +∞", st, "", "the delete range can be clamped to an unbounded (empty) region end, i.e. extended to +∞: "+why)
		}
	}

	// ---- R1b cursor advancement -----------------------------------------------------------------------------
	{
		a := rule(c, "C11.R1b")
		sendReq := a.fn(pkgRaw, "Client", "sendReq")
		pv := p.Prov()
		descSet := func(v ssa.Value) string {
			ds := pv.Desc(v)
			sortStrs(ds)
			return strings.Join(ds, "|")
		}
		for _, spec := range []struct {
			fn      *ssa.Function
			field   string
			want    string
			reverse string
		}{
			{scan, "RawScanRequest.StartKey", "fld(KeyLocation.EndKey,call((*rawkv.Client).sendReq)#1[recv])|param#1", "const(false)"},
			{rscan, "RawScanRequest.StartKey", "fld(KeyLocation.StartKey,call((*rawkv.Client).sendReq)#1[recv])|param#1", "const(true)"},
			{checksum, "KeyRange.StartKey", "fld(KeyLocation.EndKey,call((*rawkv.Client).sendReq)#1[recv])|param#1", "const(false)"},
		} {
			sts := storesToFieldNamed(spec.fn, spec.field)
			a.checkAt(len(sts) == 1, fname(spec.fn)+" builds one request per region", a.fnPos(spec.fn), "", "request construction not found")
			for _, st := range sts {
				d := descSet(st.(*ssa.Store).Val)
				a.check(d == spec.want, fname(spec.fn)+" next request starts where the region just handled ends", st, d, "the per-region request does not start at the caller's start key / the bound of the region just handled: "+d)
			}
			for _, sc := range core.FindCalls(spec.fn, core.CallsMethodNamed("sendReq", "")) {
				args := sc.Common().Args
				d := descSet(args[2])
				a.check(d == spec.want, fname(spec.fn)+" locates the region by the cursor", sc, d, "the region is located by a key other than the cursor: "+d)
				r := descSet(args[4])
				a.check(r == spec.reverse, fname(spec.fn)+" locate direction", sc, r, "wrong locate direction (forward scans locate by start key, reverse scans by end key): "+r)
			}
		}
		for _, sc := range core.FindCalls(delRange, core.CallsMethodNamed("sendDeleteRangeReq", "")) {
			args := sc.Common().Args
			d := descSet(args[2])
			a.check(d == "call((*rawkv.Client).sendDeleteRangeReq)#1[recv]|param#1", fname(delRange)+" continues at the end actually deleted", sc, d, "the next delete-range piece does not start where the previous one ended: "+d)
			e := descSet(args[3])
			a.check(e == "param#2", fname(delRange)+" keeps the requested end", sc, e, "the requested end key is not passed through: "+e)
		}
		if sendReq != nil {
			guardTable(c, "C11.R1b", []gRow{
				{Fn: [3]string{pkgRaw, "Client", "sendReq"}, Target: "call:LocateEndKey", Facts: []string{"T:param#3"}, Min: 1, Why: "reverse requests locate the region that ends at the cursor"},
				{Fn: [3]string{pkgRaw, "Client", "sendReq"}, Target: "call:LocateKey", Facts: []string{"F:param#3"}, Min: 1, Why: "forward requests locate the region that contains the cursor"},
			})
			for _, sc := range core.FindCalls(sendReq, core.CallsMethodNamed("SendReq", "")) {
				g, w := core.MustPassBefore(sendReq, sc, func(in ssa.Instruction) bool {
					return isCallNamed("LocateKey")(in) || isCallNamed("LocateEndKey")(in)
				})
				a.check(g, fname(sendReq)+" locates before each attempt", sc, "", "a request is sent without locating the region: "+a.w(w))
				d := descSet(sc.Common().Args[3])
				a.check(strings.Contains(d, "fld(KeyLocation.Region,") && strings.Contains(d, "LocateKey)#0") && strings.Contains(d, "LocateEndKey)#0"), fname(sendReq)+" sends to the located region", sc, d, "the request is not sent to the region just located: "+d)
			}
			for _, bk := range core.FindCalls(sendReq, core.CallsMethodNamed("Backoff", "")) {
				okk, w, hit := condMust(c, sendReq, bk, isCallNamed("SendReq"), func(in ssa.Instruction) bool {
					return isCallNamed("LocateKey")(in) || isCallNamed("LocateEndKey")(in)
				}, nil)
				if okk {
					a.ok(fname(sendReq)+" re-locates after a region error", bk, "")
				} else {
					a.viol(fname(sendReq)+" re-locates after a region error", hit, "after a region error the request is re-sent to the stale location: "+a.w(w))
				}
			}
			for _, r := range returnsOf(sendReq) {
				if len(r.Results) == 3 && isNil(r.Results[2]) {
					d := descSet(r.Results[1])
					a.check(strings.Contains(d, "LocateKey)#0") && strings.Contains(d, "LocateEndKey)#0") && !strings.Contains(d, "nil"), fname(sendReq)+" reports the location that served the request", r, d, "the location returned to the caller (which advances its cursor by it) is not the one the request was served from: "+d)
				}
			}
		}
	}

	// ---- R2 limit accounting --------------------------------------------------------------------------------
	{
		a := rule(c, "C11.R2")
		for _, fn := range []*ssa.Function{scan, rscan} {
			for _, st := range storesToFieldNamed(fn, "RawScanRequest.Limit") {
				ds := p.Prov().Desc(st.(*ssa.Store).Val)
				okk := len(ds) >= 1
				for _, d := range ds {
					if !glob("(param#3 - len(*))", d) {
						okk = false
					}
				}
				a.check(okk, fname(fn)+" asks for the remaining count", st, fmt.Sprint(ds), fmt.Sprint("a scan request does not ask for limit − len(keys): more than `limit` pairs can be returned: ", ds))
			}
			for _, sc := range core.FindCalls(fn, core.CallsMethodNamed("sendReq", "")) {
				g, w := p.GuardedByAtom(fn, sc, "F:(global(rawkv.MaxRawKVScanLimit) < param#3)")
				a.check(g, fname(fn)+" limit validated first", sc, "", "requests are sent without rejecting limit > MaxRawKVScanLimit: "+a.w(w))
			}
		}
	}

	// ---- R3 positional alignment -------------------------------------------------------------------------------
	{
		a := rule(c, "C11.R3")
		// values := make([][]byte, len(keys)); values[i] = … with i ranging over the input keys
		var mk *ssa.MakeSlice
		core.Instrs(batchGet, func(in ssa.Instruction) {
			if m, ok := in.(*ssa.MakeSlice); ok && m.Type().String() == "[][]byte" {
				mk = m
			}
		})
		if mk == nil {
			a.violAt(fname(batchGet)+" result slice", a.fnPos(batchGet), "result slice not found")
		} else {
			ld := strings.Join(p.Prov().Desc(mk.Len), "|")
			a.check(ld == "len(param#1)", fname(batchGet)+" one slot per requested key", mk, "", "the result does not have one slot per requested key: len = "+ld)
			n := 0
			core.Instrs(batchGet, func(in ssa.Instruction) {
				st, ok := in.(*ssa.Store)
				if !ok {
					return
				}
				ia, ok := st.Addr.(*ssa.IndexAddr)
				if !ok || ia.X != ssa.Value(mk) {
					return
				}
				n++
				// the index is the loop index over the input keys: the same index value indexes param keys
				same := false
				core.Instrs(batchGet, func(x ssa.Instruction) {
					if ia2, ok := x.(*ssa.IndexAddr); ok && ia2.Index == ia.Index {
						if par, ok := ia2.X.(*ssa.Parameter); ok && par == batchGet.Params[2] {
							same = true
						}
					}
				})
				a.check(same, fname(batchGet)+" values[i] ↔ keys[i]", st, "", "result slots are not filled by the position of the requested key (e.g. by response order): values would be misaligned with keys")
			})
			a.checkAt(n == 1, fname(batchGet)+" fills the result by position", a.fnPos(batchGet), "", "positional fill not found")
			for _, r := range returnsOf(batchGet) {
				if len(r.Results) == 2 && isNil(r.Results[1]) {
					a.check(core.Strip(r.Results[0]) == ssa.Value(mk), fname(batchGet)+" returns the aligned slice", r, "", "another slice is returned")
				}
			}
		}
	}

	// ---- R4 batches ---------------------------------------------------------------------------------------------
	{
		a := rule(c, "C11.R4")
		for _, fn := range []*ssa.Function{appendB, appendKB} {
			// loop-carried key/value/ttl slices: after a flush the variable must be a fresh slice
			n := 0
			core.Instrs(fn, func(in ssa.Instruction) {
				phi, ok := in.(*ssa.Phi)
				if !ok || !strings.HasPrefix(phi.Type().String(), "[]") {
					return
				}
				if phi.Type().String() == "[]"+"github.com/tikv/client-go/v2/internal/kvrpc.Batch" {
					return
				}
				for _, e := range phi.Edges {
					if sl, ok := e.(*ssa.Slice); ok && !isFreshArraySlice(sl) {
						n++
						a.viol(fname(fn)+" fresh slices after a flush", sl, "after a batch was emitted its slice is re-used (re-sliced to length 0) for the next batch: both batches share one backing array and the earlier batch's keys/values are overwritten")
					}
				}
			})
			if n == 0 {
				a.okAt(fname(fn)+" fresh slices after a flush", a.fnPos(fn), "no accumulated slice is re-sliced after being handed to a batch")
			}
			mk := 0
			core.Instrs(fn, func(in ssa.Instruction) {
				if _, ok := in.(*ssa.MakeSlice); ok {
					mk++
				}
				if sl, ok := in.(*ssa.Slice); ok && isFreshArraySlice(sl) {
					if _, isArr := sl.Type().Underlying().(*types.Slice); isArr && len(*sl.Referrers()) > 0 {
						if _, toPhi := (*sl.Referrers())[0].(*ssa.Phi); toPhi {
							mk++
						}
					}
				}
			})
			a.checkAt(mk >= 1, fname(fn)+" allocates per batch", a.fnPos(fn), "", "no per-batch allocation found")
		}
		// region error ⇒ back-off then re-dispatch of exactly the batch
		for _, spec := range []struct {
			fn   *ssa.Function
			redo string
			flds []string
		}{{doBatchReq, "sendBatchReq", []string{"Batch.Keys"}}, {doBatchPut, "sendBatchPut", []string{"Batch.Keys", "Batch.Values", "Batch.TTLs"}}} {
			for _, ci := range core.FindCalls(spec.fn, core.CallsMethodNamed(spec.redo, "")) {
				g, w := core.MustPassBefore(spec.fn, ci, isCallNamed("Backoff"))
				a.check(g, fname(spec.fn)+" back-off before re-split", ci, "", "the batch is re-dispatched after a region error without backing off: "+a.w(w))
				pv := p.Prov()
				all := ""
				for _, arg := range ci.Common().Args {
					all += strings.Join(pv.Desc(arg), "|") + ";"
				}
				okk := true
				for _, f := range spec.flds {
					if !strings.Contains(all, "fld("+f+",") {
						okk = false
					}
				}
				a.check(okk, fname(spec.fn)+" re-splits exactly the failed batch", ci, "", "the re-dispatch after a region error does not pass the batch's own "+strings.Join(spec.flds, "/")+": "+all)
			}
			a.checkAt(len(core.FindCalls(spec.fn, core.CallsMethodNamed(spec.redo, ""))) == 1, fname(spec.fn)+" handles region errors", a.fnPos(spec.fn), "", "region-error re-split not found")
		}
	}
}

// isFreshArraySlice: `make([]T, k)` with constant k compiles to new [k]T + slice.
func isFreshArraySlice(sl *ssa.Slice) bool {
	_, ok := sl.X.(*ssa.Alloc)
	return ok
}
