#!/usr/bin/env python3
"""Seeded variants for the checker self-test. Each V(...) is one edit (exact, unique text
replacement in one file of /repo) analysed by `sa selftest` through an in-memory overlay.
expect = rule id (prefix) that must report a violation, or "none" for a neutral refactor that
every rule of the property must stay silent on. Run this file to regenerate variants.json."""
import json, os
VARS = []
def V(id, prop, file, old, new, expect, note=""):
    VARS.append(dict(id=id, property=prop, file=file, old=old, new=new, expect=expect, note=note))

COMMIT = "txnkv/transaction/commit.go"
TPC = "txnkv/transaction/2pc.go"
PREW = "txnkv/transaction/prewrite.go"

# ---------------------------------------------------------------- C03
V("c03-drop-setundetermined", "C03", COMMIT,
  "\t\t\tc.setUndeterminedErr(errors.WithStack(sender.GetRPCError()))\n", "\t\t\t_ = sender.GetRPCError()\n", "C03.R1")
V("c03-set-after-err-return", "C03", COMMIT,
  """		if batch.isPrimary && sender.GetRPCError() != nil && !c.isAsyncCommit() {
			c.setUndeterminedErr(errors.WithStack(sender.GetRPCError()))
		}

		// Unexpected error occurs, return it.
		if err != nil {
			if trace.IsCategoryEnabled(trace.CategoryTxn2PC) {
				trace.TraceEvent(bo.GetCtx(), trace.CategoryTxn2PC, "commit.batch.result",
					zap.Uint64("regionID", batch.region.GetID()),
					zap.Bool("success", false))
			}
			return err
		}
""",
  """		// Unexpected error occurs, return it.
		if err != nil {
			if trace.IsCategoryEnabled(trace.CategoryTxn2PC) {
				trace.TraceEvent(bo.GetCtx(), trace.CategoryTxn2PC, "commit.batch.result",
					zap.Uint64("regionID", batch.region.GetID()),
					zap.Bool("success", false))
			}
			return err
		}
		if batch.isPrimary && sender.GetRPCError() != nil && !c.isAsyncCommit() {
			c.setUndeterminedErr(errors.WithStack(sender.GetRPCError()))
		}
""", "C03.R1")
V("c03-clear-before-region-check", "C03", COMMIT,
  """		regionErr, err := resp.GetRegionError()
		if err != nil {
			return err
		}
		if regionErr != nil {
			if regionErr.GetUndeterminedResult()""",
  """		if batch.isPrimary && !c.isAsyncCommit() {
			c.setUndeterminedErr(nil)
		}
		regionErr, err := resp.GetRegionError()
		if err != nil {
			return err
		}
		if regionErr != nil {
			if regionErr.GetUndeterminedResult()""", "C03.R2")
V("c03-cleanup-ignores-undetermined", "C03", TPC,
  "\t\t\tif !committed && !undetermined {\n", "\t\t\t_ = undetermined\n\t\t\tif !committed {\n", "C03.R3")
V("c03-cleanup-ignores-committed", "C03", TPC,
  "\t\t\tif !committed && !undetermined {\n", "\t\t\t_ = committed\n\t\t\tif !undetermined {\n", "C03.R3")
V("c03-onepc-cleanup-unguarded", "C03", TPC,
  """			if err != nil {
				if c.getUndeterminedErr() == nil {
					c.cleanup(ctx)
				}
				metrics.OnePCTxnCounterError.Inc()""",
  """			if err != nil {
				c.cleanup(ctx)
				metrics.OnePCTxnCounterError.Inc()""", "C03.R3")
V("c03-execute-returns-plain-err", "C03", TPC,
  """				zap.Uint64("txnStartTS", c.startTS))
			return errors.WithStack(tikverr.ErrResultUndetermined)
		}
	}

	commitDetail.PrewriteTime""",
  """				zap.Uint64("txnStartTS", c.startTS))
			return err
		}
	}

	commitDetail.PrewriteTime""", "C03.R4")
V("c03-committxn-nil-when-not-committed", "C03", TPC,
  """		if !c.mu.committed {
			logutil.Logger(ctx).Debug("2PC failed on commit",""",
  """		if !c.mu.committed && err != nil && c.getUndeterminedErr() == nil {
			logutil.Logger(ctx).Debug("2PC failed on commit",""", "C03.R4")
V("c03-drop-skips-onepc", "C03", PREW,
  "if (handler.committer.isAsyncCommit() || handler.committer.isOnePC()) && handler.sender.GetRPCError() != nil",
  "if handler.committer.isAsyncCommit() && handler.sender.GetRPCError() != nil", "C03.R5")
V("c03-regionerr-undetermined-async-only", "C03", PREW,
  "if regionErr.GetUndeterminedResult() != nil && (handler.committer.isAsyncCommit() || handler.committer.isOnePC()) {",
  "if regionErr.GetUndeterminedResult() != nil && handler.committer.isAsyncCommit() {", "C03.R5")
V("c03-commit-undetermined-result-dropped", "C03", COMMIT,
  "if regionErr.GetUndeterminedResult() != nil && !c.isAsyncCommit() && batch.isPrimary {",
  "if regionErr.GetUndeterminedResult() != nil && c.isAsyncCommit() && batch.isPrimary {", "C03.R5")
V("c03-expired-as-success", "C03", COMMIT,
  """				// Update the commitTS of the request and retry.
				req.Commit().CommitVersion = commitTS
				continue
""",
  """				// Update the commitTS of the request and retry.
				req.Commit().CommitVersion = commitTS
				break
""", "C03.R6")
V("c03-committed-before-keyerr", "C03", COMMIT,
  """		if keyErr := commitResp.GetError(); keyErr != nil {
			if rejected := keyErr.GetCommitTsExpired(); rejected != nil {""",
  """		if batch.isPrimary {
			c.mu.Lock()
			c.mu.committed = true
			c.mu.Unlock()
		}
		if keyErr := commitResp.GetError(); keyErr != nil {
			if rejected := keyErr.GetCommitTsExpired(); rejected != nil {""", "C03.R7")
# neutral refactors
V("c03-n-bool-binding", "C03", COMMIT,
  """		if batch.isPrimary && sender.GetRPCError() != nil && !c.isAsyncCommit() {
			c.setUndeterminedErr(errors.WithStack(sender.GetRPCError()))
		}
""",
  """		rpcErr := sender.GetRPCError()
		needMark := batch.isPrimary && !c.isAsyncCommit()
		if needMark {
			if rpcErr != nil {
				c.setUndeterminedErr(errors.WithStack(rpcErr))
			}
		}
""", "none")
V("c03-n-log-line", "C03", TPC,
  "\t\t\tif !committed && !undetermined {\n\t\t\t\tc.cleanup(ctx)\n",
  "\t\t\tif !committed && !undetermined {\n\t\t\t\tlogutil.Logger(ctx).Debug(\"cleanup\")\n\t\t\t\tc.cleanup(ctx)\n", "none")

# ---------------------------------------------------------------- C04
V("c04-primarylock-first-key", "C04", PREW, "\t\tPrimaryLock:            c.primary(),\n", "\t\tPrimaryLock:            m.GetKey(0),\n", "C04.R1")
V("c04-secondaries-every-batch", "C04", PREW,
  "\t\tif batch.isPrimary {\n\t\t\treq.Secondaries = c.asyncSecondaries()\n\t\t}\n", "\t\treq.Secondaries = c.asyncSecondaries()\n", "C04.R1")
V("c04-tryonepc-unguarded", "C04", PREW, "\tif c.isOnePC() {\n\t\treq.TryOnePc = true\n\t}\n", "\treq.TryOnePc = c.txn.enable1PC\n", "C04.R1")
V("c04-skip-check-for-pessimistic", "C04", PREW,
  "\t\tif m.IsPessimisticLock(i) {\n\t\t\tpessimisticActions[i] = kvrpcpb.PrewriteRequest_DO_PESSIMISTIC_CHECK\n\t\t} else if m.NeedConstraintCheckInPrewrite(i) {",
  "\t\tif m.IsPessimisticLock(i) && c.forUpdateTS > 0 {\n\t\t\tpessimisticActions[i] = kvrpcpb.PrewriteRequest_DO_PESSIMISTIC_CHECK\n\t\t} else if m.NeedConstraintCheckInPrewrite(i) {", "C04.R1c")
V("c04-assert-swapped", "C04", PREW,
  "\t\tif m.IsAssertExists(i) {\n\t\t\tassertion = kvrpcpb.Assertion_Exist\n\t\t}\n\t\tif m.IsAssertNotExist(i) {\n\t\t\tassertion = kvrpcpb.Assertion_NotExist",
  "\t\tif m.IsAssertExists(i) {\n\t\t\tassertion = kvrpcpb.Assertion_NotExist\n\t\t}\n\t\tif m.IsAssertNotExist(i) {\n\t\t\tassertion = kvrpcpb.Assertion_Exist", "C04.R1c")
V("c04-secondaries-skip-locks", "C04", TPC,
  "if bytes.Equal(k, c.primary()) || c.mutations.GetOp(i) == kvrpcpb.Op_CheckNotExists {",
  "if bytes.Equal(k, c.primary()) || c.mutations.GetOp(i) == kvrpcpb.Op_CheckNotExists || c.mutations.GetOp(i) == kvrpcpb.Op_Lock {", "C04.R1b")
V("c04-secondaries-keep-cne", "C04", TPC,
  "if bytes.Equal(k, c.primary()) || c.mutations.GetOp(i) == kvrpcpb.Op_CheckNotExists {",
  "if bytes.Equal(k, c.primary()) {", "C04.R1b")
V("c04-fallback-after-dispatch", "C04", TPC,
  "\tc.checkOnePCFallBack(action, len(batchBuilder.allBatches()))\n\n\tvar err error\n", "\tvar err error\n\tdefer c.checkOnePCFallBack(action, len(batchBuilder.allBatches()))\n", "C04.R2")
V("c04-fallback-threshold", "C04", TPC, "\t\tif batchCount > 1 {\n\t\t\tc.setOnePC(false)", "\t\tif batchCount > 2 {\n\t\t\tc.setOnePC(false)", "C04.R2")
V("c04-commit-keys-all", "C04", COMMIT, "\t\tKeys:           keys,\n", "\t\tKeys:           c.mutations.GetKeys(),\n", "C04.R3")
V("c04-commit-version-min", "C04", COMMIT, "\t\tCommitVersion:  c.commitTS,\n", "\t\tCommitVersion:  c.minCommitTSMgr.get(),\n", "C04.R3")
V("c04-commit-despite-prewrite-error", "C04", TPC,
  """	if err != nil {
		logutil.Logger(ctx).Debug("2PC failed on prewrite",
			zap.Error(err),
			zap.Uint64("txnStartTS", c.startTS))
		return err
	}
""", """	if err != nil && !c.isAsyncCommit() {
		logutil.Logger(ctx).Debug("2PC failed on prewrite",
			zap.Error(err),
			zap.Uint64("txnStartTS", c.startTS))
		return err
	}
""", "C04.R4")
V("c04-heartbeat-ttl-no-uptime", "C04", TPC, "\t\t\tnewTTL := uptime + atomic.LoadUint64(&ManagedLockTTL)\n", "\t\t\tnewTTL := atomic.LoadUint64(&ManagedLockTTL)\n\t\t\t_ = uptime\n", "C04.R5")
V("c04-current-ts-always-max", "C04", "txnkv/txnlock/lock_resolver.go",
  "\tif l.TTL == 0 {\n\t\t// NOTE: l.TTL = 0 is a special protocol!!!", "\tif l.TTL == 0 || l.IsPessimistic() {\n\t\t// NOTE: l.TTL = 0 is a special protocol!!!", "C04.R6")
V("c04-rollback-if-not-exist-initially", "C04", "txnkv/txnlock/lock_resolver.go", "\trollbackIfNotExist := false\n", "\trollbackIfNotExist := l.IsPessimistic()\n", "C04.R6")
V("c04-expiry-lt", "C04", "txnkv/txnlock/lock_resolver.go",
  "if lr.store.GetOracle().UntilExpired(l.TxnID, l.TTL, &oracle.Option{TxnScope: oracle.GlobalTxnScope}) <= 0 {",
  "if lr.store.GetOracle().UntilExpired(l.TxnID, l.TTL, &oracle.Option{TxnScope: oracle.GlobalTxnScope}) <= 1000 {", "C04.R6")
V("c04-n-extract-helper", "C04", PREW, "\tif c.isOnePC() {\n\t\treq.TryOnePc = true\n\t}\n", "\tonePC := c.isOnePC()\n\tif onePC {\n\t\treq.TryOnePc = true\n\t}\n", "none")

# ---------------------------------------------------------------- C20
BO = "config/retry/backoff.go"
BOC = "config/retry/config.go"
V("c20-budget-gt", "C20", BO, "maxBackoffTimeExceeded := (b.totalSleep - b.excludedSleep) >= b.maxSleep", "maxBackoffTimeExceeded := (b.totalSleep - b.excludedSleep) > b.maxSleep+b.maxSleep", "C20.R1")
V("c20-budget-ignores-excluded", "C20", BO, "maxBackoffTimeExceeded := (b.totalSleep - b.excludedSleep) >= b.maxSleep", "maxBackoffTimeExceeded := b.totalSleep >= b.maxSleep+b.excludedSleep+b.excludedSleep", "C20.R1")
V("c20-noop-sleeps", "C20", BO, "\tif b.noop {\n\t\treturn err\n\t}\n", "", "C20.R1")
V("c20-total-only-non-excluded", "C20", BO,
  "\tb.totalSleep += realSleep\n\tif _, ok := isSleepExcluded[cfg.name]; ok {\n\t\tb.excludedSleep += realSleep\n\t}\n",
  "\tif _, ok := isSleepExcluded[cfg.name]; ok {\n\t\tb.excludedSleep += realSleep\n\t} else {\n\t\tb.totalSleep += realSleep\n\t}\n", "C20.R2")
V("c20-excluded-always", "C20", BO,
  "\tif _, ok := isSleepExcluded[cfg.name]; ok {\n\t\tb.excludedSleep += realSleep\n\t}\n\tif b.backoffSleepMS == nil {",
  "\tb.excludedSleep += realSleep\n\tif b.backoffSleepMS == nil {", "C20.R2")
V("c20-skip-checkkilled", "C20", BO, "\terr2 := b.CheckKilled()\n\tif err2 != nil {\n\t\treturn err2\n\t}\n", "", "C20.R2")
V("c20-exhausted-returns-arg", "C20", BO, "\t\t\treturnedErr = longestSleepCfg.err\n", "\t\t\t_ = longestSleepCfg.err\n", "C20.R3")
V("c20-longest-counts-excluded", "C20", BO, "if _, ok := isSleepExcluded[cfgName]; sleepTime > maxSleep && !ok {", "if sleepTime > maxSleep {", "C20.R3")
V("c20-fork-without-excluded", "C20", BO,
  "\t\tctx:            ctx,\n\t\tmaxSleep:       b.maxSleep,\n\t\ttotalSleep:     b.totalSleep,\n\t\texcludedSleep:  b.excludedSleep,\n",
  "\t\tctx:            ctx,\n\t\tmaxSleep:       b.maxSleep,\n\t\ttotalSleep:     b.totalSleep,\n", "C20.R4")
V("c20-merge-adds", "C20", BO, "\t\t\tb.totalSleep = forked.totalSleep\n", "\t\t\tb.totalSleep += forked.totalSleep\n", "C20.R4")
V("c20-merge-forgets-excluded", "C20", BO, "\t\t\tb.excludedSleep = forked.excludedSleep\n", "", "C20.R4")
V("c20-clone-shares-map", "C20", BO, "\t\tbackoffTimes:   copyMapWithoutRecursive(b.backoffTimes),\n\t\tparent:         b.parent,", "\t\tbackoffTimes:   b.backoffTimes,\n\t\tparent:         b.parent,", "C20.R4")
V("c20-no-clamp", "C20", BOC, "\t\tif maxSleepMs >= 0 && realSleep > maxSleepMs {\n\t\t\trealSleep = maxSleepMs\n\t\t}\n", "", "C20.R5")
V("c20-expo-no-cap", "C20", BOC, "return int(math.Min(float64(cap), float64(base)*math.Pow(2.0, float64(n))))", "return int(math.Max(float64(cap), float64(base)*math.Pow(2.0, float64(n))))", "C20.R5")
V("c20-n-rename", "C20", BO, "\trealSleep := f(b.ctx, maxSleepMs)\n\tif cfg.metric != nil {\n\t\t(*cfg.metric).Observe(float64(realSleep) / 1000)\n\t}\n\n\tb.totalSleep += realSleep\n",
  "\tslept := f(b.ctx, maxSleepMs)\n\trealSleep := slept\n\tif cfg.metric != nil {\n\t\t(*cfg.metric).Observe(float64(realSleep) / 1000)\n\t}\n\n\tb.totalSleep = b.totalSleep + slept\n", "none")

# ---------------------------------------------------------------- C10
RR = "internal/locate/region_request.go"
RS = "internal/locate/replica_selector.go"
V("c10-drop-retry-marker", "C10", RR, "\tif !req.IsRetryRequest && s.vars.sendTimes > 0 {\n\t\treq.IsRetryRequest = true\n\t}\n", "", "C10.R1")
V("c10-marker-only-after-region-error", "C10", RR,
  "\t\ts.vars.regionErr = nil\n\t}\n\n\ts.vars.rpcCtx, s.vars.resp = nil, nil\n\tif !req.IsRetryRequest && s.vars.sendTimes > 0 {\n\t\treq.IsRetryRequest = true\n\t}\n",
  "\t\ts.vars.regionErr = nil\n\t\treq.IsRetryRequest = true\n\t}\n\n\ts.vars.rpcCtx, s.vars.resp = nil, nil\n", "C10.R1")
V("c10-marker-threshold", "C10", RR, "if !req.IsRetryRequest && s.vars.sendTimes > 0 {", "if !req.IsRetryRequest && s.vars.sendTimes > 1 {", "C10.R1")
V("c10-sendtimes-reset", "C10", RR, "\t\ts.vars.regionErr = nil\n\t}\n\n\ts.vars.rpcCtx, s.vars.resp = nil, nil\n", "\t\ts.vars.regionErr = nil\n\t\ts.vars.sendTimes = 0\n\t}\n\n\ts.vars.rpcCtx, s.vars.resp = nil, nil\n", "C10.R1")
V("c10-validate-skipped-on-retry", "C10", RR, "\tif err = s.validateReadTS(bo.GetCtx(), req); err != nil {", "\tif err = s.validateReadTS(bo.GetCtx(), req); err != nil && !req.IsRetryRequest {", "C10.R2")
V("c10-validate-misses-scan", "C10", RR, "case tikvrpc.CmdGet, tikvrpc.CmdScan, tikvrpc.CmdBatchGet, tikvrpc.CmdCop,", "case tikvrpc.CmdGet, tikvrpc.CmdBatchGet, tikvrpc.CmdCop,", "C10.R2")
V("c10-replicaread-for-writes", "C10", RS, "if s.target != nil && s.busyThreshold > 0 && s.isReadOnlyReq && (", "if s.target != nil && s.busyThreshold > 0 && (", "C10.R3")
V("c10-mixed-replicaread-unguarded", "C10", RS, "req.ReplicaRead = s.isReadOnlyReq && s.target.peer.Id != s.region.GetLeaderPeerID()", "req.ReplicaRead = s.target.peer.Id != s.region.GetLeaderPeerID()", "C10.R3")
V("c10-isreadreq-includes-lock", "C10", RS, "\tcase tikvrpc.CmdGet, tikvrpc.CmdBatchGet, tikvrpc.CmdScan,\n\t\ttikvrpc.CmdCop,", "\tcase tikvrpc.CmdGet, tikvrpc.CmdBatchGet, tikvrpc.CmdScan, tikvrpc.CmdPessimisticLock,\n\t\ttikvrpc.CmdCop,", "C10.R3")
V("c10-attempts-reset-on-not-leader", "C10", RS, "\tif s.target != nil {\n\t\ts.target.addFlag(notLeaderFlag)\n\t}\n\tleader := notLeader.GetLeader()", "\tif s.target != nil {\n\t\ts.target.addFlag(notLeaderFlag)\n\t\ts.target.attempts = 0\n\t}\n\tleader := notLeader.GetLeader()", "C10.R4")
V("c10-attempt-not-counted-for-proxy-path", "C10", RR, "\trpcCtx.Addr = addr\n\ttargetReplica.attempts++\n", "\trpcCtx.Addr = addr\n\tif proxyReplica == nil {\n\t\ttargetReplica.attempts++\n\t}\n", "C10.R4")
V("c10-exhausted-gt", "C10", RR, "return r.attempts >= maxAttempt || (maxAttemptTime > 0 && r.attemptedTime >= maxAttemptTime)", "return r.attempts > maxAttempt+maxAttempt || (maxAttemptTime > 0 && r.attemptedTime >= maxAttemptTime)", "C10.R4")
V("c10-n-marker-refactor", "C10", RR, "\tif !req.IsRetryRequest && s.vars.sendTimes > 0 {\n\t\treq.IsRetryRequest = true\n\t}\n", "\tisRetry := s.vars.sendTimes > 0\n\tif isRetry {\n\t\treq.IsRetryRequest = true\n\t}\n", "none")

# ---------------------------------------------------------------- C13
PD = "oracle/oracles/pd.go"
TXN = "txnkv/transaction/txn.go"
LR = "txnkv/txnlock/lock_resolver.go"
V("c13-cas-without-test", "C13", PD, "\t\tif current.tso <= last.tso {\n\t\t\treturn\n\t\t}\n", "", "C13.R1")
V("c13-cas-lt", "C13", PD, "\t\tif current.tso <= last.tso {", "\t\tif current.tso < last.tso {", "C13.R1")
V("c13-no-retry", "C13", PD, "\t\tif lastTSPointer.CompareAndSwap(last, current) {\n\t\t\treturn\n\t\t}\n", "\t\tlastTSPointer.CompareAndSwap(last, current)\n\t\treturn\n", "C13.R1")
V("c13-publish-plus-one", "C13", PD, "\to.setLastTS(ts, opt.TxnScope)\n\treturn ts, nil\n}\n\n// GetAllTSOKeyspaceGroupMinTS", "\to.setLastTS(ts+1, opt.TxnScope)\n\treturn ts, nil\n}\n\n// GetAllTSOKeyspaceGroupMinTS", "C13.R2")
V("c13-lowres-plus", "C13", PD, "\t\treturn 0, errors.Errorf(\"get low resolution timestamp fail, invalid txnScope = %s\", opt.TxnScope)\n\t}\n\treturn lastTS, nil", "\t\treturn 0, errors.Errorf(\"get low resolution timestamp fail, invalid txnScope = %s\", opt.TxnScope)\n\t}\n\treturn lastTS + 1, nil", "C13.R2")
V("c13-isexpired-gt", "C13", PD, "return oracle.ExtractPhysical(lastTS) >= oracle.ExtractPhysical(lockTS)+int64(TTL)", "return oracle.ExtractPhysical(lastTS) > oracle.ExtractPhysical(lockTS)+int64(TTL)", "C13.R3")
V("c13-isexpired-noexist-false", "C13", PD, "\tlastTS, exist := o.getLastTS(opt.TxnScope)\n\tif !exist {\n\t\treturn true\n\t}", "\tlastTS, exist := o.getLastTS(opt.TxnScope)\n\tif !exist {\n\t\treturn false\n\t}", "C13.R3")
V("c13-commitwait-ge", "C13", TXN, "\tif firstAttemptTS > txn.commitWaitUntilTSO {\n\t\treturn firstAttemptTS, nil", "\tif firstAttemptTS >= txn.commitWaitUntilTSO {\n\t\treturn firstAttemptTS, nil", "C13.R4")
V("c13-commitwait-loop-lt", "C13", TXN, "for ts := firstAttemptTS; ts <= txn.commitWaitUntilTSO; {", "for ts := firstAttemptTS; ts < txn.commitWaitUntilTSO; {", "C13.R4")
V("c13-validate-ge", "C13", PD, "\t\t\tif readTS > currentTS {\n\t\t\t\t// It's possible that the caller", "\t\t\tif readTS > currentTS+1 {\n\t\t\t\t// It's possible that the caller", "C13.R5")
V("c13-n-rename", "C13", PD, "\tts, err := o.getTimestamp(ctx, opt.TxnScope)\n\tif err != nil {\n\t\treturn 0, err\n\t}\n\to.setLastTS(ts, opt.TxnScope)\n\treturn ts, nil", "\tnewTS, err := o.getTimestamp(ctx, opt.TxnScope)\n\tif err != nil {\n\t\treturn 0, err\n\t}\n\to.setLastTS(newTS, opt.TxnScope)\n\treturn newTS, nil", "none")
# ---------------------------------------------------------------- C01
V("c01-commit-ts-before-prewrite", "C01", TPC,
  "\tstart := time.Now()\n\n\terr = c.prewriteMutations(bo, c.mutations)\n",
  "\tstart := time.Now()\n\tearlyTS, _ := c.txn.GetTimestampForCommit(bo, c.txn.GetScope())\n\tatomic.StoreUint64(&c.commitTS, earlyTS)\n\n\terr = c.prewriteMutations(bo, c.mutations)\n", "C01.R2")
V("c01-bump-without-plus-one", "C01", TPC, "c.minCommitTSMgr.tryUpdate(latestTS+1, twoPCAccess)", "c.minCommitTSMgr.tryUpdate(latestTS, twoPCAccess)", "C01.R3")
V("c01-needlin-inverted", "C01", TPC, "if commitTSMayBeCalculated && (c.needLinearizability() || c.txn.commitWaitUntilTSO > 0) {", "if commitTSMayBeCalculated && (!c.needLinearizability() || c.txn.commitWaitUntilTSO > 0) {", "C01.R3")
V("c01-mincommit-start-no-plus", "C01", PREW, "\t\tminCommitTS = c.startTS + 1\n", "\t\tminCommitTS = c.startTS\n", "C01.R4")
V("c01-mincommit-gt", "C01", PREW, "\t} else if c.startTS >= minCommitTS {", "\t} else if c.startTS > minCommitTS {", "C01.R4")
V("c01-mincommit-forupdate-dropped", "C01", PREW,
  "\tif c.forUpdateTS > 0 && c.forUpdateTS >= minCommitTS {\n\t\tminCommitTS = c.forUpdateTS + 1\n\t} else if c.startTS >= minCommitTS {", "\tif c.startTS >= minCommitTS {", "C01.R4")
V("c01-async-resp-ignored", "C01", PREW,
  "\t\t\tif prewriteResp.MinCommitTs > handler.committer.minCommitTSMgr.get() {\n\t\t\t\thandler.committer.minCommitTSMgr.tryUpdate(prewriteResp.MinCommitTs, twoPCAccess)\n\t\t\t}\n", "", "C01.R5")
V("c01-mgr-not-monotone", "C01", TPC, "\tif newValue > m.value {\n\t\tm.value = newValue\n\t}\n", "\tm.value = newValue\n", "C01.R5")
V("c01-put-for-presumed", "C01", TPC, "\t\t\t\t\tif flags.HasPresumeKeyNotExists() {\n\t\t\t\t\t\top = kvrpcpb.Op_Insert\n\t\t\t\t\t}\n", "", "C01.R7")
V("c01-skip-lock-only", "C01", TPC, "\t\t\tif !flags.HasLocked() {\n\t\t\t\tcontinue\n\t\t\t}\n\t\t\top = getLockTypeFromFlags(flags)\n\t\t\tlockCnt++\n\t\t} else {\n\t\t\tvalue = it.Value()", "\t\t\tcontinue\n\t\t} else {\n\t\t\tvalue = it.Value()", "C01.R7")
V("c01-cne-for-pessimistic", "C01", TPC, "if !txn.IsPessimistic() && flags.HasPresumeKeyNotExists() {", "if flags.HasPresumeKeyNotExists() {", "C01.R7")
V("c01-start-ts-plus", "C01", "tikv/kv.go", "\tsnapshot := txnsnapshot.NewTiKVSnapshot(s, startTS, s.nextReplicaReadSeed())\n\treturn transaction.NewTiKVTxn(s, snapshot, startTS, options)", "\tsnapshot := txnsnapshot.NewTiKVSnapshot(s, startTS, s.nextReplicaReadSeed())\n\treturn transaction.NewTiKVTxn(s, snapshot, startTS+1, options)", "C01.R1")
# ---------------------------------------------------------------- C02
V("c02-secondaries-with-primary", "C02", TPC, "\t\t((actionIsCommit && !c.isAsyncCommit()) || actionIsCleanup || actionIsPessimisticLock) {", "\t\t(actionIsCleanup || actionIsPessimisticLock) {", "C02.R1")
V("c02-forget-dropped", "C02", TPC, "\t\tbatchBuilder.forgetPrimary()\n", "", "C02.R1")
V("c02-primary-error-ignored", "C02", TPC, "\t\terr = c.doActionOnBatches(bo, action, batchBuilder.primaryBatch())\n\t\tif err != nil {\n\t\t\treturn err\n\t\t}\n", "\t\terr = c.doActionOnBatches(bo, action, batchBuilder.primaryBatch())\n", "C02.R1")
V("c02-resolve-with-min-commit", "C02", LR, "\t\tif status.IsCommitted() {\n\t\t\tlreq.CommitVersion = status.CommitTS()\n\t\t}\n\n\t\tif resolveLite {", "\t\tif status.IsCommitted() {\n\t\t\tlreq.CommitVersion = l.MinCommitTS\n\t\t}\n\n\t\tif resolveLite {", "C02.R2")
V("c02-resolve-live-lock", "C02", LR, "\t\tif status.ttl != 0 && !expiredAsyncCommitLocks {\n\t\t\treturn status, false, nil\n\t\t}\n", "\t\tif status.ttl != 0 && !expiredAsyncCommitLocks && !l.IsPessimistic() {\n\t\t\treturn status, false, nil\n\t\t}\n", "C02.R3")
V("c02-expired-without-ttl", "C02", LR, "expiredAsyncCommitLocks := status.primaryLock != nil && status.primaryLock.UseAsyncCommit && !forceSyncCommit && ttlExpired", "_ = ttlExpired\n\t\texpiredAsyncCommitLocks := status.primaryLock != nil && status.primaryLock.UseAsyncCommit && !forceSyncCommit", "C02.R3")
V("c02-cache-unconditionally", "C02", LR, "\t\t\tstatus.commitTS = cmdResp.CommitVersion\n\t\t\tif status.StatusCacheable() {\n\t\t\t\tlr.saveResolved(txnID, status)\n\t\t\t}\n", "\t\t\tstatus.commitTS = cmdResp.CommitVersion\n\t\t\tif status.ttl == 0 {\n\t\t\t\tlr.saveResolved(txnID, status)\n\t\t\t}\n", "C02.R4")
V("c02-adopt-after-missing", "C02", LR, "\t\tif !data.missingLock {\n\t\t\t// commitTS == 0 => lock has been rolled back.", "\t\tif true {\n\t\t\t// commitTS == 0 => lock has been rolled back.", "C02.R5")
V("c02-mismatch-accepted", "C02", LR, "\t\tif data.commitTs != commitTS {\n\t\t\treturn errors.Errorf(\"commit TS mismatch in async commit recovery: %v and %v\", data.commitTs, commitTS)\n\t\t}\n", "", "C02.R5")
# ---------------------------------------------------------------- C06
V("c06-rollback-filtered-keys", "C06", TXN, "wg := txn.asyncPessimisticRollback(ctx, allKeys, rollbackForUpdateTS)", "wg := txn.asyncPessimisticRollback(ctx, keys, rollbackForUpdateTS)", "C06.R1")
V("c06-no-rollback-on-keyexists-multi", "C06", TXN, "\t\t\tif len(keys) > 1 || keyMayBeLocked {", "\t\t\tif keyMayBeLocked {", "C06.R1")
V("c06-commit-init-fail-no-rollback", "C06", TXN, "\t\tif txn.IsPessimistic() {\n\t\t\ttxn.asyncPessimisticRollback(ctx, committer.mutations.GetKeys(), txn.committer.forUpdateTS)\n\t\t}\n\t\treturn err", "\t\treturn err", "C06.R2")
V("c06-cleanup-skipped-for-async", "C06", TPC, "\t\t} else if !c.isOnePC() {\n\t\t\terr = c.cleanupMutations(", "\t\t} else if !c.isOnePC() && !c.isAsyncCommit() {\n\t\t\terr = c.cleanupMutations(", "C06.R3")
V("c06-rollback-skips-locks", "C06", TXN, "\tif txn.IsPessimistic() && txn.committer != nil {\n\t\tvar err error\n\t\tif !skipPessimisticRollback {", "\tif txn.IsPessimistic() && txn.committer != nil && txn.committer.prewriteStarted {\n\t\tvar err error\n\t\tif !skipPessimisticRollback {", "C06.R4")
V("c06-retry-keeps-redundant", "C06", TXN, "\t\tpanic(\"Trying to retry aggressive locking while it's not started\")\n\t}\n\ttxn.cleanupAggressiveLockingRedundantLocks(ctx)\n", "\t\tpanic(\"Trying to retry aggressive locking while it's not started\")\n\t}\n", "C06.R5")
V("c06-region-error-nil", "C06", "txnkv/transaction/cleanup.go", "\t\terr = c.cleanupMutations(bo, batch.mutations)\n\t\treturn err", "\t\t_ = c.cleanupMutations\n\t\treturn nil", "C06.R6")
V("c06-bare-go", "C06", TXN, "\twg := new(sync.WaitGroup)\n\twg.Add(1)\n\ttxn.store.WaitGroup().Add(1)\n\tgo func() {\n\t\tdefer txn.store.WaitGroup().Done()\n", "\twg := new(sync.WaitGroup)\n\twg.Add(1)\n\tgo func() {\n", "C06.R7")

# ---------------------------------------------------------------- C17
LT = "internal/latch/latch.go"
SCH = "internal/latch/scheduler.go"
V("c17-touch-after-unlock", "C17", LT, "\t\tlatch.Lock()\n\t\ttotal += latch.recycle(currentTS)\n\t\tlatch.Unlock()\n", "\t\tlatch.Lock()\n\t\tlatch.Unlock()\n\t\ttotal += latch.recycle(currentTS)\n", "C17.R1")
V("c17-count-outside-lock", "C17", LT, "\tlatch := &latches.slots[slotID]\n\tlatch.Lock()\n\tdefer latch.Unlock()\n\n\t// Try to recycle to limit the memory usage.\n\tif latch.count >= latchListCount {\n\t\tlatch.recycle(lock.startTS)\n\t}\n",
  "\tlatch := &latches.slots[slotID]\n\tneedRecycle := latch.count >= latchListCount\n\tlatch.Lock()\n\tdefer latch.Unlock()\n\n\t// Try to recycle to limit the memory usage.\n\tif needRecycle {\n\t\tlatch.recycle(lock.startTS)\n\t}\n", "C17.R1")
V("c17-slots-before-sort", "C17", LT, "\tsort.Sort(bytesSlice(keys))\n\treturn &Lock{\n\t\tkeys:          keys,\n\t\trequiredSlots: latches.genSlotIDs(keys),", "\tslots := latches.genSlotIDs(keys)\n\tsort.Sort(bytesSlice(keys))\n\treturn &Lock{\n\t\tkeys:          keys,\n\t\trequiredSlots: slots,", "C17.R2")
V("c17-locked-without-enqueue", "C17", LT, "\t// Push the current transaction into waitingQueue.\n\tlatch.waiting = append(latch.waiting, lock)\n\treturn acquireLocked", "\t// Push the current transaction into waitingQueue.\n\tif len(latch.waiting) < 1024 {\n\t\tlatch.waiting = append(latch.waiting, lock)\n\t}\n\treturn acquireLocked", "C17.R3")
V("c17-wakeup-skipped", "C17", SCH, "\t\tif len(wakeupList) > 0 {\n\t\t\tscheduler.wakeup(wakeupList)\n\t\t}\n", "\t\tif len(wakeupList) > 1 {\n\t\t\tscheduler.wakeup(wakeupList)\n\t\t}\n", "C17.R3")
V("c17-done-when-locked", "C17", SCH, "\t\tif scheduler.latches.acquire(lock) != acquireLocked {\n\t\t\tlock.wg.Done()\n\t\t}\n", "\t\tscheduler.latches.acquire(lock)\n\t\tlock.wg.Done()\n", "C17.R3")
V("c17-stale-ge", "C17", LT, "\tif find.maxCommitTS > lock.startTS {\n\t\tlock.isStale = true\n\t\treturn acquireStale\n\t}", "\tif find.maxCommitTS >= lock.startTS {\n\t\tlock.isStale = true\n\t\treturn acquireStale\n\t}", "C17.R4")
V("c17-handoff-never-stale", "C17", LT, "\t\tif find.maxCommitTS > nextLock.startTS {\n\t\t\tfind.value = nextLock\n\t\t\tnextLock.acquiredCount++\n\t\t\tnextLock.isStale = true\n\t\t}\n", "", "C17.R4")
V("c17-n-rename", "C17", LT, "\tfind := findNode(latch.queue, key)\n\tif find == nil {\n\t\ttmp := &node{", "\tfind := findNode(latch.queue, key)\n\tnotFound := find == nil\n\tif notFound {\n\t\ttmp := &node{", "none")
# ---------------------------------------------------------------- C18
CB = "internal/client/client_batch.go"
V("c18-reset-ids", "C18", CB, "\tb.directGroup.state = nil\n\n\tfor k := range b.forwardingGroups {", "\tb.directGroup.state = nil\n\tb.idAlloc = 0\n\n\tfor k := range b.forwardingGroups {", "C18.R1")
V("c18-dispatch-first-response", "C18", CB, "\t\t\t\tentry.response(responses[i])\n", "\t\t\t\tentry.response(responses[0])\n", "C18.R2")
V("c18-register-after-send", "C18", CB, "\t\tentry.requestID.Store(requestID)\n\t\tc.batched.Store(requestID, entry)\n", "\t\tentry.requestID.Store(requestID)\n\t\tdefer c.batched.Store(requestID, entry)\n", "C18.R2")
V("c18-deliver-to-cancelled", "C18", CB, "\t\t\tif atomic.LoadInt32(&entry.canceled) == 0 {\n\t\t\t\t// Put the response only if the request is not canceled.\n\t\t\t\tentry.response(responses[i])\n\t\t\t} else {", "\t\t\tif atomic.LoadInt32(&entry.canceled) == 0 || entry.async() {\n\t\t\t\t// Put the response only if the request is not canceled.\n\t\t\t\tentry.response(responses[i])\n\t\t\t} else {", "C18.R3")
V("c18-fail-without-delete", "C18", CB, "func (c *batchCommandsClient) failRequest(err error, requestID uint64, entry *batchCommandsEntry) {\n\tc.batched.Delete(requestID)\n", "func (c *batchCommandsClient) failRequest(err error, requestID uint64, entry *batchCommandsEntry) {\n", "C18.R3")
V("c18-unbuffered-result", "C18", CB, "res:                 make(chan *tikvpb.BatchCommandsResponse_Response, 1),", "res:                 make(chan *tikvpb.BatchCommandsResponse_Response),", "C18.R3")
V("c18-no-timer-arm", "C18", CB, "\t\treturn nil, errors.New(\"batchConn closed\")\n\tcase <-timer.C:\n\t\tatomic.StoreInt32(&entry.canceled, 1)\n\t\treturn nil, errors.WithMessage(context.DeadlineExceeded, formatBatchRequestTimeoutReason(entry, timeout, time.Now()))\n\t}", "\t\treturn nil, errors.New(\"batchConn closed\")\n\t}", "C18.R4")
V("c18-timeout-not-cancelled", "C18", CB, "\tcase <-timer.C:\n\t\tatomic.StoreInt32(&entry.canceled, 1)\n\t\treturn nil, errors.WithMessage(context.DeadlineExceeded, formatBatchRequestTimeoutReason", "\tcase <-timer.C:\n\t\treturn nil, errors.WithMessage(context.DeadlineExceeded, formatBatchRequestTimeoutReason", "C18.R4")
V("c18-fail-all-hosts", "C18", CB, "\t\tif entry.forwardedHost == forwardedHost {\n\t\t\tc.failRequest(err, id, entry)\n\t\t}\n", "\t\tc.failRequest(err, id, entry)\n", "C18.R5")
V("c18-recreate-without-failing", "C18", CB, "\tc.failPendingRequests(err, streamClient.forwardedHost) // fail all pending requests.\n", "", "C18.R5")

if __name__ == "__main__":
    out = os.path.join(os.path.dirname(os.path.abspath(__file__)), "variants.json")
    json.dump(VARS, open(out, "w"), indent=1)
    print(len(VARS), "variants ->", out)
